(* Proofs/SiteInfoProofs.v — property C19, site info: the full invariant of the
   bond loop of `parse_edges_to_site_info` (Model.Ham.site_info, the interpreter
   of the loop skeleton GENERATED into Gen/Ham.v), for every edge list, unbounded
   in the number of sites and edges (induction over the edge list).

   The table after the loop is characterised EXACTLY, site by site
   (`lookup_site_info`): the index names / direction flags / bond dimensions of
   site v are those of the edges incident to v, in sorted-edge order, followed
   by the optional physical index; the coordination is the number of incident
   edges.  Only "no self loop" is needed for this.  The "one name per bond, at
   exactly its two ends" statements additionally need a simple graph and an
   injective name function (finding F15: the default format is not injective). *)
From Coq Require Import Lia Permutation.
From SV Require Import Base.Prelude Model.HamBase Gen.Ham Model.Ham Proofs.HamProofs.
Open Scope Z_scope.

(* ---------------- generic list facts ---------------- *)
Lemma insert_sorted_perm {A} (ltb : A -> A -> bool) (x : A) (l : list A) :
  Permutation (insert_sorted ltb x l) (x :: l).
Proof.
  induction l as [|y l IH]; cbn [insert_sorted]; [apply Permutation_refl|].
  destruct (ltb y x).
  - eapply perm_trans; [apply perm_skip, IH | apply perm_swap].
  - apply Permutation_refl.
Qed.

Lemma isort_perm {A} (ltb : A -> A -> bool) (l : list A) : Permutation (isort ltb l) l.
Proof.
  unfold isort. induction l as [|x l IH]; cbn [fold_right]; [apply perm_nil|].
  eapply perm_trans; [apply insert_sorted_perm | apply perm_skip, IH].
Qed.

Lemma filter_perm {A} (f : A -> bool) (l1 l2 : list A) :
  Permutation l1 l2 -> Permutation (filter f l1) (filter f l2).
Proof.
  induction 1 as [|x l1 l2 _ IH|x y l|l1 l2 l3 _ IH1 _ IH2]; cbn [filter].
  - apply perm_nil.
  - destruct (f x); [apply perm_skip|]; exact IH.
  - destruct (f x), (f y); try apply Permutation_refl. apply perm_swap.
  - eapply perm_trans; eassumption.
Qed.

Lemma combine_app_len {A B} (a : list A) (b c : list B) :
  length a = length b -> combine a (b ++ c) = combine a b.
Proof.
  revert b. induction a as [|x a IH]; intros [|y b] Hl; cbn in Hl; try discriminate; cbn [combine app].
  - reflexivity.
  - f_equal. apply IH. congruence.
Qed.

Lemma firstn_len_app {A} (a b : list A) : firstn (length a) (a ++ b) = a.
Proof. induction a as [|x a IH]; cbn [length firstn app]; [destruct b; reflexivity | f_equal; exact IH]. Qed.

Lemma combine_map2 {A B C} (f : A -> B) (g : A -> C) (l : list A) :
  combine (map f l) (map g l) = map (fun x => (f x, g x)) l.
Proof. induction l as [|x l IH]; cbn [map combine]; [reflexivity | f_equal; exact IH]. Qed.

Lemma NoDup_map_inj_in {A B} (f : A -> B) (l : list A) :
  (forall x y, In x l -> In y l -> f x = f y -> x = y) -> NoDup l -> NoDup (map f l).
Proof.
  intros Hinj Hnd. induction Hnd as [|x l Hx Hnd IH]; cbn [map]; constructor.
  - intros Hin. apply in_map_iff in Hin. destruct Hin as [y [Hfy Hy]].
    assert (y = x) by (apply Hinj; [right; exact Hy | left; reflexivity | exact Hfy]).
    subst y. contradiction.
  - apply IH. intros a b Ha Hb. apply Hinj; right; assumption.
Qed.

Lemma NoDup_filter {A} (f : A -> bool) (l : list A) : NoDup l -> NoDup (filter f l).
Proof.
  induction 1 as [|x l Hx _ IH]; cbn [filter]; [constructor|].
  destruct (f x); [constructor|]; [|exact IH|exact IH].
  intros Hin. apply filter_In in Hin. tauto.
Qed.

(* ================================================================== *)
Section SiteInfoSpec.
  Context {S Nm : Type} (seqb sltb : S -> S -> bool) (bond_name : S -> S -> Nm) (phys_name : S -> Nm).
  Context (seqb_spec : forall a b, seqb a b = true <-> a = b).

  Local Notation table := (list (S * @sinfo Nm)).
  Local Notation srefl := (seqb_refl seqb seqb_spec).
  Local Notation ssym := (seqb_sym seqb seqb_spec).

  (* the smaller / larger end of an edge (the code swaps when sitea > siteb) *)
  Definition lo (e : S * S) : S := if sltb (snd e) (fst e) then snd e else fst e.
  Definition hi (e : S * S) : S := if sltb (snd e) (fst e) then fst e else snd e.
  (* the index name of the bond e *)
  Definition bname (e : S * S) : Nm := bond_name (lo e) (hi e).
  (* the direction flag of bond e at site v: 0 at the smaller end, 1 at the larger *)
  Definition bdual (v : S) (e : S * S) : Z := if seqb v (lo e) then 0 else 1.

  Lemma orient_lohi (e : S * S) : orient sltb e = (lo e, hi e).
  Proof.
    unfold orient, lo, hi. cbn [site_info_swap]. unfold site_info_swap.
    destruct (sltb (snd e) (fst e)); [reflexivity | destruct e; reflexivity].
  Qed.

  Lemma lohi_cases (e : S * S) : (lo e = fst e /\ hi e = snd e) \/ (lo e = snd e /\ hi e = fst e).
  Proof. unfold lo, hi. destruct (sltb (snd e) (fst e)); tauto. Qed.

  Lemma incident_lohi (v : S) (e : S * S) : incident seqb v e = seqb v (lo e) || seqb v (hi e).
  Proof.
    unfold incident. rewrite (ssym (fst e) v), (ssym (snd e) v).
    destruct (lohi_cases e) as [[-> ->]|[-> ->]]; [reflexivity | apply orb_comm].
  Qed.

  (* ---------------- the table operations ---------------- *)
  Lemma lookup_upd (v k : S) (g : sinfo -> sinfo) (T : table) :
    lookup seqb v (upd seqb k g T) =
    match lookup seqb v T with Some i => Some (if seqb k v then g i else i) | None => None end.
  Proof.
    unfold upd. induction T as [|[k' i'] T IH]; cbn [map lookup fst snd]; [reflexivity|].
    destruct (seqb k k') eqn:Ekk'; cbn [lookup fst snd].
    - destruct (seqb v k') eqn:Evk'; [|exact IH].
      apply seqb_spec in Evk'. subst k'. rewrite Ekk'. reflexivity.
    - destruct (seqb v k') eqn:Evk'; [|exact IH].
      apply seqb_spec in Evk'. subst k'. rewrite Ekk'. reflexivity.
  Qed.

  Lemma lookup_create (v k : S) (T : table) :
    lookup seqb v (create seqb k T) =
    match lookup seqb v T with Some i => Some i | None => if seqb v k then Some empty_info else None end.
  Proof.
    unfold create, dhas. destruct (lookup seqb k T) as [ik|] eqn:Ek.
    - destruct (lookup seqb v T) as [iv|] eqn:Ev; [reflexivity|].
      destruct (seqb v k) eqn:Evk; [|reflexivity].
      apply seqb_spec in Evk. subst v. congruence.
    - rewrite lookup_app. cbn [lookup]. destruct (lookup seqb v T); reflexivity.
  Qed.

  Lemma keys_upd (k : S) (g : sinfo -> sinfo) (T : table) : map fst (upd seqb k g T) = map fst T.
  Proof.
    unfold upd. induction T as [|[k' i'] T IH]; cbn [map fst snd]; [reflexivity|].
    destruct (seqb k k'); cbn [fst]; f_equal; exact IH.
  Qed.

  Lemma lookup_none_notin (v : S) (T : table) : lookup seqb v T = None -> ~ In v (map fst T).
  Proof.
    induction T as [|[k' i'] T IH]; cbn [lookup map fst In]; [tauto|].
    destruct (seqb v k') eqn:E; [discriminate|].
    intros Hn [Heq|Hin]; [subst k'; rewrite srefl in E; discriminate | exact (IH Hn Hin)].
  Qed.

  Lemma keys_create_nodup (k : S) (T : table) : NoDup (map fst T) -> NoDup (map fst (create seqb k T)).
  Proof.
    intros Hnd. unfold create, dhas. destruct (lookup seqb k T) eqn:Ek; [exact Hnd|].
    rewrite map_app. cbn [map fst].
    apply Permutation_NoDup with (l := k :: map fst T).
    - apply Permutation_cons_append.
    - constructor; [apply lookup_none_notin; exact Ek | exact Hnd].
  Qed.

  (* ---------------- one bond ---------------- *)
  Definition add_bond (nm : Nm) (du bd : Z) (i : @sinfo Nm) : sinfo :=
    {| si_inds := si_inds i ++ [nm]; si_duals := si_duals i ++ [du]; si_shape := si_shape i ++ [bd];
       si_coord := si_coord i |}.
  Definition odef (o : option (@sinfo Nm)) : sinfo := match o with Some i => i | None => empty_info end.

  Lemma keys_bond_step_nodup (bd : Z) (T : table) (e : S * S) :
    NoDup (map fst T) -> NoDup (map fst (bond_step seqb sltb bond_name bd T e)).
  Proof.
    intros Hnd. unfold bond_step. unfold site_info_body, site_info_create. cbn [fold_left].
    rewrite !keys_upd. apply keys_create_nodup, keys_create_nodup, Hnd.
  Qed.

  (* what one pass of the loop body does to the entry of site v (no self loop) *)
  Lemma lookup_bond_step (bd : Z) (T : table) (e : S * S) (v : S) :
    fst e <> snd e ->
    lookup seqb v (bond_step seqb sltb bond_name bd T e) =
    if seqb v (lo e) then Some (add_bond (bname e) 0 bd (odef (lookup seqb v T)))
    else if seqb v (hi e) then Some (add_bond (bname e) 1 bd (odef (lookup seqb v T)))
    else lookup seqb v T.
  Proof.
    intros Hne.
    assert (Hlh : lo e <> hi e) by (destruct (lohi_cases e) as [[-> ->]|[-> ->]]; congruence).
    unfold bond_step. rewrite orient_lohi. cbn [fst snd].
    unfold site_info_body, site_info_create, site_info_name_ab. cbn [fold_left fst snd end_site].
    fold (bname e).
    rewrite !lookup_upd, !lookup_create.
    rewrite (ssym (lo e) v), (ssym (hi e) v).
    destruct (seqb v (lo e)) eqn:Elo.
    - apply seqb_spec in Elo.
      destruct (seqb v (hi e)) eqn:Ehi; [apply seqb_spec in Ehi; congruence|].
      destruct (lookup seqb v T) as [i|]; reflexivity.
    - destruct (seqb v (hi e)) eqn:Ehi.
      + destruct (lookup seqb v T) as [i|]; reflexivity.
      + destruct (lookup seqb v T) as [i|]; reflexivity.
  Qed.

  (* ---------------- the whole loop, over ANY list of edges ---------------- *)
  Definition binds (v : S) (L : list (S * S)) : list Nm := map bname (filter (incident seqb v) L).
  Definition bduals (v : S) (L : list (S * S)) : list Z := map (bdual v) (filter (incident seqb v) L).
  Definition bshape (bd : Z) (v : S) (L : list (S * S)) : list Z := map (fun _ => bd) (filter (incident seqb v) L).
  Definition ext (bd : Z) (v : S) (L : list (S * S)) (i : @sinfo Nm) : sinfo :=
    {| si_inds := si_inds i ++ binds v L; si_duals := si_duals i ++ bduals v L;
       si_shape := si_shape i ++ bshape bd v L; si_coord := si_coord i |}.

  Lemma ext_nil bd v i : ext bd v [] i = i.
  Proof. unfold ext, binds, bduals, bshape. cbn [filter map]. rewrite !app_nil_r. destruct i; reflexivity. Qed.

  Lemma ext_cons_in bd v e L i :
    incident seqb v e = true -> ext bd v (e :: L) i = ext bd v L (add_bond (bname e) (bdual v e) bd i).
  Proof.
    intros Hin. unfold ext, binds, bduals, bshape, add_bond. cbn [filter]. rewrite Hin.
    cbn [map si_inds si_duals si_shape si_coord]. rewrite <- !app_assoc. reflexivity.
  Qed.

  Lemma ext_cons_out bd v e L i : incident seqb v e = false -> ext bd v (e :: L) i = ext bd v L i.
  Proof. intros Hin. unfold ext, binds, bduals, bshape. cbn [filter]. rewrite Hin. reflexivity. Qed.

  Lemma lookup_fold_bonds (bd : Z) (L : list (S * S)) (T : table) (v : S) :
    (forall a b, In (a, b) L -> a <> b) ->
    lookup seqb v (fold_left (bond_step seqb sltb bond_name bd) L T) =
    match lookup seqb v T with
    | Some i => Some (ext bd v L i)
    | None => if existsb (incident seqb v) L then Some (ext bd v L empty_info) else None
    end.
  Proof.
    revert T. induction L as [|e L IH]; intros T Hnl; cbn [fold_left existsb].
    - destruct (lookup seqb v T); [rewrite ext_nil|]; reflexivity.
    - assert (Hne : fst e <> snd e) by (destruct e as [a b]; apply Hnl; left; reflexivity).
      rewrite IH by (intros a b Hin; apply Hnl; right; exact Hin).
      rewrite (lookup_bond_step bd T e v Hne).
      rewrite (incident_lohi v e). unfold bdual.
      destruct (seqb v (lo e)) eqn:Elo; cbn [orb].
      + assert (Hi : incident seqb v e = true) by (rewrite incident_lohi, Elo; reflexivity).
        destruct (lookup seqb v T); cbn [odef]; rewrite (ext_cons_in bd v e L _ Hi);
          unfold bdual; rewrite Elo; reflexivity.
      + destruct (seqb v (hi e)) eqn:Ehi; cbn [orb].
        * assert (Hi : incident seqb v e = true) by (rewrite incident_lohi, Elo, Ehi; reflexivity).
          destruct (lookup seqb v T); cbn [odef]; rewrite (ext_cons_in bd v e L _ Hi);
            unfold bdual; rewrite Elo; reflexivity.
        * assert (Hi : incident seqb v e = false) by (rewrite incident_lohi, Elo, Ehi; reflexivity).
          destruct (lookup seqb v T); [rewrite (ext_cons_out bd v e L _ Hi); reflexivity|].
          destruct (existsb (incident seqb v) L); [rewrite (ext_cons_out bd v e L _ Hi)|]; reflexivity.
  Qed.

  Lemma keys_fold_bonds_nodup (bd : Z) (L : list (S * S)) (T : table) :
    NoDup (map fst T) -> NoDup (map fst (fold_left (bond_step seqb sltb bond_name bd) L T)).
  Proof.
    revert T. induction L as [|e L IH]; intros T Hnd; cbn [fold_left]; [exact Hnd|].
    apply IH, keys_bond_step_nodup, Hnd.
  Qed.

  (* ---------------- finishing: coordination, physical index ---------------- *)
  Definition phys_part {A} (pd : option Z) (x : A) : list A := match pd with Some _ => [x] | None => [] end.
  Definition phys_shape (pd : option Z) : list Z := match pd with Some p => [p] | None => [] end.

  Definition final_info (bd : Z) (pd : option Z) (v : S) (L : list (S * S)) : @sinfo Nm :=
    {| si_inds := binds v L ++ phys_part pd (phys_name v);
       si_duals := bduals v L ++ phys_part pd 0;
       si_shape := bshape bd v L ++ phys_shape pd;
       si_coord := Some (Z.of_nat (length (filter (incident seqb v) L))) |}.

  Lemma finish_ext (bd : Z) (pd : option Z) (v : S) (L : list (S * S)) :
    finish_site phys_name pd (v, ext bd v L empty_info) = (v, final_info bd pd v L).
  Proof.
    unfold finish_site, final_info. unfold site_info_coordination_before_phys, site_info_phys.
    cbn [fst snd]. f_equal.
    destruct pd as [p|]; cbn [fold_left fst snd app_field set_coord ext empty_info si_inds si_duals si_shape si_coord
                               app phys_part phys_shape].
    - unfold binds. rewrite List.map_length. reflexivity.
    - unfold set_coord, ext, empty_info. cbn [si_inds si_duals si_shape si_coord app].
      unfold binds. rewrite List.map_length, !app_nil_r. reflexivity.
  Qed.

  Lemma lookup_map_finish (pd : option Z) (v : S) (T : table) :
    lookup seqb v (map (finish_site phys_name pd) T) =
    match lookup seqb v T with Some i => Some (snd (finish_site phys_name pd (v, i))) | None => None end.
  Proof.
    induction T as [|[k i] T IH]; cbn [map lookup]; [reflexivity|].
    replace (finish_site phys_name pd (k, i)) with (k, snd (finish_site phys_name pd (k, i)))
      by (unfold finish_site; reflexivity).
    cbn [lookup]. destruct (seqb v k) eqn:E; [|exact IH].
    apply seqb_spec in E. subst k. reflexivity.
  Qed.

  Lemma keys_map_finish (pd : option Z) (T : table) : map fst (map (finish_site phys_name pd) T) = map fst T.
  Proof. rewrite map_map. apply map_ext. intros [k i]. reflexivity. Qed.

  Definition sorted_edges (edges : list (S * S)) : list (S * S) := isort (edge_ltb seqb sltb) edges.

  Lemma sorted_edges_perm edges : Permutation (sorted_edges edges) edges.
  Proof. apply isort_perm. Qed.

  Lemma existsb_incident_deg (L : list (S * S)) (v : S) :
    (forall a b, In (a, b) L -> a <> b) ->
    existsb (incident seqb v) L = negb (deg seqb v L =? 0).
  Proof.
    intros Hnl. rewrite (deg_no_loops seqb seqb_spec L v Hnl).
    induction L as [|e L IH]; cbn [existsb filter]; [reflexivity|].
    destruct (incident seqb v e); cbn [orb length].
    - symmetry. apply negb_true_iff, Z.eqb_neq. lia.
    - apply IH. intros a b Hin. apply Hnl. right. exact Hin.
  Qed.

  Lemma incident_count_perm (L1 L2 : list (S * S)) (v : S) :
    Permutation L1 L2 -> length (filter (incident seqb v) L1) = length (filter (incident seqb v) L2).
  Proof. intros Hp. apply Permutation_length, filter_perm, Hp. Qed.

  (* EXACT characterisation of the returned table, site by site.  Needs only
     "no self loop"; every number of sites and edges. *)
  Theorem lookup_site_info (edges : list (S * S)) (bd : Z) (pd : option Z) (v : S) :
    (forall a b, In (a, b) edges -> a <> b) ->
    lookup seqb v (site_info seqb sltb bond_name phys_name edges bd pd) =
    if deg seqb v edges =? 0 then None else Some (final_info bd pd v (sorted_edges edges)).
  Proof.
    intros Hnl.
    assert (Hnl' : forall a b, In (a, b) (sorted_edges edges) -> a <> b).
    { intros a b Hin. apply Hnl. eapply Permutation_in; [apply sorted_edges_perm | exact Hin]. }
    unfold site_info, bonds_of. unfold site_info_sorted. fold (sorted_edges edges).
    rewrite lookup_map_finish, (lookup_fold_bonds bd _ [] v Hnl'). cbn [lookup].
    rewrite (existsb_incident_deg _ v Hnl').
    rewrite !(deg_no_loops seqb seqb_spec _ v Hnl'), (deg_no_loops seqb seqb_spec _ v Hnl).
    rewrite (incident_count_perm _ _ v (sorted_edges_perm edges)).
    destruct (Z.of_nat (length (filter (incident seqb v) edges)) =? 0); cbn [negb]; [reflexivity|].
    rewrite finish_ext. reflexivity.
  Qed.

  Theorem site_info_keys_nodup (edges : list (S * S)) (bd : Z) (pd : option Z) :
    NoDup (map fst (site_info seqb sltb bond_name phys_name edges bd pd)).
  Proof.
    unfold site_info, bonds_of. rewrite keys_map_finish. apply keys_fold_bonds_nodup. constructor.
  Qed.

  (* ---------------- consequences ---------------- *)
  Lemma site_info_lookup_some (edges : list (S * S)) (bd : Z) (pd : option Z) (v : S) (i : sinfo) :
    (forall a b, In (a, b) edges -> a <> b) ->
    lookup seqb v (site_info seqb sltb bond_name phys_name edges bd pd) = Some i ->
    i = final_info bd pd v (sorted_edges edges) /\ deg seqb v edges <> 0.
  Proof.
    intros Hnl Hl. rewrite (lookup_site_info edges bd pd v Hnl) in Hl.
    destruct (deg seqb v edges =? 0) eqn:E; [discriminate|].
    apply Z.eqb_neq in E. split; [congruence | exact E].
  Qed.

  Lemma in_sorted_edges e edges : In e (sorted_edges edges) <-> In e edges.
  Proof.
    split; apply Permutation_in; [apply sorted_edges_perm | apply Permutation_sym, sorted_edges_perm].
  Qed.

  Lemma deg_sorted_count (edges : list (S * S)) (v : S) :
    (forall a b, In (a, b) edges -> a <> b) ->
    Z.to_nat (deg seqb v edges) = length (filter (incident seqb v) (sorted_edges edges)).
  Proof.
    intros Hnl. rewrite (deg_no_loops seqb seqb_spec edges v Hnl), Nat2Z.id.
    symmetry. apply incident_count_perm, sorted_edges_perm.
  Qed.

  Lemma final_bond_part (edges : list (S * S)) (bd : Z) (pd : option Z) (v : S) :
    (forall a b, In (a, b) edges -> a <> b) ->
    let L := sorted_edges edges in
    let i := final_info bd pd v L in
    let n := Z.to_nat (deg seqb v edges) in
    firstn n (si_inds i) = binds v L /\
    combine (firstn n (si_inds i)) (si_duals i) = map (fun e => (bname e, bdual v e)) (filter (incident seqb v) L).
  Proof.
    intros Hnl L i n.
    assert (Hn : n = length (binds v L)).
    { unfold n, binds. rewrite List.map_length. apply deg_sorted_count, Hnl. }
    assert (H1 : firstn n (si_inds i) = binds v L).
    { unfold i, final_info. cbn [si_inds]. rewrite Hn. apply firstn_len_app. }
    split; [exact H1|]. rewrite H1. unfold i, final_info. cbn [si_duals].
    rewrite combine_app_len by (unfold binds, bduals; rewrite !List.map_length; reflexivity).
    unfold binds, bduals. apply combine_map2.
  Qed.

  Lemma combine_app_eq {A B} (a1 a2 : list A) (b1 b2 : list B) :
    length a1 = length b1 -> combine (a1 ++ a2) (b1 ++ b2) = combine a1 b1 ++ combine a2 b2.
  Proof.
    revert b1. induction a1 as [|x a1 IH]; intros [|y b1] Hl; cbn in Hl; try discriminate; cbn [combine app].
    - reflexivity.
    - f_equal. apply IH. congruence.
  Qed.

  Lemma final_full_combine (bd : Z) (pd : option Z) (v : S) (L : list (S * S)) :
    let i := final_info bd pd v L in
    combine (si_inds i) (si_duals i) =
    map (fun e => (bname e, bdual v e)) (filter (incident seqb v) L) ++ phys_part pd (phys_name v, 0).
  Proof.
    intros i. unfold i, final_info. cbn [si_inds si_duals].
    rewrite combine_app_eq by (unfold binds, bduals; rewrite !List.map_length; reflexivity).
    unfold binds, bduals. rewrite combine_map2. destruct pd; reflexivity.
  Qed.

  (* (d) sites = end points, coordination = degree = number of incident edges,
     whatever the physical index; the bond indices come first *)
  Theorem site_info_sites_coordination (edges : list (S * S)) (bd : Z) (pd : option Z) :
    (forall a b, In (a, b) edges -> a <> b) ->
    let info := site_info seqb sltb bond_name phys_name edges bd pd in
    NoDup (map fst info) /\
    (forall v, lookup seqb v info = None <-> deg seqb v edges = 0) /\
    (forall v i, lookup seqb v info = Some i ->
       let d := deg seqb v edges in
       0 < d /\ d = Z.of_nat (length (filter (incident seqb v) edges)) /\
       si_coord i = Some d /\
       si_inds i = firstn (Z.to_nat d) (si_inds i) ++ match pd with Some _ => [phys_name v] | None => [] end /\
       si_duals i = firstn (Z.to_nat d) (si_duals i) ++ match pd with Some _ => [0] | None => [] end /\
       si_shape i = repeat bd (Z.to_nat d) ++ match pd with Some p => [p] | None => [] end /\
       length (firstn (Z.to_nat d) (si_inds i)) = Z.to_nat d /\
       length (firstn (Z.to_nat d) (si_duals i)) = Z.to_nat d).
  Proof.
    intros Hnl info. split; [apply site_info_keys_nodup|]. split.
    - intros v. unfold info. rewrite (lookup_site_info edges bd pd v Hnl).
      destruct (deg seqb v edges =? 0) eqn:E.
      + apply Z.eqb_eq in E. tauto.
      + apply Z.eqb_neq in E. split; [discriminate | contradiction].
    - intros v i Hl d.
      destruct (site_info_lookup_some edges bd pd v i Hnl Hl) as [-> Hd].
      pose proof (deg_no_loops seqb seqb_spec edges v Hnl) as Hdeg.
      pose proof (deg_sorted_count edges v Hnl) as Hcnt. fold d in Hdeg, Hcnt, Hd.
      split; [lia|]. split; [exact Hdeg|].
      unfold final_info. cbn [si_inds si_duals si_shape si_coord].
      set (F := filter (incident seqb v) (sorted_edges edges)) in *.
      assert (Hb : length (binds v (sorted_edges edges)) = Z.to_nat d)
        by (unfold binds; fold F; rewrite List.map_length; symmetry; exact Hcnt).
      assert (Hu : length (bduals v (sorted_edges edges)) = Z.to_nat d)
        by (unfold bduals; fold F; rewrite List.map_length; symmetry; exact Hcnt).
      split; [f_equal; rewrite <- Hcnt; lia|].
      assert (Hfi : forall P, firstn (Z.to_nat d) (binds v (sorted_edges edges) ++ P) = binds v (sorted_edges edges))
        by (intros P; rewrite <- Hb; apply firstn_len_app).
      assert (Hfd : forall P, firstn (Z.to_nat d) (bduals v (sorted_edges edges) ++ P) = bduals v (sorted_edges edges))
        by (intros P; rewrite <- Hu; apply firstn_len_app).
      rewrite !Hfi, !Hfd.
      split; [destruct pd; reflexivity|]. split; [destruct pd; reflexivity|].
      split; [|split; [exact Hb | exact Hu]].
      f_equal. unfold bshape. fold F. rewrite Hcnt. clear.
      induction F as [|x F IH]; cbn [map length repeat]; [reflexivity | f_equal; exact IH].
  Qed.

  (* (a)(b)(c), existence half: the bond's name is at its smaller end with
     direction 0 and at its larger end with direction 1 *)
  Theorem site_info_bond_ends (edges : list (S * S)) (bd : Z) (pd : option Z) :
    (forall a b, In (a, b) edges -> a <> b) ->
    (forall a b, sltb a b = true \/ seqb a b = true \/ sltb b a = true) ->
    let info := site_info seqb sltb bond_name phys_name edges bd pd in
    forall a b, In (a, b) edges ->
      let l := if sltb b a then b else a in
      let h := if sltb b a then a else b in
      l <> h /\ sltb l h = true /\
      exists il ih,
        lookup seqb l info = Some il /\ lookup seqb h info = Some ih /\
        In (bond_name l h, 0) (combine (firstn (Z.to_nat (deg seqb l edges)) (si_inds il)) (si_duals il)) /\
        In (bond_name l h, 1) (combine (firstn (Z.to_nat (deg seqb h edges)) (si_inds ih)) (si_duals ih)) /\
        In (bond_name l h, 0) (combine (si_inds il) (si_duals il)) /\
        In (bond_name l h, 1) (combine (si_inds ih) (si_duals ih)).
  Proof.
    intros Hnl Htot info a b Hin l h.
    assert (Hab : a <> b) by (apply Hnl; exact Hin).
    change l with (lo (a, b)). change h with (hi (a, b)).
    set (e := (a, b)) in *.
    assert (Hlh : lo e <> hi e) by (destruct (lohi_cases e) as [[-> ->]|[-> ->]]; cbn [e fst snd]; congruence).
    split; [exact Hlh|]. split.
    { unfold lo, hi, e. cbn [fst snd]. destruct (sltb b a) eqn:E; [exact E|].
      destruct (Htot a b) as [H|[H|H]]; [exact H | apply seqb_spec in H; contradiction | congruence]. }
    assert (HinL : In e (sorted_edges edges)) by (apply in_sorted_edges; exact Hin).
    assert (Hex : forall v, incident seqb v e = true -> deg seqb v edges <> 0).
    { intros v Hi. rewrite (deg_no_loops seqb seqb_spec edges v Hnl).
      assert (Hf : In e (filter (incident seqb v) edges)) by (apply filter_In; tauto).
      destruct (filter (incident seqb v) edges); [destruct Hf | cbn [length]; lia]. }
    assert (Hil : incident seqb (lo e) e = true) by (rewrite incident_lohi, srefl; reflexivity).
    assert (Hih : incident seqb (hi e) e = true) by (rewrite incident_lohi, srefl; apply orb_true_r).
    exists (final_info bd pd (lo e) (sorted_edges edges)), (final_info bd pd (hi e) (sorted_edges edges)).
    unfold info. rewrite !(lookup_site_info edges bd pd _ Hnl).
    pose proof (Hex _ Hil) as Hdl. pose proof (Hex _ Hih) as Hdh.
    apply Z.eqb_neq in Hdl, Hdh. rewrite Hdl, Hdh.
    split; [reflexivity|]. split; [reflexivity|].
    destruct (final_bond_part edges bd pd (lo e) Hnl) as [_ ->].
    destruct (final_bond_part edges bd pd (hi e) Hnl) as [_ ->].
    rewrite !final_full_combine.
    assert (H0 : In (bond_name (lo e) (hi e), 0)
                    (map (fun e0 => (bname e0, bdual (lo e) e0)) (filter (incident seqb (lo e)) (sorted_edges edges)))).
    { apply in_map_iff. exists e. split.
      - unfold bname, bdual. rewrite srefl. reflexivity.
      - apply filter_In. tauto. }
    assert (H1 : In (bond_name (lo e) (hi e), 1)
                    (map (fun e0 => (bname e0, bdual (hi e) e0)) (filter (incident seqb (hi e)) (sorted_edges edges)))).
    { apply in_map_iff. exists e. split.
      - unfold bname, bdual. replace (seqb (hi e) (lo e)) with false; [reflexivity|].
        symmetry. apply (seqb_false seqb seqb_spec). congruence.
      - apply filter_In. tauto. }
    repeat split; try assumption; apply in_or_app; left; assumption.
  Qed.

  (* ---------------- uniqueness: needs injective names and a simple graph ---------------- *)
  Definition names_injective : Prop := forall a b c d, bond_name a b = bond_name c d -> a = c /\ b = d.

  Lemma bname_inj_on (edges : list (S * S)) :
    names_injective -> simple_graph edges ->
    forall e1 e2, In e1 edges -> In e2 edges -> bname e1 = bname e2 -> e1 = e2.
  Proof.
    intros Hinj [_ Hsg] [a1 b1] [a2 b2] H1 H2 Hn. unfold bname in Hn. apply Hinj in Hn. destruct Hn as [Hl Hh].
    destruct (lohi_cases (a1, b1)) as [[E1 E2]|[E1 E2]], (lohi_cases (a2, b2)) as [[E3 E4]|[E3 E4]];
      rewrite E1, E3 in Hl; rewrite E2, E4 in Hh; cbn [fst snd] in Hl, Hh; subst.
    - reflexivity.
    - exfalso. apply (Hsg _ _ H1). exact H2.
    - exfalso. apply (Hsg _ _ H1). exact H2.
    - reflexivity.
  Qed.

  Lemma simple_no_loops (edges : list (S * S)) : simple_graph edges -> forall a b, In (a, b) edges -> a <> b.
  Proof. intros [_ H] a b Hin. apply (H a b Hin). Qed.

  (* (a)(b)(c)(e): each bond has ONE name; at every site the bond indices are
     pairwise distinct; a bond's name occurs only at its two ends, with
     direction 0 at the smaller and 1 at the larger end *)
  Theorem site_info_bond_unique (edges : list (S * S)) (bd : Z) (pd : option Z) :
    names_injective -> simple_graph edges ->
    let info := site_info seqb sltb bond_name phys_name edges bd pd in
    (forall a b c d, In (a, b) edges -> In (c, d) edges -> (a, b) <> (c, d) ->
       bond_name (if sltb b a then b else a) (if sltb b a then a else b) <>
       bond_name (if sltb d c then d else c) (if sltb d c then c else d)) /\
    (forall v iv, lookup seqb v info = Some iv ->
       NoDup (firstn (Z.to_nat (deg seqb v edges)) (si_inds iv)) /\
       forall a b, In (a, b) edges ->
         let l := if sltb b a then b else a in
         let h := if sltb b a then a else b in
         forall du, In (bond_name l h, du) (combine (firstn (Z.to_nat (deg seqb v edges)) (si_inds iv)) (si_duals iv)) ->
                    (v = l /\ du = 0) \/ (v = h /\ du = 1)).
  Proof.
    intros Hinj Hsg info.
    pose proof (simple_no_loops edges Hsg) as Hnl.
    split.
    - intros a b c d H1 H2 Hne Hn. apply Hne.
      apply (bname_inj_on edges Hinj Hsg (a, b) (c, d) H1 H2). exact Hn.
    - intros v iv Hl.
      destruct (site_info_lookup_some edges bd pd v iv Hnl Hl) as [-> Hd].
      destruct (final_bond_part edges bd pd v Hnl) as [Hb Hc]. cbv zeta in Hb, Hc.
      split.
      + rewrite Hb. unfold binds. apply NoDup_map_inj_in.
        * intros x y Hx Hy. apply filter_In in Hx, Hy.
          apply (bname_inj_on edges Hinj Hsg); apply in_sorted_edges; tauto.
        * apply NoDup_filter. apply Permutation_NoDup with (l := edges);
            [apply Permutation_sym, sorted_edges_perm | exact (proj1 Hsg)].
      + intros a b Hin l h du Hdu. rewrite Hc in Hdu.
        apply in_map_iff in Hdu. destruct Hdu as [e' [Heq He']].
        apply filter_In in He'. destruct He' as [He' Hi].
        inversion Heq as [[Hn Hdu]].
        assert (e' = (a, b)).
        { apply (bname_inj_on edges Hinj Hsg); [apply in_sorted_edges; exact He' | exact Hin | exact Hn]. }
        subst e'. rewrite incident_lohi in Hi. unfold bdual.
        change l with (lo (a, b)). change h with (hi (a, b)).
        destruct (seqb v (lo (a, b))) eqn:E1.
        * left. apply seqb_spec in E1. tauto.
        * cbn [orb] in Hi. right. apply seqb_spec in Hi. tauto.
  Qed.

  (* the statement kept as `C19_site_info_full` in Props/C19.v, with the one
     hypothesis it lacks: the physical index name is not a bond name (or there
     is no physical index) — see `site_info_full_v1_refuted` below *)
  Theorem site_info_full_fixed (edges : list (S * S)) (bd : Z) (pd : option Z) :
    (forall a b, sltb a b = true \/ seqb a b = true \/ sltb b a = true) ->
    names_injective -> simple_graph edges ->
    (pd = None \/ forall a b v, bond_name a b <> phys_name v) ->
    let info := site_info seqb sltb bond_name phys_name edges bd pd in
    (forall v, 0 < deg seqb v edges ->
               exists i, lookup seqb v info = Some i /\ si_coord i = Some (deg seqb v edges)) /\
    (forall a b, In (a, b) edges ->
       let l := if sltb b a then b else a in
       let h := if sltb b a then a else b in
       exists il ih,
         lookup seqb l info = Some il /\ lookup seqb h info = Some ih /\
         In (bond_name l h, 0) (combine (si_inds il) (si_duals il)) /\
         In (bond_name l h, 1) (combine (si_inds ih) (si_duals ih)) /\
         (forall v iv, lookup seqb v info = Some iv -> In (bond_name l h) (si_inds iv) -> v = l \/ v = h)).
  Proof.
    intros Htot Hinj Hsg Hphys info.
    pose proof (simple_no_loops edges Hsg) as Hnl.
    split.
    - intros v Hd. unfold info. rewrite (lookup_site_info edges bd pd v Hnl).
      assert (E : (deg seqb v edges =? 0) = false) by (apply Z.eqb_neq; lia). rewrite E.
      eexists. split; [reflexivity|]. unfold final_info. cbn [si_coord]. f_equal.
      rewrite (deg_no_loops seqb seqb_spec edges v Hnl). f_equal.
      apply incident_count_perm, sorted_edges_perm.
    - intros a b Hin l h.
      destruct (site_info_bond_ends edges bd pd Hnl Htot a b Hin) as [_ [_ [il [ih [H1 [H2 [_ [_ [H3 H4]]]]]]]]].
      exists il, ih. repeat (split; [assumption|]).
      intros v iv Hl Hi.
      destruct (site_info_bond_unique edges bd pd Hinj Hsg) as [_ Hu].
      destruct (Hu v iv Hl) as [_ Hu'].
      destruct (site_info_lookup_some edges bd pd v iv Hnl Hl) as [Hiv Hd].
      destruct (final_bond_part edges bd pd v Hnl) as [Hb Hc]. cbv zeta in Hb, Hc.
      assert (Hbi : In (bond_name l h) (binds v (sorted_edges edges))).
      { subst iv. unfold final_info in Hi. cbn [si_inds] in Hi. apply in_app_or in Hi.
        destruct Hi as [Hi|Hi]; [exact Hi|]. exfalso.
        destruct Hphys as [->|Hp]; [destruct Hi|].
        destruct pd; cbn [phys_part In] in Hi; [|destruct Hi].
        destruct Hi as [Hi|[]]. apply (Hp l h v). symmetry. exact Hi. }
      unfold binds in Hbi. apply in_map_iff in Hbi. destruct Hbi as [e' [Hn He']].
      specialize (Hu' a b Hin (bdual v e')).
      cbv zeta in Hu'. subst iv. rewrite Hc in Hu'.
      destruct Hu' as [[Hv _]|[Hv _]]; [|left; exact Hv|right; exact Hv].
      apply in_map_iff. exists e'. split; [|exact He']. f_equal. exact Hn.
  Qed.
End SiteInfoSpec.

(* ================================================================== *)
(* Z as a site type: the hypotheses of the theorems above are satisfiable *)
Lemma Zeqb_correct : forall a b : Z, Z.eqb a b = true <-> a = b.
Proof. intros a b. apply Z.eqb_eq. Qed.

Lemma Zltb_strict_total :
  (forall a, Z.ltb a a = false) /\
  (forall a b c, Z.ltb a b = true -> Z.ltb b c = true -> Z.ltb a c = true) /\
  (forall a b, Z.ltb a b = true \/ Z.eqb a b = true \/ Z.ltb b a = true).
Proof.
  split; [intros a; apply Z.ltb_irrefl|]. split.
  - intros a b c H1 H2. apply Z.ltb_lt in H1, H2. apply Z.ltb_lt. lia.
  - intros a b. rewrite !Z.ltb_lt, Z.eqb_eq. lia.
Qed.

Lemma pair_name_injective : @names_injective Z (Z * Z) (fun a b => (a, b)).
Proof. intros a b c d H. inversion H. tauto. Qed.

(* Example: a triangle 0-1-2 plus the pendant site 3 (edges listed in mixed
   orientations and not sorted); names = the ordered pair, physical name (v,v) *)
Example ex_site_info :
  site_info Z.eqb Z.ltb (fun a b => (a, b)) (fun v => (v, v)) ex_edges 5 (Some 3) =
  [(0, {| si_inds := [(0, 1); (0, 2); (0, 0)]; si_duals := [0; 0; 0]; si_shape := [5; 5; 3]; si_coord := Some 2 |});
   (1, {| si_inds := [(0, 1); (1, 2); (1, 1)]; si_duals := [1; 0; 0]; si_shape := [5; 5; 3]; si_coord := Some 2 |});
   (2, {| si_inds := [(1, 2); (0, 2); (2, 3); (2, 2)]; si_duals := [1; 1; 0; 0]; si_shape := [5; 5; 5; 3]; si_coord := Some 3 |});
   (3, {| si_inds := [(2, 3); (3, 3)]; si_duals := [1; 0]; si_shape := [5; 3]; si_coord := Some 1 |})].
Proof. vm_compute. reflexivity. Qed.

(* without a physical index the coordinations are the same *)
Example ex_site_info_coord_nophys :
  map (fun ki => (fst ki, si_coord (snd ki))) (site_info Z.eqb Z.ltb (fun a b => (a, b)) (fun v => (v, v)) ex_edges 5 None)
  = [(0, Some 2); (1, Some 2); (2, Some 3); (3, Some 1)].
Proof. vm_compute. reflexivity. Qed.

Example ex_site_info_hyps :
  simple_graph ex_edges /\ (forall a b, In (a, b) ex_edges -> a <> b) /\
  @names_injective Z (Z * Z) (fun a b => (a, b)) /\
  @names_injective Z (list Z) (fun a b => [a; b]) /\
  (forall a b v : Z, [a; b] <> [v]).
Proof.
  split; [exact ex_simple|]. split; [intros a b Hin; apply (proj2 ex_simple a b Hin)|].
  split; [exact pair_name_injective|]. split; [|discriminate].
  intros a b c d H. inversion H. tauto.
Qed.

(* ================================================================== *)
(* The statement kept as `Definition C19_site_info_full` in Props/C19.v (copied
   verbatim, `eqb_correct` / `strict_total` unfolded) is FALSE: nothing keeps
   the physical index name of a third site from being equal to a bond name, and
   `si_inds` contains the physical index.  `site_info_full_fixed` above is the
   statement with that hypothesis added. *)
Definition site_info_full_v1 : Prop :=
  forall (S Nm : Type) (seqb sltb : S -> S -> bool) (bond_name : S -> S -> Nm) (phys_name : S -> Nm),
    (forall a b, seqb a b = true <-> a = b) ->
    ((forall a, sltb a a = false) /\
     (forall a b c, sltb a b = true -> sltb b c = true -> sltb a c = true) /\
     (forall a b, sltb a b = true \/ seqb a b = true \/ sltb b a = true)) ->
    (forall a b c d, bond_name a b = bond_name c d -> a = c /\ b = d) ->
    forall (edges : list (S * S)) (bd : Z) (pd : option Z),
      simple_graph edges ->
      let info := site_info seqb sltb bond_name phys_name edges bd pd in
      (forall v, 0 < deg seqb v edges ->
                 exists i, lookup seqb v info = Some i /\ si_coord i = Some (deg seqb v edges)) /\
      (forall a b, In (a, b) edges ->
         let lo := if sltb b a then b else a in
         let hi := if sltb b a then a else b in
         exists ilo ihi,
           lookup seqb lo info = Some ilo /\ lookup seqb hi info = Some ihi /\
           In (bond_name lo hi, 0) (combine (si_inds ilo) (si_duals ilo)) /\
           In (bond_name lo hi, 1) (combine (si_inds ihi) (si_duals ihi)) /\
           (forall v iv, lookup seqb v info = Some iv -> In (bond_name lo hi) (si_inds iv) -> v = lo \/ v = hi)).

Example path_simple : simple_graph [(0, 1); (1, 2)].
Proof.
  split.
  - repeat constructor; cbn [In]; intros H; repeat destruct H as [H|H]; try discriminate; exact H.
  - intros a b Hin. cbn [In] in Hin.
    repeat destruct Hin as [Hin|Hin]; try (inversion Hin; subst; split; [discriminate|];
      cbn [In]; intros H; repeat destruct H as [H|H]; try discriminate; exact H).
    destruct Hin.
Qed.

(* path 0-1-2, physical index of every site named like the bond (0,1): site 2
   carries the name of the bond 0-1 *)
Theorem site_info_full_v1_refuted : ~ site_info_full_v1.
Proof.
  intros H.
  specialize (H Z (Z * Z)%type Z.eqb Z.ltb (fun a b => (a, b)) (fun _ => (0, 1))
                Zeqb_correct Zltb_strict_total pair_name_injective
                [(0, 1); (1, 2)] 2 (Some 2) path_simple).
  cbv zeta in H. destruct H as [_ H].
  destruct (H 0 1 (or_introl eq_refl)) as [ilo [ihi [_ [_ [_ [_ Hu]]]]]].
  cbn [Z.ltb Z.compare] in Hu.
  specialize (Hu 2 {| si_inds := [(1, 2); (0, 1)]; si_duals := [1; 0]; si_shape := [2; 2]; si_coord := Some 1 |}).
  destruct Hu as [Hu|Hu]; try discriminate.
  - vm_compute. reflexivity.
  - right. left. reflexivity.
Qed.

(* ================================================================== *)
(* Finding F15: the default name format "b{}-{}" on string labels (lists of
   code points, as in the correspondence harness) is not injective when labels
   contain '-', and then the "only at its two ends" conclusion fails:
   edges ("1","2-3") and ("1-2","3") both get 'b1-2-3', carried by four sites. *)
Definition fmt_default (a b : lbl) : lbl := [98] ++ a ++ [45] ++ b.
Definition s_1 : lbl := [49].            (* "1"   *)
Definition s_2m3 : lbl := [50; 45; 51].  (* "2-3" *)
Definition s_1m2 : lbl := [49; 45; 50].  (* "1-2" *)
Definition s_3 : lbl := [51].            (* "3"   *)
Definition collide_edges : list (lbl * lbl) := [(s_1, s_2m3); (s_1m2, s_3)].

Lemma lbl_eqb_correct : forall a b : lbl, lbl_eqb a b = true <-> a = b.
Proof.
  unfold lbl_eqb. induction a as [|x a IH]; intros [|y b]; cbn [list_eqb]; try (split; [discriminate|discriminate]).
  - tauto.
  - rewrite andb_true_iff, Z.eqb_eq, IH. split; [intros [-> ->]; reflexivity | intros H; inversion H; tauto].
Qed.

Example collide_simple : simple_graph collide_edges.
Proof.
  split.
  - repeat constructor; cbn [In]; intros H; repeat destruct H as [H|H]; try discriminate; exact H.
  - intros a b Hin. cbn [In collide_edges] in Hin.
    repeat destruct Hin as [Hin|Hin]; try (inversion Hin; subst; split; [discriminate|];
      cbn [In]; intros H; repeat destruct H as [H|H]; try discriminate; exact H).
    destruct Hin.
Qed.

Theorem site_info_names_collide_refuted :
  (* the format is not injective on ordered pairs of labels *)
  ~ @names_injective lbl lbl fmt_default /\
  (* two distinct bonds of a simple graph get the same name *)
  simple_graph collide_edges /\
  fmt_default s_1 s_2m3 = fmt_default s_1m2 s_3 /\
  (* and the conclusion of `site_info_bond_unique` fails: the name of the bond
     "1"--"2-3" is also a bond index of the site "3" *)
  ~ (forall v iv, lookup lbl_eqb v (site_info lbl_eqb lbl_ltb fmt_default (fun v => v) collide_edges 2 None) = Some iv ->
       forall du, In (fmt_default s_1 s_2m3, du)
                     (combine (firstn (Z.to_nat (deg lbl_eqb v collide_edges)) (si_inds iv)) (si_duals iv)) ->
                  (v = s_1 /\ du = 0) \/ (v = s_2m3 /\ du = 1)).
Proof.
  split; [|split; [exact collide_simple|split; [reflexivity|]]].
  - intros H. destruct (H s_1 s_2m3 s_1m2 s_3 eq_refl) as [H1 _]. discriminate.
  - intros H.
    specialize (H s_3 {| si_inds := [fmt_default s_1m2 s_3]; si_duals := [1]; si_shape := [2]; si_coord := Some 1 |}).
    destruct (H ltac:(vm_compute; reflexivity) 1) as [[Hv _]|[Hv _]]; try discriminate.
    vm_compute. left. reflexivity.
Qed.

(* ================================================================== *)
(* the two theorems with the hypotheses in the order of Props/C19b.v *)
Lemma site_info_bond_ends_stmt :
  forall (S Nm : Type) (seqb sltb : S -> S -> bool) (bond_name : S -> S -> Nm) (phys_name : S -> Nm),
    (forall a b, seqb a b = true <-> a = b) ->
    (forall a b, sltb a b = true \/ seqb a b = true \/ sltb b a = true) ->
    forall (edges : list (S * S)) (bd : Z) (pd : option Z),
      (forall a b, In (a, b) edges -> a <> b) ->
      let info := site_info seqb sltb bond_name phys_name edges bd pd in
      forall a b, In (a, b) edges ->
        let lo := if sltb b a then b else a in
        let hi := if sltb b a then a else b in
        lo <> hi /\ sltb lo hi = true /\
        exists ilo ihi,
          lookup seqb lo info = Some ilo /\ lookup seqb hi info = Some ihi /\
          In (bond_name lo hi, 0) (combine (firstn (Z.to_nat (deg seqb lo edges)) (si_inds ilo)) (si_duals ilo)) /\
          In (bond_name lo hi, 1) (combine (firstn (Z.to_nat (deg seqb hi edges)) (si_inds ihi)) (si_duals ihi)) /\
          In (bond_name lo hi, 0) (combine (si_inds ilo) (si_duals ilo)) /\
          In (bond_name lo hi, 1) (combine (si_inds ihi) (si_duals ihi)).
Proof.
  intros S Nm seqb sltb bond_name phys_name Heq Htot edges bd pd Hnl.
  exact (@site_info_bond_ends S Nm seqb sltb bond_name phys_name Heq edges bd pd Hnl Htot).
Qed.

Lemma site_info_full_fixed_stmt :
  forall (S Nm : Type) (seqb sltb : S -> S -> bool) (bond_name : S -> S -> Nm) (phys_name : S -> Nm),
    (forall a b, seqb a b = true <-> a = b) ->
    ((forall a, sltb a a = false) /\
     (forall a b c, sltb a b = true -> sltb b c = true -> sltb a c = true) /\
     (forall a b, sltb a b = true \/ seqb a b = true \/ sltb b a = true)) ->
    (forall a b c d, bond_name a b = bond_name c d -> a = c /\ b = d) ->
    forall (edges : list (S * S)) (bd : Z) (pd : option Z),
      simple_graph edges ->
      (pd = None \/ forall a b v, bond_name a b <> phys_name v) ->
      let info := site_info seqb sltb bond_name phys_name edges bd pd in
      (forall v, 0 < deg seqb v edges ->
                 exists i, lookup seqb v info = Some i /\ si_coord i = Some (deg seqb v edges)) /\
      (forall a b, In (a, b) edges ->
         let lo := if sltb b a then b else a in
         let hi := if sltb b a then a else b in
         exists ilo ihi,
           lookup seqb lo info = Some ilo /\ lookup seqb hi info = Some ihi /\
           In (bond_name lo hi, 0) (combine (si_inds ilo) (si_duals ilo)) /\
           In (bond_name lo hi, 1) (combine (si_inds ihi) (si_duals ihi)) /\
           (forall v iv, lookup seqb v info = Some iv -> In (bond_name lo hi) (si_inds iv) -> v = lo \/ v = hi)).
Proof.
  intros S Nm seqb sltb bond_name phys_name Heq Hst Hinj edges bd pd Hsg Hph.
  exact (@site_info_full_fixed S Nm seqb sltb bond_name phys_name Heq edges bd pd (proj2 (proj2 Hst)) Hinj Hsg Hph).
Qed.
