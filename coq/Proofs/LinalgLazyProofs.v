(* Proofs/LinalgLazyProofs.v — property C09 (lazily tracked fermionic signs are
   unobservable) for the DECOMPOSITIONS of Model/Linalg.v.

   f_eigh / f_solve synchronise their operands first (fixes 539bade / 239d31d):
   equivalent inputs (LazyProofs.feq) give EQUAL results.

   f_qr / f_svd read the RAW blocks and copy the pending-sign table onto Q / U.
   What is true:
     * if the per-block routine is left-odd,  f (-m) = (- left, right)  (symmray's
       stabilised qr, svd with u carrying the sign), then the factors of the
       synchronised copy are the synchronised Q / U and the SAME R / Vh / s
       (split_sync, svd_sync) — hence equivalent inputs give equivalent Q, equal R;
     * without such a contract the factor values may differ (Example
       right_odd_values_differ) but the PRODUCT q @ r has the same labels and the
       same entries (split_product_congr), under the reconstruction contract of C11. *)
From SV Require Import Base.Prelude Base.Sym Base.Tensor Gen.PhasePerm Model.Sectors Model.Array Model.Arith
  Model.Wf Model.Fermi Model.Linalg Model.SymInst
  Proofs.TensorProofs Proofs.SymLaws Proofs.GroupFacts Proofs.Tdot Proofs.TdotInst Proofs.StructProofs Proofs.LazyProofs
  Proofs.LinalgProofs.
From Coq Require Import Permutation.
Local Open Scope nat_scope.

(* ------------------------------------------------------------------ *)
(* Python `d[k] = v` loops whose values are transformed key-wise *)
Section FoldDsetMap.
  Context {K V A : Type} (e : K -> K -> bool) (e_spec : forall a b, e a b = true <-> a = b).

  Lemma fold_left_map_list {B C} (F : C -> B -> C) (g : A -> B) l : forall acc,
    fold_left F (map g l) acc = fold_left (fun acc a => F acc (g a)) l acc.
  Proof. induction l as [|a l IH]; intros acc; cbn [map fold_left]; [reflexivity | apply IH]. Qed.

  Lemma fold_left_ext_in {C} (F F' : C -> A -> C) l :
    (forall acc a, In a l -> F acc a = F' acc a) -> forall acc, fold_left F l acc = fold_left F' l acc.
  Proof.
    induction l as [|a l IH]; intros H acc; cbn [fold_left]; [reflexivity|].
    rewrite H by (now left). apply IH. intros acc' b Hb. apply H. now right.
  Qed.

  Notation lift h := (fun kv : K * V => (fst kv, h (fst kv) (snd kv))).

  Lemma dset_map_val (h : K -> V -> V) k v d :
    dset e k (h k v) (map (lift h) d) = map (lift h) (dset e k v d).
  Proof.
    induction d as [|[k' v'] d IH]; cbn [dset map fst snd]; [reflexivity|].
    destruct (e k k') eqn:E.
    - apply e_spec in E. subst k'. reflexivity.
    - cbn [map fst snd]. f_equal. exact IH.
  Qed.

  Lemma fold_dset_map_val (h : K -> V -> V) (kf : A -> K) (vf : A -> V) l : forall acc,
    fold_left (fun acc a => dset e (kf a) (h (kf a) (vf a)) acc) l (map (lift h) acc)
    = map (lift h) (fold_left (fun acc a => dset e (kf a) (vf a) acc) l acc).
  Proof.
    induction l as [|a l IH]; intros acc; cbn [fold_left]; [reflexivity|].
    rewrite dset_map_val. apply IH.
  Qed.
End FoldDsetMap.

(* ------------------------------------------------------------------ *)
Section LinalgLazy.
  Context (G : Symmetry) (HG : GroupLaws G) (R : Ring).
  Context (rneg_invol : forall a : RT R, rneg R (rneg R a) = a).
  Notation sector := (list (C G)).
  Notation keq := (list_eqb (ceqb G)).
  Notation arr := (aarray G R).
  Notation farr := (farray G R).
  Notation ceqb_spec := (ceqb_eq G HG).
  Notation keq_spec := (Tdot.keq_spec G ceqb_spec).
  Notation "x ~~ y" := (feq G R x y) (at level 70).
  Notation sync := (f_phase_sync G R).
  Notation pending x := (fun s : sector => ph_has G s (fphases G R x)).

  (* ---------------- eigh / solve: equal results ---------------- *)
  Theorem eigh_congr (eigh_blk : tensor R -> tensor R * tensor R) (x y : farr) :
    x ~~ y -> f_eigh G R eigh_blk x = f_eigh G R eigh_blk y.
  Proof.
    intros H. unfold f_eigh. rewrite (proj1 (feq_iff_sync G R x y) H). destruct H as [_ Ho]. now rewrite Ho.
  Qed.

  Theorem eigh_sync (eigh_blk : tensor R -> tensor R * tensor R) (x : farr) :
    f_eigh G R eigh_blk (sync x) = f_eigh G R eigh_blk x.
  Proof. apply eigh_congr. apply sync_feq. Qed.

  Theorem solve_congr (solve_blk : tensor R -> tensor R -> tensor R) (a a' b b' : farr) :
    a ~~ a' -> b ~~ b' -> f_solve G R solve_blk a b = f_solve G R solve_blk a' b'.
  Proof.
    intros Ha Hb. unfold f_solve.
    rewrite (proj1 (feq_iff_sync G R a a') Ha), (proj1 (feq_iff_sync G R b b') Hb).
    destruct Hb as [_ Ho]. now rewrite Ho.
  Qed.

  Theorem solve_sync (solve_blk : tensor R -> tensor R -> tensor R) (a b : farr) :
    f_solve G R solve_blk (sync a) (sync b) = f_solve G R solve_blk a b
    /\ f_solve G R solve_blk (sync a) b = f_solve G R solve_blk a b
    /\ f_solve G R solve_blk a (sync b) = f_solve G R solve_blk a b.
  Proof.
    repeat split; apply solve_congr; try apply sync_feq; apply feq_refl.
  Qed.

  (* ---------------- qr / svd ---------------- *)
  (* the blocks the synchronised copy stores *)
  Lemma sync_blocks (x : farr) :
    blocks G R (fbase G R (sync x))
    = map (fun sb => (fst sb, sgn R (pending x (fst sb)) (snd sb))) (blocks G R (fbase G R x)).
  Proof.
    change (fbase G R (sync x)) with (f_value G R x). rewrite f_value_eq. reflexivity.
  Qed.

  (* CONTRACTS on the per-block routine under negation of the block *)
  Definition left_odd (f : tensor R -> tensor R * tensor R) : Prop :=
    forall m, f (tneg R m) = (tneg R (fst (f m)), snd (f m)).
  Definition right_odd (f : tensor R -> tensor R * tensor R) : Prop :=
    forall m, f (tneg R m) = (fst (f m), tneg R (snd (f m))).
  Definition svd_left_odd (svd_blk : tensor R -> tensor R * tensor R * tensor R) : Prop :=
    forall m, svd_blk (tneg R m) = (tneg R (fst (svd_uv R svd_blk m)), svd_s R svd_blk m, snd (svd_uv R svd_blk m)).
  Definition svd_s_even (svd_blk : tensor R -> tensor R * tensor R * tensor R) : Prop :=
    forall m, svd_s R svd_blk (tneg R m) = svd_s R svd_blk m.

  Lemma left_odd_sgn f b m : left_odd f -> f (sgn R b m) = (sgn R b (fst (f m)), snd (f m)).
  Proof. intros Hf. destruct b; cbn [sgn]; [apply Hf | now destruct (f m)]. Qed.

  Lemma ncols_sgn b (t : tensor R) : ncols R (sgn R b t) = ncols R t.
  Proof. now destruct b. Qed.

  Lemma svd_left_odd_uv svd_blk : svd_left_odd svd_blk -> left_odd (svd_uv R svd_blk).
  Proof. intros H m. unfold svd_uv at 1. rewrite (H m). reflexivity. Qed.

  Lemma svd_left_odd_s svd_blk : svd_left_odd svd_blk -> svd_s_even svd_blk.
  Proof. intros H m. unfold svd_s at 1. rewrite (H m). reflexivity. Qed.

  Section SplitSync.
    Context (f : tensor R -> tensor R * tensor R) (Hf : left_odd f).

    Lemma split_cm_sync (x : farr) :
      split_cm G R f (blocks G R (fbase G R (sync x))) = split_cm G R f (blocks G R (fbase G R x)).
    Proof.
      rewrite sync_blocks. unfold split_cm. rewrite fold_left_map_list. apply fold_left_ext_in.
      intros acc [s m] _. cbn [fst snd]. rewrite (left_odd_sgn f _ m Hf). cbn [fst]. now rewrite ncols_sgn.
    Qed.

    Lemma split_right_sync (x : farr) :
      split_right G R f (blocks G R (fbase G R (sync x))) = split_right G R f (blocks G R (fbase G R x)).
    Proof.
      rewrite sync_blocks. unfold split_right. rewrite fold_left_map_list. apply fold_left_ext_in.
      intros acc [s m] _. cbn [fst snd]. now rewrite (left_odd_sgn f _ m Hf).
    Qed.

    Lemma split_left_sync (x : farr) :
      split_left G R f (blocks G R (fbase G R (sync x)))
      = map (fun sb => (fst sb, sgn R (pending x (fst sb)) (snd sb))) (split_left G R f (blocks G R (fbase G R x))).
    Proof.
      rewrite sync_blocks. unfold split_left. rewrite fold_left_map_list.
      rewrite <- (fold_dset_map_val keq keq_spec (fun s t => sgn R (pending x s) t)
                    (fun sb : sector * tensor R => fst sb) (fun sb => fst (f (snd sb))) (blocks G R (fbase G R x)) []).
      cbn [map]. apply fold_left_ext_in.
      intros acc [s m] _. cbn [fst snd]. now rewrite (left_odd_sgn f _ m Hf).
    Qed.

    (* the factors of the synchronised copy = (synchronised left factor, SAME right factor) *)
    Theorem split_sync (x : farr) :
      f_split G R f (sync x)
      = match f_split G R f x with Some (q, r) => Some (sync q, r) | None => None end.
    Proof.
      unfold f_split, a_split. change (ndim G R (fbase G R (sync x))) with (ndim G R (fbase G R x)).
      destruct (Nat.eqb (ndim G R (fbase G R x)) 2); [|reflexivity].
      unfold bond_index. rewrite split_cm_sync, split_right_sync, split_left_sync.
      change (ix1 G R (fbase G R (sync x))) with (ix1 G R (fbase G R x)).
      change (ix0 G R (fbase G R (sync x))) with (ix0 G R (fbase G R x)).
      change (charge G R (fbase G R (sync x))) with (charge G R (fbase G R x)).
      rewrite (sync_normal_form G R (mkF G R _ (fphases G R x) (foddpos G R x))), f_value_eq.
      reflexivity.
    Qed.

    (* equivalent inputs: equivalent left factors, EQUAL right factors *)
    Theorem split_congr (x y q r : farr) :
      x ~~ y -> f_split G R f x = Some (q, r) ->
      exists q', f_split G R f y = Some (q', r) /\ q ~~ q'.
    Proof.
      intros H Hx. pose proof (split_sync x) as Sx. pose proof (split_sync y) as Sy.
      rewrite (proj1 (feq_iff_sync G R x y) H), Sy, Hx in Sx.
      destruct (f_split G R f y) as [[q' r']|]; [|discriminate].
      assert (Eq : sync q' = sync q) by congruence. assert (Er : r' = r) by congruence.
      subst r'. exists q'. split; [reflexivity|].
      apply (feq_iff_sync G R). now symmetry.
    Qed.

    Corollary split_value_congr (x y q r q' r' : farr) :
      x ~~ y -> f_split G R f x = Some (q, r) -> f_split G R f y = Some (q', r') ->
      f_value G R q = f_value G R q' /\ foddpos G R q = foddpos G R q' /\ r = r'.
    Proof.
      intros H Hx Hy. destruct (split_congr x y q r H Hx) as (q2 & Hy2 & [Hv Ho]).
      rewrite Hy in Hy2. injection Hy2 as -> ->. now repeat split.
    Qed.
  End SplitSync.

  Theorem qr_sync qr_blk (Hf : left_odd qr_blk) (x : farr) :
    f_qr G R qr_blk (sync x) = match f_qr G R qr_blk x with Some (q, r) => Some (sync q, r) | None => None end.
  Proof. exact (split_sync qr_blk Hf x). Qed.

  Theorem qr_congr qr_blk (Hf : left_odd qr_blk) (x y q r : farr) :
    x ~~ y -> f_qr G R qr_blk x = Some (q, r) -> exists q', f_qr G R qr_blk y = Some (q', r) /\ q ~~ q'.
  Proof. exact (split_congr qr_blk Hf x y q r). Qed.

  (* singular values never see the pending signs, given only "s of -m = s of m" *)
  Theorem svd_store_sync svd_blk (Hs : svd_s_even svd_blk) (x : farr) :
    svd_store G R svd_blk (blocks G R (fbase G R (sync x))) = svd_store G R svd_blk (blocks G R (fbase G R x)).
  Proof.
    rewrite sync_blocks. unfold svd_store. rewrite fold_left_map_list. apply fold_left_ext_in.
    intros acc [s m] _. cbn [fst snd]. destruct (ph_has G s (fphases G R x)); cbn [sgn]; [now rewrite Hs | reflexivity].
  Qed.

  Theorem svd_values_congr svd_blk (Hs : svd_s_even svd_blk) (x y u vh u' vh' : farr) (s s' : bvec G R) :
    x ~~ y -> f_svd G R svd_blk x = Some (u, s, vh) -> f_svd G R svd_blk y = Some (u', s', vh') -> s = s'.
  Proof.
    intros H Hx Hy. unfold f_svd in Hx, Hy.
    destruct (f_split G R (svd_uv R svd_blk) x) as [[? ?]|]; [|discriminate].
    destruct (f_split G R (svd_uv R svd_blk) y) as [[? ?]|]; [|discriminate].
    injection Hx as _ Es _. injection Hy as _ Es' _. subst s s'.
    rewrite <- (svd_store_sync svd_blk Hs x), <- (svd_store_sync svd_blk Hs y).
    now rewrite (proj1 (feq_iff_sync G R x y) H).
  Qed.

  Theorem svd_sync svd_blk (Hf : svd_left_odd svd_blk) (x : farr) :
    f_svd G R svd_blk (sync x)
    = match f_svd G R svd_blk x with Some (u, s, vh) => Some (sync u, s, vh) | None => None end.
  Proof.
    unfold f_svd. rewrite (split_sync _ (svd_left_odd_uv svd_blk Hf) x).
    rewrite (svd_store_sync svd_blk (svd_left_odd_s svd_blk Hf) x).
    now destruct (f_split G R (svd_uv R svd_blk) x) as [[? ?]|].
  Qed.

  Theorem svd_congr svd_blk (Hf : svd_left_odd svd_blk) (x y u vh : farr) (s : bvec G R) :
    x ~~ y -> f_svd G R svd_blk x = Some (u, s, vh) ->
    exists u', f_svd G R svd_blk y = Some (u', s, vh) /\ u ~~ u'.
  Proof.
    intros H Hx. pose proof (svd_sync svd_blk Hf x) as Sx. pose proof (svd_sync svd_blk Hf y) as Sy.
    rewrite (proj1 (feq_iff_sync G R x y) H), Sy, Hx in Sx.
    destruct (f_svd G R svd_blk y) as [[[u' s'] vh']|]; [|discriminate].
    assert (Eu : sync u' = sync u) by congruence. assert (Es : s' = s) by congruence.
    assert (Ev : vh' = vh) by congruence.
    subst s' vh'. exists u'. split; [reflexivity|].
    apply (feq_iff_sync G R). now symmetry.
  Qed.
End LinalgLazy.

(* ------------------------------------------------------------------ *)
(* no contract on the sign behaviour of the per-block routine: the PRODUCT is unobservable *)
Section ProductCongr.
  Context (G : Symmetry) (HG : GroupLaws G) (R : Ring) (RL : SumLaws R).
  Context (cltb_irrefl : forall c : C G, cltb G c c = false)
          (cltb_trans : forall a b c : C G, cltb G a b = true -> cltb G b c = true -> cltb G a c = true)
          (cltb_total : forall a b : C G, a <> b -> cltb G a b = true \/ cltb G b a = true).
  Context (rneg_invol : forall a : RT R, rneg R (rneg R a) = a)
          (rneg_zero : rneg R (r0 R) = r0 R)
          (rneg_add : forall a b : RT R, rneg R (radd R a b) = radd R (rneg R a) (rneg R b))
          (rmul_neg_l : forall a b : RT R, rmul R (rneg R a) b = rneg R (rmul R a b)).
  Notation sector := (list (C G)).
  Notation arr := (aarray G R).
  Notation farr := (farray G R).
  Notation "x ~~ y" := (feq G R x y) (at level 70).
  Notation sync := (f_phase_sync G R).

  Lemma wf_value (x : farr) : wf_array G R (fbase G R x) = true -> wf_array G R (f_value G R x) = true.
  Proof. intros H. rewrite f_value_eq. now apply (wf_signmap G R). Qed.

  Theorem split_product_congr (f : tensor R -> tensor R * tensor R) (x y qx rx qy ry : farr) (l rr : coord G) :
    x ~~ y ->
    wf_array G R (fbase G R x) = true -> wf_array G R (fbase G R y) = true -> ndim G R (fbase G R x) = 2 ->
    split_shapes R f ->
    (forall s m, In (s, m) (blocks G R (fbase G R x)) -> split_product R f m) ->
    (forall s m, In (s, m) (blocks G R (fbase G R y)) -> split_product R f m) ->
    f_split G R f x = Some (qx, rx) -> f_split G R f y = Some (qy, ry) ->
    resolve_oddpos (fparity G R x) (foddpos G R x) [] = Some (false, foddpos G R x) ->
    coords_ok G [ix0 G R (fbase G R x)] [l] = true -> coords_ok G [ix1 G R (fbase G R x)] [rr] = true ->
    exists px py, f_matmul G R qx rx = Some px /\ f_matmul G R qy ry = Some py /\
      foddpos G R px = foddpos G R py /\
      sem G R (f_value G R px) [l; rr] = sem G R (f_value G R py) [l; rr].
  Proof.
    intros H Hwx Hwy Hn Hf Hpx Hpy Hsx Hsy Hodd Hl Hr.
    pose proof (feq_indices G R x y H) as Hix. pose proof (feq_charge G R x y H) as Hq.
    assert (Hn' : ndim G R (fbase G R y) = 2) by (rewrite <- (feq_ndim G R x y H); exact Hn).
    destruct H as [Hv Ho].
    assert (Hodd' : resolve_oddpos (fparity G R y) (foddpos G R y) [] = Some (false, foddpos G R y)).
    { unfold fparity. rewrite <- Hq, <- Ho. exact Hodd. }
    assert (Hl' : coords_ok G [ix0 G R (fbase G R y)] [l] = true) by (unfold ix0; rewrite <- Hix; exact Hl).
    assert (Hr' : coords_ok G [ix1 G R (fbase G R y)] [rr] = true) by (unfold ix1; rewrite <- Hix; exact Hr).
    destruct (f_split_matmul G HG R RL cltb_irrefl cltb_trans cltb_total rneg_invol rneg_zero rneg_add rmul_neg_l
                f x qx rx l rr Hwx Hn Hf Hpx Hsx Hodd Hl Hr) as (px & Hpx1 & Hox & Hsemx).
    destruct (f_split_matmul G HG R RL cltb_irrefl cltb_trans cltb_total rneg_invol rneg_zero rneg_add rmul_neg_l
                f y qy ry l rr Hwy Hn' Hf Hpy Hsy Hodd' Hl' Hr') as (py & Hpy1 & Hoy & Hsemy).
    exists px, py. split; [exact Hpx1|]. split; [exact Hpy1|]. split; [congruence|].
    rewrite Hsemx, Hsemy, Hv. reflexivity.
  Qed.

  (* the special case the property names: the lazy array and its synchronised copy *)
  Corollary split_product_sync (f : tensor R -> tensor R * tensor R) (x qx rx qy ry : farr) (l rr : coord G) :
    wf_array G R (fbase G R x) = true -> ndim G R (fbase G R x) = 2 ->
    split_shapes R f ->
    (forall s m, In (s, m) (blocks G R (fbase G R x)) -> split_product R f m /\ split_product R f (tneg R m)) ->
    f_split G R f x = Some (qx, rx) -> f_split G R f (sync x) = Some (qy, ry) ->
    resolve_oddpos (fparity G R x) (foddpos G R x) [] = Some (false, foddpos G R x) ->
    coords_ok G [ix0 G R (fbase G R x)] [l] = true -> coords_ok G [ix1 G R (fbase G R x)] [rr] = true ->
    exists px py, f_matmul G R qx rx = Some px /\ f_matmul G R qy ry = Some py /\
      foddpos G R px = foddpos G R py /\
      sem G R (f_value G R px) [l; rr] = sem G R (f_value G R py) [l; rr].
  Proof.
    intros Hw Hn Hf Hp Hsx Hsy Hodd Hl Hr.
    apply (split_product_congr f x (sync x) qx rx qy ry l rr); try assumption.
    - apply (feq_sym G R). apply sync_feq.
    - exact (wf_value x Hw).
    - intros s m Hin. exact (proj1 (Hp s m Hin)).
    - intros s m Hin. rewrite (sync_blocks G R) in Hin. apply in_map_iff in Hin.
      destruct Hin as [[s0 m0] [E Hin]]. cbn [fst snd] in E. injection E as <- <-.
      destruct (Hp s0 m0 Hin) as [H1 H2]. now destruct (ph_has G s0 (fphases G R x)).
  Qed.

  (* ---- svd: u . diag(s) . vh.  The fermionic array inherits AbelianArray.multiply_diagonal
     (blocks scaled, sign table and labels kept): *)
  Definition f_mul_diag (u : farr) (s : bvec G R) : farr := with_base G R u (a_multiply_diagonal G R (fbase G R u) s 1).

  Section SVD.
    Context (svd_blk : tensor R -> tensor R * tensor R * tensor R) (Hshapes : svd_shapes R svd_blk).

    Lemma f_svd_scaled (x u vh : farr) (s : bvec G R) :
      wf_array G R (fbase G R x) = true -> ndim G R (fbase G R x) = 2 ->
      f_svd G R svd_blk x = Some (u, s, vh) ->
      f_split G R (svd_scaled R svd_blk) x = Some (f_mul_diag u s, vh).
    Proof.
      intros Hw Hn Hs. pose proof (wf_mat G HG R _ Hw Hn) as Hx.
      unfold f_svd, f_split in *.
      rewrite (a_split_eq G HG R _ _ _ _ Hx) in Hs. rewrite (a_split_eq G HG R _ _ _ _ Hx).
      injection Hs as Eu Es Ev. subst u s vh.
      destruct (scaled_left G HG R svd_blk (fbase G R x) Hw Hn) as [E1 E2].
      unfold f_mul_diag, with_base. cbn [fbase fphases foddpos]. now rewrite E1, E2.
    Qed.

    Theorem svd_product_congr (x y ux vx uy vy : farr) (sx sy : bvec G R) (l rr : coord G) :
      x ~~ y ->
      wf_array G R (fbase G R x) = true -> wf_array G R (fbase G R y) = true -> ndim G R (fbase G R x) = 2 ->
      (forall s m, In (s, m) (blocks G R (fbase G R x)) -> svd_product R svd_blk m) ->
      (forall s m, In (s, m) (blocks G R (fbase G R y)) -> svd_product R svd_blk m) ->
      f_svd G R svd_blk x = Some (ux, sx, vx) -> f_svd G R svd_blk y = Some (uy, sy, vy) ->
      resolve_oddpos (fparity G R x) (foddpos G R x) [] = Some (false, foddpos G R x) ->
      coords_ok G [ix0 G R (fbase G R x)] [l] = true -> coords_ok G [ix1 G R (fbase G R x)] [rr] = true ->
      exists px py, f_matmul G R (f_mul_diag ux sx) vx = Some px /\ f_matmul G R (f_mul_diag uy sy) vy = Some py /\
        foddpos G R px = foddpos G R py /\
        sem G R (f_value G R px) [l; rr] = sem G R (f_value G R py) [l; rr].
    Proof.
      intros H Hwx Hwy Hn Hpx Hpy Hsx Hsy Hodd Hl Hr.
      assert (Hn' : ndim G R (fbase G R y) = 2) by (rewrite <- (feq_ndim G R x y H); exact Hn).
      apply (split_product_congr (svd_scaled R svd_blk) x y _ _ _ _ l rr H Hwx Hwy Hn
               (svd_scaled_shapes R svd_blk Hshapes) Hpx Hpy
               (f_svd_scaled x ux vx sx Hwx Hn Hsx) (f_svd_scaled y uy vy sy Hwy Hn' Hsy) Hodd Hl Hr).
    Qed.

    (* each product alone reconstructs the value of its input: C11's statement for u.diag(s).vh *)
    Theorem f_svd_reconstruct (x u vh : farr) (s : bvec G R) (l rr : coord G) :
      wf_array G R (fbase G R x) = true -> ndim G R (fbase G R x) = 2 ->
      (forall sec m, In (sec, m) (blocks G R (fbase G R x)) -> svd_product R svd_blk m) ->
      f_svd G R svd_blk x = Some (u, s, vh) ->
      resolve_oddpos (fparity G R x) (foddpos G R x) [] = Some (false, foddpos G R x) ->
      coords_ok G [ix0 G R (fbase G R x)] [l] = true -> coords_ok G [ix1 G R (fbase G R x)] [rr] = true ->
      exists p, f_matmul G R (f_mul_diag u s) vh = Some p /\ foddpos G R p = foddpos G R x /\
                sem G R (f_value G R p) [l; rr] = sem G R (f_value G R x) [l; rr].
    Proof.
      intros Hw Hn Hp Hs Hodd Hl Hr.
      exact (f_split_matmul G HG R RL cltb_irrefl cltb_trans cltb_total rneg_invol rneg_zero rneg_add rmul_neg_l
               (svd_scaled R svd_blk) x _ _ l rr Hw Hn (svd_scaled_shapes R svd_blk Hshapes) Hp
               (f_svd_scaled x u vh s Hw Hn Hs) Hodd Hl Hr).
    Qed.
  End SVD.
End ProductCongr.

(* ------------------------------------------------------------------ *)
(* Examples: Z2, integer data, odd charge, one label, a pending sign on the sector (0,1)
   (LinalgProofs.FermiEx.xf), exact per-block stand-ins *)
Module LinalgLazyEx.
  Import LinalgEx FermiEx.
  Local Open Scope Z_scope.

  (* qr_ex m = (m, I) and svd_ex m = (m, ones, I) are left-odd *)
  Example qr_ex_left_odd : left_odd ZRing qr_ex.
  Proof. intros m. reflexivity. Qed.
  Example svd_ex_left_odd : svd_left_odd ZRing svd_ex.
  Proof. intros m. reflexivity. Qed.
  Example svd_ex_s_even : svd_s_even ZRing svd_ex.
  Proof. intros m. reflexivity. Qed.

  (* a right-odd exact factorisation m = I . m (what plain Householder qr does: qr(-m) = (q, -r)) *)
  Definition qr_r (m : tensor ZRing) : tensor ZRing * tensor ZRing := (eye (sh0 ZRing m), m).
  Example qr_r_right_odd : right_odd ZRing qr_r.
  Proof. intros m. reflexivity. Qed.
  Example qr_r_shapes : split_shapes ZRing qr_r.
  Proof.
    intros m a b Hm Ha Hb Hl. exists a. unfold qr_r, sh0. cbn [fst snd]. rewrite Hm. cbn [nth].
    destruct (eye_facts a) as [E1 E2]. repeat split; assumption.
  Qed.

  Example xf_feq_sync : feq Z2 ZRing xf (f_phase_sync Z2 ZRing xf) /\ xf <> f_phase_sync Z2 ZRing xf.
  Proof. split; [apply (feq_sym Z2 ZRing), sync_feq | discriminate]. Qed.

  (* left-odd routine: Q of the lazy array carries the table, Q of the synchronised copy does not;
     their values coincide and R is the same array *)
  Example qr_lazy_vs_sync :
    match f_qr Z2 ZRing qr_ex xf, f_qr Z2 ZRing qr_ex (f_phase_sync Z2 ZRing xf) with
    | Some (q, r), Some (q', r') =>
        fphases Z2 ZRing q = [[0; 1]] /\ fphases Z2 ZRing q' = [] /\
        farray_eqb Z2 ZRing q q' = true /\ farray_eqb_strict Z2 ZRing r r' = true /\
        lookup (list_eqb Z.eqb) [0; 1] (blocks Z2 ZRing (f_value Z2 ZRing q)) = Some (@mkT ZRing [2; 2]%nat [-1; -2; -3; -4])
    | _, _ => False
    end.
  Proof. vm_compute. repeat split; reflexivity. Qed.

  Example qr_sync_instance :
    f_qr Z2 ZRing qr_ex (f_phase_sync Z2 ZRing xf)
    = match f_qr Z2 ZRing qr_ex xf with Some (q, r) => Some (f_phase_sync Z2 ZRing q, r) | None => None end.
  Proof. exact (qr_sync Z2 Z2_laws ZRing qr_ex qr_ex_left_odd xf). Qed.

  Example svd_lazy_vs_sync :
    match f_svd Z2 ZRing svd_ex xf, f_svd Z2 ZRing svd_ex (f_phase_sync Z2 ZRing xf) with
    | Some (u, s, vh), Some (u', s', vh') =>
        fphases Z2 ZRing u = [[0; 1]] /\ fphases Z2 ZRing u' = [] /\
        farray_eqb Z2 ZRing u u' = true /\ s = s' /\ farray_eqb_strict Z2 ZRing vh vh' = true /\ length s = 2%nat
    | _, _ => False
    end.
  Proof. vm_compute. repeat split; reflexivity. Qed.

  (* right-odd routine: the factor VALUES differ (no congruence for Q and R separately) ... *)
  Example right_odd_values_differ :
    match f_qr Z2 ZRing qr_r xf, f_qr Z2 ZRing qr_r (f_phase_sync Z2 ZRing xf) with
    | Some (q, r), Some (q', r') =>
        let blk k y := lookup (list_eqb Z.eqb) k (blocks Z2 ZRing (f_value Z2 ZRing y)) in
        blk [0; 1] q = Some (@mkT ZRing [2; 2]%nat [-1; 0; 0; -1]) /\ blk [0; 1] q' = Some (@mkT ZRing [2; 2]%nat [1; 0; 0; 1]) /\
        blk [1; 1] r = Some (@mkT ZRing [2; 2]%nat [-1; -2; -3; -4]) /\ blk [1; 1] r' = Some (@mkT ZRing [2; 2]%nat [1; 2; 3; 4])
    | _, _ => False
    end.
  Proof. vm_compute. repeat split; reflexivity. Qed.

  (* ... but the products agree: the hypotheses of split_product_sync on this instance *)
  Example xf_products_r : forall s m, In (s, m) (blocks Z2 ZRing (fbase Z2 ZRing xf)) ->
    split_product ZRing qr_r m /\ split_product ZRing qr_r (tneg ZRing m).
  Proof.
    intros s m [H|[H|[]]]; inversion H; subst; split; intros i j Hi Hj; cbn [tshape tneg tmap nth] in Hi, Hj;
      repeat (destruct i as [|i]; try lia); repeat (destruct j as [|j]; try lia); vm_compute; reflexivity.
  Qed.

  Example product_instance l rr :
    coords_ok Z2 [ix0 Z2 ZRing xb] [l] = true -> coords_ok Z2 [ix1 Z2 ZRing xb] [rr] = true ->
    exists qx rx qy ry px py,
      f_qr Z2 ZRing qr_r xf = Some (qx, rx) /\ f_qr Z2 ZRing qr_r (f_phase_sync Z2 ZRing xf) = Some (qy, ry) /\
      f_matmul Z2 ZRing qx rx = Some px /\ f_matmul Z2 ZRing qy ry = Some py /\
      foddpos Z2 ZRing px = foddpos Z2 ZRing py /\
      sem Z2 ZRing (f_value Z2 ZRing px) [l; rr] = sem Z2 ZRing (f_value Z2 ZRing py) [l; rr].
  Proof.
    intros Hl Hr. destruct xf_hyps as [Hw Hn].
    destruct (f_qr Z2 ZRing qr_r xf) as [[qx rx]|] eqn:Ex; [|vm_compute in Ex; discriminate].
    destruct (f_qr Z2 ZRing qr_r (f_phase_sync Z2 ZRing xf)) as [[qy ry]|] eqn:Ey; [|vm_compute in Ey; discriminate].
    destruct (split_product_sync Z2 Z2_laws ZRing ZRing_sum_laws (builtin_cltb_irrefl Z2 bs_Z2) (builtin_cltb_trans Z2 bs_Z2)
                (builtin_cltb_total Z2 bs_Z2) ZRing_rneg_invol ZRing_rneg_zero
                (fun a b : Z => Z.opp_add_distr a b) (fun a b : Z => Z.mul_opp_l a b)
                qr_r xf qx rx qy ry l rr Hw Hn qr_r_shapes xf_products_r Ex Ey
                (resolve_at_most_one (fparity Z2 ZRing xf) (foddpos Z2 ZRing xf) (le_n 1)) Hl Hr)
      as (px & py & H1 & H2 & H3 & H4).
    exists qx, rx, qy, ry, px, py. repeat split; assumption.
  Qed.

  (* u . diag(s) . vh for the lazy array: hypotheses of f_svd_reconstruct / svd_product_congr *)
  Example svd_product_instance l rr :
    coords_ok Z2 [ix0 Z2 ZRing xb] [l] = true -> coords_ok Z2 [ix1 Z2 ZRing xb] [rr] = true ->
    exists u s vh p, f_svd Z2 ZRing svd_ex xf = Some (u, s, vh) /\
      f_matmul Z2 ZRing (f_mul_diag Z2 ZRing u s) vh = Some p /\
      sem Z2 ZRing (f_value Z2 ZRing p) [l; rr] = sem Z2 ZRing (f_value Z2 ZRing xf) [l; rr].
  Proof.
    intros Hl Hr. destruct xf_hyps as [Hw Hn].
    destruct (f_svd Z2 ZRing svd_ex xf) as [[[u s] vh]|] eqn:E; [|vm_compute in E; discriminate].
    destruct (f_svd_reconstruct Z2 Z2_laws ZRing ZRing_sum_laws (builtin_cltb_irrefl Z2 bs_Z2) (builtin_cltb_trans Z2 bs_Z2)
                (builtin_cltb_total Z2 bs_Z2) ZRing_rneg_invol ZRing_rneg_zero
                (fun a b : Z => Z.opp_add_distr a b) (fun a b : Z => Z.mul_opp_l a b)
                svd_ex svd_ex_shapes xf u vh s l rr Hw Hn) as (p & Hp & _ & Hs); try assumption.
    - intros sec m [H|[H|[]]]; inversion H; subst; intros i j Hi Hj; cbn [tshape nth] in Hi, Hj;
        repeat (destruct i as [|i]; try lia); repeat (destruct j as [|j]; try lia); vm_compute; reflexivity.
    - exact (resolve_at_most_one (fparity Z2 ZRing xf) (foddpos Z2 ZRing xf) (le_n 1)).
    - now exists u, s, vh, p.
  Qed.

  (* eigh / solve: a charge-0 matrix with a pending sign on its odd sector, and a vector with one *)
  Definition ab : aarray Z2 ZRing :=
    mkA Z2 ZRing [Index Z2 [(0, 2%nat); (1, 1%nat)] false None; Index Z2 [(0, 2%nat); (1, 1%nat)] true None] 0
      [([0; 0], @mkT ZRing [2; 2]%nat [1; 0; 0; 1]); ([1; 1], @mkT ZRing [1; 1]%nat [1])].
  Definition af : farray Z2 ZRing := mkF Z2 ZRing ab [[1; 1]] [].
  Definition bf : farray Z2 ZRing :=
    mkF Z2 ZRing (mkA Z2 ZRing [Index Z2 [(0, 2%nat); (1, 1%nat)] false None] 1 [([1], @mkT ZRing [1]%nat [7])]) [[1]] [([2], false)].

  Example af_feq_sync : feq Z2 ZRing af (f_phase_sync Z2 ZRing af) /\ fphases Z2 ZRing af <> fphases Z2 ZRing (f_phase_sync Z2 ZRing af).
  Proof. split; [apply (feq_sym Z2 ZRing), sync_feq | discriminate]. Qed.

  Example eigh_instance :
    f_eigh Z2 ZRing eigh_ex af = f_eigh Z2 ZRing eigh_ex (f_phase_sync Z2 ZRing af) /\
    match f_eigh Z2 ZRing eigh_ex af with
    | Some (w, v) => w = [(0, @mkT ZRing [2]%nat [1; 1]); (1, @mkT ZRing [1]%nat [1])] /\ fphases Z2 ZRing v = []
    | None => False
    end.
  Proof.
    split; [symmetry; exact (eigh_sync Z2 ZRing eigh_ex af)|]. vm_compute. split; reflexivity.
  Qed.

  (* the pending signs of a (on (1,1)) and of b (on (1)) are both consumed; the stand-in solver
     returns the synchronised b = -7 *)
  Example solve_instance_lazy :
    f_solve Z2 ZRing solve_ex af bf = f_solve Z2 ZRing solve_ex (f_phase_sync Z2 ZRing af) (f_phase_sync Z2 ZRing bf) /\
    match f_solve Z2 ZRing solve_ex af bf with
    | Some x => blocks Z2 ZRing (f_value Z2 ZRing x) = [([1], @mkT ZRing [1]%nat [-7])] /\ foddpos Z2 ZRing x = [([2], false)]
    | None => False
    end.
  Proof.
    split; [symmetry; exact (proj1 (solve_sync Z2 ZRing solve_ex af bf))|]. vm_compute. split; reflexivity.
  Qed.
End LinalgLazyEx.
