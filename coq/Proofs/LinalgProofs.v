(* Proofs/LinalgProofs.v — properties C11 / C12: the bookkeeping of qr / svd / eigh /
   solve (Model/Linalg.v) turns the per-block LAPACK contracts (Section
   hypotheses, DESIGN 2.2) into the block-sparse contracts.  *)
From SV Require Import Base.Prelude Base.Sym Base.Tensor Gen.PhasePerm Model.Sectors Model.Array Model.Arith
  Model.Wf Model.Fermi Model.Linalg Model.SymInst
  Proofs.TensorProofs Proofs.SymLaws Proofs.GroupFacts Proofs.Tdot Proofs.TdotInst Proofs.StructProofs Proofs.LazyProofs.
From Coq Require Import Permutation.
Local Open Scope nat_scope.

(* ------------------------------------------------------------------ *)
(* Python `d[k] = v` in a loop over items with pairwise distinct keys never
   overwrites: the dict is the list of the written entries, in order *)
Section FoldDset.
  Context {K V A : Type} (e : K -> K -> bool) (e_spec : forall a b, e a b = true <-> a = b).

  Lemma dset_absent k v (d : list (K * V)) : ~ In k (keys d) -> dset e k v d = d ++ [(k, v)].
  Proof.
    induction d as [|[k' v'] d IH]; intros H; cbn [dset app]; [reflexivity|].
    destruct (e k k') eqn:E.
    - apply e_spec in E. subst k'. exfalso. apply H. now left.
    - f_equal. apply IH. intros Hin. apply H. now right.
  Qed.

  Lemma fold_dset_opt (kf : A -> K) (g : A -> option V) l : forall acc,
    NoDup (map kf l) -> (forall a, In a l -> ~ In (kf a) (keys acc)) ->
    fold_left (fun acc a => match g a with Some v => dset e (kf a) v acc | None => acc end) l acc
    = acc ++ flat_map (fun a => match g a with Some v => [(kf a, v)] | None => [] end) l.
  Proof.
    induction l as [|a l IH]; intros acc Hnd Hfresh; cbn [fold_left flat_map]; [now rewrite app_nil_r|].
    cbn [map] in Hnd. inversion Hnd as [|? ? Hna Hnd']; subst.
    destruct (g a) as [v|].
    - rewrite dset_absent by (apply Hfresh; now left).
      rewrite IH; [now rewrite <- app_assoc | exact Hnd' |].
      intros b Hb Hin. unfold keys in Hin. rewrite map_app, in_app_iff in Hin. destruct Hin as [Hin|Hin].
      + apply (Hfresh b); [now right | exact Hin].
      + cbn [map fst] in Hin. destruct Hin as [Heq|[]]. apply Hna. rewrite Heq. now apply in_map.
    - cbn [app]. apply IH; [exact Hnd'|]. intros b Hb. apply Hfresh. now right.
  Qed.

  Lemma fold_dset_fresh (kf : A -> K) (vf : A -> V) l :
    NoDup (map kf l) ->
    fold_left (fun acc a => dset e (kf a) (vf a) acc) l [] = map (fun a => (kf a, vf a)) l.
  Proof.
    intros Hnd.
    pose proof (fold_dset_opt kf (fun a => Some (vf a)) l [] Hnd (fun a _ H => H)) as E.
    etransitivity; [exact E|]. clear E.
    clear Hnd. cbn [app]. induction l as [|a l IH]; [reflexivity|]. cbn [flat_map map app]. now rewrite IH.
  Qed.
End FoldDset.

(* ------------------------------------------------------------------ *)
(* BlockIndex sorts its table: insertion sort by a strict total order on distinct keys *)
Section SortCm.
  Context (G : Symmetry) (HG : GroupLaws G).
  Context (cltb_irrefl : forall c : C G, cltb G c c = false)
          (cltb_trans : forall a b c : C G, cltb G a b = true -> cltb G b c = true -> cltb G a c = true)
          (cltb_total : forall a b : C G, a <> b -> cltb G a b = true \/ cltb G b a = true).
  Notation lt := (fun a b : C G * nat => cltb G (fst a) (fst b)).

  Lemma sorted_cons_intro x l : (forall y, In y l -> cltb G x y = true) -> sorted_by (cltb G) l = true ->
    sorted_by (cltb G) (x :: l) = true.
  Proof.
    destruct l as [|y l]; intros Hx Hs; [reflexivity|]. cbn [sorted_by]. rewrite (Hx y) by (now left). exact Hs.
  Qed.

  Lemma insert_sorted_keys (x : C G * nat) l :
    sorted_by (cltb G) (map fst l) = true -> ~ In (fst x) (map fst l) ->
    sorted_by (cltb G) (map fst (insert_sorted lt x l)) = true.
  Proof.
    induction l as [|y l IH]; intros Hs Hni; cbn [insert_sorted]; [reflexivity|].
    cbn [map] in Hs, Hni.
    pose proof (sorted_by_tail G (fst y) (map fst l) Hs) as Hst.
    destruct (cltb G (fst y) (fst x)) eqn:E.
    - cbn [map]. apply sorted_cons_intro.
      + intros k Hk. apply (Permutation_in _ (Permutation_map fst (insert_sorted_perm lt x l))) in Hk.
        cbn [map] in Hk. destruct Hk as [<-|Hk]; [exact E|].
        now apply (sorted_by_head G cltb_trans (map fst l) (fst y) k Hs).
      + apply IH; [exact Hst|]. intros H. apply Hni. now right.
    - cbn [map]. apply sorted_cons_intro; [|exact Hs].
      assert (Hxy : cltb G (fst x) (fst y) = true).
      { destruct (cltb_total (fst x) (fst y)) as [H|H]; [|exact H|congruence].
        intros Heq. apply Hni. now left. }
      intros k [<-|Hk]; [exact Hxy|]. apply (cltb_trans _ (fst y)); [exact Hxy|].
      now apply (sorted_by_head G cltb_trans (map fst l) (fst y) k Hs).
  Qed.

  Lemma sort_cm_perm cm : Permutation (sort_cm G cm) cm.
  Proof. apply isort_perm. Qed.

  Lemma sort_cm_sorted cm : NoDup (map fst cm) -> sorted_by (cltb G) (map fst (sort_cm G cm)) = true.
  Proof.
    unfold sort_cm, isort. induction cm as [|x cm IH]; intros Hnd; [reflexivity|].
    cbn [map] in Hnd. inversion Hnd as [|? ? Hni Hnd']; subst. cbn [fold_right].
    apply insert_sorted_keys; [now apply IH|].
    intros Hin. apply Hni. apply (Permutation_in _ (Permutation_map fst (sort_cm_perm cm))). exact Hin.
  Qed.

  Lemma lookup_perm {V} (d d' : list (C G * V)) c : Permutation d d' -> NoDup (map fst d) ->
    lookup (ceqb G) c d' = lookup (ceqb G) c d.
  Proof.
    intros Hp Hnd.
    assert (Hnd' : NoDup (map fst d')) by (apply (Permutation_NoDup (Permutation_map fst Hp)); exact Hnd).
    destruct (lookup (ceqb G) c d) as [v|] eqn:E.
    - apply (Tdot.lookup_In (ceqb G) (ceqb_eq G HG)) in E.
      apply (Tdot.lookup_nodup_In (ceqb G) (ceqb_eq G HG)); [exact Hnd'|]. now apply (Permutation_in _ Hp).
    - apply (StructProofs.lookup_None (ceqb G) (ceqb_eq G HG)) in E.
      apply (StructProofs.lookup_None (ceqb G) (ceqb_eq G HG)). intros Hin. apply E.
      unfold keys in *. apply (Permutation_in _ (Permutation_sym (Permutation_map fst Hp))). exact Hin.
  Qed.

  Lemma size_of_mk_index cm d c : NoDup (map fst cm) ->
    size_of G (mk_index G cm d None) c = match lookup (ceqb G) c cm with Some n => n | None => 0 end.
  Proof.
    intros Hnd. unfold size_of, mk_index. cbn [chargemap].
    now rewrite (lookup_perm cm (sort_cm G cm) c (Permutation_sym (sort_cm_perm cm)) Hnd).
  Qed.

  Lemma wf_mk_index cm d : NoDup (map fst cm) ->
    (forall p, In p cm -> valid G (fst p) = true /\ 0 < snd p) ->
    wf_index G (mk_index G cm d None) = true.
  Proof.
    intros Hnd Hall. unfold mk_index. cbn [wf_index]. rewrite andb_true_r. unfold cm_ok.
    rewrite sort_cm_sorted by exact Hnd. cbn [andb]. apply forallb_forall. intros p Hp.
    apply (Permutation_in _ (sort_cm_perm cm)) in Hp. destruct (Hall p Hp) as [Hv Hs].
    rewrite Hv. cbn [andb]. now apply Nat.ltb_lt.
  Qed.
End SortCm.

(* ------------------------------------------------------------------ *)
(* small boolean facts *)
Lemma NoDup_nodupb {A} (e : A -> A -> bool) (e_spec : forall a b, e a b = true <-> a = b) l :
  NoDup l -> nodupb e l = true.
Proof.
  induction 1 as [|x l Hni Hnd IH]; [reflexivity|]. cbn [nodupb]. rewrite IH, andb_true_r.
  destruct (mem e x l) eqn:E; [|reflexivity]. apply (Tdot.mem_In e e_spec) in E. contradiction.
Qed.

Lemma NoDup_map_inj {A B} (f : A -> B) l : (forall a b, f a = f b -> a = b) -> NoDup l -> NoDup (map f l).
Proof. intros Hf Hnd. apply NoDup_map_inj_on; [exact Hnd|]. intros a b _ _. apply Hf. Qed.

(* ------------------------------------------------------------------ *)
(* what `wf_array` says about a matrix *)
Section Mat.
  Context (G : Symmetry) (HG : GroupLaws G) (R : Ring).
  Notation sector := (list (C G)).
  Notation keq := (list_eqb (ceqb G)).
  Notation arr := (aarray G R).
  Notation ceqb_spec := (ceqb_eq G HG).
  Notation keq_spec := (Tdot.keq_spec G ceqb_spec).

  Lemma wf_index_entry ix c : wf_index G ix = true -> In c (icharges G ix) ->
    valid G c = true /\ 0 < size_of G ix c.
  Proof.
    destruct ix as [cm d sub]. cbn [wf_index]. intros H Hin. apply andb_true_iff in H. destruct H as [H _].
    unfold cm_ok in H. apply andb_true_iff in H. destruct H as [_ H]. rewrite forallb_forall in H.
    unfold icharges, size_of in *. cbn [chargemap] in *.
    destruct (lookup (ceqb G) c cm) as [n|] eqn:E.
    - apply (Tdot.lookup_In (ceqb G) ceqb_spec) in E. specialize (H _ E). cbn [fst snd] in H.
      apply andb_true_iff in H. destruct H as [Hv Hn]. apply Nat.ltb_lt in Hn. now split.
    - apply (StructProofs.lookup_None (ceqb G) ceqb_spec) in E. contradiction.
  Qed.

  Record mat_ok (x : arr) (i0 i1 : index G) : Prop := {
    mo_ix : indices G R x = [i0; i1];
    mo_wf0 : wf_index G i0 = true;
    mo_wf1 : wf_index G i1 = true;
    mo_q : valid G (charge G R x) = true;
    mo_nd : NoDup (sectors G R x);
    mo_blk : forall s m, In (s, m) (blocks G R x) ->
      exists c0 c1, s = [c0; c1] /\ In c0 (icharges G i0) /\ In c1 (icharges G i1) /\
        valid G c0 = true /\ valid G c1 = true /\
        combine G [sign G c0 (idual G i0); sign G c1 (idual G i1)] = charge G R x /\
        tshape m = [size_of G i0 c0; size_of G i1 c1] /\
        length (tdata m) = shape_size (tshape m) /\
        0 < size_of G i0 c0 /\ 0 < size_of G i1 c1
  }.

  Lemma wf_mat x : wf_array G R x = true -> ndim G R x = 2 -> mat_ok x (ix0 G R x) (ix1 G R x).
  Proof.
    destruct x as [ixs q bl]. unfold ndim, ix0, ix1. cbn [indices]. intros Hw Hn.
    destruct ixs as [|i0 [|i1 [|? ?]]]; try discriminate. cbn [nth].
    unfold wf_array in Hw. cbn [indices charge blocks sectors] in Hw.
    apply andb_true_iff in Hw. destruct Hw as [Hw Hbl]. apply andb_true_iff in Hw. destruct Hw as [Hw Hnd].
    apply andb_true_iff in Hw. destruct Hw as [Hw Hq]. cbn [forallb] in Hw.
    apply andb_true_iff in Hw. destruct Hw as [Hw0 Hw1]. apply andb_true_iff in Hw1. destruct Hw1 as [Hw1 _].
    split; cbn [indices charge blocks sectors]; try assumption; try reflexivity.
    - apply (Tdot.nodupb_NoDup keq keq_spec). exact Hnd.
    - intros s m Hin. rewrite forallb_forall in Hbl. specialize (Hbl _ Hin). cbn [fst snd] in Hbl.
      apply andb_true_iff in Hbl. destruct Hbl as [Hbl Hlen]. apply andb_true_iff in Hbl. destruct Hbl as [Hs Hsh].
      unfold sector_ok in Hs. apply andb_true_iff in Hs. destruct Hs as [Hs Hval].
      apply andb_true_iff in Hs. destruct Hs as [Hl Hmem]. apply Nat.eqb_eq in Hl.
      destruct s as [|c0 [|c1 [|? ?]]]; try discriminate. exists c0, c1.
      cbn [List.combine forallb fst snd] in Hmem.
      apply andb_true_iff in Hmem. destruct Hmem as [Hm0 Hm1]. apply andb_true_iff in Hm1. destruct Hm1 as [Hm1 _].
      apply (Tdot.mem_In (ceqb G) ceqb_spec) in Hm0. apply (Tdot.mem_In (ceqb G) ceqb_spec) in Hm1.
      destruct (wf_index_entry i0 c0 Hw0 Hm0) as [Hv0 Hp0]. destruct (wf_index_entry i1 c1 Hw1 Hm1) as [Hv1 Hp1].
      unfold is_valid_sector, signed_sector in Hval. cbn [map List.combine fst snd] in Hval. rewrite !xorb_false_l in Hval.
      apply ceqb_spec in Hval.
      apply (Tdot.list_eqb_spec Nat.eqb Nat.eqb_eq) in Hsh. unfold block_shape in Hsh. cbn [List.combine map fst snd] in Hsh.
      apply Nat.eqb_eq in Hlen.
      repeat split; try assumption.
  Qed.

  (* in a valid matrix the column charge determines the row charge (and conversely) *)
  Lemma col_determines_row x i0 i1 : mat_ok x i0 i1 ->
    inj_on (fun s : sector => col_charge G s) (sectors G R x).
  Proof.
    intros Hx s s' Hs Hs' Hc. unfold sectors in Hs, Hs'.
    apply in_map_iff in Hs. destruct Hs as [[s0 m] [<- Hin]].
    apply in_map_iff in Hs'. destruct Hs' as [[s1 m'] [<- Hin']]. cbn [fst] in *.
    destruct (mo_blk x i0 i1 Hx _ _ Hin) as (c0 & c1 & -> & _ & _ & Hv0 & Hv1 & Hq & _).
    destruct (mo_blk x i0 i1 Hx _ _ Hin') as (c0' & c1' & -> & _ & _ & Hv0' & Hv1' & Hq' & _).
    unfold col_charge in Hc. cbn [nth] in Hc. subst c1'. f_equal.
    rewrite <- Hq' in Hq. rewrite !(combine_two G) in Hq.
    apply (gadd_cancel_r G HG) in Hq; try (apply (sign_valid G HG); assumption).
    now apply (sign_inj G HG) in Hq.
  Qed.

  Lemma row_determines_col x i0 i1 : mat_ok x i0 i1 ->
    inj_on (fun s : sector => row_charge G s) (sectors G R x).
  Proof.
    intros Hx s s' Hs Hs' Hc. unfold sectors in Hs, Hs'.
    apply in_map_iff in Hs. destruct Hs as [[s0 m] [<- Hin]].
    apply in_map_iff in Hs'. destruct Hs' as [[s1 m'] [<- Hin']]. cbn [fst] in *.
    destruct (mo_blk x i0 i1 Hx _ _ Hin) as (c0 & c1 & -> & _ & _ & Hv0 & Hv1 & Hq & _).
    destruct (mo_blk x i0 i1 Hx _ _ Hin') as (c0' & c1' & -> & _ & _ & Hv0' & Hv1' & Hq' & _).
    unfold row_charge in Hc. cbn [nth] in Hc. subst c0'. f_equal. f_equal.
    rewrite <- Hq' in Hq. rewrite !(combine_two G) in Hq.
    apply (gadd_cancel_l G HG) in Hq; try (apply (sign_valid G HG); assumption).
    now apply (sign_inj G HG) in Hq.
  Qed.

  Lemma cols_nodup x i0 i1 : mat_ok x i0 i1 ->
    NoDup (map (fun sb : sector * tensor R => col_charge G (fst sb)) (blocks G R x)).
  Proof.
    intros Hx. rewrite <- (map_map fst (col_charge G)).
    apply NoDup_map_inj_on; [exact (mo_nd x i0 i1 Hx) | exact (col_determines_row x i0 i1 Hx)].
  Qed.

  Lemma rows_nodup x i0 i1 : mat_ok x i0 i1 ->
    NoDup (map (fun sb : sector * tensor R => row_charge G (fst sb)) (blocks G R x)).
  Proof.
    intros Hx. rewrite <- (map_map fst (row_charge G)).
    apply NoDup_map_inj_on; [exact (mo_nd x i0 i1 Hx) | exact (row_determines_col x i0 i1 Hx)].
  Qed.
End Mat.

(* ------------------------------------------------------------------ *)
(* the loop shared by qr and svd: structure and validity of the two factors *)
Section Split.
  Context (G : Symmetry) (HG : GroupLaws G) (R : Ring).
  Context (cltb_irrefl : forall c : C G, cltb G c c = false)
          (cltb_trans : forall a b c : C G, cltb G a b = true -> cltb G b c = true -> cltb G a c = true)
          (cltb_total : forall a b : C G, a <> b -> cltb G a b = true \/ cltb G b a = true).
  Notation sector := (list (C G)).
  Notation keq := (list_eqb (ceqb G)).
  Notation arr := (aarray G R).
  Notation ceqb_spec := (ceqb_eq G HG).
  Notation keq_spec := (Tdot.keq_spec G ceqb_spec).
  Notation col := (col_charge G).

  (* SHAPE CONTRACT of a per-block factorisation m = left . right (reduced qr / svd):
     a well-formed a x b block gives an a x k and a k x b factor, k > 0 *)
  Definition split_shapes (f : tensor R -> tensor R * tensor R) : Prop :=
    forall m a b, tshape m = [a; b] -> 0 < a -> 0 < b -> length (tdata m) = shape_size [a; b] ->
      exists k, 0 < k /\ tshape (fst (f m)) = [a; k] /\ tshape (snd (f m)) = [k; b] /\
                length (tdata (fst (f m))) = shape_size [a; k] /\
                length (tdata (snd (f m))) = shape_size [k; b].

  Section One.
    Context (f : tensor R -> tensor R * tensor R) (x : arr) (i0 i1 : index G).
    Context (Hx : mat_ok G R x i0 i1) (Hf : split_shapes f).
    Let bl := blocks G R x.
    Let cm := map (fun sb : sector * tensor R => (col (fst sb), ncols R (fst (f (snd sb))))) bl.
    Let bond := mk_index G cm (idual G i1) None.

    (* no dict entry is overwritten: the three dicts are the plain lists *)
    Lemma split_left_eq : split_left G R f bl = map (fun sb => (fst sb, fst (f (snd sb)))) bl.
    Proof. unfold split_left. apply (fold_dset_fresh keq keq_spec). exact (mo_nd G R x i0 i1 Hx). Qed.

    Lemma split_cm_eq : split_cm G R f bl = cm.
    Proof. unfold split_cm. apply (fold_dset_fresh (ceqb G) ceqb_spec). exact (cols_nodup G HG R x i0 i1 Hx). Qed.

    Lemma split_right_eq : split_right G R f bl = map (fun sb => ([col (fst sb); col (fst sb)], snd (f (snd sb)))) bl.
    Proof.
      unfold split_right. apply (fold_dset_fresh keq keq_spec).
      rewrite <- (map_map (fun sb : sector * tensor R => col (fst sb)) (fun c => [c; c])).
      apply NoDup_map_inj; [intros a b H; now inversion H | exact (cols_nodup G HG R x i0 i1 Hx)].
    Qed.

    Lemma cm_keys : map fst cm = map (fun sb : sector * tensor R => col (fst sb)) bl.
    Proof. unfold cm. now rewrite map_map. Qed.

    Lemma cm_nodup : NoDup (map fst cm).
    Proof. rewrite cm_keys. exact (cols_nodup G HG R x i0 i1 Hx). Qed.

    Lemma bond_index_eq : bond_index G R f x = bond.
    Proof.
      unfold bond_index, bond. fold bl. rewrite split_cm_eq. unfold ix1. now rewrite (mo_ix G R x i0 i1 Hx).
    Qed.

    (* facts about one stored block *)
    Lemma block_facts s m : In (s, m) bl ->
      exists c0 c1 k, s = [c0; c1] /\ 0 < k /\
        In c0 (icharges G i0) /\ In c1 (icharges G i1) /\ valid G c0 = true /\ valid G c1 = true /\
        combine G [sign G c0 (idual G i0); sign G c1 (idual G i1)] = charge G R x /\
        tshape m = [size_of G i0 c0; size_of G i1 c1] /\
        tshape (fst (f m)) = [size_of G i0 c0; k] /\ tshape (snd (f m)) = [k; size_of G i1 c1] /\
        length (tdata (fst (f m))) = shape_size [size_of G i0 c0; k] /\
        length (tdata (snd (f m))) = shape_size [k; size_of G i1 c1] /\
        size_of G bond c1 = k.
    Proof.
      intros Hin. destruct (mo_blk G R x i0 i1 Hx s m Hin) as (c0 & c1 & -> & H0 & H1 & Hv0 & Hv1 & Hq & Hsh & Hlen & Hp0 & Hp1).
      rewrite Hsh in Hlen. destruct (Hf m _ _ Hsh Hp0 Hp1 Hlen) as (k & Hk & Hq1 & Hr1 & Hq2 & Hr2).
      exists c0, c1, k. repeat split; try assumption.
      unfold bond. rewrite (size_of_mk_index G HG) by exact cm_nodup.
      assert (E : In (c1, k) cm).
      { unfold cm. apply in_map_iff. exists ([c0; c1], m). split; [|exact Hin]. cbn [fst snd]. unfold col_charge, ncols.
        cbn [nth]. rewrite Hq1. reflexivity. }
      now rewrite (Tdot.lookup_nodup_In (ceqb G) ceqb_spec c1 k cm cm_nodup E).
    Qed.

    Lemma bond_wf : wf_index G bond = true.
    Proof.
      unfold bond. apply (wf_mk_index G cltb_trans cltb_total); [exact cm_nodup|].
      intros p Hp. unfold cm in Hp. apply in_map_iff in Hp. destruct Hp as [[s m] [<- Hin]]. cbn [fst snd].
      destruct (block_facts s m Hin) as (c0 & c1 & k & -> & Hk & _ & _ & _ & Hv1 & _ & _ & Hq1 & _).
      unfold col_charge, ncols. cbn [nth]. rewrite Hq1. cbn [nth]. now split.
    Qed.

    (* one charge per input block, in sorted order *)
    Lemma bond_charges : Permutation (icharges G bond) (map col (sectors G R x)).
    Proof.
      unfold icharges, bond, mk_index. cbn [chargemap].
      rewrite (Permutation_map fst (sort_cm_perm G cm)). rewrite cm_keys. unfold sectors. now rewrite map_map.
    Qed.

    Lemma bond_length : length (chargemap G bond) = length bl.
    Proof.
      unfold bond, mk_index. cbn [chargemap]. rewrite (Permutation_length (sort_cm_perm G cm)). unfold cm. apply map_length.
    Qed.

    Lemma bond_dual : idual G bond = idual G i1 /\ idual G (iconj G bond) = negb (idual G i1) /\
                      chargemap G (iconj G bond) = chargemap G bond /\ isub G bond = None.
    Proof. unfold bond, mk_index. cbn [idual iconj chargemap isub]. repeat split. Qed.

    Definition left_arr : arr := mkA G R [i0; bond] (charge G R x) (map (fun sb => (fst sb, fst (f (snd sb)))) bl).
    Definition right_arr : arr :=
      mkA G R [iconj G bond; i1] (ident G) (map (fun sb => ([col (fst sb); col (fst sb)], snd (f (snd sb)))) bl).

    Lemma a_split_eq : a_split G R f x = Some (left_arr, right_arr).
    Proof.
      unfold a_split, ndim. rewrite (mo_ix G R x i0 i1 Hx). cbn [length Nat.eqb].
      rewrite bond_index_eq. unfold ix0, ix1. rewrite (mo_ix G R x i0 i1 Hx). cbn [nth]. fold bl.
      now rewrite split_left_eq, split_right_eq.
    Qed.

    Lemma in_bond c0 c1 m : In ([c0; c1], m) bl -> In c1 (icharges G bond).
    Proof.
      intros Hin. apply (Permutation_in _ (Permutation_sym bond_charges)). apply in_map_iff.
      exists [c0; c1]. split; [reflexivity|]. unfold sectors. apply in_map_iff. now exists ([c0; c1], m).
    Qed.

    Lemma left_wf : wf_array G R left_arr = true.
    Proof.
      unfold wf_array, left_arr, sectors. cbn [indices charge blocks forallb].
      rewrite (mo_wf0 G R x i0 i1 Hx), bond_wf, (mo_q G R x i0 i1 Hx). cbn [andb].
      apply andb_true_iff. split.
      - rewrite map_map. cbn [fst]. apply (NoDup_nodupb keq keq_spec). exact (mo_nd G R x i0 i1 Hx).
      - apply forallb_forall. intros sb Hsb. apply in_map_iff in Hsb. destruct Hsb as [[s m] [<- Hin]]. cbn [fst snd].
        destruct (block_facts s m Hin) as (c0 & c1 & k & -> & Hk & H0 & H1 & Hv0 & Hv1 & Hq & Hsh & Hq1 & Hr1 & Hq2 & Hr2 & Hsz).
        unfold sector_ok. cbn [length Nat.eqb List.combine forallb fst snd andb map].
        rewrite (proj2 (Tdot.mem_In (ceqb G) ceqb_spec c0 _) H0).
        rewrite (proj2 (Tdot.mem_In (ceqb G) ceqb_spec c1 _) (in_bond c0 c1 m Hin)). cbn [andb].
        unfold is_valid_sector, signed_sector. cbn [map List.combine fst snd]. rewrite !xorb_false_l.
        destruct bond_dual as [-> _]. rewrite Hq, (proj2 (ceqb_spec _ _) eq_refl). cbn [andb].
        unfold block_shape. cbn [List.combine map fst snd]. rewrite Hq1, Hsz.
        rewrite (proj2 (Tdot.list_eqb_spec Nat.eqb Nat.eqb_eq _ _) eq_refl). cbn [andb].
        apply Nat.eqb_eq. exact Hq2.
    Qed.

    Lemma right_wf : wf_array G R right_arr = true.
    Proof.
      unfold wf_array, right_arr, sectors. cbn [indices charge blocks forallb].
      assert (Hwc : wf_index G (iconj G bond) = true).
      { pose proof bond_wf as Hb. unfold bond, mk_index in *. cbn [iconj wf_index] in *. exact Hb. }
      rewrite Hwc, (mo_wf1 G R x i0 i1 Hx), (valid_ident G HG). cbn [andb].
      apply andb_true_iff. split.
      - rewrite map_map. cbn [fst]. apply (NoDup_nodupb keq keq_spec).
        rewrite <- (map_map (fun sb : sector * tensor R => col (fst sb)) (fun c => [c; c])).
        apply NoDup_map_inj; [intros a b H; now inversion H | exact (cols_nodup G HG R x i0 i1 Hx)].
      - apply forallb_forall. intros sb Hsb. apply in_map_iff in Hsb. destruct Hsb as [[s m] [<- Hin]]. cbn [fst snd].
        destruct (block_facts s m Hin) as (c0 & c1 & k & -> & Hk & H0 & H1 & Hv0 & Hv1 & Hq & Hsh & Hq1 & Hr1 & Hq2 & Hr2 & Hsz).
        unfold col_charge. cbn [nth].
        unfold sector_ok. cbn [length Nat.eqb List.combine forallb fst snd andb map].
        assert (Hic : icharges G (iconj G bond) = icharges G bond) by (unfold icharges; now destruct bond_dual as (_ & _ & -> & _)).
        rewrite Hic, (proj2 (Tdot.mem_In (ceqb G) ceqb_spec c1 _) (in_bond c0 c1 m Hin)).
        rewrite (proj2 (Tdot.mem_In (ceqb G) ceqb_spec c1 _) H1). cbn [andb].
        unfold is_valid_sector, signed_sector. cbn [map List.combine fst snd]. rewrite !xorb_false_l.
        destruct bond_dual as (_ & -> & _).
        change (combine G [sign G c1 (negb (idual G i1)); sign G c1 (idual G i1)])
          with (gadd G (sign G c1 (negb (idual G i1))) (sign G c1 (idual G i1))).
        rewrite (gadd_comm G HG), (sign_negb_inverse G HG c1 _ Hv1), (proj2 (ceqb_spec _ _) eq_refl). cbn [andb].
        unfold block_shape. cbn [List.combine map fst snd]. rewrite (size_of_iconj G), Hr1, Hsz.
        rewrite (proj2 (Tdot.list_eqb_spec Nat.eqb Nat.eqb_eq _ _) eq_refl). cbn [andb].
        apply Nat.eqb_eq. exact Hr2.
    Qed.
  End One.
End Split.

(* ------------------------------------------------------------------ *)
(* reconstruction: left . right = x in (charge, offset) coordinates *)
Lemma all_idx_1 k : all_idx [k] = map (fun o => [o]) (seq 0 k).
Proof.
  cbn [all_idx map]. generalize (seq 0 k). intros l. induction l as [|o l IH]; [reflexivity|].
  cbn [flat_map map app] in *. now rewrite IH.
Qed.

Lemma flat_map_single_in {A B} (h : A -> list B) (g : A -> B) l :
  (forall a, In a l -> h a = [g a]) -> flat_map h l = map g l.
Proof.
  induction l as [|a l IH]; intros H; [reflexivity|]. cbn [flat_map map].
  rewrite H by (now left). cbn [app]. f_equal. apply IH. intros b Hb. apply H. now right.
Qed.

Section Recon.
  Context (G : Symmetry) (HG : GroupLaws G) (R : Ring) (RL : SumLaws R).
  Context (cltb_irrefl : forall c : C G, cltb G c c = false)
          (cltb_trans : forall a b c : C G, cltb G a b = true -> cltb G b c = true -> cltb G a c = true)
          (cltb_total : forall a b : C G, a <> b -> cltb G a b = true \/ cltb G b a = true).
  Notation sector := (list (C G)).
  Notation keq := (list_eqb (ceqb G)).
  Notation arr := (aarray G R).
  Notation ceqb_spec := (ceqb_eq G HG).
  Notation keq_spec := (Tdot.keq_spec G ceqb_spec).
  Notation col := (col_charge G).
  Notation Sum := (rsum R).

  Lemma coords_ok_1 ix (c : coord G) : coords_ok G [ix] [c] = true <-> snd c < size_of G ix (fst c).
  Proof.
    unfold coords_ok. cbn [length Nat.eqb List.combine forallb fst snd andb]. rewrite andb_true_r. apply Nat.ltb_lt.
  Qed.

  (* a matrix product whose right operand only stores diagonal sectors (c, c):
     the sum over the inner index collapses to the block of the column charge *)
  Lemma matmul_diag_right (A r : arr) (l rr : coord G) :
    ndim G R A = 2 -> ndim G R r = 2 ->
    wf_array G R A = true -> wf_array G R r = true ->
    (forall s b, In (s, b) (blocks G R r) -> exists c, s = [c; c]) ->
    coords_ok G [ix0 G R A] [l] = true -> coords_ok G [ix1 G R r] [rr] = true ->
    exists res, a_matmul G R A r = Some res /\
      sem G R res [l; rr] =
      Sum (map (fun o => rmul R (sem G R A [l; (fst rr, o)]) (sem G R r [(fst rr, o); rr]))
               (seq 0 (size_of G (ix1 G R A) (fst rr)))).
  Proof.
    intros HnA Hnr HwA Hwr Hdiag Hl Hr.
    pose proof (wf_tables_nodup G HG R cltb_irrefl cltb_trans A HwA) as Htn.
    assert (Hcn : charges_nodup G [ix1 G R A] = true).
    { unfold tables_nodup in Htn. unfold charges_nodup, ix1. unfold ndim in HnA.
      destruct (indices G R A) as [|a0 [|a1 [|? ?]]]; try discriminate. cbn [forallb nth] in *.
      apply andb_true_iff in Htn. destruct Htn as [_ Htn]. exact Htn. }
    destruct (matmul_sem G R RL ceqb_spec A r l rr HnA Hnr HwA Hwr Hcn Hl Hr) as [res [Hres Hsem]].
    exists res. split; [exact Hres|]. rewrite Hsem. fold (ix1 G R A).
    rewrite (Tdot.rsum_index_coords G R RL).
    assert (Hnd : NoDup (map fst (chargemap G (ix1 G R A)))).
    { unfold charges_nodup in Hcn. cbn [forallb] in Hcn. rewrite andb_true_r in Hcn.
      exact (Tdot.nodupb_NoDup (ceqb G) ceqb_spec _ Hcn). }
    etransitivity.
    2:{ unfold size_of.
        pose proof (Tdot.rsum_lookup R RL (ceqb G) ceqb_spec (chargemap G (ix1 G R A)) (fst rr)
                      (fun d => Sum (map (fun o => rmul R (sem G R A [l; (fst rr, o)]) (sem G R r [(fst rr, o); rr])) (seq 0 d))) Hnd) as E.
        cbn beta in E. destruct (lookup (ceqb G) (fst rr) (chargemap G (ix1 G R A))); exact E. }
    apply (Tdot.rsum_ext R). intros p Hp. destruct (ceqb G (fst rr) (fst p)) eqn:E.
    - apply ceqb_spec in E. now rewrite E.
    - apply (Tdot.rsum_zero R RL). intros o _.
      assert (Hno : lookup keq [fst p; fst rr] (blocks G R r) = None).
      { apply (StructProofs.lookup_None keq keq_spec). intros Hin. unfold keys in Hin. apply in_map_iff in Hin.
        destruct Hin as [[s b] [Hs Hin]]. cbn [fst] in Hs. subst s. destruct (Hdiag _ _ Hin) as [c Hc].
        inversion Hc as [[H1 H2]]. assert (Heq : fst rr = fst p) by congruence.
        apply ceqb_spec in Heq. congruence. }
      unfold sem at 2. cbn [map fst]. rewrite Hno. apply (rmul_0_r R RL).
  Qed.

  (* RECONSTRUCTION CONTRACT of the per-block factorisation: left . right = m, entry by entry *)
  Definition split_product (f : tensor R -> tensor R * tensor R) (m : tensor R) : Prop :=
    forall i j, i < nth 0 (tshape m) 0 -> j < nth 1 (tshape m) 0 ->
      get R (ttensordot R (fst (f m)) (snd (f m)) [1] [0]) [i; j] = get R m [i; j].

  Lemma get_mm (q r : tensor R) a k b i j : tshape q = [a; k] -> tshape r = [k; b] -> i < a -> j < b ->
    get R (ttensordot R q r [1] [0]) [i; j] = Sum (map (fun o => rmul R (get R q [i; o]) (get R r [o; j])) (seq 0 k)).
  Proof.
    intros Hq Hr Hi Hj. change [i; j] with ([i] ++ [j]).
    rewrite (Tdot.get_ttensordot R q r [1] [0] [i] [j]); rewrite ?Hq, ?Hr.
    - cbn [take_axes map nth]. rewrite all_idx_1, map_map. apply (Tdot.rsum_ext R). intros o _. reflexivity.
    - reflexivity.
    - change (inb [a; b] [i; j] = true). cbn [inb].
      now rewrite (proj2 (Nat.ltb_lt _ _) Hi), (proj2 (Nat.ltb_lt _ _) Hj).
  Qed.

  Section One.
    Context (f : tensor R -> tensor R * tensor R) (x : arr) (i0 i1 : index G).
    Context (Hx : mat_ok G R x i0 i1) (Hf : split_shapes R f).
    Context (Hprod : forall s m, In (s, m) (blocks G R x) -> split_product f m).
    Notation L := (left_arr G R f x i0 i1).
    Notation Rt := (right_arr G R f x i1).

    Lemma left_lookup s m : In (s, m) (blocks G R x) -> lookup keq s (blocks G R L) = Some (fst (f m)).
    Proof.
      intros Hin. unfold left_arr. cbn [blocks]. apply (Tdot.lookup_nodup_In keq keq_spec).
      - rewrite map_map. cbn [fst]. exact (mo_nd G R x i0 i1 Hx).
      - apply in_map_iff. now exists (s, m).
    Qed.

    Lemma left_lookup_none s : lookup keq s (blocks G R x) = None -> lookup keq s (blocks G R L) = None.
    Proof.
      intros Hno. apply (StructProofs.lookup_None keq keq_spec). apply (StructProofs.lookup_None keq keq_spec) in Hno.
      unfold left_arr, keys in *. cbn [blocks]. now rewrite map_map.
    Qed.

    Lemma right_lookup s m : In (s, m) (blocks G R x) -> lookup keq [col s; col s] (blocks G R Rt) = Some (snd (f m)).
    Proof.
      intros Hin. unfold right_arr. cbn [blocks]. apply (Tdot.lookup_nodup_In keq keq_spec).
      - rewrite map_map. cbn [fst].
        rewrite <- (map_map (fun sb : sector * tensor R => col (fst sb)) (fun c => [c; c])).
        apply NoDup_map_inj; [intros a b H; now inversion H | exact (cols_nodup G HG R x i0 i1 Hx)].
      - apply in_map_iff. now exists (s, m).
    Qed.

    Theorem split_reconstruct (l rr : coord G) :
      coords_ok G [i0] [l] = true -> coords_ok G [i1] [rr] = true ->
      exists res, a_matmul G R L Rt = Some res /\ sem G R res [l; rr] = sem G R x [l; rr].
    Proof.
      intros Hl Hr.
      destruct (matmul_diag_right L Rt l rr eq_refl eq_refl
                  (left_wf G HG R cltb_trans cltb_total f x i0 i1 Hx Hf)
                  (right_wf G HG R cltb_trans cltb_total f x i0 i1 Hx Hf)) as [res [Hres Hsem]].
      - intros s b Hin. unfold right_arr in Hin. cbn [blocks] in Hin. apply in_map_iff in Hin.
        destruct Hin as [[s0 m0] [Heq _]]. inversion Heq. now exists (col s0).
      - exact Hl.
      - exact Hr.
      - exists res. split; [exact Hres|]. rewrite Hsem. clear Hsem Hres.
        unfold sem at 3. cbn [map fst snd].
        destruct (lookup keq [fst l; fst rr] (blocks G R x)) as [m|] eqn:E.
        + apply (Tdot.lookup_In keq keq_spec) in E.
          destruct (block_facts G HG R f x i0 i1 Hx Hf _ m E) as (c0 & c1 & k & Hs & Hk & H0 & H1 & Hv0 & Hv1 & Hq & Hsh & Hq1 & Hr1 & Hq2 & Hr2 & Hsz).
          inversion Hs; subst c0 c1.
          assert (Hsz' : size_of G (ix1 G R L) (fst rr) = k) by exact Hsz. rewrite Hsz'.
          apply coords_ok_1 in Hl. apply coords_ok_1 in Hr.
          rewrite <- (Hprod _ m E (snd l) (snd rr)) by (rewrite Hsh; cbn [nth]; assumption).
          rewrite (get_mm _ _ _ _ _ _ _ Hq1 Hr1 Hl Hr).
          apply (Tdot.rsum_ext R). intros o _. unfold sem. cbn [map fst snd].
          rewrite (left_lookup _ m E).
          pose proof (right_lookup _ m E) as Er. unfold col_charge in Er. cbn [nth] in Er. rewrite Er. reflexivity.
        + apply (Tdot.rsum_zero R RL). intros o _. unfold sem at 1. cbn [map fst snd].
          rewrite (left_lookup_none _ E). apply (rmul_0_l R RL).
    Qed.
  End One.
End Recon.

(* ------------------------------------------------------------------ *)
(* C11 for qr and svd: oracle contract => block-sparse contract *)
Section Decomp.
  Context (G : Symmetry) (HG : GroupLaws G) (R : Ring) (RL : SumLaws R).
  Context (cltb_irrefl : forall c : C G, cltb G c c = false)
          (cltb_trans : forall a b c : C G, cltb G a b = true -> cltb G b c = true -> cltb G a c = true)
          (cltb_total : forall a b : C G, a <> b -> cltb G a b = true \/ cltb G b a = true).
  Notation sector := (list (C G)).
  Notation keq := (list_eqb (ceqb G)).
  Notation arr := (aarray G R).
  Notation ceqb_spec := (ceqb_eq G HG).
  Notation keq_spec := (Tdot.keq_spec G ceqb_spec).
  Notation col := (col_charge G).

  (* the structure promised for the two factors of x (f = the per-block routine) *)
  Record split_spec (f : tensor R -> tensor R * tensor R) (x q r : arr) : Prop := {
    ss_ndim : ndim G R q = 2 /\ ndim G R r = 2;
    ss_first : ix0 G R q = ix0 G R x;                       (* Q / U keep the first index ... *)
    ss_charge_q : charge G R q = charge G R x;              (* ... and the charge *)
    ss_second : ix1 G R r = ix1 G R x;                      (* R / Vh keep the second index *)
    ss_charge_r : charge G R r = ident G;                   (* R / Vh charge = identity *)
    ss_conj : ix0 G R r = iconj G (ix1 G R q);              (* the bond: conjugate pair ... *)
    ss_dual_q : idual G (ix1 G R q) = idual G (ix1 G R x);  (* ... direction of x's second index on Q / U *)
    ss_dual_r : idual G (ix0 G R r) = negb (idual G (ix1 G R q));   (* opposite directions *)
    ss_cm : chargemap G (ix0 G R r) = chargemap G (ix1 G R q);
    ss_nosub : isub G (ix1 G R q) = None;
    ss_one_per_block : Permutation (icharges G (ix1 G R q)) (map col (sectors G R x)) /\
                       length (chargemap G (ix1 G R q)) = length (blocks G R x);
    ss_size : forall s m, In (s, m) (blocks G R x) -> size_of G (ix1 G R q) (col s) = ncols R (fst (f m));
    ss_sectors_q : sectors G R q = sectors G R x;
    ss_sectors_r : sectors G R r = map (fun s => [col s; col s]) (sectors G R x);   (* sectors (c, c) *)
    ss_blocks_q : blocks G R q = map (fun sb => (fst sb, fst (f (snd sb)))) (blocks G R x);
    ss_blocks_r : blocks G R r = map (fun sb => ([col (fst sb); col (fst sb)], snd (f (snd sb)))) (blocks G R x);
    ss_wf_q : wf_array G R q = true;
    ss_wf_r : wf_array G R r = true
  }.

  Theorem split_structure f x :
    wf_array G R x = true -> ndim G R x = 2 -> split_shapes R f ->
    exists q r, a_split G R f x = Some (q, r) /\ split_spec f x q r.
  Proof.
    intros Hw Hn Hf. pose proof (wf_mat G HG R x Hw Hn) as Hx.
    exists (left_arr G R f x (ix0 G R x) (ix1 G R x)), (right_arr G R f x (ix1 G R x)).
    split; [exact (a_split_eq G HG R f x _ _ Hx)|].
    pose proof (bond_dual G R f x (ix1 G R x)) as (Hd1 & Hd2 & Hd3 & Hd4).
    split; try reflexivity; try assumption.
    - split; reflexivity.
    - split; [exact (bond_charges G R f x (ix1 G R x)) | exact (bond_length G R f x (ix1 G R x))].
    - intros s m Hin.
      destruct (block_facts G HG R f x _ _ Hx Hf s m Hin) as (c0 & c1 & k & -> & _ & _ & _ & _ & _ & _ & _ & Hq1 & _ & _ & _ & Hsz).
      unfold col_charge, ncols. cbn [nth]. rewrite Hq1. exact Hsz.
    - unfold sectors, left_arr. cbn [blocks]. now rewrite map_map.
    - unfold sectors, right_arr. cbn [blocks]. now rewrite !map_map.
    - exact (left_wf G HG R cltb_trans cltb_total f x _ _ Hx Hf).
    - exact (right_wf G HG R cltb_trans cltb_total f x _ _ Hx Hf).
  Qed.

  Theorem split_matmul f x :
    wf_array G R x = true -> ndim G R x = 2 -> split_shapes R f ->
    (forall s m, In (s, m) (blocks G R x) -> split_product R f m) ->
    forall q r, a_split G R f x = Some (q, r) ->
    forall l rr, coords_ok G [ix0 G R x] [l] = true -> coords_ok G [ix1 G R x] [rr] = true ->
    exists res, a_matmul G R q r = Some res /\ sem G R res [l; rr] = sem G R x [l; rr].
  Proof.
    intros Hw Hn Hf Hp q r Hs l rr Hl Hr. pose proof (wf_mat G HG R x Hw Hn) as Hx.
    rewrite (a_split_eq G HG R f x _ _ Hx) in Hs. inversion Hs; subst q r.
    exact (split_reconstruct G HG R RL cltb_irrefl cltb_trans cltb_total f x _ _ Hx Hf Hp l rr Hl Hr).
  Qed.

  (* ---------------- qr ---------------- *)
  Section QR.
    Context (qr_blk : tensor R -> tensor R * tensor R).
    Context (qr_shapes : split_shapes R qr_blk).

    Theorem qr_structure x : wf_array G R x = true -> ndim G R x = 2 ->
      exists q r, a_qr G R qr_blk x = Some (q, r) /\ split_spec qr_blk x q r.
    Proof. intros Hw Hn. exact (split_structure qr_blk x Hw Hn qr_shapes). Qed.

    Theorem qr_reconstruct x q r :
      wf_array G R x = true -> ndim G R x = 2 ->
      (forall s m, In (s, m) (blocks G R x) -> split_product R qr_blk m) ->      (* mm q r = m, block by block *)
      a_qr G R qr_blk x = Some (q, r) ->
      forall l rr, coords_ok G [ix0 G R x] [l] = true -> coords_ok G [ix1 G R x] [rr] = true ->
      exists res, a_matmul G R q r = Some res /\ sem G R res [l; rr] = sem G R x [l; rr].
    Proof. intros Hw Hn Hp Hs. exact (split_matmul qr_blk x Hw Hn qr_shapes Hp q r Hs). Qed.
  End QR.

  (* ---------------- svd ---------------- *)
  Section SVD.
    Context (svd_blk : tensor R -> tensor R * tensor R * tensor R).
    Notation U m := (fst (svd_uv R svd_blk m)).
    Notation S m := (svd_s R svd_blk m).
    Notation Vh m := (snd (svd_uv R svd_blk m)).
    (* shape contract: a x b  |->  a x k, k, k x b  (k > 0) *)
    Definition svd_shapes : Prop :=
      forall m a b, tshape m = [a; b] -> 0 < a -> 0 < b -> length (tdata m) = shape_size [a; b] ->
        exists k, 0 < k /\ tshape (U m) = [a; k] /\ tshape (S m) = [k] /\ tshape (Vh m) = [k; b] /\
                  length (tdata (U m)) = shape_size [a; k] /\ length (tdata (Vh m)) = shape_size [k; b].
    (* product contract: (u scaled by s along its columns) . vh = m *)
    Definition svd_scaled (m : tensor R) : tensor R * tensor R := (tmul_diag R (U m) (S m) 1, Vh m).
    Definition svd_product (m : tensor R) : Prop := split_product R svd_scaled m.

    Context (Hshapes : svd_shapes).

    Lemma svd_uv_shapes : split_shapes R (svd_uv R svd_blk).
    Proof.
      intros m a b Hm Ha Hb Hl. destruct (Hshapes m a b Hm Ha Hb Hl) as (k & Hk & Hu & _ & Hv & Hu2 & Hv2).
      exists k. repeat split; assumption.
    Qed.

    Lemma svd_scaled_shapes : split_shapes R svd_scaled.
    Proof.
      intros m a b Hm Ha Hb Hl. destruct (Hshapes m a b Hm Ha Hb Hl) as (k & Hk & Hu & _ & Hv & Hu2 & Hv2).
      exists k. unfold svd_scaled. cbn [fst snd]. unfold tmul_diag. rewrite (tshape_build R).
      repeat split; try assumption. unfold build. cbn [tdata]. rewrite map_length, length_all_idx. now rewrite Hu.
    Qed.

    Theorem svd_structure x : wf_array G R x = true -> ndim G R x = 2 ->
      exists u s vh, a_svd G R svd_blk x = Some (u, s, vh) /\ split_spec (svd_uv R svd_blk) x u vh /\
        (* singular values: one block per input block, keyed by the column charge *)
        s = map (fun sb => (col (fst sb), S (snd sb))) (blocks G R x) /\
        NoDup (map fst s).
    Proof.
      intros Hw Hn. destruct (split_structure _ x Hw Hn svd_uv_shapes) as (u & vh & Hs & Hspec).
      pose proof (wf_mat G HG R x Hw Hn) as Hx.
      exists u, (svd_store G R svd_blk (blocks G R x)), vh. unfold a_svd. rewrite Hs.
      assert (E : svd_store G R svd_blk (blocks G R x) = map (fun sb => (col (fst sb), S (snd sb))) (blocks G R x)).
      { unfold svd_store. apply (fold_dset_fresh (ceqb G) ceqb_spec). exact (cols_nodup G HG R x _ _ Hx). }
      split; [reflexivity|]. split; [exact Hspec|]. split; [exact E|].
      rewrite E, map_map. exact (cols_nodup G HG R x _ _ Hx).
    Qed.

    (* u . diag(s) is the left factor of the "scaled" factorisation *)
    Lemma scaled_left x : wf_array G R x = true -> ndim G R x = 2 ->
      a_multiply_diagonal G R (left_arr G R (svd_uv R svd_blk) x (ix0 G R x) (ix1 G R x)) (svd_store G R svd_blk (blocks G R x)) 1
      = left_arr G R svd_scaled x (ix0 G R x) (ix1 G R x) /\
      right_arr G R (svd_uv R svd_blk) x (ix1 G R x) = right_arr G R svd_scaled x (ix1 G R x).
    Proof.
      intros Hw Hn. pose proof (wf_mat G HG R x Hw Hn) as Hx.
      assert (Hcm : map (fun sb : sector * tensor R => (col (fst sb), ncols R (fst (svd_uv R svd_blk (snd sb))))) (blocks G R x)
                  = map (fun sb : sector * tensor R => (col (fst sb), ncols R (fst (svd_scaled (snd sb))))) (blocks G R x)).
      { apply map_ext. intros sb. unfold svd_scaled, ncols, tmul_diag. cbn [fst]. now rewrite (tshape_build R). }
      split.
      - unfold a_multiply_diagonal, with_blocks, left_arr. cbn [indices charge blocks]. rewrite Hcm. f_equal.
        rewrite flat_map_concat_map, map_map, <- flat_map_concat_map.
        apply flat_map_single_in. intros [s m] Hin. cbn [fst snd].
        assert (E : svd_store G R svd_blk (blocks G R x) = map (fun sb => (col (fst sb), S (snd sb))) (blocks G R x)).
        { unfold svd_store. apply (fold_dset_fresh (ceqb G) ceqb_spec). exact (cols_nodup G HG R x _ _ Hx). }
        rewrite E. change (nth 1 s (ident G)) with (col s).
        rewrite (Tdot.lookup_nodup_In (ceqb G) ceqb_spec (col s) (S m)); [reflexivity | |].
        + rewrite map_map. exact (cols_nodup G HG R x _ _ Hx).
        + apply in_map_iff. now exists (s, m).
      - unfold right_arr. now rewrite Hcm.
    Qed.

    Theorem svd_reconstruct x u s vh :
      wf_array G R x = true -> ndim G R x = 2 ->
      (forall sec m, In (sec, m) (blocks G R x) -> svd_product m) ->     (* mm (scale_cols u s) vh = m, block by block *)
      a_svd G R svd_blk x = Some (u, s, vh) ->
      forall l rr, coords_ok G [ix0 G R x] [l] = true -> coords_ok G [ix1 G R x] [rr] = true ->
      exists res, a_matmul G R (a_multiply_diagonal G R u s 1) vh = Some res /\
                  sem G R res [l; rr] = sem G R x [l; rr].
    Proof.
      intros Hw Hn Hp Hs l rr Hl Hr. pose proof (wf_mat G HG R x Hw Hn) as Hx.
      unfold a_svd in Hs. rewrite (a_split_eq G HG R _ x _ _ Hx) in Hs. inversion Hs; subst u s vh.
      destruct (scaled_left x Hw Hn) as [-> ->].
      exact (split_reconstruct G HG R RL cltb_irrefl cltb_trans cltb_total svd_scaled x _ _ Hx svd_scaled_shapes Hp l rr Hl Hr).
    Qed.
  End SVD.
End Decomp.

(* ------------------------------------------------------------------ *)
(* solve *)
Lemma NoDup_flat_map_opt {A K V} (kf : A -> K) (g : A -> option V) l :
  NoDup (map kf l) ->
  NoDup (map fst (flat_map (fun a => match g a with Some v => [(kf a, v)] | None => [] end) l)).
Proof.
  induction l as [|a l IH]; intros Hnd; cbn [flat_map map]; [constructor|].
  cbn [map] in Hnd. inversion Hnd as [|? ? Hni Hnd']; subst. specialize (IH Hnd').
  destruct (g a) as [v|]; cbn [app map fst]; [|exact IH]. constructor; [|exact IH].
  intros Hin. apply Hni. apply in_map_iff in Hin. destruct Hin as [[k v'] [Hk Hin]]. cbn [fst] in Hk. subst k.
  apply in_flat_map in Hin. destruct Hin as [b [Hb Hin]]. destruct (g b); [|destruct Hin].
  destruct Hin as [Heq|[]]. inversion Heq as [[Hk Hv]]. now apply in_map.
Qed.

Lemma fold_left_ext_eq {A B} (f g : A -> B -> A) l : (forall a x, f a x = g a x) -> forall a, fold_left f l a = fold_left g l a.
Proof. intros H. induction l as [|x l IH]; intros a; cbn [fold_left]; [reflexivity|]. now rewrite H, IH. Qed.

Section Solve.
  Context (G : Symmetry) (HG : GroupLaws G) (R : Ring) (RL : SumLaws R).
  Context (cltb_irrefl : forall c : C G, cltb G c c = false)
          (cltb_trans : forall a b c : C G, cltb G a b = true -> cltb G b c = true -> cltb G a c = true).
  Context (solve_blk : tensor R -> tensor R -> tensor R).
  Notation sector := (list (C G)).
  Notation keq := (list_eqb (ceqb G)).
  Notation arr := (aarray G R).
  Notation ceqb_spec := (ceqb_eq G HG).
  Notation keq_spec := (Tdot.keq_spec G ceqb_spec).
  Notation col := (col_charge G).
  Notation row := (row_charge G).
  Notation Sum := (rsum R).

  (* CONTRACT of the per-block solver on a square n x n block and an n-vector *)
  Definition solve_shapes : Prop :=
    forall m bb n, tshape m = [n; n] -> tshape bb = [n] -> 0 < n ->
      tshape (solve_blk m bb) = [n] /\ length (tdata (solve_blk m bb)) = shape_size [n].
  Definition solve_product (m bb : tensor R) : Prop :=
    forall i, i < nth 0 (tshape m) 0 -> get R (ttensordot R m (solve_blk m bb) [1] [0]) [i] = get R bb [i].

  (* what wf_array says about a vector *)
  Record vec_ok (b : arr) (ib : index G) : Prop := {
    vo_ix : indices G R b = [ib];
    vo_q : valid G (charge G R b) = true;
    vo_nd : NoDup (sectors G R b);
    vo_blk : forall s t, In (s, t) (blocks G R b) ->
      exists c, s = [c] /\ valid G c = true /\ sign G c (idual G ib) = charge G R b /\ tshape t = [size_of G ib c]
  }.

  Lemma wf_vec b : wf_array G R b = true -> ndim G R b = 1 -> vec_ok b (nth 0 (indices G R b) (dflt_index G)).
  Proof.
    destruct b as [ixs q bl]. unfold ndim. cbn [indices]. intros Hw Hn.
    destruct ixs as [|ib [|? ?]]; try discriminate. cbn [nth].
    unfold wf_array in Hw. cbn [indices charge blocks] in Hw.
    apply andb_true_iff in Hw. destruct Hw as [Hw Hbl]. apply andb_true_iff in Hw. destruct Hw as [Hw Hnd].
    apply andb_true_iff in Hw. destruct Hw as [Hw Hq]. cbn [forallb] in Hw. rewrite andb_true_r in Hw.
    split; cbn [indices charge blocks]; try assumption; try reflexivity.
    { apply (Tdot.nodupb_NoDup keq keq_spec). exact Hnd. }
    intros s t Hin. rewrite forallb_forall in Hbl. specialize (Hbl _ Hin). cbn [fst snd] in Hbl.
    apply andb_true_iff in Hbl. destruct Hbl as [Hbl Hlen]. apply andb_true_iff in Hbl. destruct Hbl as [Hs Hsh].
    unfold sector_ok in Hs. apply andb_true_iff in Hs. destruct Hs as [Hs Hval].
    apply andb_true_iff in Hs. destruct Hs as [Hl Hmem]. apply Nat.eqb_eq in Hl.
    destruct s as [|c [|? ?]]; try discriminate. exists c.
    cbn [List.combine forallb fst snd] in Hmem. rewrite andb_true_r in Hmem.
    apply (Tdot.mem_In (ceqb G) ceqb_spec) in Hmem.
    destruct (wf_index_entry G HG ib c Hw Hmem) as [Hv _].
    unfold is_valid_sector, signed_sector in Hval. cbn [map List.combine fst snd] in Hval. rewrite xorb_false_l in Hval.
    apply ceqb_spec in Hval. rewrite (combine_single G HG) in Hval by (now apply (sign_valid G HG)).
    apply (Tdot.list_eqb_spec Nat.eqb Nat.eqb_eq) in Hsh. unfold block_shape in Hsh. cbn [List.combine map fst snd] in Hsh.
    repeat split; assumption.
  Qed.

  Section One.
    Context (a b : arr) (i0 i1 ib : index G).
    Context (Ha : mat_ok G R a i0 i1) (Hb : vec_ok b ib).
    Context (Hcm : chargemap G ib = chargemap G i0) (Hdual : idual G ib = idual G i0).
    Context (Hsq : forall s m, In (s, m) (blocks G R a) -> nth 0 (tshape m) 0 = nth 1 (tshape m) 0).
    Context (Hshapes : solve_shapes).
    Let bla := blocks G R a.
    Let blb := blocks G R b.
    Definition solve_entry (sb : sector * tensor R) : list (sector * tensor R) :=
      match lookup keq [row (fst sb)] blb with Some bb => [([col (fst sb)], solve_blk (snd sb) bb)] | None => [] end.
    Definition solve_arr : arr :=
      mkA G R [iconj G i1] (combine G [charge G R b; sign G (charge G R a) true]) (flat_map solve_entry bla).

    Lemma col_keys_nodup : NoDup (map (fun sb : sector * tensor R => [col (fst sb)]) bla).
    Proof.
      rewrite <- (map_map (fun sb : sector * tensor R => col (fst sb)) (fun c => [c])).
      apply NoDup_map_inj; [intros x y H; now inversion H | exact (cols_nodup G HG R a i0 i1 Ha)].
    Qed.

    Lemma solve_blocks_eq : solve_blocks G R solve_blk bla blb = flat_map solve_entry bla.
    Proof.
      unfold solve_blocks.
      rewrite (fold_left_ext_eq _
                 (fun acc sb => match (match lookup keq [row (fst sb)] blb with Some bb => Some (solve_blk (snd sb) bb) | None => None end)
                                with Some v => dset keq [col (fst sb)] v acc | None => acc end)).
      2:{ intros acc sb. now destruct (lookup keq [row (fst sb)] blb). }
      rewrite (fold_dset_opt keq keq_spec (fun sb : sector * tensor R => [col (fst sb)])
               (fun sb => match lookup keq [row (fst sb)] blb with Some bb => Some (solve_blk (snd sb) bb) | None => None end)
               bla [] col_keys_nodup (fun _ _ H => H)).
      cbn [app]. apply flat_map_ext. intros sb. unfold solve_entry. now destruct (lookup keq [row (fst sb)] blb).
    Qed.

    Lemma a_solve_eq : a_solve G R solve_blk a b = Some solve_arr.
    Proof.
      unfold a_solve, ndim. rewrite (mo_ix G R a i0 i1 Ha), (vo_ix b ib Hb). cbn [length Nat.eqb andb].
      unfold ix1. rewrite (mo_ix G R a i0 i1 Ha). cbn [nth]. fold bla blb. now rewrite solve_blocks_eq.
    Qed.

    Lemma size_ib c : size_of G ib c = size_of G i0 c.
    Proof. unfold size_of. now rewrite Hcm. Qed.

    (* an entry of the solution comes from a block of a whose row sector is stored in b *)
    Lemma solve_entry_in sx tx : In (sx, tx) (flat_map solve_entry bla) ->
      exists c0 c1 m bb, In ([c0; c1], m) bla /\ In ([c0], bb) blb /\ sx = [c1] /\ tx = solve_blk m bb.
    Proof.
      intros Hin. apply in_flat_map in Hin. destruct Hin as [[s m] [Hsm Hin]]. unfold solve_entry in Hin. cbn [fst snd] in Hin.
      destruct (lookup keq [row s] blb) as [bb|] eqn:E; [|destruct Hin]. destruct Hin as [Heq|[]]. inversion Heq; subst sx tx.
      destruct (mo_blk G R a i0 i1 Ha s m Hsm) as (c0 & c1 & -> & _).
      apply (Tdot.lookup_In keq keq_spec) in E. exists c0, c1, m, bb. repeat split; assumption.
    Qed.

    (* RIGHT CHARGE: x conserves charge(b) - charge(a) on the conjugate of a's second index, and is valid *)
    Theorem solve_wf : wf_index G (iconj G i1) = true -> wf_array G R solve_arr = true.
    Proof.
      intros Hwi. unfold wf_array, solve_arr, sectors. cbn [indices charge blocks forallb].
      rewrite Hwi. cbn [andb].
      assert (Hvq : valid G (combine G [charge G R b; sign G (charge G R a) true]) = true).
      { apply (gadd_valid G HG); [exact (vo_q b ib Hb) | apply (sign_valid G HG); exact (mo_q G R a i0 i1 Ha)]. }
      rewrite Hvq. cbn [andb]. apply andb_true_iff. split.
      - apply (NoDup_nodupb keq keq_spec).
        pose proof (NoDup_flat_map_opt (fun sb : sector * tensor R => [col (fst sb)])
                 (fun sb => match lookup keq [row (fst sb)] blb with Some bb => Some (solve_blk (snd sb) bb) | None => None end)
                 bla col_keys_nodup) as H.
        erewrite flat_map_ext; [exact H|]. intros sb. unfold solve_entry. now destruct (lookup keq [row (fst sb)] blb).
      - apply forallb_forall. intros [sx tx] Hin. cbn [fst snd].
        destruct (solve_entry_in sx tx Hin) as (c0 & c1 & m & bb & Hm & Hbb & -> & ->).
        destruct (mo_blk G R a i0 i1 Ha _ _ Hm) as (c0' & c1' & Hs & H0 & H1 & Hv0 & Hv1 & Hq & Hsh & Hlen & Hp0 & Hp1).
        inversion Hs; subst c0' c1'.
        destruct (vo_blk b ib Hb _ _ Hbb) as (c & Hc & Hvc & Hqb & Hshb). inversion Hc; subst c.
        pose proof (Hsq _ _ Hm) as Hsquare. rewrite Hsh in Hsquare. cbn [nth] in Hsquare.
        rewrite size_ib, Hsquare in Hshb. rewrite Hsquare in Hsh.
        destruct (Hshapes m bb _ Hsh Hshb Hp1) as [Hx1 Hx2].
        unfold sector_ok. cbn [length Nat.eqb List.combine forallb fst snd andb map].
        assert (Hic : icharges G (iconj G i1) = icharges G i1) by (unfold icharges; now rewrite (iconj_chargemap G)).
        rewrite Hic, (proj2 (Tdot.mem_In (ceqb G) ceqb_spec c1 _) H1). cbn [andb].
        unfold is_valid_sector, signed_sector. cbn [map List.combine fst snd]. rewrite xorb_false_l, (iconj_dual G).
        assert (Hcharge : combine G [sign G c1 (negb (idual G i1))] = combine G [charge G R b; sign G (charge G R a) true]).
        { rewrite (combine_single G HG) by (now apply (sign_valid G HG)).
          rewrite (sign_negb G HG) by exact Hv1.
          rewrite <- Hqb, <- Hq, Hdual.
          change (sign G (combine G [sign G c0 (idual G i0); sign G c1 (idual G i1)]) true)
            with (gneg G (gadd G (sign G c0 (idual G i0)) (sign G c1 (idual G i1)))).
          change (combine G [sign G c0 (idual G i0); gneg G (gadd G (sign G c0 (idual G i0)) (sign G c1 (idual G i1)))])
            with (gadd G (sign G c0 (idual G i0)) (gneg G (gadd G (sign G c0 (idual G i0)) (sign G c1 (idual G i1))))).
          rewrite (gneg_gadd G HG) by (apply (sign_valid G HG); assumption).
          rewrite (gadd_comm G HG (gneg G (sign G c0 (idual G i0)))).
          rewrite (gadd_sub_cancel G HG); [reflexivity | now apply (sign_valid G HG) |].
          apply (gneg_valid G HG). now apply (sign_valid G HG). }
        rewrite Hcharge, (proj2 (ceqb_spec _ _) eq_refl). cbn [andb].
        unfold block_shape. cbn [List.combine map fst snd]. rewrite (size_of_iconj G), Hx1.
        rewrite (proj2 (Tdot.list_eqb_spec Nat.eqb Nat.eqb_eq _ _) eq_refl). cbn [andb].
        apply Nat.eqb_eq. exact Hx2.
    Qed.

    (* THE SYSTEM IS SATISFIED: (a @ x) agrees with b on every row sector that a stores, or that b does not *)
    Lemma solve_keys_nodup : NoDup (map fst (flat_map solve_entry bla)).
    Proof.
      pose proof (NoDup_flat_map_opt (fun sb : sector * tensor R => [col (fst sb)])
               (fun sb => match lookup keq [row (fst sb)] blb with Some bb => Some (solve_blk (snd sb) bb) | None => None end)
               bla col_keys_nodup) as H.
      erewrite flat_map_ext; [exact H|]. intros sb. unfold solve_entry. now destruct (lookup keq [row (fst sb)] blb).
    Qed.

    Lemma solve_lookup c0 c1 m bb : In ([c0; c1], m) bla -> In ([c0], bb) blb ->
      lookup keq [c1] (flat_map solve_entry bla) = Some (solve_blk m bb).
    Proof.
      intros Hm Hbb. apply (Tdot.lookup_nodup_In keq keq_spec); [exact solve_keys_nodup|].
      apply in_flat_map. exists ([c0; c1], m). split; [exact Hm|]. unfold solve_entry, row_charge, col_charge. cbn [fst snd nth].
      rewrite (Tdot.lookup_nodup_In keq keq_spec [c0] bb blb (vo_nd b ib Hb) Hbb). now left.
    Qed.

    Lemma solve_lookup_none c0 c1 m : In ([c0; c1], m) bla -> lookup keq [c0] blb = None ->
      lookup keq [c1] (flat_map solve_entry bla) = None.
    Proof.
      intros Hm Hno. apply (StructProofs.lookup_None keq keq_spec). intros Hin. unfold keys in Hin.
      apply in_map_iff in Hin. destruct Hin as [[sx tx] [Hk Hin]]. cbn [fst] in Hk. subst sx.
      destruct (solve_entry_in _ _ Hin) as (c0' & c1' & m' & bb & Hm' & Hbb & Hs & _). inversion Hs; subst c1'.
      assert (Heq : [c0'; c1] = [c0; c1]).
      { apply (col_determines_row G HG R a i0 i1 Ha); [| | reflexivity]; unfold sectors; apply in_map_iff;
          [now exists ([c0'; c1], m') | now exists ([c0; c1], m)]. }
      inversion Heq; subst c0'.
      apply (StructProofs.lookup_None keq keq_spec) in Hno. apply Hno. unfold keys. apply in_map_iff. now exists ([c0], bb).
    Qed.

    Theorem solve_residual (l : coord G) :
      wf_array G R a = true -> wf_index G (iconj G i1) = true ->
      (forall c0 c1 m bb, In ([c0; c1], m) bla -> In ([c0], bb) blb -> solve_product m bb) ->
      coords_ok G [i0] [l] = true ->
      (exists c1 m, In ([fst l; c1], m) bla) \/ lookup keq [fst l] blb = None ->
      exists res, a_matmul G R a solve_arr = Some res /\
                  charge G R res = combine G [charge G R a; charge G R solve_arr] /\
                  sem G R res [l] = sem G R b [l].
    Proof.
      intros Hwa Hwi Hprod Hl Hcase.
      assert (Hna : ndim G R a = 2) by (unfold ndim; now rewrite (mo_ix G R a i0 i1 Ha)).
      unfold a_matmul. rewrite Hna. change (ndim G R solve_arr) with 1.
      eexists. split; [reflexivity|]. split; [reflexivity|].
      pose proof (Tdot.blockwise_sem_wf G R RL ceqb_spec a solve_arr [0] [1] [0] [] [l] [] cltb_irrefl cltb_trans Hwa (solve_wf Hwi)) as E.
      rewrite Hna in E. change (ndim G R solve_arr) with 1 in E. rewrite (mo_ix G R a i0 i1 Ha) in E.
      specialize (E eq_refl eq_refl eq_refl eq_refl eq_refl Hl eq_refl).
      change ([l] ++ []) with [l] in E. rewrite E. clear E.
      unfold all_coords. cbn [take_axes map nth product]. rewrite (Tdot.rsum_flat_map R RL).
      transitivity (Sum (map (fun k => rmul R (sem G R a [l; k]) (sem G R solve_arr [k])) (index_coords G i1))).
      { apply (Tdot.rsum_ext R). intros k _. cbn [map]. now rewrite (Tdot.rsum_single R RL). }
      rewrite (Tdot.rsum_index_coords G R RL).
      assert (Hnd1 : NoDup (map fst (chargemap G i1))).
      { exact (Tdot.wf_index_nodup G cltb_irrefl cltb_trans i1 (mo_wf1 G R a i0 i1 Ha)). }
      unfold sem at 3. cbn [map fst snd].
      destruct Hcase as [(c1 & m & Hm) | Hno].
      - (* a stores the block (fst l, c1) *)
        destruct (mo_blk G R a i0 i1 Ha _ _ Hm) as (c0' & c1' & Hs & H0 & H1 & Hv0 & Hv1 & Hq & Hsh & Hlen & Hp0 & Hp1).
        inversion Hs; subst c0' c1'.
        transitivity (Sum (map (fun p : C G * nat => if ceqb G c1 (fst p)
            then Sum (map (fun o => rmul R (sem G R a [l; (c1, o)]) (sem G R solve_arr [(c1, o)])) (seq 0 (snd p))) else r0 R)
            (chargemap G i1))).
        { apply (Tdot.rsum_ext R). intros p Hp. destruct (ceqb G c1 (fst p)) eqn:Ec.
          - apply ceqb_spec in Ec. now rewrite Ec.
          - apply (Tdot.rsum_zero R RL). intros o _. unfold sem at 1. cbn [map fst snd].
            assert (Hnone : lookup keq [fst l; fst p] (blocks G R a) = None).
            { apply (StructProofs.lookup_None keq keq_spec). intros Hin. unfold keys in Hin. apply in_map_iff in Hin.
              destruct Hin as [[s' m'] [Hk Hin]]. cbn [fst] in Hk. subst s'.
              assert (Heq : [fst l; fst p] = [fst l; c1]).
              { apply (row_determines_col G HG R a i0 i1 Ha); [| | reflexivity]; unfold sectors; apply in_map_iff;
                  [now exists ([fst l; fst p], m') | now exists ([fst l; c1], m)]. }
              inversion Heq as [Hpc]. rewrite Hpc, (proj2 (ceqb_spec _ _) eq_refl) in Ec. discriminate. }
            rewrite Hnone. apply (rmul_0_l R RL). }
        rewrite (Tdot.rsum_lookup R RL (ceqb G) ceqb_spec (chargemap G i1) c1
                   (fun d => Sum (map (fun o => rmul R (sem G R a [l; (c1, o)]) (sem G R solve_arr [(c1, o)])) (seq 0 d))) Hnd1).
        assert (Hlk : lookup (ceqb G) c1 (chargemap G i1) = Some (size_of G i1 c1)).
        { unfold size_of. destruct (lookup (ceqb G) c1 (chargemap G i1)) eqn:El; [reflexivity|].
          apply (StructProofs.lookup_None (ceqb G) ceqb_spec) in El. contradiction. }
        rewrite Hlk.
        pose proof (Hsq _ _ Hm) as Hsquare. rewrite Hsh in Hsquare. cbn [nth] in Hsquare.
        apply (coords_ok_1 G) in Hl.
        destruct (lookup keq [fst l] (blocks G R b)) as [bb|] eqn:Eb.
        + apply (Tdot.lookup_In keq keq_spec) in Eb.
          destruct (vo_blk b ib Hb _ _ Eb) as (c & Hc & Hvc & Hqb & Hshb). inversion Hc; subst c.
          rewrite size_ib, Hsquare in Hshb. pose proof Hsh as Hsh'. rewrite Hsquare in Hsh'.
          destruct (Hshapes m bb _ Hsh' Hshb Hp1) as [Hx1 Hx2].
          rewrite <- (Hprod _ _ m bb Hm Eb (snd l)) by (rewrite Hsh; cbn [nth]; exact Hl).
          change [snd l] with ([snd l] ++ []).
          rewrite (Tdot.get_ttensordot R m (solve_blk m bb) [1] [0] [snd l] []); rewrite ?Hsh', ?Hx1.
          * cbn [take_axes map nth]. rewrite all_idx_1, map_map. apply (Tdot.rsum_ext R). intros o _.
            unfold sem. cbn [map fst snd blocks solve_arr]. fold bla.
            rewrite (Tdot.lookup_nodup_In keq keq_spec [fst l; c1] m bla (mo_nd G R a i0 i1 Ha) Hm).
            unfold solve_arr. cbn [blocks]. rewrite (solve_lookup _ _ m bb Hm Eb). reflexivity.
          * reflexivity.
          * change (inb [size_of G i1 c1] [snd l] = true). cbn [inb]. rewrite <- Hsquare.
            now rewrite (proj2 (Nat.ltb_lt _ _) Hl).
        + apply (Tdot.rsum_zero R RL). intros o _. unfold sem at 2. unfold solve_arr. cbn [map fst snd blocks].
          rewrite (solve_lookup_none _ _ m Hm Eb). apply (rmul_0_r R RL).
      - (* b does not store the row sector: both sides vanish unless a has the row, which the previous case covers *)
        fold blb. rewrite Hno. apply (Tdot.rsum_zero R RL). intros p _. apply (Tdot.rsum_zero R RL). intros o _.
        destruct (lookup keq [fst l; fst p] (blocks G R a)) as [m|] eqn:Ea.
        + apply (Tdot.lookup_In keq keq_spec) in Ea. unfold sem at 2. unfold solve_arr. cbn [map fst snd blocks].
          rewrite (solve_lookup_none _ _ m Ea Hno). apply (rmul_0_r R RL).
        + unfold sem at 1. cbn [map fst snd]. rewrite Ea. apply (rmul_0_l R RL).
    Qed.
  End One.
End Solve.

(* ------------------------------------------------------------------ *)
(* eigh: structure *)
Section Eigh.
  Context (G : Symmetry) (HG : GroupLaws G) (R : Ring).
  Context (eigh_blk : tensor R -> tensor R * tensor R).
  Notation sector := (list (C G)).
  Notation keq := (list_eqb (ceqb G)).
  Notation arr := (aarray G R).
  Notation ceqb_spec := (ceqb_eq G HG).
  Notation keq_spec := (Tdot.keq_spec G ceqb_spec).
  Notation col := (col_charge G).

  (* SHAPE CONTRACT: an n x n block gives n eigenvalues and an n x n eigenvector block *)
  Definition eigh_shapes : Prop :=
    forall m n, tshape m = [n; n] -> length (tdata m) = shape_size [n; n] ->
      tshape (fst (eigh_blk m)) = [n] /\ tshape (snd (eigh_blk m)) = [n; n] /\
      length (tdata (snd (eigh_blk m))) = shape_size [n; n].

  Theorem eigh_structure a :
    wf_array G R a = true -> ndim G R a = 2 -> charge G R a = ident G ->
    (forall s m, In (s, m) (blocks G R a) -> nth 0 (tshape m) 0 = nth 1 (tshape m) 0) ->
    eigh_shapes ->
    exists w v, a_eigh G R eigh_blk a = Some (w, v) /\
      indices G R v = indices G R a /\ charge G R v = charge G R a /\ sectors G R v = sectors G R a /\
      blocks G R v = map (fun sb => (fst sb, snd (eigh_blk (snd sb)))) (blocks G R a) /\
      (* eigenvalues: one block per input block, keyed by the column charge *)
      w = map (fun sb => (col (fst sb), fst (eigh_blk (snd sb)))) (blocks G R a) /\ NoDup (map fst w) /\
      (forall s m, In (s, m) (blocks G R a) -> tshape (fst (eigh_blk m)) = [size_of G (ix1 G R a) (col s)]) /\
      wf_array G R v = true.
  Proof.
    intros Hw Hn Hq Hsq Hsh. pose proof (wf_mat G HG R a Hw Hn) as Ha.
    set (i0 := ix0 G R a) in *. set (i1 := ix1 G R a) in *.
    assert (Ev : eigh_vecs G R eigh_blk (blocks G R a) = map (fun sb => (fst sb, snd (eigh_blk (snd sb)))) (blocks G R a)).
    { unfold eigh_vecs. apply (fold_dset_fresh keq keq_spec). exact (mo_nd G R a i0 i1 Ha). }
    assert (Ew : eigh_store G R eigh_blk (blocks G R a) = map (fun sb => (col (fst sb), fst (eigh_blk (snd sb)))) (blocks G R a)).
    { unfold eigh_store. apply (fold_dset_fresh (ceqb G) ceqb_spec). exact (cols_nodup G HG R a i0 i1 Ha). }
    exists (eigh_store G R eigh_blk (blocks G R a)), (with_blocks G R a (eigh_vecs G R eigh_blk (blocks G R a))).
    unfold a_eigh. rewrite Hn, (proj2 (ceqb_spec _ _) Hq). cbn [Nat.eqb andb].
    assert (Hblk : forall s m, In (s, m) (blocks G R a) ->
              tshape (fst (eigh_blk m)) = [size_of G i1 (col s)] /\ tshape (snd (eigh_blk m)) = tshape m /\
              length (tdata (snd (eigh_blk m))) = shape_size (tshape m)).
    { intros s m Hin. destruct (mo_blk G R a i0 i1 Ha s m Hin) as (c0 & c1 & -> & _ & _ & _ & _ & _ & Hshm & Hlen & _).
      pose proof (Hsq _ _ Hin) as Hs. rewrite Hshm in Hs. cbn [nth] in Hs.
      rewrite Hshm, Hs in *. destruct (Hsh m _ Hshm Hlen) as (H1 & H2 & H3). unfold col_charge. cbn [nth]. now repeat split. }
    split; [reflexivity|]. split; [reflexivity|]. split; [reflexivity|].
    split; [|split; [|split; [|split; [|split]]]].
    - unfold sectors, with_blocks. cbn [blocks]. rewrite Ev, map_map. reflexivity.
    - unfold with_blocks. cbn [blocks]. exact Ev.
    - exact Ew.
    - rewrite Ew, map_map. exact (cols_nodup G HG R a i0 i1 Ha).
    - intros s m Hin. now destruct (Hblk s m Hin).
    - unfold wf_array in *. unfold with_blocks, sectors in *. cbn [indices charge blocks].
      apply andb_true_iff in Hw. destruct Hw as [Hw Hbl]. apply andb_true_iff in Hw. destruct Hw as [Hw Hnd].
      rewrite Hw. cbn [andb]. rewrite Ev, map_map. cbn [fst].
      change (map (fun x : sector * tensor R => fst x) (blocks G R a)) with (map fst (blocks G R a)). rewrite Hnd. cbn [andb].
      apply forallb_forall. intros sb Hsb. apply in_map_iff in Hsb. destruct Hsb as [[s m] [<- Hin]]. cbn [fst snd].
      rewrite forallb_forall in Hbl. specialize (Hbl _ Hin). cbn [fst snd] in Hbl.
      destruct (Hblk s m Hin) as (_ & H2 & H3). rewrite H2, H3.
      apply andb_true_iff in Hbl. destruct Hbl as [Hbl Hlen]. rewrite Hbl. cbn [andb]. apply Nat.eqb_refl.
  Qed.
End Eigh.

(* ------------------------------------------------------------------ *)
(* C12: the same facts in dense wording *)
Section Dense.
  Context (G : Symmetry) (HG : GroupLaws G) (R : Ring) (RL : SumLaws R).
  Context (cltb_irrefl : forall c : C G, cltb G c c = false)
          (cltb_trans : forall a b c : C G, cltb G a b = true -> cltb G b c = true -> cltb G a c = true)
          (cltb_total : forall a b : C G, a <> b -> cltb G a b = true \/ cltb G b a = true).
  Notation sector := (list (C G)).
  Notation keq := (list_eqb (ceqb G)).
  Notation arr := (aarray G R).
  Notation ceqb_spec := (ceqb_eq G HG).
  Notation keq_spec := (Tdot.keq_spec G ceqb_spec).
  Notation col := (col_charge G).
  Notation Sum := (rsum R).

  (* the squared Frobenius norm over the stored blocks is the dense one *)
  Theorem norm_dense (x : arr) : wf_array G R x = true ->
    a_norm2 G R x = Sum (map (fun cs => rmul R (sem G R x cs) (rconj R (sem G R x cs))) (all_coords G (indices G R x))).
  Proof.
    intros Hw. apply (norm2_sem G HG R (radd_0_l R RL) (radd_comm R RL) (radd_assoc R RL) (rmul_0_l R RL) x Hw).
    exact (wf_tables_nodup G HG R cltb_irrefl cltb_trans x Hw).
  Qed.

  Lemma index_coords_in ix (k : coord G) : NoDup (icharges G ix) -> In k (index_coords G ix) -> snd k < size_of G ix (fst k).
  Proof.
    intros Hnd Hin. unfold index_coords in Hin. apply in_flat_map in Hin. destruct Hin as [p [Hp Hin]].
    apply in_map_iff in Hin. destruct Hin as [o [<- Ho]]. cbn [fst snd]. apply in_seq in Ho.
    rewrite (Tdot.size_of_in G ceqb_spec ix (fst p) (snd p) Hnd) by (now destruct p). lia.
  Qed.

  Section SVD.
    Context (svd_blk : tensor R -> tensor R * tensor R * tensor R).
    Context (Hshapes : svd_shapes R svd_blk).

    (* the returned triple densifies to A decomposition of the dense matrix:
       sum_k  u[i,k] * s[k] * vh[k,j]  =  x[i,j]   for all coordinates; the singular values
       are those of the per-block oracles, gathered per (column) charge *)
    Theorem dense_is_svd_partial x u s vh :
      wf_array G R x = true -> ndim G R x = 2 ->
      (forall sec m, In (sec, m) (blocks G R x) -> svd_product R svd_blk m) ->
      a_svd G R svd_blk x = Some (u, s, vh) ->
      (forall l rr, coords_ok G [ix0 G R x] [l] = true -> coords_ok G [ix1 G R x] [rr] = true ->
         Sum (map (fun k => rmul R (rmul R (sem G R u [l; k]) (vsem G R s k)) (sem G R vh [k; rr]))
                  (index_coords G (ix1 G R u))) = sem G R x [l; rr]) /\
      s = map (fun sb => (col (fst sb), svd_s R svd_blk (snd sb))) (blocks G R x) /\
      NoDup (map fst s).
    Proof.
      intros Hw Hn Hp Hs.
      destruct (svd_structure G HG R cltb_trans cltb_total svd_blk Hshapes x Hw Hn) as (u' & s' & vh' & Hs' & Hspec & Es & Hnd).
      rewrite Hs in Hs'. injection Hs' as E1 E2 E3. rewrite <- E2 in Es, Hnd. rewrite <- E1, <- E3 in Hspec.
      clear E1 E2 E3 u' s' vh'. split; [|split; [exact Es | exact Hnd]].
      intros l rr Hl Hr.
      destruct (svd_reconstruct G HG R RL cltb_irrefl cltb_trans cltb_total svd_blk Hshapes x u s vh Hw Hn Hp Hs l rr Hl Hr)
        as [res [Hres Hsem]].
      pose proof (wf_mat G HG R x Hw Hn) as Hx.
      pose proof Hs as Hs2. unfold a_svd in Hs2. rewrite (a_split_eq G HG R _ x _ _ Hx) in Hs2. injection Hs2 as Eu Es2 Ev.
      destruct (scaled_left G HG R svd_blk x Hw Hn) as [Eus Evh].
      rewrite Es2 in Eus.
      assert (Hwus : wf_array G R (a_multiply_diagonal G R u s 1) = true).
      { rewrite <- Eu, Eus. exact (left_wf G HG R cltb_trans cltb_total _ x _ _ Hx (svd_scaled_shapes R svd_blk Hshapes)). }
      assert (Hwu : wf_array G R u = true) by exact (ss_wf_q G R _ _ _ _ Hspec).
      assert (Hwvh : wf_array G R vh = true) by exact (ss_wf_r G R _ _ _ _ Hspec).
      assert (Hixu : indices G R (a_multiply_diagonal G R u s 1) = indices G R u) by reflexivity.
      pose proof (wf_tables_nodup G HG R cltb_irrefl cltb_trans u Hwu) as Htn.
      destruct (ss_ndim G R _ _ _ _ Hspec) as [Hnu Hnv].
      assert (Hcn : charges_nodup G [ix1 G R u] = true).
      { unfold tables_nodup in Htn. unfold charges_nodup, ix1. unfold ndim in Hnu.
        destruct (indices G R u) as [|a0 [|a1 [|? ?]]]; try discriminate. cbn [forallb nth] in *.
        apply andb_true_iff in Htn. destruct Htn as [_ Htn]. exact Htn. }
      assert (Hl' : coords_ok G [nth 0 (indices G R (a_multiply_diagonal G R u s 1)) (dflt_index G)] [l] = true).
      { rewrite Hixu. change (nth 0 (indices G R u) (dflt_index G)) with (ix0 G R u). now rewrite (ss_first G R _ _ _ _ Hspec). }
      assert (Hr' : coords_ok G [nth 1 (indices G R vh) (dflt_index G)] [rr] = true).
      { change (nth 1 (indices G R vh) (dflt_index G)) with (ix1 G R vh). now rewrite (ss_second G R _ _ _ _ Hspec). }
      destruct (matmul_sem G R RL ceqb_spec (a_multiply_diagonal G R u s 1) vh l rr Hnu Hnv Hwus Hwvh Hcn Hl' Hr') as [res' [Hres' Hsem']].
      rewrite Hres in Hres'. injection Hres' as Er. rewrite <- Er in Hsem'. rewrite <- Hsem, Hsem'. rewrite Hixu. fold (ix1 G R u).
      apply (Tdot.rsum_ext R). intros k Hk. f_equal.
      rewrite (multiply_diagonal_sem G HG R (rmul_0_l R RL) (rmul_0_r R RL) u s 1 [l; k] Hwu); [reflexivity|].
      assert (Hl2 : snd l < size_of G (ix0 G R u) (fst l)).
      { rewrite (ss_first G R _ _ _ _ Hspec). now apply (coords_ok_1 G). }
      assert (Hk2 : snd k < size_of G (ix1 G R u) (fst k)).
      { apply index_coords_in; [|exact Hk].
        unfold charges_nodup in Hcn. cbn [forallb] in Hcn. rewrite andb_true_r in Hcn.
        exact (Tdot.nodupb_NoDup (ceqb G) ceqb_spec _ Hcn). }
      assert (Hiu : indices G R u = [ix0 G R u; ix1 G R u]).
      { unfold ndim in Hnu. unfold ix0, ix1. destruct (indices G R u) as [|a0 [|a1 [|? ?]]]; try discriminate. reflexivity. }
      rewrite Hiu. unfold coords_ok. cbn [length Nat.eqb List.combine forallb fst snd andb].
      now rewrite (proj2 (Nat.ltb_lt _ _) Hl2), (proj2 (Nat.ltb_lt _ _) Hk2).
    Qed.
  End SVD.

  (* solve: when a stores every row sector that b stores, A . x = b at EVERY coordinate *)
  Section SolveDense.
    Context (solve_blk : tensor R -> tensor R -> tensor R).
    Theorem solve_dense (a b : arr) (i0 i1 ib : index G) :
      wf_array G R a = true -> mat_ok G R a i0 i1 -> vec_ok G R b ib ->
      chargemap G ib = chargemap G i0 -> idual G ib = idual G i0 ->
      (forall s m, In (s, m) (blocks G R a) -> nth 0 (tshape m) 0 = nth 1 (tshape m) 0) ->
      solve_shapes R solve_blk -> wf_index G (iconj G i1) = true ->
      (forall c0 c1 m bb, In ([c0; c1], m) (blocks G R a) -> In ([c0], bb) (blocks G R b) -> solve_product R solve_blk m bb) ->
      (forall c bb, In ([c], bb) (blocks G R b) -> exists c1 m, In ([c; c1], m) (blocks G R a)) ->
      exists x, a_solve G R solve_blk a b = Some x /\
        charge G R x = combine G [charge G R b; sign G (charge G R a) true] /\
        wf_array G R x = true /\
        forall l, coords_ok G [i0] [l] = true ->
          exists res, a_matmul G R a x = Some res /\ sem G R res [l] = sem G R b [l].
    Proof.
      intros Hwa Ha Hb Hcm Hd Hsq Hsh Hwi Hprod Hrows.
      exists (solve_arr G R solve_blk a b i1). split; [exact (a_solve_eq G HG R solve_blk a b i0 i1 ib Ha Hb)|].
      split; [reflexivity|]. split; [exact (solve_wf G HG R solve_blk a b i0 i1 ib Ha Hb Hcm Hd Hsq Hsh Hwi)|].
      intros l Hl.
      destruct (solve_residual G HG R RL cltb_irrefl cltb_trans solve_blk a b i0 i1 ib Ha Hb Hcm Hd Hsq Hsh l Hwa Hwi Hprod Hl)
        as [res [Hres [_ Hsem]]].
      - destruct (lookup keq [fst l] (blocks G R b)) as [bb|] eqn:E; [left | now right].
        apply (Tdot.lookup_In keq keq_spec) in E. exact (Hrows _ _ E).
      - exists res. now split.
    Qed.
  End SolveDense.
End Dense.

(* ------------------------------------------------------------------ *)
(* the order hypotheses hold for the five built-in symmetries *)
Lemma Zltb_total (a b : Z) : a <> b -> Z.ltb a b = true \/ Z.ltb b a = true.
Proof. intros H. rewrite !Z.ltb_lt. lia. Qed.

Lemma pair_ltb_total (a b : Z * Z) : a <> b -> pair_ltb a b = true \/ pair_ltb b a = true.
Proof.
  destruct a as [a1 a2], b as [b1 b2]. intros H. unfold pair_ltb. cbn [fst snd].
  rewrite !orb_true_iff, !andb_true_iff, !Z.ltb_lt, !Z.eqb_eq.
  assert (a1 <> b1 \/ a2 <> b2) by (destruct (Z.eq_dec a1 b1); [right; intros ->; subst; now apply H | now left]).
  lia.
Qed.

Lemma builtin_cltb_total G : builtin_sym G -> forall a b : C G, a <> b -> cltb G a b = true \/ cltb G b a = true.
Proof. intros []; cbn [cltb C Z2 Z4 U1 Z2Z2 U1U1]; first [apply Zltb_total | apply pair_ltb_total]. Qed.

(* ------------------------------------------------------------------ *)
(* what is NOT formalised for C12 (stated, not proved): with the FULL LAPACK contract
   (orthonormal columns of U, orthonormal rows of Vh, non-negative non-increasing s) the
   multiset of non-zero singular values does not depend on the oracle, i.e. it is "the"
   spectrum of the dense matrix.  This is a theorem about matrices over the real / complex
   field (uniqueness of singular values), not about the bookkeeping; over an arbitrary ring
   with conjugation it is not even true. *)
Section Full.
  Context (R : Ring).
  Definition orth_cols (t : tensor R) : Prop :=
    forall j j', j < nth 1 (tshape t) 0 -> j' < nth 1 (tshape t) 0 ->
      rsum R (map (fun i => rmul R (rconj R (get R t [i; j])) (get R t [i; j'])) (seq 0 (nth 0 (tshape t) 0)))
      = if Nat.eqb j j' then r1 R else r0 R.
  Definition orth_rows (t : tensor R) : Prop :=
    forall i i', i < nth 0 (tshape t) 0 -> i' < nth 0 (tshape t) 0 ->
      rsum R (map (fun j => rmul R (get R t [i; j]) (rconj R (get R t [i'; j]))) (seq 0 (nth 1 (tshape t) 0)))
      = if Nat.eqb i i' then r1 R else r0 R.
  Definition svd_full_contract (svd_blk : tensor R -> tensor R * tensor R * tensor R) : Prop :=
    svd_shapes R svd_blk /\
    forall m, svd_product R svd_blk m /\ orth_cols (fst (svd_uv R svd_blk m)) /\ orth_rows (snd (svd_uv R svd_blk m)).
  Definition nonzero_values (G : Symmetry) (s : bvec G R) : list (RT R) :=
    filter (fun v => negb (reqb R v (r0 R))) (flat_map (fun cs => tdata (snd cs)) s).
End Full.

Definition C12_full : Prop :=
  forall (G : Symmetry) (R : Ring) (svd1 svd2 : tensor R -> tensor R * tensor R * tensor R) (x : aarray G R),
    GroupLaws G -> svd_full_contract R svd1 -> svd_full_contract R svd2 ->
    wf_array G R x = true -> ndim G R x = 2 ->
    Permutation (nonzero_values R G (svd_store G R svd1 (blocks G R x)))
                (nonzero_values R G (svd_store G R svd2 (blocks G R x))).

(* ------------------------------------------------------------------ *)
(* Examples: the hypotheses of the theorems hold on a concrete non-trivial instance
   (Z2, integer data, odd total charge, a 2x2 and a 1x3 block, exact per-block routines) *)
Module LinalgEx.
  Local Open Scope Z_scope.
  Definition eye (n : nat) : tensor ZRing := build ZRing [n; n] (fun idx => if Nat.eqb (nth 0 idx 0%nat) (nth 1 idx 0%nat) then 1 else 0).
  (* exact "factorisations" over the integers: m = m . I  (inner dimension = number of columns) *)
  Definition qr_ex (m : tensor ZRing) : tensor ZRing * tensor ZRing := (m, eye (sh1 ZRing m)).
  Definition svd_ex (m : tensor ZRing) : tensor ZRing * tensor ZRing * tensor ZRing :=
    (m, tones ZRing [sh1 ZRing m], eye (sh1 ZRing m)).
  Definition eigh_ex (m : tensor ZRing) : tensor ZRing * tensor ZRing := (tones ZRing [sh1 ZRing m], eye (sh1 ZRing m)).
  (* exact solver for identity blocks: x = b *)
  Definition solve_ex (m bb : tensor ZRing) : tensor ZRing := build ZRing [sh1 ZRing m] (fun idx => get ZRing bb idx).

  Definition x : aarray Z2 ZRing :=
    mkA Z2 ZRing [Index Z2 [(0, 2%nat); (1, 1%nat)] false None; Index Z2 [(0, 3%nat); (1, 2%nat)] true None] 1
      [([0; 1], @mkT ZRing [2; 2]%nat [1; 2; 3; 4]); ([1; 0], @mkT ZRing [1; 3]%nat [5; 6; 7])].

  Lemma eye_facts n : tshape (eye n) = [n; n] /\ length (tdata (eye n)) = shape_size [n; n].
  Proof. unfold eye, build. cbn [tshape tdata]. split; [reflexivity|]. now rewrite map_length, length_all_idx. Qed.

  Example qr_ex_shapes : split_shapes ZRing qr_ex.
  Proof.
    intros m a b Hm Ha Hb Hl. exists b. unfold qr_ex, sh1. cbn [fst snd]. rewrite Hm. cbn [nth].
    destruct (eye_facts b) as [E1 E2]. repeat split; assumption.
  Qed.

  Example svd_ex_shapes : svd_shapes ZRing svd_ex.
  Proof.
    intros m a b Hm Ha Hb Hl. exists b. unfold svd_uv, svd_s, svd_ex, sh1. cbn [fst snd]. rewrite Hm. cbn [nth].
    destruct (eye_facts b) as [E1 E2]. repeat split; assumption.
  Qed.

  Example x_hyps : wf_array Z2 ZRing x = true /\ ndim Z2 ZRing x = 2%nat.
  Proof. vm_compute. split; reflexivity. Qed.

  Example x_products : forall s m, In (s, m) (blocks Z2 ZRing x) ->
    split_product ZRing qr_ex m /\ svd_product ZRing svd_ex m.
  Proof.
    intros s m [H|[H|[]]]; inversion H; subst; split; intros i j Hi Hj; cbn [tshape nth] in Hi, Hj;
      repeat (destruct i as [|i]; try lia); repeat (destruct j as [|j]; try lia); vm_compute; reflexivity.
  Qed.

  (* the factors: R has the sectors (1,1), (0,0); the bond has the charges 0 (size 3) and 1 (size 2), sorted *)
  Example qr_of_x :
    match a_qr Z2 ZRing qr_ex x with
    | Some (q, r) => sectors Z2 ZRing r = [[1; 1]; [0; 0]] /\
                     nth 1 (indices Z2 ZRing q) (dflt_index Z2) = Index Z2 [(0, 3%nat); (1, 2%nat)] true None /\
                     nth 0 (indices Z2 ZRing r) (dflt_index Z2) = Index Z2 [(0, 3%nat); (1, 2%nat)] false None /\
                     charge Z2 ZRing r = 0
    | None => False
    end.
  Proof. vm_compute. repeat split; reflexivity. Qed.

  Example qr_instance l rr :
    coords_ok Z2 [ix0 Z2 ZRing x] [l] = true -> coords_ok Z2 [ix1 Z2 ZRing x] [rr] = true ->
    exists q r res, a_qr Z2 ZRing qr_ex x = Some (q, r) /\ a_matmul Z2 ZRing q r = Some res /\
                    sem Z2 ZRing res [l; rr] = sem Z2 ZRing x [l; rr].
  Proof.
    intros Hl Hr. destruct x_hyps as [Hw Hn].
    destruct (qr_structure Z2 Z2_laws ZRing (builtin_cltb_trans Z2 bs_Z2) (builtin_cltb_total Z2 bs_Z2) qr_ex qr_ex_shapes x Hw Hn)
      as (q & r & Hqr & _).
    destruct (qr_reconstruct Z2 Z2_laws ZRing ZRing_sum_laws (builtin_cltb_irrefl Z2 bs_Z2) (builtin_cltb_trans Z2 bs_Z2)
                (builtin_cltb_total Z2 bs_Z2) qr_ex qr_ex_shapes x q r Hw Hn (fun s m H => proj1 (x_products s m H)) Hqr l rr Hl Hr)
      as (res & Hres & Hsem).
    now exists q, r, res.
  Qed.

  Example svd_instance l rr :
    coords_ok Z2 [ix0 Z2 ZRing x] [l] = true -> coords_ok Z2 [ix1 Z2 ZRing x] [rr] = true ->
    exists u s vh res, a_svd Z2 ZRing svd_ex x = Some (u, s, vh) /\
                       a_matmul Z2 ZRing (a_multiply_diagonal Z2 ZRing u s 1) vh = Some res /\
                       sem Z2 ZRing res [l; rr] = sem Z2 ZRing x [l; rr].
  Proof.
    intros Hl Hr. destruct x_hyps as [Hw Hn].
    destruct (svd_structure Z2 Z2_laws ZRing (builtin_cltb_trans Z2 bs_Z2) (builtin_cltb_total Z2 bs_Z2) svd_ex svd_ex_shapes x Hw Hn)
      as (u & s & vh & Hs & _).
    destruct (svd_reconstruct Z2 Z2_laws ZRing ZRing_sum_laws (builtin_cltb_irrefl Z2 bs_Z2) (builtin_cltb_trans Z2 bs_Z2)
                (builtin_cltb_total Z2 bs_Z2) svd_ex svd_ex_shapes x u s vh Hw Hn (fun sec m H => proj2 (x_products sec m H)) Hs l rr Hl Hr)
      as (res & Hres & Hsem).
    now exists u, s, vh, res.
  Qed.

  (* solve: U1, a of charge 1 with identity blocks, b of charge 2: x has charge 2 - 1 = 1 *)
  Definition ia : index U1 := Index U1 [(0, 1%nat); (1, 2%nat); (2, 1%nat)] false None.
  Definition ja : index U1 := Index U1 [(0, 2%nat); (1, 1%nat)] true None.
  Definition a : aarray U1 ZRing :=
    mkA U1 ZRing [ia; ja] 1 [([1; 0], @mkT ZRing [2; 2]%nat [1; 0; 0; 1]); ([2; 1], @mkT ZRing [1; 1]%nat [1])].
  Definition b : aarray U1 ZRing := mkA U1 ZRing [ia] 2 [([2], @mkT ZRing [1]%nat [7])].

  Example solve_ex_shapes : solve_shapes ZRing solve_ex.
  Proof.
    intros m bb n Hm Hb Hn. unfold solve_ex, sh1, build. cbn [tshape tdata]. rewrite Hm. cbn [nth].
    split; [reflexivity|]. now rewrite map_length, length_all_idx.
  Qed.

  Example solve_hyps :
    wf_array U1 ZRing a = true /\ ndim U1 ZRing a = 2%nat /\ wf_array U1 ZRing b = true /\ ndim U1 ZRing b = 1%nat /\
    wf_index U1 (iconj U1 ja) = true.
  Proof. vm_compute. repeat split; reflexivity. Qed.

  Example solve_of_ab :
    match a_solve U1 ZRing solve_ex a b with
    | Some x => charge U1 ZRing x = 1 /\ sectors U1 ZRing x = [[1]] /\ wf_array U1 ZRing x = true /\
                match a_matmul U1 ZRing a x with Some r => sem U1 ZRing r [(2, 0%nat)] = 7 /\ charge U1 ZRing r = 2 | None => False end
    | None => False
    end.
  Proof. vm_compute. repeat split; reflexivity. Qed.

  Example solve_instance :
    exists x, a_solve U1 ZRing solve_ex a b = Some x /\ charge U1 ZRing x = 1 /\ wf_array U1 ZRing x = true /\
      forall l, coords_ok U1 [ia] [l] = true -> exists res, a_matmul U1 ZRing a x = Some res /\ sem U1 ZRing res [l] = sem U1 ZRing b [l].
  Proof.
    destruct solve_hyps as (Hwa & Hna & Hwb & Hnb & Hwi).
    pose proof (wf_mat U1 U1_laws ZRing a Hwa Hna) as Ha. pose proof (wf_vec U1 U1_laws ZRing b Hwb Hnb) as Hb.
    change (ix0 U1 ZRing a) with ia in Ha. change (ix1 U1 ZRing a) with ja in Ha.
    change (nth 0 (indices U1 ZRing b) (dflt_index U1)) with ia in Hb.
    destruct (solve_dense U1 U1_laws ZRing ZRing_sum_laws (builtin_cltb_irrefl U1 bs_U1) (builtin_cltb_trans U1 bs_U1)
                solve_ex a b ia ja ia Hwa Ha Hb eq_refl eq_refl) as (x0 & Hx & Hq & Hw & Hres).
    - intros s m [H|[H|[]]]; inversion H; reflexivity.
    - exact solve_ex_shapes.
    - exact Hwi.
    - intros c0 c1 m bb [H|[H|[]]] [Hb'|[]]; inversion H; inversion Hb'; subst; try discriminate.
      intros i Hi. cbn [tshape nth] in Hi. repeat (destruct i as [|i]; try lia). vm_compute. reflexivity.
    - intros c bb [H|[]]. inversion H; subst. exists 1, (@mkT ZRing [1; 1]%nat [1]). right. now left.
    - exists x0. split; [exact Hx|]. split; [rewrite Hq; reflexivity|]. split; assumption.
  Qed.
End LinalgEx.

(* ------------------------------------------------------------------ *)
(* packaged statements restated in Props/C11.v *)
Lemma cols_nodup_wf :
  forall (G : Symmetry) (HG : GroupLaws G) (R : Ring) (x : aarray G R),
    wf_array G R x = true -> ndim G R x = 2 ->
    NoDup (map (fun sb : list (C G) * tensor R => col_charge G (fst sb)) (blocks G R x)).
Proof. intros G HG R x Hw Hn. exact (cols_nodup G HG R x _ _ (wf_mat G HG R x Hw Hn)). Qed.

Lemma solve_spec :
  forall (G : Symmetry) (HG : GroupLaws G) (R : Ring) (RL : SumLaws R)
    (cltb_irrefl : forall c : C G, cltb G c c = false)
    (cltb_trans : forall a b c : C G, cltb G a b = true -> cltb G b c = true -> cltb G a c = true)
    (solve_blk : tensor R -> tensor R -> tensor R) (a b : aarray G R) (i0 i1 ib : index G),
    wf_array G R a = true -> mat_ok G R a i0 i1 -> vec_ok G R b ib ->
    chargemap G ib = chargemap G i0 -> idual G ib = idual G i0 ->
    (forall s m, In (s, m) (blocks G R a) -> nth 0 (tshape m) 0 = nth 1 (tshape m) 0) ->
    solve_shapes R solve_blk -> wf_index G (iconj G i1) = true ->
    (forall c0 c1 m bb, In ([c0; c1], m) (blocks G R a) -> In ([c0], bb) (blocks G R b) -> solve_product R solve_blk m bb) ->
    a_solve G R solve_blk a b = Some (solve_arr G R solve_blk a b i1) /\
    charge G R (solve_arr G R solve_blk a b i1) = combine G [charge G R b; sign G (charge G R a) true] /\
    indices G R (solve_arr G R solve_blk a b i1) = [iconj G i1] /\
    wf_array G R (solve_arr G R solve_blk a b i1) = true /\
    forall l, coords_ok G [i0] [l] = true ->
      (exists c1 m, In ([fst l; c1], m) (blocks G R a)) \/ lookup (list_eqb (ceqb G)) [fst l] (blocks G R b) = None ->
      exists res, a_matmul G R a (solve_arr G R solve_blk a b i1) = Some res /\
                  charge G R res = combine G [charge G R a; charge G R (solve_arr G R solve_blk a b i1)] /\
                  sem G R res [l] = sem G R b [l].
Proof.
  intros G HG R RL Hirr Htr solve_blk a b i0 i1 ib Hwa Ha Hb Hcm Hd Hsq Hsh Hwi Hprod.
  split; [exact (a_solve_eq G HG R solve_blk a b i0 i1 ib Ha Hb)|]. split; [reflexivity|]. split; [reflexivity|].
  split; [exact (solve_wf G HG R solve_blk a b i0 i1 ib Ha Hb Hcm Hd Hsq Hsh Hwi)|].
  intros l Hl Hcase.
  exact (solve_residual G HG R RL Hirr Htr solve_blk a b i0 i1 ib Ha Hb Hcm Hd Hsq Hsh l Hwa Hwi Hprod Hl Hcase).
Qed.

Lemma eigh_values :
  forall (G : Symmetry) (HG : GroupLaws G) (R : Ring) (eigh_blk : tensor R -> tensor R * tensor R) (a : aarray G R),
    wf_array G R a = true -> ndim G R a = 2 -> charge G R a = ident G ->
    (forall s m, In (s, m) (blocks G R a) -> nth 0 (tshape m) 0 = nth 1 (tshape m) 0) ->
    eigh_shapes R eigh_blk ->
    exists w v, a_eigh G R eigh_blk a = Some (w, v) /\
      w = map (fun sb => (col_charge G (fst sb), fst (eigh_blk (snd sb)))) (blocks G R a) /\ NoDup (map fst w).
Proof.
  intros G HG R eigh_blk a Hw Hn Hq Hsq Hsh.
  destruct (eigh_structure G HG R eigh_blk a Hw Hn Hq Hsq Hsh) as (w & v & He & _ & _ & _ & _ & Ew & Hnd & _).
  exists w, v. now repeat split.
Qed.

(* ------------------------------------------------------------------ *)
(* fermionic qr / svd: the phase_flip(0) put on R / Vh is exactly the ket-then-bra sign that
   the fermionic matrix product introduces on its right operand, so the two cancel; the left
   factor carries the input's pending signs.  At VALUE level (pending signs applied):
   value(q) . value(r as f_matmul sees it) = value(x). *)
Section FermiRecon.
  Context (G : Symmetry) (HG : GroupLaws G) (R : Ring) (RL : SumLaws R).
  Context (cltb_irrefl : forall c : C G, cltb G c c = false)
          (cltb_trans : forall a b c : C G, cltb G a b = true -> cltb G b c = true -> cltb G a c = true)
          (cltb_total : forall a b : C G, a <> b -> cltb G a b = true \/ cltb G b a = true).
  Context (rneg_invol : forall a : RT R, rneg R (rneg R a) = a)
          (rneg_zero : rneg R (r0 R) = r0 R)
          (rneg_add : forall a b : RT R, rneg R (radd R a b) = radd R (rneg R a) (rneg R b))
          (rmul_neg_l : forall a b : RT R, rmul R (rneg R a) b = rneg R (rmul R a b)).
  Notation sector := (list (C G)).
  Notation keq := (list_eqb (ceqb G)).
  Notation arr := (aarray G R).
  Notation farr := (farray G R).
  Notation ceqb_spec := (ceqb_eq G HG).
  Notation keq_spec := (Tdot.keq_spec G ceqb_spec).
  Notation Sum := (rsum R).

  (* the right operand as the fermionic matrix product sees it: flipped once more when axis 0 is dual *)
  Definition matmul_right_view (r : farr) : farr :=
    if idual G (nth 0 (indices G R (fbase G R r)) (dflt_index G)) then f_phase_flip G R r [0] else r.

  Lemma a_signmap_twice c (v : arr) : a_signmap G R c (a_signmap G R c v) = v.
  Proof.
    unfold a_signmap, with_blocks. cbn [indices charge blocks]. rewrite map_map. cbn [fst snd].
    rewrite <- (with_blocks_self G R v) at 4. unfold with_blocks. f_equal.
    rewrite <- (map_id (blocks G R v)) at 2. apply map_ext. intros [s t]. cbn [fst snd].
    rewrite <- (sgn_xorb R rneg_invol). now rewrite xorb_nilpotent.
  Qed.

  (* the two flips cancel *)
  Lemma flips_cancel (r0 : arr) : NoDup (sectors G R r0) ->
    f_value G R (matmul_right_view (flip0_if_dual G R (mkF G R r0 [] []))) = r0.
  Proof.
    intros Hnd.
    assert (Hv0 : f_value G R (mkF G R r0 [] []) = r0).
    { rewrite f_value_eq. cbn [fphases fbase]. apply a_signmap_false. reflexivity. }
    unfold matmul_right_view, flip0_if_dual. cbn [fbase].
    destruct (idual G (nth 0 (indices G R r0) (dflt_index G))) eqn:E.
    - assert (Hb : fbase G R (f_phase_flip G R (mkF G R r0 [] []) [0]) = r0) by reflexivity.
      rewrite Hb, E.
      rewrite (value_phase_flip G R HG rneg_invol) by (rewrite fsectors_flip; exact Hnd).
      rewrite (value_phase_flip G R HG rneg_invol) by exact Hnd.
      rewrite Hv0. apply a_signmap_twice.
    - cbn [fbase]. rewrite E. exact Hv0.
  Qed.

  Lemma rsum_rneg {A} (f : A -> RT R) l : Sum (map (fun a => rneg R (f a)) l) = rneg R (Sum (map f l)).
  Proof.
    induction l as [|a l IH]; cbn [map]; [cbn [rsum fold_right]; now rewrite rneg_zero|].
    rewrite !(Tdot.rsum_cons R), IH. now rewrite rneg_add.
  Qed.

  Lemma sem_signmap c (v : arr) cs :
    sem G R (a_signmap G R c v) cs = if c (map fst cs) then rneg R (sem G R v cs) else sem G R v cs.
  Proof.
    unfold sem, a_signmap, with_blocks. cbn [blocks].
    rewrite (StructProofs.lookup_map_val keq (fun t => t)) || idtac.
    induction (blocks G R v) as [|[s t] bl IH]; cbn [map lookup fst snd].
    - now destruct (c (map fst cs)); rewrite ?rneg_zero.
    - destruct (keq (map fst cs) s) eqn:E; [|exact IH].
      apply keq_spec in E. subst s. destruct (c (map fst cs)); cbn [sgn]; [apply (get_tneg R rneg_zero) | reflexivity].
  Qed.

  Lemma wf_signmap c (v : arr) : wf_array G R v = true -> wf_array G R (a_signmap G R c v) = true.
  Proof.
    unfold wf_array, a_signmap, with_blocks, sectors. cbn [indices charge blocks]. rewrite map_map. cbn [fst].
    change (map (fun x : sector * tensor R => fst x) (blocks G R v)) with (map fst (blocks G R v)).
    intros H. apply andb_true_iff in H. destruct H as [H Hbl]. rewrite H. cbn [andb].
    rewrite forallb_forall in *. intros sb Hsb. apply in_map_iff in Hsb. destruct Hsb as [[s t] [<- Hin]]. cbn [fst snd].
    specialize (Hbl _ Hin). cbn [fst snd] in Hbl.
    destruct (c s); cbn [sgn]; [|exact Hbl]. unfold tneg, tmap. cbn [tshape tdata]. now rewrite map_length.
  Qed.

  Theorem f_split_reconstruct (f : tensor R -> tensor R * tensor R) (x q r : farr) (l rr : coord G) :
    wf_array G R (fbase G R x) = true -> ndim G R (fbase G R x) = 2 -> split_shapes R f ->
    (forall s m, In (s, m) (blocks G R (fbase G R x)) -> split_product R f m) ->
    f_split G R f x = Some (q, r) ->
    coords_ok G [ix0 G R (fbase G R x)] [l] = true -> coords_ok G [ix1 G R (fbase G R x)] [rr] = true ->
    foddpos G R q = foddpos G R x /\ foddpos G R (matmul_right_view r) = [] /\
    exists res, a_matmul G R (f_value G R q) (f_value G R (matmul_right_view r)) = Some res /\
                sem G R res [l; rr] = sem G R (f_value G R x) [l; rr].
  Proof.
    intros Hw Hn Hf Hp Hs Hl Hr. pose proof (wf_mat G HG R _ Hw Hn) as Hx.
    set (x0 := fbase G R x) in *. set (i0 := ix0 G R x0) in *. set (i1 := ix1 G R x0) in *.
    unfold f_split in Hs. fold x0 in Hs. rewrite (a_split_eq G HG R f x0 i0 i1 Hx) in Hs. injection Hs as Eq Er.
    set (L := left_arr G R f x0 i0 i1) in *. set (Rt := right_arr G R f x0 i1) in *.
    pose proof (left_wf G HG R cltb_trans cltb_total f x0 i0 i1 Hx Hf) as HwL.
    pose proof (right_wf G HG R cltb_trans cltb_total f x0 i0 i1 Hx Hf) as HwR. fold L in HwL. fold Rt in HwR.
    assert (HndR : NoDup (sectors G R Rt)).
    { apply (Tdot.nodupb_NoDup keq keq_spec). unfold wf_array in HwR.
      apply andb_true_iff in HwR. destruct HwR as [HwR _]. apply andb_true_iff in HwR. now destruct HwR. }
    assert (Hvr : f_value G R (matmul_right_view r) = Rt) by (rewrite <- Er; exact (flips_cancel Rt HndR)).
    assert (Hvq : f_value G R q = a_signmap G R (fun s => ph_has G s (fphases G R x)) L) by (rewrite <- Eq, f_value_eq; reflexivity).
    split; [now rewrite <- Eq|]. split.
    { rewrite <- Er. unfold matmul_right_view, flip0_if_dual. cbn [fbase].
      destruct (idual G (nth 0 (indices G R Rt) (dflt_index G))) eqn:E.
      - change (fbase G R (f_phase_flip G R (mkF G R Rt [] []) [0])) with Rt. rewrite E. reflexivity.
      - cbn [fbase]. rewrite E. reflexivity. }
    rewrite Hvr, Hvq. set (cph := fun s : sector => ph_has G s (fphases G R x)).
    assert (Hdiag : forall s b, In (s, b) (blocks G R Rt) -> exists c, s = [c; c]).
    { intros s b Hin. unfold Rt, right_arr in Hin. cbn [blocks] in Hin. apply in_map_iff in Hin.
      destruct Hin as [[s0 m0] [Heq _]]. inversion Heq. now exists (col_charge G s0). }
    destruct (matmul_diag_right G HG R RL cltb_irrefl cltb_trans (a_signmap G R cph L) Rt l rr eq_refl eq_refl
                (wf_signmap cph L HwL) HwR Hdiag Hl Hr) as [res [Hres Hsem]].
    exists res. split; [exact Hres|]. rewrite Hsem. clear Hsem Hres.
    destruct (matmul_diag_right G HG R RL cltb_irrefl cltb_trans L Rt l rr eq_refl eq_refl HwL HwR Hdiag Hl Hr) as [res0 [Hres0 Hsem0]].
    destruct (split_reconstruct G HG R RL cltb_irrefl cltb_trans cltb_total f x0 i0 i1 Hx Hf Hp l rr Hl Hr) as [res1 [Hres1 Hsem1]].
    fold L Rt in Hres1. rewrite Hres0 in Hres1. injection Hres1 as E01. rewrite <- E01, Hsem0 in Hsem1. clear E01 Hres0 Hsem0.
    rewrite f_value_eq. fold x0 cph. rewrite sem_signmap. cbn [map fst].
    change (ix1 G R (a_signmap G R cph L)) with (ix1 G R L).
    rewrite <- Hsem1. destruct (cph [fst l; fst rr]) eqn:Ec.
    - rewrite <- rsum_rneg. apply (Tdot.rsum_ext R). intros o _. rewrite sem_signmap. cbn [map fst]. rewrite Ec. apply rmul_neg_l.
    - apply (Tdot.rsum_ext R). intros o _. rewrite sem_signmap. cbn [map fst]. now rewrite Ec.
  Qed.
  (* the same through the model of FermionicArray.__matmul__: when the label list of x is already
     resolved (e.g. at most one label: every array built by the constructors), q @ r has x's
     labels and x's value *)
  Lemma f_matmul_view (q r : farr) :
    f_matmul G R q r =
    match a_matmul G R (f_value G R q) (f_value G R (matmul_right_view r)) with
    | Some c => finish_contraction G R (f_phase_sync G R q) (f_phase_sync G R (matmul_right_view r)) c
    | None => None
    end.
  Proof. reflexivity. Qed.

  Theorem f_split_matmul (f : tensor R -> tensor R * tensor R) (x q r : farr) (l rr : coord G) :
    wf_array G R (fbase G R x) = true -> ndim G R (fbase G R x) = 2 -> split_shapes R f ->
    (forall s m, In (s, m) (blocks G R (fbase G R x)) -> split_product R f m) ->
    f_split G R f x = Some (q, r) ->
    resolve_oddpos (fparity G R x) (foddpos G R x) [] = Some (false, foddpos G R x) ->
    coords_ok G [ix0 G R (fbase G R x)] [l] = true -> coords_ok G [ix1 G R (fbase G R x)] [rr] = true ->
    exists y, f_matmul G R q r = Some y /\ foddpos G R y = foddpos G R x /\
              sem G R (f_value G R y) [l; rr] = sem G R (f_value G R x) [l; rr].
  Proof.
    intros Hw Hn Hf Hp Hs Hodd Hl Hr.
    destruct (f_split_reconstruct f x q r l rr Hw Hn Hf Hp Hs Hl Hr) as (Hoq & Hor & res & Hres & Hsem).
    rewrite f_matmul_view, Hres. unfold finish_contraction.
    assert (Hpar : fparity G R (f_phase_sync G R q) = fparity G R x).
    { pose proof (wf_mat G HG R _ Hw Hn) as Hx. unfold f_split in Hs.
      rewrite (a_split_eq G HG R f _ _ _ Hx) in Hs. injection Hs as Eq _. rewrite <- Eq. reflexivity. }
    rewrite Hpar. change (foddpos G R (f_phase_sync G R q)) with (foddpos G R q).
    change (foddpos G R (f_phase_sync G R (matmul_right_view r))) with (foddpos G R (matmul_right_view r)).
    rewrite Hoq, Hor, Hodd. eexists. split; [reflexivity|]. split; [reflexivity|].
    rewrite <- Hsem. f_equal. rewrite f_value_eq. cbn [fphases fbase]. apply a_signmap_false. reflexivity.
  Qed.
End FermiRecon.

(* the label hypothesis of f_split_matmul holds for every array with at most one label *)
Lemma resolve_at_most_one (p : bool) (l : list fop) : (length l <= 1)%nat -> resolve_oddpos p l [] = Some (false, l).
Proof.
  destruct l as [|o [|? ?]]; cbn [length]; intros H; try lia; [reflexivity|].
  unfold resolve_oddpos. cbn [app length Nat.mul Nat.add resolve_go Nat.ltb Nat.leb Nat.odd]. now rewrite andb_false_r.
Qed.

(* fermionic instance: odd charge, one label, a pending sign on the sector (0,1), ket-like
   second index (so R is flipped on its odd sector) *)
Module FermiEx.
  Import LinalgEx.
  Local Open Scope Z_scope.
  Definition xb : aarray Z2 ZRing :=
    mkA Z2 ZRing [Index Z2 [(0, 2%nat); (1, 1%nat)] true None; Index Z2 [(0, 3%nat); (1, 2%nat)] false None] 1
      [([0; 1], @mkT ZRing [2; 2]%nat [1; 2; 3; 4]); ([1; 0], @mkT ZRing [1; 3]%nat [5; 6; 7])].
  Definition xf : farray Z2 ZRing := mkF Z2 ZRing xb [[0; 1]] [([3], false)].

  Example xf_hyps : wf_array Z2 ZRing (fbase Z2 ZRing xf) = true /\ ndim Z2 ZRing (fbase Z2 ZRing xf) = 2%nat.
  Proof. vm_compute. split; reflexivity. Qed.

  Example xf_products : forall s m, In (s, m) (blocks Z2 ZRing (fbase Z2 ZRing xf)) -> split_product ZRing qr_ex m.
  Proof.
    intros s m [H|[H|[]]]; inversion H; subst; intros i j Hi Hj; cbn [tshape nth] in Hi, Hj;
      repeat (destruct i as [|i]; try lia); repeat (destruct j as [|j]; try lia); vm_compute; reflexivity.
  Qed.

  (* R carries the pending sign on its odd sector (1,1); Q keeps x's sign table and label *)
  Example f_qr_of_xf :
    match f_qr Z2 ZRing qr_ex xf with
    | Some (q, r) => fphases Z2 ZRing r = [[1; 1]] /\ fphases Z2 ZRing q = [[0; 1]] /\
                     foddpos Z2 ZRing q = [([3], false)] /\ foddpos Z2 ZRing r = []
    | None => False
    end.
  Proof. vm_compute. repeat split; reflexivity. Qed.

  Example fermi_instance l rr :
    coords_ok Z2 [ix0 Z2 ZRing xb] [l] = true -> coords_ok Z2 [ix1 Z2 ZRing xb] [rr] = true ->
    exists q r y, f_qr Z2 ZRing qr_ex xf = Some (q, r) /\ f_matmul Z2 ZRing q r = Some y /\
      foddpos Z2 ZRing y = [([3], false)] /\
      sem Z2 ZRing (f_value Z2 ZRing y) [l; rr] = sem Z2 ZRing (f_value Z2 ZRing xf) [l; rr].
  Proof.
    intros Hl Hr. destruct xf_hyps as [Hw Hn].
    destruct (f_qr Z2 ZRing qr_ex xf) as [[q r]|] eqn:E; [|vm_compute in E; discriminate].
    destruct (f_split_matmul Z2 Z2_laws ZRing ZRing_sum_laws (builtin_cltb_irrefl Z2 bs_Z2) (builtin_cltb_trans Z2 bs_Z2)
                (builtin_cltb_total Z2 bs_Z2) ZRing_rneg_invol ZRing_rneg_zero
                (fun a b : Z => Z.opp_add_distr a b) (fun a b : Z => Z.mul_opp_l a b)
                qr_ex xf q r l rr Hw Hn qr_ex_shapes xf_products E (resolve_at_most_one (fparity Z2 ZRing xf) (foddpos Z2 ZRing xf) (le_n 1)) Hl Hr) as (y & Hy & Ho & Hs).
    exists q, r, y. repeat split; assumption.
  Qed.
End FermiEx.
