(* Proofs/FuseTensor.v -- extensionality of tabulated tensors and the
   slice / assign / transpose / zeros read-back lemmas used by the fuse proofs. *)
From SV Require Import Base.Prelude Base.Tensor Proofs.TensorProofs.
From Coq Require Import Permutation Lia.
Local Open Scope nat_scope.

(* ------------------------------------------------------------------ *)
(* generic list facts *)

Lemma set_nth_cons_0 {A} (x : A) l y : set_nth (x :: l) 0 y = y :: l.
Proof. reflexivity. Qed.

Lemma set_nth_cons_S {A} (x : A) l n y : set_nth (x :: l) (S n) y = x :: set_nth l n y.
Proof. reflexivity. Qed.

Lemma length_set_nth {A} (l : list A) n x : n < length l -> length (set_nth l n x) = length l.
Proof.
  revert n. induction l as [|a l IH]; intros n Hn; cbn [length] in Hn; [lia|].
  destruct n as [|n].
  - rewrite set_nth_cons_0. reflexivity.
  - rewrite set_nth_cons_S. cbn [length]. rewrite IH by lia. reflexivity.
Qed.

Lemma nth_set_nth {A} (l : list A) n x k d : n < length l ->
  nth k (set_nth l n x) d = if Nat.eqb k n then x else nth k l d.
Proof.
  revert n k. induction l as [|a l IH]; intros n k Hn; cbn [length] in Hn; [lia|].
  destruct n as [|n].
  - rewrite set_nth_cons_0. destruct k; reflexivity.
  - rewrite set_nth_cons_S. destruct k as [|k]; [reflexivity|].
    cbn [nth Nat.eqb]. apply IH. lia.
Qed.

Lemma nth_set_nth_eq {A} (l : list A) n x d : n < length l -> nth n (set_nth l n x) d = x.
Proof. intros Hn. rewrite nth_set_nth by exact Hn. now rewrite Nat.eqb_refl. Qed.

Lemma set_nth_set_nth {A} (l : list A) n x y : n < length l ->
  set_nth (set_nth l n x) n y = set_nth l n y.
Proof.
  revert n. induction l as [|a l IH]; intros n Hn; cbn [length] in Hn; [lia|].
  destruct n as [|n].
  - rewrite !set_nth_cons_0. reflexivity.
  - rewrite !set_nth_cons_S. rewrite IH by lia. reflexivity.
Qed.

Lemma set_nth_nth_id {A} (l : list A) n d : n < length l -> set_nth l n (nth n l d) = l.
Proof.
  revert n. induction l as [|a l IH]; intros n Hn; cbn [length] in Hn; [lia|].
  destruct n as [|n].
  - rewrite set_nth_cons_0. reflexivity.
  - rewrite set_nth_cons_S. cbn [nth]. rewrite IH by lia. reflexivity.
Qed.

Lemma map_nth_seq0 {A} (l : list A) n d : length l = n -> map (fun j => nth j l d) (seq 0 n) = l.
Proof.
  revert n. induction l as [|a l IH]; intros n Hn; cbn [length] in Hn; subst n.
  - reflexivity.
  - cbn [seq map nth]. f_equal. rewrite <- seq_shift, map_map. cbn [nth].
    apply IH. reflexivity.
Qed.

Lemma map_add_seq a b n : map (fun o => a + o) (seq b n) = seq (a + b) n.
Proof.
  revert b. induction n as [|n IH]; intros b; [reflexivity|].
  cbn [seq map]. f_equal. rewrite IH. f_equal. lia.
Qed.

(* ------------------------------------------------------------------ *)
(* 1-3: in-bounds multi-indices *)

Lemma in_all_idx_inb sh idx : In idx (all_idx sh) -> inb sh idx = true.
Proof.
  revert idx. induction sh as [|d sh IH]; intros idx H; cbn [all_idx] in H.
  - destruct H as [H|[]]. subst idx. reflexivity.
  - apply in_flat_map in H. destruct H as [i [Hi H]].
    apply in_map_iff in H. destruct H as [idx' [He H]]. subst idx.
    apply in_seq in Hi. cbn [inb]. apply andb_true_iff. split.
    + apply Nat.ltb_lt. lia.
    + apply IH. exact H.
Qed.

Lemma inb_length sh idx : inb sh idx = true -> length idx = length sh.
Proof.
  revert idx. induction sh as [|d sh IH]; intros [|i idx] H; cbn [inb] in H; try discriminate.
  - reflexivity.
  - apply andb_true_iff in H. destruct H as [_ H]. cbn [length]. f_equal. apply IH. exact H.
Qed.

Lemma inb_nth sh idx :
  inb sh idx = true <->
  (length idx = length sh /\ forall k, k < length sh -> nth k idx 0 < nth k sh 0).
Proof.
  revert idx. induction sh as [|d sh IH]; intros [|i idx]; cbn [inb length].
  - split; [intros _; split; [reflexivity|intros k Hk; lia]|intros _; reflexivity].
  - split; [discriminate|intros [H _]; discriminate].
  - split; [discriminate|intros [H _]; discriminate].
  - rewrite andb_true_iff, Nat.ltb_lt, IH. split.
    + intros [Hi [Hl Hk]]. split; [lia|].
      intros [|k] Hk'; cbn [nth]; [exact Hi|apply Hk; lia].
    + intros [Hl Hk]. split; [apply (Hk 0); lia|]. split; [lia|].
      intros k Hk'. apply (Hk (S k)). lia.
Qed.

(* ------------------------------------------------------------------ *)
(* 5: offsets of all_idx enumerate 0 .. size-1 *)

Lemma map_offset_flat d sh :
  map (offset sh) (all_idx sh) = seq 0 (shape_size sh) ->
  forall k s,
    map (offset (d :: sh)) (flat_map (fun i => map (cons i) (all_idx sh)) (seq s k))
    = seq (s * shape_size sh) (k * shape_size sh).
Proof.
  intros IH k. induction k as [|k IHk]; intros s; [reflexivity|].
  cbn [seq flat_map]. rewrite map_app, map_map. cbn [offset].
  rewrite IHk.
  transitivity (seq (s * shape_size sh) (shape_size sh)
                ++ seq (s * shape_size sh + shape_size sh) (k * shape_size sh)).
  - f_equal.
    + rewrite <- (map_map (offset sh) (fun o => s * shape_size sh + o)).
      rewrite IH, map_add_seq. f_equal. lia.
    + f_equal. lia.
  - rewrite <- seq_app. f_equal.
Qed.

Lemma map_offset_all_idx sh : map (offset sh) (all_idx sh) = seq 0 (shape_size sh).
Proof.
  induction sh as [|d sh IH]; [reflexivity|].
  cbn [all_idx]. rewrite (map_offset_flat d sh IH d 0).
  cbn [shape_size fold_right Nat.mul]. reflexivity.
Qed.

(* ------------------------------------------------------------------ *)
(* 12 (list part): permutations of axes *)

Definition is_perm (perm : list nat) : Prop := Permutation perm (seq 0 (length perm)).

Lemma is_perm_In perm j : is_perm perm -> (In j perm <-> j < length perm).
Proof.
  intros H. unfold is_perm in H. split; intros Hj.
  - apply (Permutation_in _ H) in Hj. apply in_seq in Hj. lia.
  - apply (Permutation_in _ (Permutation_sym H)). apply in_seq. lia.
Qed.

Lemma is_perm_NoDup perm : is_perm perm -> NoDup perm.
Proof.
  intros H. apply (Permutation_NoDup (Permutation_sym H)). apply seq_NoDup.
Qed.

Lemma nth_index_of_map {B} (f : nat -> B) j perm d :
  In j perm -> nth (index_of j perm) (map f perm) d = f j.
Proof.
  induction perm as [|p perm IH]; intros H; [destruct H|].
  cbn [index_of map]. destruct (Nat.eqb_spec p j) as [He|Hne].
  - subst p. reflexivity.
  - cbn [nth]. apply IH. destruct H as [H|H]; [contradiction|exact H].
Qed.

Lemma index_of_lt j perm : In j perm -> index_of j perm < length perm.
Proof.
  induction perm as [|p perm IH]; intros H; [destruct H|].
  cbn [index_of length]. destruct (Nat.eqb_spec p j) as [He|Hne]; [lia|].
  destruct H as [H|H]; [contradiction|]. apply IH in H. lia.
Qed.

Lemma nth_index_of j perm : In j perm -> nth (index_of j perm) perm 0 = j.
Proof.
  intros H. rewrite <- (map_id perm) at 2. apply (nth_index_of_map (fun x => x)). exact H.
Qed.

Lemma unpermute_permuted perm idx :
  is_perm perm -> length idx = length perm -> unpermute perm (permuted 0 idx perm) = idx.
Proof.
  intros Hp Hl. unfold unpermute, permuted.
  transitivity (map (fun j => nth j idx 0) (seq 0 (length perm))).
  - apply map_ext_in. intros j Hj. apply in_seq in Hj.
    apply (nth_index_of_map (fun p => nth p idx 0)).
    apply (is_perm_In perm j Hp). lia.
  - apply map_nth_seq0. exact Hl.
Qed.

Lemma inb_map_nth sh idx perm :
  (forall p, In p perm -> p < length sh) -> inb sh idx = true ->
  inb (map (fun p => nth p sh 0) perm) (map (fun p => nth p idx 0) perm) = true.
Proof.
  intros Hp Hin. apply (proj1 (inb_nth sh idx)) in Hin. destruct Hin as [Hl Hk].
  induction perm as [|p perm IH]; [reflexivity|].
  cbn [map inb]. apply andb_true_iff. split.
  - apply Nat.ltb_lt. apply Hk. apply Hp. left. reflexivity.
  - apply IH. intros q Hq. apply Hp. right. exact Hq.
Qed.

Lemma inb_permuted perm sh idx :
  is_perm perm -> length sh = length perm -> inb sh idx = true ->
  inb (permuted 0 sh perm) (permuted 0 idx perm) = true.
Proof.
  intros Hp Hl Hin. unfold permuted. apply inb_map_nth; [|exact Hin].
  intros p Hq. apply (is_perm_In perm p Hp) in Hq. lia.
Qed.

(* ------------------------------------------------------------------ *)
(* 13: a selection that is the full range on all axes but one *)

Definition axis_sel (sh : list nat) (axis start len : nat) : list (nat * nat) :=
  set_nth (map (fun d => (0, d)) sh) axis (start, len).

Lemma in_range_cons s sel i idx :
  in_range (s :: sel) (i :: idx)
  = (Nat.leb (fst s) i && Nat.ltb i (fst s + snd s)) && in_range sel idx.
Proof. reflexivity. Qed.

Lemma in_range_full sh idx :
  inb sh idx = true -> in_range (map (fun d => (0, d)) sh) idx = true.
Proof.
  revert idx. induction sh as [|d sh IH]; intros [|i idx] H; cbn [inb] in H; try discriminate.
  - reflexivity.
  - apply andb_true_iff in H. destruct H as [Hi H]. apply Nat.ltb_lt in Hi.
    cbn [map]. rewrite in_range_cons. cbn [fst snd]. rewrite (IH idx H).
    apply andb_true_iff. split; [|reflexivity].
    apply andb_true_iff. split; [apply Nat.leb_le; lia|apply Nat.ltb_lt; lia].
Qed.

Lemma in_range_axis_sel sh axis start len idx :
  inb sh idx = true -> axis < length sh ->
  in_range (axis_sel sh axis start len) idx
  = Nat.leb start (nth axis idx 0) && Nat.ltb (nth axis idx 0) (start + len).
Proof.
  unfold axis_sel. revert axis idx.
  induction sh as [|d sh IH]; intros axis [|i idx] H Hax; cbn [inb length] in H, Hax;
    try discriminate; try lia.
  apply andb_true_iff in H. destruct H as [Hi H]. apply Nat.ltb_lt in Hi.
  cbn [map]. destruct axis as [|axis].
  - rewrite set_nth_cons_0, in_range_cons. cbn [fst snd nth].
    rewrite (in_range_full sh idx H). apply andb_true_r.
  - rewrite set_nth_cons_S, in_range_cons. cbn [fst snd nth].
    rewrite (IH axis idx H) by lia.
    replace (Nat.leb 0 i) with true by (symmetry; apply Nat.leb_le; lia).
    replace (Nat.ltb i (0 + d)) with true by (symmetry; apply Nat.ltb_lt; lia).
    reflexivity.
Qed.

Lemma shift_cons (s : nat * nat) sel i idx :
  map (fun p : nat * nat * nat => snd p - fst (fst p)) (List.combine (s :: sel) (i :: idx))
  = (i - fst s) :: map (fun p : nat * nat * nat => snd p - fst (fst p)) (List.combine sel idx).
Proof. reflexivity. Qed.

Lemma shift_full sh idx :
  length idx = length sh ->
  map (fun p : nat * nat * nat => snd p - fst (fst p))
      (List.combine (map (fun d => (0, d)) sh) idx) = idx.
Proof.
  revert idx. induction sh as [|d sh IH]; intros [|i idx] H; cbn [length] in H; try discriminate.
  - reflexivity.
  - cbn [map]. rewrite shift_cons. cbn [fst]. rewrite IH by lia. f_equal. lia.
Qed.

Lemma shift_axis_sel sh axis start len idx :
  inb sh idx = true -> axis < length sh -> start <= nth axis idx 0 ->
  map (fun p => snd p - fst (fst p)) (List.combine (axis_sel sh axis start len) idx)
  = set_nth idx axis (nth axis idx 0 - start).
Proof.
  intros H Hax _. apply inb_length in H. unfold axis_sel. revert axis idx H Hax.
  induction sh as [|d sh IH]; intros axis [|i idx] H Hax; cbn [length] in H, Hax;
    try discriminate; try lia.
  cbn [map]. destruct axis as [|axis].
  - rewrite !set_nth_cons_0, shift_cons. cbn [fst nth].
    rewrite shift_full by lia. reflexivity.
  - rewrite !set_nth_cons_S, shift_cons. cbn [fst nth].
    rewrite (IH axis idx) by lia. f_equal. lia.
Qed.

(* in-bounds index of a slice, moved back into the sliced tensor *)
Lemma inb_slice_shift sh axis start len idx :
  axis < length sh -> start + len <= nth axis sh 0 ->
  inb (set_nth sh axis len) idx = true ->
  inb sh (set_nth idx axis (nth axis idx 0 + start)) = true
  /\ nth axis idx 0 < len /\ axis < length idx.
Proof.
  intros Hax Hle H. apply (proj1 (inb_nth _ _)) in H. destruct H as [Hl Hk].
  rewrite length_set_nth in Hl, Hk by exact Hax.
  assert (Hax' : axis < length idx) by lia.
  assert (Hi : nth axis idx 0 < len).
  { specialize (Hk axis Hax). rewrite nth_set_nth_eq in Hk by exact Hax. exact Hk. }
  split; [|split; assumption].
  apply (proj2 (inb_nth _ _)). split.
  - rewrite length_set_nth by exact Hax'. exact Hl.
  - intros k Hk'. specialize (Hk k Hk').
    rewrite nth_set_nth in Hk by exact Hax. rewrite nth_set_nth by exact Hax'.
    destruct (Nat.eqb_spec k axis) as [He|Hne]; [subst k; lia|exact Hk].
Qed.

(* ------------------------------------------------------------------ *)
Section FT.
  Context (R : Ring).

  (* 4 *)
  Lemma build_ext sh f g :
    (forall idx, inb sh idx = true -> f idx = g idx) -> build R sh f = build R sh g.
  Proof.
    intros H. unfold build. f_equal. apply map_ext_in. intros idx Hin.
    apply H. apply in_all_idx_inb. exact Hin.
  Qed.

  (* 6 *)
  Lemma length_tdata_build sh f : length (tdata (build R sh f)) = shape_size sh.
  Proof. unfold build. cbn [tdata]. rewrite map_length. apply length_all_idx. Qed.

  (* 7 *)
  Lemma build_get_id t :
    length (tdata t) = shape_size (tshape t) -> build R (tshape t) (get R t) = t.
  Proof.
    destruct t as [sh data]. cbn [tshape tdata]. intros Hl. unfold build. f_equal.
    transitivity (map (fun o => nth o data (r0 R)) (map (offset sh) (all_idx sh))).
    - rewrite map_map. reflexivity.
    - rewrite map_offset_all_idx. apply map_nth_seq0. exact Hl.
  Qed.

  (* 8 *)
  Lemma tensor_ext t1 t2 :
    tshape t1 = tshape t2 ->
    length (tdata t1) = shape_size (tshape t1) ->
    length (tdata t2) = shape_size (tshape t2) ->
    (forall idx, inb (tshape t1) idx = true -> get R t1 idx = get R t2 idx) ->
    t1 = t2.
  Proof.
    intros Hs H1 H2 Hg.
    rewrite <- (build_get_id t1 H1), <- (build_get_id t2 H2). rewrite <- Hs.
    apply build_ext. exact Hg.
  Qed.

  (* 9 *)
  Lemma get_tzeros sh idx : inb sh idx = true -> get R (tzeros R sh) idx = r0 R.
  Proof. intros H. unfold tzeros. rewrite get_build by exact H. reflexivity. Qed.

  (* 10 *)
  Lemma get_tassign t sel src idx :
    inb (tshape t) idx = true ->
    get R (tassign R t sel src) idx
    = if in_range sel idx
      then get R src (map (fun p => snd p - fst (fst p)) (List.combine sel idx))
      else get R t idx.
  Proof. intros H. unfold tassign. rewrite get_build by exact H. reflexivity. Qed.

  (* 11 *)
  Lemma get_tslice t axis start len idx :
    inb (set_nth (tshape t) axis len) idx = true ->
    get R (tslice R t axis start len) idx
    = get R t (set_nth idx axis (nth axis idx 0 + start)).
  Proof. intros H. unfold tslice. rewrite get_build by exact H. reflexivity. Qed.

  (* 12 *)
  Lemma get_ttranspose perm t idx :
    is_perm perm -> length (tshape t) = length perm -> inb (tshape t) idx = true ->
    get R (ttranspose R t perm) (permuted 0 idx perm) = get R t idx.
  Proof.
    intros Hp Hl Hin. unfold ttranspose.
    rewrite get_build by (apply inb_permuted; assumption).
    rewrite unpermute_permuted; [reflexivity|exact Hp|].
    rewrite (inb_length _ _ Hin). exact Hl.
  Qed.

  (* 14 *)
  Lemma tshape_tassign t sel src : tshape (tassign R t sel src) = tshape t.
  Proof. reflexivity. Qed.

  Lemma tshape_tslice t axis start len :
    tshape (tslice R t axis start len) = set_nth (tshape t) axis len.
  Proof. reflexivity. Qed.

  Lemma tslice_tassign_same t axis start len src :
    axis < length (tshape t) -> start + len <= nth axis (tshape t) 0 ->
    tshape src = set_nth (tshape t) axis len ->
    length (tdata src) = shape_size (tshape src) ->
    tslice R (tassign R t (axis_sel (tshape t) axis start len) src) axis start len = src.
  Proof.
    intros Hax Hle Hsh Hlen. apply tensor_ext.
    - rewrite tshape_tslice, tshape_tassign. symmetry. exact Hsh.
    - unfold tslice. rewrite length_tdata_build. reflexivity.
    - exact Hlen.
    - intros idx Hidx. rewrite tshape_tslice, tshape_tassign in Hidx.
      rewrite get_tslice by (rewrite tshape_tassign; exact Hidx).
      destruct (inb_slice_shift _ _ _ _ _ Hax Hle Hidx) as [Hin' [Hi Hax']].
      rewrite get_tassign by exact Hin'.
      rewrite in_range_axis_sel by assumption.
      rewrite nth_set_nth_eq by exact Hax'.
      replace (Nat.leb start (nth axis idx 0 + start)) with true
        by (symmetry; apply Nat.leb_le; lia).
      replace (Nat.ltb (nth axis idx 0 + start) (start + len)) with true
        by (symmetry; apply Nat.ltb_lt; lia).
      cbn [andb].
      rewrite shift_axis_sel; [|exact Hin'|exact Hax|rewrite nth_set_nth_eq by exact Hax'; lia].
      rewrite nth_set_nth_eq by exact Hax'.
      rewrite set_nth_set_nth by exact Hax'.
      replace (nth axis idx 0 + start - start) with (nth axis idx 0) by lia.
      rewrite set_nth_nth_id by exact Hax'. reflexivity.
  Qed.

  Lemma tslice_tassign_disjoint t axis start len start' len' src :
    axis < length (tshape t) -> start + len <= nth axis (tshape t) 0 ->
    (start + len <= start' \/ start' + len' <= start) ->
    tslice R (tassign R t (axis_sel (tshape t) axis start' len') src) axis start len
    = tslice R t axis start len.
  Proof.
    intros Hax Hle Hdis. unfold tslice. rewrite tshape_tassign.
    apply build_ext. intros idx Hidx.
    destruct (inb_slice_shift _ _ _ _ _ Hax Hle Hidx) as [Hin' [Hi Hax']].
    rewrite get_tassign by exact Hin'.
    rewrite in_range_axis_sel by assumption.
    rewrite nth_set_nth_eq by exact Hax'.
    replace (Nat.leb start' (nth axis idx 0 + start)
             && Nat.ltb (nth axis idx 0 + start) (start' + len')) with false; [reflexivity|].
    symmetry. apply andb_false_iff.
    destruct Hdis as [Hd|Hd].
    - left. apply Nat.leb_gt. lia.
    - right. apply Nat.ltb_ge. lia.
  Qed.

  Lemma tslice_tzeros sh axis start len :
    axis < length sh -> start + len <= nth axis sh 0 ->
    tslice R (tzeros R sh) axis start len = tzeros R (set_nth sh axis len).
  Proof.
    intros Hax Hle. unfold tslice. change (tshape (tzeros R sh)) with sh.
    unfold tzeros at 2. apply build_ext. intros idx Hidx.
    destruct (inb_slice_shift _ _ _ _ _ Hax Hle Hidx) as [Hin' _].
    apply get_tzeros. exact Hin'.
  Qed.

  (* 15 *)
  Lemma get_tassign_zeros sh axis start len src idx :
    inb sh idx = true -> axis < length sh ->
    get R (tassign R (tzeros R sh) (axis_sel sh axis start len) src) idx
    = if Nat.leb start (nth axis idx 0) && Nat.ltb (nth axis idx 0) (start + len)
      then get R src (set_nth idx axis (nth axis idx 0 - start))
      else r0 R.
  Proof.
    intros Hin Hax.
    rewrite get_tassign by exact Hin.
    rewrite in_range_axis_sel by assumption.
    destruct (Nat.leb start (nth axis idx 0) && Nat.ltb (nth axis idx 0) (start + len)) eqn:E.
    - apply andb_true_iff in E. destruct E as [E _]. apply Nat.leb_le in E.
      rewrite shift_axis_sel by assumption. reflexivity.
    - apply get_tzeros. exact Hin.
  Qed.

  (* 16 *)
  Lemma all_zero_tzeros sh : Forall (fun v => v = r0 R) (tdata (tzeros R sh)).
  Proof.
    unfold tzeros, build. cbn [tdata]. apply Forall_forall. intros v Hv.
    apply in_map_iff in Hv. destruct Hv as [idx [He _]]. symmetry. exact He.
  Qed.
End FT.
