(* Proofs/FermiReduceProofs.v — C09 for the reductions, scalar conversions and
   elementwise functions of Model/FermiReduce.v (item, sum, max, min,
   abs/clip/any elementwise function, norm^2).

   * every one of them returns EQUAL results on equivalent arrays (feq: same
     value with the pending signs applied, same labels), in particular on an
     array and on its synchronised copy, and after any program of phase /
     structural operations run on the lazy array or on its synchronised copy;
   * item / sum are described in terms of the RAW blocks and the sign table:
     the pending sign of a sector is applied exactly once;
   * norm^2 reads the raw blocks and is nevertheless sign-blind (|-a|^2 = |a|^2);
   * the inherited (pre-repair) item / sum / max / min / abs DO observe the
     pending signs: concrete witnesses.

   Ring laws appear as explicit premises. *)
From SV Require Import Base.Prelude Base.Sym Base.Tensor Gen.PhasePerm Model.SymInst Model.Sectors Model.Array
  Model.Arith Model.Wf Model.Fermi Model.Ctor Model.FermiReduce Proofs.SymLaws Proofs.LazyProofs.
From Coq Require Import Permutation.
Local Open Scope nat_scope.

Section ReduceProofs.
  Context (G : Symmetry) (R : Ring).
  Notation T := (RT R).
  Notation sector := (list (C G)).
  Notation keq := (list_eqb (ceqb G)).
  Notation arr := (aarray G R).
  Notation farr := (farray G R).

  Definition rsgn (b : bool) (v : T) : T := if b then rneg R v else v.

  (* ------------------------------------------------------------ congruence *)
  Lemma item_congr (x y : farr) : feq G R x y -> f_item G R x = f_item G R y.
  Proof. intros [Hv _]. unfold f_item. now rewrite Hv. Qed.

  Lemma sum_congr (x y : farr) : feq G R x y -> f_sum G R x = f_sum G R y.
  Proof. intros [Hv _]. unfold f_sum. now rewrite Hv. Qed.

  Lemma max_congr (leb : T -> T -> bool) (x y : farr) : feq G R x y -> f_max G R leb x = f_max G R leb y.
  Proof. intros [Hv _]. unfold f_max. now rewrite Hv. Qed.

  Lemma min_congr (leb : T -> T -> bool) (x y : farr) : feq G R x y -> f_min G R leb x = f_min G R leb y.
  Proof. intros [Hv _]. unfold f_min. now rewrite Hv. Qed.

  Lemma unary_congr (fn : T -> T) (x y : farr) : feq G R x y -> f_unary G R fn x = f_unary G R fn y.
  Proof. intros H. apply feq_iff_sync in H. unfold f_unary. now rewrite H. Qed.

  Lemma unary_congr_feq (fn : T -> T) (x y : farr) :
    feq G R x y -> feq G R (f_unary G R fn x) (f_unary G R fn y).
  Proof. intros H. rewrite (unary_congr fn x y H). apply feq_refl. Qed.

  (* ------------------------------------------------------------ the synchronised copy *)
  Lemma item_sync (x : farr) : f_item G R x = f_item G R (f_phase_sync G R x).
  Proof. apply item_congr, feq_sym, sync_feq. Qed.
  Lemma sum_sync (x : farr) : f_sum G R x = f_sum G R (f_phase_sync G R x).
  Proof. apply sum_congr, feq_sym, sync_feq. Qed.
  Lemma max_sync leb (x : farr) : f_max G R leb x = f_max G R leb (f_phase_sync G R x).
  Proof. apply max_congr, feq_sym, sync_feq. Qed.
  Lemma min_sync leb (x : farr) : f_min G R leb x = f_min G R leb (f_phase_sync G R x).
  Proof. apply min_congr, feq_sym, sync_feq. Qed.
  Lemma unary_sync fn (x : farr) : f_unary G R fn x = f_unary G R fn (f_phase_sync G R x).
  Proof. apply unary_congr, feq_sym, sync_feq. Qed.

  (* on a synchronised array the repaired and the inherited methods coincide *)
  Lemma value_no_phases (b : arr) odd : f_value G R (mkF G R b [] odd) = b.
  Proof.
    unfold f_value, f_phase_sync. cbn [fbase fphases foddpos ph_has mem].
    rewrite map_id. now destruct b.
  Qed.

  Lemma item_raw_sync (x : farr) : f_item_raw G R (f_phase_sync G R x) = f_item G R x.
  Proof. reflexivity. Qed.
  Lemma sum_raw_sync (x : farr) : f_sum_raw G R (f_phase_sync G R x) = f_sum G R x.
  Proof. reflexivity. Qed.
  Lemma max_raw_sync leb (x : farr) : f_max_raw G R leb (f_phase_sync G R x) = f_max G R leb x.
  Proof. reflexivity. Qed.
  Lemma min_raw_sync leb (x : farr) : f_min_raw G R leb (f_phase_sync G R x) = f_min G R leb x.
  Proof. reflexivity. Qed.
  Lemma unary_raw_sync fn (x : farr) : f_unary_raw G R fn (f_phase_sync G R x) = f_unary G R fn x.
  Proof. reflexivity. Qed.

  (* ------------------------------------------------------------ item: the value read *)
  (* Some exactly when the VALUE has one stored block with one element *)
  Lemma item_spec (x : farr) (v : T) :
    f_item G R x = Some v <->
    exists s t, blocks G R (f_value G R x) = [(s, t)] /\ tdata t = [v].
  Proof.
    unfold f_item, a_item. split.
    - destruct (blocks G R (f_value G R x)) as [|[s t] [|? ?]]; try discriminate.
      destruct (tdata t) as [|a [|? ?]] eqn:Et; try discriminate.
      intros H. injection H as ->. exists s, t. now split.
    - intros (s & t & Hb & Ht). now rewrite Hb, Ht.
  Qed.

  (* in terms of the raw block and the sign table: the pending sign is applied exactly once *)
  Lemma item_value (x : farr) (s : sector) (t : tensor R) (a : T) :
    blocks G R (fbase G R x) = [(s, t)] -> tdata t = [a] ->
    f_item G R x = Some (rsgn (ph_has G s (fphases G R x)) a).
  Proof.
    intros Hb Ht. unfold f_item, a_item, f_value, f_phase_sync. cbn [fbase with_blocks blocks].
    rewrite Hb. cbn [map fst snd]. unfold rsgn.
    destruct (ph_has G s (fphases G R x)); cbn [tneg tmap tdata]; rewrite Ht; reflexivity.
  Qed.

  (* the repaired item = the inherited item with the sign of the single stored sector *)
  Lemma item_vs_raw (x : farr) :
    f_item G R x =
    match blocks G R (fbase G R x) with
    | [(s, _)] => option_map (rsgn (ph_has G s (fphases G R x))) (f_item_raw G R x)
    | _ => None
    end.
  Proof.
    unfold f_item, f_item_raw, a_item, f_value, f_phase_sync. cbn [fbase with_blocks blocks].
    destruct (blocks G R (fbase G R x)) as [|[s t] [|? ?]]; cbn [map fst snd]; try reflexivity.
    - unfold rsgn. destruct (ph_has G s (fphases G R x)); cbn [tneg tmap tdata];
        destruct (tdata t) as [|a [|? ?]]; reflexivity.
    - destruct (if ph_has G s (fphases G R x) then _ else _); reflexivity.
  Qed.

  (* rank 0: item is the single entry of the dense value (FermionicArray.to_dense) *)
  Lemma item_dense (x : farr) (v : T) :
    ndim G R (fbase G R x) = 0 ->
    Forall (fun s : sector => length s = ndim G R (fbase G R x)) (fsectors G R x) ->
    f_item G R x = Some v ->
    exists d, f_to_dense G R x = Some d /\ tdata d = [v] /\ get R d [] = v.
  Proof.
    intros Hn Hlen Hi. apply item_spec in Hi. destruct Hi as (s & t & Hb & Ht).
    assert (Hs : s = []).
    { rewrite <- (value_sectors G R) in Hlen. unfold sectors in Hlen. rewrite Hb in Hlen.
      cbn [map fst] in Hlen. inversion Hlen as [|? ? Hl _]; subst. rewrite Hn in Hl.
      now apply length_zero_iff_nil. }
    subst s. exists t. unfold f_to_dense, to_dense.
    assert (Hix : indices G R (f_value G R x) = []).
    { apply length_zero_iff_nil. exact Hn. }
    rewrite Hix, Hb. cbn. repeat split; [exact Ht|]. unfold get. rewrite Ht. destruct (tshape t); reflexivity.
  Qed.

  (* ------------------------------------------------------------ sum: the value read *)
  Section SumValue.
    Context (rneg_zero : rneg R (r0 R) = r0 R)
            (rneg_add : forall a b : T, rneg R (radd R a b) = radd R (rneg R a) (rneg R b)).

    Lemma tsum_tneg (t : tensor R) : tsum R (tneg R t) = rneg R (tsum R t).
    Proof.
      unfold tsum, tneg, tmap. cbn [tdata]. induction (tdata t) as [|a l IH]; cbn [map rsum fold_right].
      - now rewrite rneg_zero.
      - fold (rsum R (map (rneg R) l)). fold (rsum R l). now rewrite IH, rneg_add.
    Qed.

    (* every block contributes its raw sum, with its pending sign, once *)
    Lemma sum_value (x : farr) :
      f_sum G R x =
      match blocks G R (fbase G R x) with
      | [] => None
      | bs => Some (fold_left (fun acc sb => radd R acc (rsgn (ph_has G (fst sb) (fphases G R x)) (tsum R (snd sb))))
                              bs (r0 R))
      end.
    Proof.
      unfold f_sum, a_sum_opt, a_sum, dict_sum, f_value, f_phase_sync. cbn [fbase with_blocks blocks].
      set (ph := fphases G R x).
      assert (E : forall l acc,
                 fold_left (fun acc p => radd R acc (tsum R (snd p)))
                           (map (fun sb : sector * tensor R =>
                                   if ph_has G (fst sb) ph then (fst sb, tneg R (snd sb)) else sb) l) acc
                 = fold_left (fun acc sb => radd R acc (rsgn (ph_has G (fst sb) ph) (tsum R (snd sb)))) l acc).
      { induction l as [|[s t] l IH]; intros acc; [reflexivity|]. cbn [map fold_left fst snd].
        rewrite <- IH. f_equal. f_equal. unfold rsgn. destruct (ph_has G s ph); cbn [snd]; [apply tsum_tneg | reflexivity]. }
      destruct (blocks G R (fbase G R x)) as [|p l]; [reflexivity|].
      rewrite <- E. reflexivity.
    Qed.
  End SumValue.

  (* ------------------------------------------------------------ norm^2 is sign-blind *)
  Section Norm.
    Context (abs2_neg : forall a : T, rmul R (rneg R a) (rconj R (rneg R a)) = rmul R a (rconj R a)).

    Lemma tnorm2_tneg (t : tensor R) : tnorm2 R (tneg R t) = tnorm2 R t.
    Proof.
      unfold tnorm2, tneg, tmap. cbn [tdata]. rewrite map_map. f_equal. apply map_ext. exact abs2_neg.
    Qed.

    (* any change of signs of whole blocks leaves the norm^2 of the raw blocks unchanged *)
    Lemma norm2_signmap (c : sector -> bool) (b : arr) :
      a_norm2_opt G R (a_signmap G R c b) = a_norm2_opt G R b.
    Proof.
      unfold a_norm2_opt, a_norm2, dict_norm2, a_signmap. cbn [with_blocks blocks].
      assert (E : forall l acc,
                 fold_left (fun acc p => radd R acc (tnorm2 R (snd p)))
                           (map (fun sb : sector * tensor R => (fst sb, LazyProofs.sgn R (c (fst sb)) (snd sb))) l) acc
                 = fold_left (fun acc p => radd R acc (tnorm2 R (snd p))) l acc).
      { induction l as [|[s t] l IH]; intros acc; [reflexivity|]. cbn [map fold_left fst snd].
        rewrite IH. f_equal. f_equal. unfold LazyProofs.sgn. destruct (c s); [apply tnorm2_tneg | reflexivity]. }
      destruct (blocks G R b) as [|p l]; [reflexivity|]. cbn [map]. f_equal. apply (E (p :: l)).
    Qed.

    Lemma norm2_sign_blind (x : farr) : f_norm2 G R (f_phase_sync G R x) = f_norm2 G R x.
    Proof.
      unfold f_norm2. change (fbase G R (f_phase_sync G R x)) with (f_value G R x).
      rewrite f_value_eq. apply norm2_signmap.
    Qed.

    (* norm^2 of the raw blocks = norm^2 of the value: whether or not the signs are applied *)
    Lemma norm2_value (x : farr) : f_norm2 G R x = a_norm2_opt G R (f_value G R x).
    Proof. symmetry. apply norm2_sign_blind. Qed.

    (* the sign table is irrelevant altogether *)
    Lemma norm2_any_table (x : farr) (ph : list sector) : f_norm2 G R (with_phases G R x ph) = f_norm2 G R x.
    Proof. reflexivity. Qed.

    Lemma norm2_congr (x y : farr) : feq G R x y -> f_norm2 G R x = f_norm2 G R y.
    Proof. intros [Hv _]. now rewrite !norm2_value, Hv. Qed.

    Lemma norm2_sync (x : farr) : f_norm2 G R x = f_norm2 G R (f_phase_sync G R x).
    Proof. symmetry. apply norm2_sign_blind. Qed.
  End Norm.

  (* ------------------------------------------------------------ elementwise functions *)
  Lemma unary_phases fn (x : farr) : fphases G R (f_unary G R fn x) = [].
  Proof. reflexivity. Qed.

  Lemma unary_oddpos fn (x : farr) : foddpos G R (f_unary G R fn x) = foddpos G R x.
  Proof. reflexivity. Qed.

  (* the value of the result is the function applied to the VALUE of the operand *)
  Lemma unary_value fn (x : farr) : f_value G R (f_unary G R fn x) = a_unary G R fn (f_value G R x).
  Proof. unfold f_unary, with_base. cbn [fphases foddpos f_phase_sync]. apply value_no_phases. Qed.

  (* for an EVEN function (abs) the result is the function applied to the raw blocks, table dropped *)
  Lemma unary_even fn (x : farr) :
    (forall a : T, fn (rneg R a) = fn a) ->
    f_unary G R fn x = mkF G R (a_unary G R fn (fbase G R x)) [] (foddpos G R x).
  Proof.
    intros Hev. unfold f_unary, with_base, a_unary, f_phase_sync, dict_map, with_blocks.
    cbn [fbase fphases foddpos blocks indices charge]. f_equal. f_equal.
    rewrite map_map. apply map_ext. intros [s t]. cbn [fst snd].
    destruct (ph_has G s (fphases G R x)); cbn [fst snd]; [|reflexivity]. f_equal.
    unfold tneg, tmap. cbn [tshape tdata]. f_equal. rewrite map_map. apply map_ext. exact Hev.
  Qed.

  (* ------------------------------------------------------------ after any program *)
  Section Programs.
    Context (HG : GroupLaws G)
            (rneg_invol : forall a : T, rneg R (rneg R a) = a)
            (rneg_zero : rneg R (r0 R) = r0 R)
            (rconj_rneg : forall a : T, rconj R (rneg R a) = rneg R (rconj R a)).

    (* any observation that respects the equivalence gives equal results after the same program
       run on the lazy array and on its synchronised copy *)
    Lemma observe_programs {A} (obs : farr -> A) (p : list (lop G)) (x : farr) :
      (forall u v, feq G R u v -> obs u = obs v) ->
      lwf G R x -> prog_ok G (ndim G R (fbase G R x)) p ->
      obs (run_ops G R p x) = obs (run_ops G R p (f_phase_sync G R x)).
    Proof. intros Hobs Hx Hp. apply Hobs. now apply programs_congr. Qed.

    Lemma reductions_programs (leb : T -> T -> bool) (fn : T -> T) (p : list (lop G)) (x : farr) :
      lwf G R x -> prog_ok G (ndim G R (fbase G R x)) p ->
      let y := run_ops G R p x in
      let y' := run_ops G R p (f_phase_sync G R x) in
      f_item G R y = f_item G R y' /\ f_sum G R y = f_sum G R y' /\
      f_max G R leb y = f_max G R leb y' /\ f_min G R leb y = f_min G R leb y' /\
      f_unary G R fn y = f_unary G R fn y'.
    Proof.
      intros Hx Hp y y'. assert (H : feq G R y y') by now apply programs_congr.
      repeat split; [now apply item_congr | now apply sum_congr | now apply max_congr | now apply min_congr
                     | now apply unary_congr].
    Qed.

    Lemma norm2_programs (abs2_neg : forall a : T, rmul R (rneg R a) (rconj R (rneg R a)) = rmul R a (rconj R a))
          (p : list (lop G)) (x : farr) :
      lwf G R x -> prog_ok G (ndim G R (fbase G R x)) p ->
      f_norm2 G R (run_ops G R p x) = f_norm2 G R (run_ops G R p (f_phase_sync G R x)).
    Proof. intros Hx Hp. apply (norm2_congr abs2_neg). now apply programs_congr. Qed.
  End Programs.
End ReduceProofs.

(* ------------------------------------------------------------------ the two exact rings *)
Lemma ZRing_abs2_neg : forall a : RT ZRing, rmul ZRing (rneg ZRing a) (rconj ZRing (rneg ZRing a)) = rmul ZRing a (rconj ZRing a).
Proof. intros a. cbn [ZRing RT rmul rneg rconj]. lia. Qed.

Lemma GRing_abs2_neg : forall a : RT GRing, rmul GRing (rneg GRing a) (rconj GRing (rneg GRing a)) = rmul GRing a (rconj GRing a).
Proof. intros [a b]. cbn [GRing RT rmul rneg rconj fst snd]. f_equal; lia. Qed.

(* |-a|^2 = |a|^2 follows from the usual laws of negation *)
Lemma abs2_neg_of_laws (R : Ring) :
  (forall a : RT R, rneg R (rneg R a) = a) ->
  (forall a b : RT R, rmul R (rneg R a) b = rneg R (rmul R a b)) ->
  (forall a b : RT R, rmul R a (rneg R b) = rneg R (rmul R a b)) ->
  (forall a : RT R, rconj R (rneg R a) = rneg R (rconj R a)) ->
  forall a : RT R, rmul R (rneg R a) (rconj R (rneg R a)) = rmul R a (rconj R a).
Proof. intros Hi Hl Hr Hc a. now rewrite Hc, Hl, Hr, Hi. Qed.

Definition norm2_congr_ZRing G := norm2_congr G ZRing ZRing_abs2_neg.
Definition norm2_congr_GRing G := norm2_congr G GRing GRing_abs2_neg.
Definition norm2_sign_blind_ZRing G := norm2_sign_blind G ZRing ZRing_abs2_neg.
Definition norm2_sign_blind_GRing G := norm2_sign_blind G GRing GRing_abs2_neg.

Lemma z_abs_even : forall a : RT ZRing, z_abs (rneg ZRing a) = z_abs a.
Proof. intros a. unfold z_abs. cbn [ZRing rneg]. apply Z.abs_opp. Qed.

Lemma abs_congr G (x y : farray G ZRing) : feq G ZRing x y -> f_abs G x = f_abs G y.
Proof. apply unary_congr. Qed.
Lemma abs_congr_feq G (x y : farray G ZRing) : feq G ZRing x y -> feq G ZRing (f_abs G x) (f_abs G y).
Proof. apply unary_congr_feq. Qed.
Lemma abs_sync G (x : farray G ZRing) : f_abs G x = f_abs G (f_phase_sync G ZRing x).
Proof. apply unary_sync. Qed.
Lemma clip_congr G lo hi (x y : farray G ZRing) : feq G ZRing x y -> f_clip G lo hi x = f_clip G lo hi y.
Proof. apply unary_congr. Qed.
Lemma clip_sync G lo hi (x : farray G ZRing) : f_clip G lo hi x = f_clip G lo hi (f_phase_sync G ZRing x).
Proof. apply unary_sync. Qed.
(* abs is even: the repaired abs = abs of the raw blocks with the sign table DROPPED
   (the inherited one kept the table: f_abs_raw, refuted below) *)
Lemma abs_raw_blocks G (x : farray G ZRing) :
  f_abs G x = mkF G ZRing (a_unary G ZRing z_abs (fbase G ZRing x)) [] (foddpos G ZRing x).
Proof. apply unary_even. exact z_abs_even. Qed.
Lemma abs_vs_raw G (x : farray G ZRing) : f_abs G x = with_phases G ZRing (f_abs_raw G x) [].
Proof. rewrite abs_raw_blocks. reflexivity. Qed.

(* ------------------------------------------------------------------ examples *)
Module ReduceExamples.
  Local Open Scope Z_scope.
  Definition zt (sh : list nat) (d : list Z) : tensor ZRing := @mkT ZRing sh d.
  Definition gt (sh : list nat) (d : list (Z * Z)) : tensor GRing := @mkT GRing sh d.

  (* a rank-0 array (a scalar, e.g. the result of a full contraction) with a pending sign,
     as left by phase_global *)
  Definition s0 : farray Z2 ZRing := mkF Z2 ZRing (mkA Z2 ZRing [] 0 [([], zt [] [7])]) [[]] [].
  (* the same value with the sign multiplied in *)
  Definition s0' : farray Z2 ZRing := mkF Z2 ZRing (mkA Z2 ZRing [] 0 [([], zt [] [-7])]) [] [].

  (* a rank-2 (ket, bra) matrix, blocks (0,0) 1x1, (1,1) 2x2, and (2 more sectors absent);
     pending -1 on the odd block *)
  Definition ixK : index Z2 := Index Z2 [(0, 1%nat); (1, 2%nat)] false None.
  Definition ixB : index Z2 := Index Z2 [(0, 1%nat); (1, 2%nat)] true None.
  Definition m0 : farray Z2 ZRing :=
    mkF Z2 ZRing (mkA Z2 ZRing [ixK; ixB] 0 [([0; 0], zt [1; 1]%nat [3]); ([1; 1], zt [2; 2]%nat [1; -2; 4; 5])])
        [[1; 1]] [([3], false); ([4], true)].
  Definition m0' : farray Z2 ZRing :=
    mkF Z2 ZRing (mkA Z2 ZRing [ixK; ixB] 0 [([0; 0], zt [1; 1]%nat [-3]); ([1; 1], zt [2; 2]%nat [-1; 2; -4; -5])])
        [[0; 0]] [([3], false); ([4], true)].
  (* an odd-charge rank-2 array over the Gaussian integers, three blocks, two pending signs,
     and a stale sign entry on a sector without block *)
  Definition ixC : index Z2 := Index Z2 [(0, 2%nat); (1, 1%nat)] true None.
  Definition c0 : farray Z2 GRing :=
    mkF Z2 GRing (mkA Z2 GRing [ixK; ixC] 1
                    [([0; 1], gt [1; 1]%nat [(2, -3)]); ([1; 0], gt [2; 2]%nat [(1, 1); (0, -2); (-4, 0); (1, 5)])])
        [[1; 0]; [1; 1]] [([5], false)].

  (* hypotheses of the congruence theorems hold on non-trivial instances *)
  Example ex_feq_s0 : feq Z2 ZRing s0 s0'.
  Proof. split; reflexivity. Qed.
  Example ex_feq_m0 : feq Z2 ZRing m0 m0'.
  Proof. split; reflexivity. Qed.
  Example ex_m0_differ : fbase Z2 ZRing m0 <> fbase Z2 ZRing m0' /\ fphases Z2 ZRing m0 <> fphases Z2 ZRing m0'.
  Proof. split; discriminate. Qed.
  Example ex_feq_c0 : feq Z2 GRing c0 (f_phase_sync Z2 GRing c0).
  Proof. apply feq_sym, sync_feq. Qed.

  Example ex_lwf_m0 : lwf Z2 ZRing m0.
  Proof.
    split.
    - repeat (constructor; [cbn; intuition discriminate|]). constructor.
    - repeat constructor.
  Qed.
  Example ex_lwf_s0 : lwf Z2 ZRing s0.
  Proof.
    split.
    - repeat (constructor; [cbn; intuition discriminate|]). constructor.
    - repeat constructor.
  Qed.

  (* item *)
  Example ex_item_s0 : f_item Z2 ZRing s0 = Some (-7) /\ f_item Z2 ZRing s0' = Some (-7).
  Proof. split; reflexivity. Qed.
  Example ex_item_by_thm : f_item Z2 ZRing s0 = f_item Z2 ZRing s0'.
  Proof. exact (item_congr Z2 ZRing s0 s0' ex_feq_s0). Qed.
  Example ex_item_value_hyps :
    blocks Z2 ZRing (fbase Z2 ZRing s0) = [([], zt [] [7])] /\ tdata (zt [] [7]) = [7] /\
    ph_has Z2 [] (fphases Z2 ZRing s0) = true.
  Proof. repeat split. Qed.
  Example ex_item_dense_hyps :
    ndim Z2 ZRing (fbase Z2 ZRing s0) = 0%nat /\
    Forall (fun s : list (C Z2) => length s = ndim Z2 ZRing (fbase Z2 ZRing s0)) (fsectors Z2 ZRing s0) /\
    f_to_dense Z2 ZRing s0 = Some (zt [] [-7]).
  Proof. repeat split. repeat constructor. Qed.
  (* item of a matrix with two blocks raises; of a 1x1 single block it does not *)
  Example ex_item_m0 : f_item Z2 ZRing m0 = None.
  Proof. reflexivity. Qed.

  (* the code before fix 5ee262a read the raw block: the pending sign is OBSERVED *)
  Example item_raw_observes_sign_s0 : f_item_raw Z2 ZRing s0 = Some 7 /\ f_item_raw Z2 ZRing (f_phase_sync Z2 ZRing s0) = Some (-7).
  Proof. split; reflexivity. Qed.
  Lemma item_raw_observes_sign :
    exists x : farray Z2 ZRing, f_item_raw Z2 ZRing x <> f_item_raw Z2 ZRing (f_phase_sync Z2 ZRing x).
  Proof. exists s0. vm_compute. discriminate. Qed.

  (* reductions on the matrix: value entries are 3 | -1 2 -4 -5 *)
  Example ex_sum_m0 : f_sum Z2 ZRing m0 = Some (-5) /\ f_sum Z2 ZRing m0' = Some (-5).
  Proof. split; reflexivity. Qed.
  Example ex_max_m0 : f_max Z2 ZRing z_leb m0 = Some 3 /\ f_max Z2 ZRing z_leb m0' = Some 3.
  Proof. split; reflexivity. Qed.
  Example ex_min_m0 : f_min Z2 ZRing z_leb m0 = Some (-5) /\ f_min Z2 ZRing z_leb m0' = Some (-5).
  Proof. split; reflexivity. Qed.
  Example ex_norm2_m0 : f_norm2 Z2 ZRing m0 = Some 55 /\ f_norm2 Z2 ZRing m0' = Some 55 /\
                        f_norm2 Z2 ZRing (f_phase_sync Z2 ZRing m0) = Some 55.
  Proof. repeat split; reflexivity. Qed.
  Example ex_abs_m0 : f_abs Z2 m0 = f_abs Z2 m0' /\
                      blocks Z2 ZRing (fbase Z2 ZRing (f_abs Z2 m0)) = [([0; 0], zt [1; 1]%nat [3]); ([1; 1], zt [2; 2]%nat [1; 2; 4; 5])] /\
                      fphases Z2 ZRing (f_abs Z2 m0) = [].
  Proof. repeat split; reflexivity. Qed.
  Example ex_clip_m0 : blocks Z2 ZRing (fbase Z2 ZRing (f_clip Z2 (-1) 1 m0)) = [([0; 0], zt [1; 1]%nat [1]); ([1; 1], zt [2; 2]%nat [-1; 1; -1; -1])].
  Proof. reflexivity. Qed.
  (* Gaussian integers: value entries 2-3i | -1-i, 2i, 4, -1-5i; numpy orders them lexicographically *)
  Example ex_c0 : f_sum Z2 GRing c0 = Some (4, -7) /\ f_max Z2 GRing g_leb c0 = Some (4, 0) /\
                  f_min Z2 GRing g_leb c0 = Some (-1, -5) /\ f_norm2 Z2 GRing c0 = Some (61, 0) /\
                  f_norm2 Z2 GRing (f_phase_sync Z2 GRing c0) = Some (61, 0).
  Proof. repeat split; reflexivity. Qed.

  (* the code before fix 539bade: the inherited reductions / abs observe the pending signs *)
  Lemma sum_raw_observes_sign :
    exists x : farray Z2 ZRing, f_sum_raw Z2 ZRing x <> f_sum_raw Z2 ZRing (f_phase_sync Z2 ZRing x).
  Proof. exists m0. vm_compute. discriminate. Qed.
  Lemma max_raw_observes_sign :
    exists x : farray Z2 ZRing, f_max_raw Z2 ZRing z_leb x <> f_max_raw Z2 ZRing z_leb (f_phase_sync Z2 ZRing x).
  Proof. exists m0. vm_compute. discriminate. Qed.
  Lemma min_raw_observes_sign :
    exists x : farray Z2 ZRing, f_min_raw Z2 ZRing z_leb x <> f_min_raw Z2 ZRing z_leb (f_phase_sync Z2 ZRing x).
  Proof. exists m0. vm_compute. discriminate. Qed.
  (* abs kept the sign table: the "absolute value" had negative entries *)
  Lemma abs_raw_observes_sign :
    exists x : farray Z2 ZRing,
      f_value Z2 ZRing (f_abs_raw Z2 x) <> f_value Z2 ZRing (f_abs_raw Z2 (f_phase_sync Z2 ZRing x)).
  Proof. exists m0. vm_compute. discriminate. Qed.

  (* a program between the creation of the pending sign and the reduction *)
  Definition p1 : list (lop Z2) :=
    [ LTranspose Z2 [1; 0]%nat true; LConj Z2 true true; LGlobal Z2; LFlip Z2 [0]%nat; LDagger Z2 false ].
  Example ex_prog_ok : prog_ok Z2 (ndim Z2 ZRing (fbase Z2 ZRing m0)) p1.
  Proof.
    repeat (constructor; [cbn; try exact I; try reflexivity|]); [|constructor].
    apply perm_swap.
  Qed.
  Example ex_program_sum :
    f_sum Z2 ZRing (run_ops Z2 ZRing p1 m0) = f_sum Z2 ZRing (run_ops Z2 ZRing p1 (f_phase_sync Z2 ZRing m0)) /\
    fphases Z2 ZRing (run_ops Z2 ZRing p1 m0) <> [].
  Proof. split; [reflexivity | vm_compute; discriminate]. Qed.
End ReduceExamples.
