(* Proofs/DenseProofs.v — properties C02 / C08 stated literally on the DENSE forms:
   `to_dense (op x ...) = Some (numpy_op (to_dense x) ...)`, obtained by combining the
   coordinate-level (`sem`) theorems of Proofs/Tdot.v, TraceEinsumProofs.v, StructProofs.v
   with the bridge `to_dense_sem` of Proofs/CtorDense.v (C16).  Everything holds for every
   symmetry with the group laws and a strict total order on the charge labels, every rank,
   every table and sparsity pattern, every ring with the listed laws. *)
From SV Require Import Base.Prelude Base.Sym Base.Tensor Model.Sectors Model.Array Model.Arith
  Model.Wf Model.Fermi Model.Ctor Model.SymInst Proofs.SymLaws Proofs.OrderProofs
  Proofs.TensorProofs Proofs.GroupFacts Proofs.CtorSpec Proofs.CtorDense.
From SV Require Proofs.Tdot Proofs.TdotInst Proofs.TraceEinsumProofs Proofs.StructProofs Proofs.WfProofs.
From Coq Require Import Permutation Sorting Lia.
Local Open Scope nat_scope.

(* ================================================================== *)
(* Part A: generic facts on lists, multi-indices and tensors *)

(* pointwise combination of two lists *)
Definition zipw {A B C} (f : A -> B -> C) (l1 : list A) (l2 : list B) : list C :=
  map (fun q => f (fst q) (snd q)) (List.combine l1 l2).

Lemma zipw_length {A B C} (f : A -> B -> C) l1 l2 : length l1 = length l2 -> length (zipw f l1 l2) = length l1.
Proof. intros H. unfold zipw. rewrite map_length, combine_length. lia. Qed.

Lemma zipw_nth {A B C} (f : A -> B -> C) l1 l2 d1 d2 i :
  length l1 = length l2 -> nth i (zipw f l1 l2) (f d1 d2) = f (nth i l1 d1) (nth i l2 d2).
Proof.
  intros H. unfold zipw.
  change (f d1 d2) with ((fun q => f (fst q) (snd q)) (d1, d2)). rewrite map_nth.
  rewrite combine_nth by exact H. reflexivity.
Qed.

Lemma zipw_take {A B C} (f : A -> B -> C) l1 l2 d1 d2 axes :
  length l1 = length l2 ->
  take_axes (f d1 d2) (zipw f l1 l2) axes = zipw f (take_axes d1 l1 axes) (take_axes d2 l2 axes).
Proof.
  intros H. unfold take_axes. induction axes as [|a axes IH]; [reflexivity|].
  cbn [map]. rewrite IH. unfold zipw at 3. cbn [List.combine map fst snd]. f_equal.
  apply zipw_nth. exact H.
Qed.

Lemma zipw_app {A B C} (f : A -> B -> C) l1 l1' l2 l2' :
  length l1 = length l2 -> zipw f (l1 ++ l1') (l2 ++ l2') = zipw f l1 l2 ++ zipw f l1' l2'.
Proof.
  revert l2. induction l1 as [|x l1 IH]; intros [|y l2] H; cbn [length] in H; try discriminate H.
  - reflexivity.
  - unfold zipw in *. cbn [app List.combine map]. f_equal. apply IH. lia.
Qed.

Lemma zipw_map_l {A A' B C} (f : A' -> B -> C) (g : A -> A') l1 l2 :
  zipw f (map g l1) l2 = zipw (fun a b => f (g a) b) l1 l2.
Proof.
  revert l2. induction l1 as [|x l1 IH]; intros [|y l2]; try reflexivity.
  unfold zipw in *. cbn [map List.combine fst snd]. f_equal. apply IH.
Qed.

Lemma zipw_ext_l {A B C} (f g : A -> B -> C) l1 l2 :
  (forall a, In a l1 -> forall b, f a b = g a b) -> zipw f l1 l2 = zipw g l1 l2.
Proof.
  revert l2. induction l1 as [|x l1 IH]; intros [|y l2] H; try reflexivity.
  unfold zipw in *. cbn [map List.combine fst snd]. f_equal.
  - apply H. left. reflexivity.
  - apply IH. intros a Ha. apply H. right. exact Ha.
Qed.

(* scattering two lists and combining pointwise commute *)
Lemma zipw_scatterA {A B C} (f : A -> B -> C) (d1 : A) (d2 : B) n axes (l1 : list A) ks rest :
  NoDup axes -> (forall a, In a axes -> a < n) -> length l1 = n ->
  length ks = length axes -> length rest = length (rest_axes n axes) ->
  zipw f l1 (Tdot.scatterA d2 n axes ks rest)
  = Tdot.scatterA (f d1 d2) n axes (zipw f (take_axes d1 l1 axes) ks)
                  (zipw f (take_axes d1 l1 (rest_axes n axes)) rest).
Proof.
  intros Hnd Hlt Hl1 Hks Hrest.
  pose proof (Tdot.length_scatterA_go d2 n 0 axes ks rest) as Hls. fold (Tdot.scatterA d2 n axes ks rest) in Hls.
  symmetry. apply (Tdot.scatterA_eq_iff (f d1 d2) n axes); try assumption.
  - rewrite zipw_length; rewrite Tdot.length_take_axes; [reflexivity | symmetry; exact Hks].
  - rewrite zipw_length; rewrite Tdot.length_take_axes; [reflexivity | symmetry; exact Hrest].
  - rewrite zipw_length; [exact Hl1 | rewrite Hls; exact Hl1].
  - rewrite !(zipw_take f l1 _ d1 d2) by (rewrite Hls; exact Hl1).
    rewrite (Tdot.take_scatterA_axes d2 n axes ks rest Hnd Hlt Hks).
    rewrite (Tdot.take_scatterA_rest d2 n axes ks rest Hrest). split; reflexivity.
Qed.

(* inb as a pointwise statement *)
Lemma inb_iff sh idx :
  inb sh idx = true <-> length idx = length sh /\ forall i, i < length sh -> nth i idx 0 < nth i sh 0.
Proof.
  split.
  - intros H. destruct (StructProofs.inb_nth sh idx H) as [H1 H2]. split; [symmetry; exact H1 | exact H2].
  - revert idx. induction sh as [|d sh IH]; intros [|i idx] [Hl Hn]; cbn [length] in Hl; try discriminate Hl.
    + reflexivity.
    + cbn [inb]. apply andb_true_iff. split.
      * apply Nat.ltb_lt. apply (Hn 0). cbn [length]. lia.
      * apply IH. split; [lia|]. intros k Hk. apply (Hn (S k)). cbn [length]. lia.
Qed.

Lemma inb_take sh idx axes : inb sh idx = true -> (forall a, In a axes -> a < length sh) ->
  inb (take_axes 0 sh axes) (take_axes 0 idx axes) = true.
Proof.
  intros H Hax. apply inb_iff in H. destruct H as [_ Hn].
  unfold take_axes. induction axes as [|a axes IH]; [reflexivity|].
  cbn [map inb]. apply andb_true_iff. split.
  - apply Nat.ltb_lt. apply Hn. apply Hax. left. reflexivity.
  - apply IH. intros b Hb. apply Hax. right. exact Hb.
Qed.

Lemma In_axes_or_rest n axes i : i < n -> In i axes \/ In i (rest_axes n axes).
Proof.
  intros Hi. destruct (mem Nat.eqb i axes) eqn:E.
  - left. apply (Tdot.memN_In i axes). exact E.
  - right. unfold rest_axes. apply filter_In. split; [apply in_seq; lia | rewrite E; reflexivity].
Qed.

(* a multi-index is in bounds when its two parts are *)
Lemma inb_of_parts sh idx axes :
  length idx = length sh ->
  inb (take_axes 0 sh axes) (take_axes 0 idx axes) = true ->
  inb (take_axes 0 sh (rest_axes (length sh) axes)) (take_axes 0 idx (rest_axes (length sh) axes)) = true ->
  inb sh idx = true.
Proof.
  intros Hl H1 H2. apply inb_iff. split; [exact Hl|]. intros i Hi.
  assert (Hpt : forall l, inb (take_axes 0 sh l) (take_axes 0 idx l) = true -> In i l -> nth i idx 0 < nth i sh 0).
  { intros l. unfold take_axes. induction l as [|a l IH]; intros H Hin; [destruct Hin|].
    cbn [map inb] in H. apply andb_true_iff in H. destruct H as [Ha H].
    destruct Hin as [->|Hin]; [apply Nat.ltb_lt; exact Ha | apply IH; assumption]. }
  destruct (In_axes_or_rest (length sh) axes i Hi) as [Hin|Hin]; [apply (Hpt axes) | apply (Hpt (rest_axes (length sh) axes))];
    assumption.
Qed.

(* two tensors with the same shape, full data and the same entries are equal *)
Section TensorExt.
  Context (R : Ring).

  Lemma tdata_as_map (t : tensor R) : length (tdata t) = shape_size (tshape t) ->
    tdata t = map (get R t) (all_idx (tshape t)).
  Proof. intros H. symmetry. apply (StructProofs.map_get_all_idx R t H). Qed.

  Lemma In_all_idx_inb sh : forall idx, In idx (all_idx sh) -> inb sh idx = true.
  Proof.
    induction sh as [|d sh IH]; intros idx Hin; cbn [all_idx] in Hin.
    - destruct Hin as [<-|[]]. reflexivity.
    - apply in_flat_map in Hin. destruct Hin as [i [Hi Hin]]. apply in_map_iff in Hin.
      destruct Hin as [idx' [<- Hin]]. cbn [inb]. apply in_seq in Hi.
      apply andb_true_iff. split; [apply Nat.ltb_lt; lia | apply IH; exact Hin].
  Qed.

  Lemma tensor_ext (a b : tensor R) :
    tshape a = tshape b ->
    length (tdata a) = shape_size (tshape a) -> length (tdata b) = shape_size (tshape b) ->
    (forall idx, inb (tshape a) idx = true -> get R a idx = get R b idx) -> a = b.
  Proof.
    intros Hs Ha Hb Hg. destruct a as [sa da], b as [sb db]. cbn [tshape tdata] in *. subst sb.
    f_equal. pose proof (tdata_as_map (mkT sa da) Ha) as Ea. pose proof (tdata_as_map (mkT sa db) Hb) as Eb.
    cbn [tshape tdata] in Ea, Eb. rewrite Ea, Eb.
    apply map_ext_in. intros idx Hin. apply Hg. apply In_all_idx_inb. exact Hin.
  Qed.

  Lemma length_build sh f : length (tdata (build R sh f)) = shape_size (tshape (build R sh f)).
  Proof. unfold build. cbn [tdata tshape]. rewrite map_length. apply length_all_idx. Qed.

  Lemma length_tmap f (t : tensor R) : length (tdata t) = shape_size (tshape t) ->
    length (tdata (tmap R f t)) = shape_size (tshape (tmap R f t)).
  Proof. intros H. unfold tmap. cbn [tdata tshape]. rewrite map_length. exact H. Qed.
End TensorExt.

(* ================================================================== *)
(* Part B: the bridge between `to_dense` and `sem`, and THE re-indexing lemma:
   `coords_of` maps the dense positions, in row-major order, onto `all_coords` in order *)

Lemma map_flat_map_cons {A B I} (F : list A -> list B) (F' : list A -> list B) (g : I -> B) (h : I -> A)
      (L : list (list A)) (S : list I) :
  (forall i r, F (h i :: r) = g i :: F' r) ->
  map F (flat_map (fun i => map (cons (h i)) L) S) = flat_map (fun x => map (cons x) (map F' L)) (map g S).
Proof.
  intros HF. induction S as [|i S IH]; [reflexivity|].
  cbn [flat_map map]. rewrite map_app, IH. f_equal.
  rewrite !map_map. apply map_ext. intros r. apply HF.
Qed.

Section Bridge.
  Context (G : Symmetry) (R : Ring) (HG : GroupLaws G) (HO : OrderLaws G).
  Notation Ch := (C G).
  Notation keq := (list_eqb (ceqb G)).
  Notation dco := (ident G, 0).
  Notation dix := (dflt_index G).

  Definition tables_nonempty (ixs : list (index G)) : Prop := Forall (fun ix => chargemap G ix <> []) ixs.

  Lemma coords_of_zipw ixs pos : coords_of G ixs pos = zipw (coord_at G) ixs pos.
  Proof. reflexivity. Qed.

  Lemma length_index_coords ix : length (index_coords G ix) = size_total G ix.
  Proof.
    unfold index_coords, size_total. induction (chargemap G ix) as [|[c d] cm IH]; [reflexivity|].
    cbn [flat_map map snd fst nsum fold_right] in *. rewrite app_length, map_length, seq_length. f_equal. exact IH.
  Qed.

  Lemma index_coords_seq ix : index_coords G ix = map (coord_at G ix) (seq 0 (size_total G ix)).
  Proof.
    unfold coord_at. rewrite <- length_index_coords. symmetry. apply StructProofs.map_nth_seq.
  Qed.

  (* THE re-indexing lemma: summing over all coordinates of the tables = summing over all dense
     positions, because the two enumerations correspond element by element *)
  Lemma coords_of_all_idx ixs :
    map (coords_of G ixs) (all_idx (map (size_total G) ixs)) = all_coords G ixs.
  Proof.
    induction ixs as [|ix ixs IH]; [reflexivity|].
    unfold all_coords in *. cbn [map all_idx product].
    rewrite index_coords_seq, <- IH.
    apply (map_flat_map_cons (coords_of G (ix :: ixs)) (coords_of G ixs) (coord_at G ix) (fun i => i)).
    intros i r. reflexivity.
  Qed.

  Lemma coords_of_length ixs pos : length pos = length ixs -> length (coords_of G ixs pos) = length ixs.
  Proof. intros H. rewrite coords_of_zipw. apply zipw_length. symmetry. exact H. Qed.

  Lemma coords_of_app ixs1 ixs2 p1 p2 : length p1 = length ixs1 ->
    coords_of G (ixs1 ++ ixs2) (p1 ++ p2) = coords_of G ixs1 p1 ++ coords_of G ixs2 p2.
  Proof. intros H. rewrite !coords_of_zipw. apply zipw_app. symmetry. exact H. Qed.

  (* coord_at only looks at the table *)
  Lemma coord_at_chargemap ix ix' p : chargemap G ix = chargemap G ix' -> coord_at G ix p = coord_at G ix' p.
  Proof. intros H. unfold coord_at, index_coords. rewrite H. reflexivity. Qed.

  Lemma coords_of_chargemap ixs ixs' pos : map (chargemap G) ixs = map (chargemap G) ixs' ->
    coords_of G ixs pos = coords_of G ixs' pos.
  Proof.
    revert ixs' pos. induction ixs as [|ix ixs IH]; intros [|ix' ixs'] pos H; cbn [map] in H; try discriminate H.
    - reflexivity.
    - destruct pos as [|p pos]; [reflexivity|]. inversion H as [[H1 H2]].
      rewrite !cd_coords_of_cons. f_equal; [apply coord_at_chargemap; exact H1 | apply IH; exact H2].
  Qed.

  Lemma size_total_chargemap ix ix' : chargemap G ix = chargemap G ix' -> size_total G ix = size_total G ix'.
  Proof. intros H. unfold size_total. rewrite H. reflexivity. Qed.

  Lemma to_dense_nonempty x t : to_dense G R x = Some t -> tables_nonempty (indices G R x).
  Proof.
    unfold to_dense. destruct (existsb _ _) eqn:E; [discriminate|]. intros _.
    apply Forall_forall. intros ix Hin Hnil.
    assert (Ht : existsb (fun ix => is_nil (chargemap G ix)) (indices G R x) = true).
    { apply existsb_exists. exists ix. split; [exact Hin | rewrite Hnil; reflexivity]. }
    rewrite Ht in E. discriminate E.
  Qed.

  (* the dense form of x is t: C16 restated as a record *)
  Record dense_is (x : aarray G R) (t : tensor R) : Prop := {
    di_some : to_dense G R x = Some t;
    di_shape : tshape t = map (size_total G) (indices G R x);
    di_len : length (tdata t) = shape_size (tshape t);
    di_ok : forall pos, inb (map (size_total G) (indices G R x)) pos = true ->
            coords_ok G (indices G R x) (coords_of G (indices G R x) pos) = true;
    di_get : forall pos, inb (map (size_total G) (indices G R x)) pos = true ->
             get R t pos = sem G R x (coords_of G (indices G R x) pos) }.

  Lemma dense_is_of x t : wf_array G R x = true -> to_dense G R x = Some t -> dense_is x t.
  Proof.
    intros Hwf Ht. pose proof (to_dense_nonempty x t Ht) as Hne.
    destruct (cd_to_dense_sem_core G R HG HO x Hwf Hne) as [t0 [H0 [H1 [H2 [H3 _]]]]].
    rewrite Ht in H0. inversion H0; subst t0.
    constructor; try assumption; intros pos Hp; apply (H3 pos Hp).
  Qed.

  Lemma dense_exists x : wf_array G R x = true -> tables_nonempty (indices G R x) ->
    exists t, to_dense G R x = Some t.
  Proof.
    intros Hwf Hne. destruct (cd_to_dense_sem_core G R HG HO x Hwf Hne) as [t0 [H0 _]]. exists t0. exact H0.
  Qed.

  (* how every "op commutes with densification" theorem is proved: the candidate has the right
     shape, full data, and the entries `sem` prescribes *)
  Lemma dense_intro y t' : wf_array G R y = true -> tables_nonempty (indices G R y) ->
    tshape t' = map (size_total G) (indices G R y) ->
    length (tdata t') = shape_size (tshape t') ->
    (forall pos, inb (map (size_total G) (indices G R y)) pos = true ->
       get R t' pos = sem G R y (coords_of G (indices G R y) pos)) ->
    to_dense G R y = Some t'.
  Proof.
    intros Hwf Hne Hs Hl Hg. destruct (dense_exists y Hwf Hne) as [t0 Ht0].
    pose proof (dense_is_of y t0 Hwf Ht0) as D. rewrite Ht0. f_equal.
    apply tensor_ext; [rewrite Hs; apply (di_shape _ _ D) | apply (di_len _ _ D) | exact Hl|].
    intros idx Hi. rewrite (di_shape _ _ D) in Hi. rewrite (di_get _ _ D idx Hi). symmetry. apply Hg. exact Hi.
  Qed.

  (* the same for an arbitrary block dictionary laid out over arbitrary (sorted, non-empty)
     tables: used to embed a contraction result into the UNPRUNED free tables *)
  Lemma dense_go_spec ixs blks :
    Forall (cd_ix_good G) ixs -> cd_blocks_good G R ixs blks ->
    tshape (dense_go G R ixs blks ixs 0 []) = map (size_total G) ixs
    /\ length (tdata (dense_go G R ixs blks ixs 0 [])) = shape_size (tshape (dense_go G R ixs blks ixs 0 []))
    /\ forall pos, inb (map (size_total G) ixs) pos = true ->
         get R (dense_go G R ixs blks ixs 0 []) pos =
         match lookup keq (map fst (coords_of G ixs pos)) blks with
         | Some b => get R b (map snd (coords_of G ixs pos))
         | None => r0 R
         end.
  Proof.
    intros Hgood Hbg.
    destruct (cd_dense_go_inv G R HG ixs blks Hbg ixs [] [] eq_refl Hgood eq_refl) as [Hshape [Hdata Hget]].
    cbn [length] in Hshape, Hdata, Hget.
    change (block_shape G [] []) with (@nil nat) in Hshape, Hget. cbn [app] in Hshape.
    split; [exact Hshape | split; [exact Hdata|]].
    intros pos Hp. specialize (Hget [] pos eq_refl Hp). cbn [app] in Hget. exact Hget.
  Qed.

  Lemma wf_ix_good x : wf_array G R x = true -> tables_nonempty (indices G R x) ->
    Forall (cd_ix_good G) (indices G R x).
  Proof.
    intros Hwf Hne. unfold wf_array in Hwf.
    apply andb_true_iff in Hwf. destruct Hwf as [Hwf _].
    apply andb_true_iff in Hwf. destruct Hwf as [Hwf _].
    apply andb_true_iff in Hwf. destruct Hwf as [Hixs _].
    rewrite forallb_forall in Hixs. unfold tables_nonempty in Hne. rewrite Forall_forall in Hne |- *.
    intros ix Hin. apply (cd_ix_good_of G HO); [apply Hixs; exact Hin | apply Hne; exact Hin].
  Qed.

  Lemma wf_nodup_tables x : wf_array G R x = true -> Forall (fun ix => NoDup (icharges G ix)) (indices G R x).
  Proof.
    intros Hwf. unfold wf_array in Hwf.
    apply andb_true_iff in Hwf. destruct Hwf as [Hwf _].
    apply andb_true_iff in Hwf. destruct Hwf as [Hwf _].
    apply andb_true_iff in Hwf. destruct Hwf as [Hixs _].
    rewrite forallb_forall in Hixs. apply Forall_forall. intros ix Hin.
    apply (SS_NoDup (cltb G) _ HO). apply (SS_of_sorted_by (cltb G) _ HO).
    apply (cd_wf_index_sorted G). apply Hixs. exact Hin.
  Qed.
End Bridge.

(* ================================================================== *)
(* Part C: C08 on the dense forms — structure, elementwise, arithmetic, reductions *)

Lemma index_of_lt j perm : In j perm -> index_of j perm < length perm.
Proof.
  induction perm as [|p perm IH]; intros H; [destruct H|]. cbn [index_of length].
  destruct (Nat.eqb p j) eqn:E; [lia|]. destruct H as [H|H]; [subst; rewrite Nat.eqb_refl in E; discriminate E|].
  specialize (IH H). lia.
Qed.

Lemma nth_index_of j perm : In j perm -> nth (index_of j perm) perm 0 = j.
Proof.
  induction perm as [|p perm IH]; intros H; [destruct H|]. cbn [index_of].
  destruct (Nat.eqb p j) eqn:E; [apply Nat.eqb_eq in E; exact E|].
  destruct H as [H|H]; [subst; rewrite Nat.eqb_refl in E; discriminate E|]. cbn [nth]. apply IH. exact H.
Qed.

Lemma index_of_nth k perm : NoDup perm -> k < length perm -> index_of (nth k perm 0) perm = k.
Proof.
  revert k. induction perm as [|p perm IH]; intros k Hnd Hk; cbn [length] in Hk; [lia|].
  inversion Hnd as [|p0 l0 Hni Hnd']; subst p0 l0. destruct k as [|k]; cbn [nth index_of].
  - rewrite Nat.eqb_refl. reflexivity.
  - destruct (Nat.eqb p (nth k perm 0)) eqn:E.
    + apply Nat.eqb_eq in E. exfalso. apply Hni. rewrite E. apply nth_In. lia.
    + f_equal. apply IH; [exact Hnd' | lia].
Qed.

Lemma length_unpermute perm idx : length (unpermute perm idx) = length perm.
Proof. unfold unpermute. rewrite map_length, seq_length. reflexivity. Qed.

Lemma nth_unpermute perm idx j : j < length perm -> nth j (unpermute perm idx) 0 = nth (index_of j perm) idx 0.
Proof.
  intros Hj. unfold unpermute.
  rewrite (StructProofs.map_nth_lt (fun j => nth (index_of j perm) idx 0) (seq 0 (length perm)) 0 0 j)
    by (rewrite seq_length; exact Hj).
  rewrite seq_nth by exact Hj. reflexivity.
Qed.

Lemma permuted_unpermute perm idx n :
  Permutation perm (seq 0 n) -> length idx = n -> permuted 0 (unpermute perm idx) perm = idx.
Proof.
  intros Hp Hl. pose proof (Permutation_length Hp) as Hlen. rewrite seq_length in Hlen.
  assert (Hnd : NoDup perm) by (apply (Permutation_NoDup (Permutation_sym Hp)); apply seq_NoDup).
  apply (nth_ext _ _ 0 0); [rewrite StructProofs.permuted_length; lia|].
  intros k Hk. rewrite StructProofs.permuted_length in Hk. unfold permuted.
  rewrite (StructProofs.map_nth_lt (fun p => nth p (unpermute perm idx) 0) perm 0 0 k Hk).
  assert (Hin : In (nth k perm 0) perm) by (apply nth_In; exact Hk).
  assert (Hlt : nth k perm 0 < length perm).
  { apply (Permutation_in _ Hp) in Hin. apply in_seq in Hin. lia. }
  rewrite nth_unpermute by exact Hlt. rewrite index_of_nth by assumption. reflexivity.
Qed.

Lemma inb_unpermute sh perm idx :
  Permutation perm (seq 0 (length sh)) -> inb (permuted 0 sh perm) idx = true -> inb sh (unpermute perm idx) = true.
Proof.
  intros Hp Hin. pose proof (Permutation_length Hp) as Hlen. rewrite seq_length in Hlen.
  apply inb_iff in Hin. destruct Hin as [Hl Hn]. rewrite StructProofs.permuted_length in Hl, Hn.
  apply inb_iff. split; [rewrite length_unpermute; exact Hlen|].
  intros j Hj. rewrite nth_unpermute by lia.
  assert (Hinj : In j perm) by (apply (Permutation_in _ (Permutation_sym Hp)); apply in_seq; lia).
  pose proof (index_of_lt j perm Hinj) as Hk. specialize (Hn _ Hk).
  unfold permuted in Hn. rewrite (StructProofs.map_nth_lt (fun p => nth p sh 0) perm 0 0 _ Hk) in Hn.
  rewrite (nth_index_of j perm Hinj) in Hn. exact Hn.
Qed.

Section DenseC08.
  Context (G : Symmetry) (R : Ring) (HG : GroupLaws G) (HO : OrderLaws G).
  Notation Ch := (C G).
  Notation keq := (list_eqb (ceqb G)).
  Notation dco := (ident G, 0).
  Notation dix := (dflt_index G).
  Notation arr := (aarray G R).

  Lemma permuted_coords_of ixs pos perm : length pos = length ixs ->
    permuted dco (coords_of G ixs pos) perm = coords_of G (permuted dix ixs perm) (permuted 0 pos perm).
  Proof.
    intros Hl. rewrite !coords_of_zipw.
    change (permuted dco (zipw (coord_at G) ixs pos) perm)
      with (take_axes (coord_at G dix 0) (zipw (coord_at G) ixs pos) perm).
    rewrite (zipw_take (coord_at G) ixs pos dix 0 perm) by (symmetry; exact Hl). reflexivity.
  Qed.

  Lemma tables_nonempty_permuted ixs perm : tables_nonempty G ixs -> (forall p, In p perm -> p < length ixs) ->
    tables_nonempty G (permuted dix ixs perm).
  Proof.
    intros Hne Hp. unfold tables_nonempty in *. rewrite Forall_forall in Hne |- *.
    intros ix Hin. unfold permuted in Hin. apply in_map_iff in Hin. destruct Hin as [p [<- Hin]].
    apply Hne. apply nth_In. apply Hp. exact Hin.
  Qed.

  (* ---------------- transpose ---------------- *)
  Theorem transpose_dense (x : arr) (perm : list nat) (t : tensor R) :
    wf_array G R x = true -> Permutation perm (seq 0 (ndim G R x)) ->
    to_dense G R x = Some t ->
    to_dense G R (a_transpose G R x perm) = Some (ttranspose R t perm).
  Proof.
    intros Hwf Hp Ht. pose proof (dense_is_of G R HG HO x t Hwf Ht) as D.
    pose proof (to_dense_nonempty G R x t Ht) as Hne.
    assert (Hplt : forall p, In p perm -> p < length (indices G R x)).
    { intros p Hin. apply (Permutation_in _ Hp) in Hin. apply in_seq in Hin. unfold ndim in Hin. lia. }
    assert (Hsh : permuted 0 (tshape t) perm = map (size_total G) (permuted dix (indices G R x) perm)).
    { rewrite (di_shape _ _ _ _ D). symmetry. apply (StructProofs.permuted_map (size_total G) dix). }
    apply (dense_intro G R HG HO).
    - apply (WfProofs.transpose_wf G HG R); assumption.
    - cbn [a_transpose indices]. apply tables_nonempty_permuted; assumption.
    - cbn [a_transpose indices]. unfold ttranspose. rewrite tshape_build. exact Hsh.
    - apply length_build.
    - cbn [a_transpose indices]. intros pos' Hpos'. rewrite <- Hsh in Hpos'.
      unfold ttranspose. rewrite get_build by exact Hpos'.
      assert (Hp' : Permutation perm (seq 0 (length (tshape t)))).
      { rewrite (di_shape _ _ _ _ D), map_length. exact Hp. }
      pose proof (inb_unpermute (tshape t) perm pos' Hp' Hpos') as Hin.
      rewrite (di_shape _ _ _ _ D) in Hin.
      rewrite (di_get _ _ _ _ D _ Hin).
      pose proof (di_ok _ _ _ _ D _ Hin) as Hok.
      rewrite <- (StructProofs.transpose_value G HG R x perm _ (StructProofs.wf_shapes G R x Hwf) Hp Hok).
      f_equal. rewrite permuted_coords_of.
      + f_equal. apply (permuted_unpermute perm pos' (ndim G R x) Hp).
        apply cd_inb_length in Hpos'. rewrite Hpos', StructProofs.permuted_length.
        pose proof (Permutation_length Hp) as Hlen. rewrite seq_length in Hlen. exact Hlen.
      + apply cd_inb_length in Hin. rewrite Hin, map_length. reflexivity.
  Qed.

  (* ---------------- conj / dagger ---------------- *)
  Lemma chargemap_iconj_map ixs : map (chargemap G) (map (iconj G) ixs) = map (chargemap G) ixs.
  Proof. rewrite map_map. apply map_ext. intros ix. apply StructProofs.iconj_chargemap. Qed.

  Lemma size_total_map_chargemap ixs ixs' : map (chargemap G) ixs = map (chargemap G) ixs' ->
    map (size_total G) ixs = map (size_total G) ixs'.
  Proof.
    revert ixs'. induction ixs as [|ix ixs IH]; intros [|ix' ixs'] H; cbn [map] in H; try discriminate H; [reflexivity|].
    inversion H as [[H1 H2]]. cbn [map]. f_equal; [apply size_total_chargemap; exact H1 | apply IH; exact H2].
  Qed.

  Lemma tables_nonempty_chargemap ixs ixs' : map (chargemap G) ixs = map (chargemap G) ixs' ->
    tables_nonempty G ixs' -> tables_nonempty G ixs.
  Proof.
    revert ixs'. induction ixs as [|ix ixs IH]; intros [|ix' ixs'] H Hne; cbn [map] in H; try discriminate H;
      [constructor|].
    inversion H as [[H1 H2]]. inversion Hne as [|a l Ha Hl]; subst a l. constructor.
    - rewrite H1. exact Ha.
    - apply (IH ixs' H2 Hl).
  Qed.

  Theorem conj_dense (x : arr) (t : tensor R) :
    rconj R (r0 R) = r0 R ->
    wf_array G R x = true -> to_dense G R x = Some t ->
    to_dense G R (a_conj G R x) = Some (tconj R t).
  Proof.
    intros Hc0 Hwf Ht. pose proof (dense_is_of G R HG HO x t Hwf Ht) as D.
    pose proof (to_dense_nonempty G R x t Ht) as Hne.
    pose proof (chargemap_iconj_map (indices G R x)) as Hcm.
    apply (dense_intro G R HG HO).
    - apply (WfProofs.conj_wf G HG R). exact Hwf.
    - cbn [a_conj indices]. apply (tables_nonempty_chargemap _ _ Hcm Hne).
    - cbn [a_conj indices tconj tmap tshape]. rewrite (di_shape _ _ _ _ D).
      symmetry. apply size_total_map_chargemap. exact Hcm.
    - apply length_tmap. apply (di_len _ _ _ _ D).
    - cbn [a_conj indices]. intros pos Hpos.
      rewrite (size_total_map_chargemap _ _ Hcm) in Hpos. rewrite (coords_of_chargemap G _ _ pos Hcm).
      unfold tconj. rewrite (StructProofs.get_tmap R _ t pos Hc0). rewrite (di_get _ _ _ _ D _ Hpos).
      symmetry. apply (StructProofs.conj_value G R Hc0).
  Qed.

  Theorem dagger_dense (x : arr) (t : tensor R) :
    rconj R (r0 R) = r0 R ->
    wf_array G R x = true -> to_dense G R x = Some t ->
    to_dense G R (a_dagger G R x) = Some (ttranspose R (tconj R t) (rev_axes (ndim G R x))).
  Proof.
    intros Hc0 Hwf Ht. unfold a_dagger. apply transpose_dense.
    - apply (WfProofs.conj_wf G HG R). exact Hwf.
    - unfold ndim, a_conj. cbn [indices]. rewrite map_length. unfold rev_axes.
      apply Permutation_sym. apply Permutation_rev.
    - apply conj_dense; assumption.
  Qed.

  (* ---------------- scale / neg ---------------- *)
  Lemma tmap_dense (f : RT R -> RT R) (x y : arr) (t : tensor R) :
    f (r0 R) = r0 R ->
    wf_array G R x = true -> wf_array G R y = true -> indices G R y = indices G R x ->
    (forall cs, sem G R y cs = f (sem G R x cs)) ->
    to_dense G R x = Some t -> to_dense G R y = Some (tmap R f t).
  Proof.
    intros Hf Hwf Hwy Hix Hsem Ht. pose proof (dense_is_of G R HG HO x t Hwf Ht) as D.
    pose proof (to_dense_nonempty G R x t Ht) as Hne.
    apply (dense_intro G R HG HO); rewrite ?Hix.
    - exact Hwy.
    - exact Hne.
    - cbn [tmap tshape]. apply (di_shape _ _ _ _ D).
    - apply length_tmap. apply (di_len _ _ _ _ D).
    - intros pos Hpos. rewrite (StructProofs.get_tmap R f t pos Hf), (di_get _ _ _ _ D _ Hpos). symmetry. apply Hsem.
  Qed.

  Theorem scale_dense (x : arr) (s : RT R) (t : tensor R) :
    (forall a, rmul R (r0 R) a = r0 R) ->
    wf_array G R x = true -> to_dense G R x = Some t ->
    to_dense G R (a_scale G R x s) = Some (tscale R s t).
  Proof.
    intros Hm Hwf Ht. unfold tscale. apply (tmap_dense _ x); try assumption.
    - apply Hm.
    - apply (WfProofs.scale_wf G HG R). exact Hwf.
    - reflexivity.
    - intros cs. apply (StructProofs.scale_sem G R Hm).
  Qed.

  Theorem neg_dense (x : arr) (t : tensor R) :
    rneg R (r0 R) = r0 R ->
    wf_array G R x = true -> to_dense G R x = Some t ->
    to_dense G R (a_neg G R x) = Some (tneg R t).
  Proof.
    intros Hn Hwf Ht. unfold tneg. apply (tmap_dense _ x); try assumption.
    - apply (WfProofs.neg_wf G HG R). exact Hwf.
    - reflexivity.
    - intros cs. apply (StructProofs.neg_sem G R Hn).
  Qed.

  (* ---------------- add / sub / mul (operands over the same tables) ---------------- *)
  Lemma bin_dense (f : RT R -> RT R -> RT R) (top : tensor R -> tensor R -> tensor R) (x y z : arr) (tx ty : tensor R) :
    (forall a b idx, inb (tshape a) idx = true -> get R (top a b) idx = f (get R a idx) (get R b idx)) ->
    (forall a b, tshape (top a b) = tshape a) ->
    (forall a b, length (tdata (top a b)) = shape_size (tshape (top a b))) ->
    wf_array G R x = true -> wf_array G R y = true -> wf_array G R z = true ->
    indices G R y = indices G R x -> indices G R z = indices G R x ->
    (forall cs, coords_ok G (indices G R x) cs = true -> sem G R z cs = f (sem G R x cs) (sem G R y cs)) ->
    to_dense G R x = Some tx -> to_dense G R y = Some ty ->
    to_dense G R z = Some (top tx ty).
  Proof.
    intros Hget Hshape Hlen Hwx Hwy Hwz Hiy Hiz Hsem Htx Hty.
    pose proof (dense_is_of G R HG HO x tx Hwx Htx) as Dx.
    pose proof (dense_is_of G R HG HO y ty Hwy Hty) as Dy.
    pose proof (to_dense_nonempty G R x tx Htx) as Hne.
    apply (dense_intro G R HG HO); rewrite ?Hiz.
    - exact Hwz.
    - exact Hne.
    - rewrite Hshape. apply (di_shape _ _ _ _ Dx).
    - apply Hlen.
    - intros pos Hpos. rewrite Hget by (rewrite (di_shape _ _ _ _ Dx); exact Hpos).
      rewrite (di_get _ _ _ _ Dx _ Hpos).
      pose proof Hpos as Hpos'. rewrite <- Hiy in Hpos'. rewrite (di_get _ _ _ _ Dy _ Hpos'), Hiy.
      symmetry. apply Hsem. apply (di_ok _ _ _ _ Dx _ Hpos).
  Qed.

  Theorem add_dense (x y : arr) (tx ty : tensor R) :
    (forall a, radd R (r0 R) a = a) -> (forall a, radd R a (r0 R) = a) ->
    wf_array G R x = true -> wf_array G R y = true ->
    indices G R x = indices G R y -> charge G R x = charge G R y ->
    to_dense G R x = Some tx -> to_dense G R y = Some ty ->
    to_dense G R (a_add G R x y) = Some (tadd R tx ty).
  Proof.
    intros H0l H0r Hwx Hwy Hix Hq Htx Hty.
    apply (bin_dense (radd R) (tadd R) x y); try assumption.
    - intros a b idx Hin. apply StructProofs.get_tadd. exact Hin.
    - reflexivity.
    - intros a b. apply length_build.
    - apply (WfProofs.add_wf G HG R); assumption.
    - symmetry. exact Hix.
    - reflexivity.
    - intros cs Hcs. apply (StructProofs.add_sem G HG R H0l H0r); assumption.
  Qed.

  Lemma get_tsub a b idx : rneg R (r0 R) = r0 R -> inb (tshape a) idx = true ->
    get R (tsub R a b) idx = radd R (get R a idx) (rneg R (get R b idx)).
  Proof.
    intros Hn Hin. unfold tsub. rewrite StructProofs.get_tadd by exact Hin. unfold tneg.
    rewrite (StructProofs.get_tmap R _ b idx Hn). reflexivity.
  Qed.

  (* dense subtraction = `tsub` (x + (-y) entrywise: the ring record has no separate minus) *)
  Theorem sub_dense (x y z : arr) (tx ty : tensor R) :
    (forall a, radd R (r0 R) a = a) -> rneg R (r0 R) = r0 R ->
    wf_array G R x = true -> wf_array G R y = true ->
    indices G R x = indices G R y ->
    a_sub G R x y = Some z ->
    to_dense G R x = Some tx -> to_dense G R y = Some ty ->
    to_dense G R z = Some (tsub R tx ty).
  Proof.
    intros H0l Hn Hwx Hwy Hix Hz Htx Hty.
    assert (Hiz : indices G R z = indices G R x).
    { unfold a_sub in Hz. destruct (bin_strict _ _ _ _ _); [|discriminate Hz]. inversion Hz. reflexivity. }
    apply (bin_dense (fun a b => radd R a (rneg R b)) (tsub R) x y z); try assumption.
    - intros a b idx Hin. apply get_tsub; assumption.
    - reflexivity.
    - intros a b. apply length_build.
    - apply (WfProofs.sub_wf G HG R x y z); assumption.
    - symmetry. exact Hix.
    - intros cs Hcs. apply (StructProofs.sub_sem G HG R H0l Hn x y z); assumption.
  Qed.

  Theorem mul_dense (x y : arr) (tx ty : tensor R) :
    (forall a, rmul R (r0 R) a = r0 R) -> (forall a, rmul R a (r0 R) = r0 R) ->
    wf_array G R x = true -> wf_array G R y = true ->
    indices G R x = indices G R y ->
    to_dense G R x = Some tx -> to_dense G R y = Some ty ->
    to_dense G R (a_mul G R x y) = Some (tmul R tx ty).
  Proof.
    intros H0l H0r Hwx Hwy Hix Htx Hty.
    apply (bin_dense (rmul R) (tmul R) x y); try assumption.
    - intros a b idx Hin. apply StructProofs.get_tmul. exact Hin.
    - reflexivity.
    - intros a b. apply length_build.
    - apply (WfProofs.mul_wf G HG R). exact Hwx.
    - symmetry. exact Hix.
    - reflexivity.
    - intros cs Hcs. apply (StructProofs.mul_sem G HG R H0l H0r); assumption.
  Qed.

  (* ---------------- reductions: sum, norm2 ---------------- *)
  Lemma wf_tables_nodupb (x : arr) : wf_array G R x = true -> StructProofs.tables_nodup G R x = true.
  Proof.
    apply (StructProofs.wf_tables_nodup G HG R).
    - apply (st_irrefl _ HO).
    - apply (st_trans _ HO).
  Qed.

  (* a sum over all dense entries, re-indexed by coordinates *)
  Lemma dense_sum_reindex (phi : RT R -> RT R) (x : arr) (t : tensor R) :
    wf_array G R x = true -> to_dense G R x = Some t ->
    map phi (tdata t) = map (fun cs => phi (sem G R x cs)) (all_coords G (indices G R x)).
  Proof.
    intros Hwf Ht. pose proof (dense_is_of G R HG HO x t Hwf Ht) as D.
    rewrite (tdata_as_map R t (di_len _ _ _ _ D)), (di_shape _ _ _ _ D).
    rewrite <- (coords_of_all_idx G), !map_map.
    apply map_ext_in. intros pos Hin. f_equal. apply (di_get _ _ _ _ D). apply In_all_idx_inb. exact Hin.
  Qed.

  Theorem sum_dense (x : arr) (t : tensor R) :
    (forall a, radd R (r0 R) a = a) -> (forall a b, radd R a b = radd R b a) ->
    (forall a b c, radd R a (radd R b c) = radd R (radd R a b) c) ->
    wf_array G R x = true -> to_dense G R x = Some t ->
    a_sum G R x = tsum R t.
  Proof.
    intros H0 Hc Ha Hwf Ht.
    rewrite (StructProofs.sum_sem G HG R H0 Hc Ha x Hwf (wf_tables_nodupb x Hwf)).
    unfold tsum. f_equal. rewrite <- (map_id (tdata t)).
    rewrite (dense_sum_reindex (fun a => a) x t Hwf Ht). reflexivity.
  Qed.

  Theorem norm2_dense (x : arr) (t : tensor R) :
    (forall a, radd R (r0 R) a = a) -> (forall a b, radd R a b = radd R b a) ->
    (forall a b c, radd R a (radd R b c) = radd R (radd R a b) c) ->
    (forall a, rmul R (r0 R) a = r0 R) ->
    wf_array G R x = true -> to_dense G R x = Some t ->
    a_norm2 G R x = tnorm2 R t.
  Proof.
    intros H0 Hc Ha Hm Hwf Ht.
    rewrite (StructProofs.norm2_sem G HG R H0 Hc Ha Hm x Hwf (wf_tables_nodupb x Hwf)).
    unfold tnorm2. f_equal.
    rewrite (dense_sum_reindex (fun a => rmul R a (rconj R a)) x t Hwf Ht). reflexivity.
  Qed.
End DenseC08.

(* ================================================================== *)
(* Part D: C02 on the dense forms — tensordot *)

Lemma take_axes_map {A B} (f : A -> B) d l axes : take_axes (f d) (map f l) axes = map f (take_axes d l axes).
Proof. unfold take_axes. rewrite map_map. apply map_ext. intros a. apply map_nth. Qed.

Lemma without_axes_map {A B} (f : A -> B) (d : A) l axes : without_axes (map f l) axes = map f (without_axes l axes).
Proof. rewrite (Tdot.without_axes_take (f d)), (Tdot.without_axes_take d), map_length. apply take_axes_map. Qed.

Lemma In_without_axes {A} (d : A) (l : list A) axes (x : A) : In x (without_axes l axes) -> In x l.
Proof.
  rewrite (Tdot.without_axes_take d). unfold take_axes. intros H. apply in_map_iff in H.
  destruct H as [i [<- Hi]]. apply nth_In. apply (Tdot.In_rest_axes _ _ _ Hi).
Qed.

Lemma length_without_axes {A} (l : list A) axes : length (without_axes l axes) = length (rest_axes (length l) axes).
Proof.
  destruct l as [|d l]; [reflexivity|].
  rewrite (Tdot.without_axes_take d). apply Tdot.length_take_axes.
Qed.

Lemma inb_app_split sh1 sh2 pos : inb (sh1 ++ sh2) pos = true ->
  inb sh1 (firstn (length sh1) pos) = true /\ inb sh2 (skipn (length sh1) pos) = true.
Proof.
  revert pos. induction sh1 as [|d sh1 IH]; intros pos H.
  - cbn [length firstn skipn app] in *. split; [reflexivity | exact H].
  - destruct pos as [|p pos]; cbn [app inb] in H; [discriminate H|].
    apply andb_true_iff in H. destruct H as [Hp H]. destruct (IH pos H) as [H1 H2].
    cbn [length firstn skipn inb]. rewrite Hp, H1. split; [reflexivity | exact H2].
Qed.

Section DenseTdot.
  Context (G : Symmetry) (R : Ring) (HG : GroupLaws G) (HO : OrderLaws G) (RL : Tdot.SumLaws R).
  Notation Ch := (C G).
  Notation sector := (list (C G)).
  Notation keq := (list_eqb (ceqb G)).
  Notation dco := (ident G, 0).
  Notation dix := (dflt_index G).
  Notation arr := (aarray G R).

  (* the same blocks laid out over other index tables: used to embed the result of a
     contraction (whose own tables have lost the charges no result sector uses) into the
     UNPRUNED free tables of the operands, which is where numpy's result lives *)
  Definition a_reindex (x : arr) (ixs : list (index G)) : arr := mkA G R ixs (charge G R x) (blocks G R x).

  Lemma sem_reindex x ixs cs : sem G R (a_reindex x ixs) cs = sem G R x cs.
  Proof. reflexivity. Qed.

  Definition blk_shaped (ixs : list (index G)) (p : sector * tensor R) : Prop :=
    tshape (snd p) = block_shape G ixs (fst p) /\ length (tdata (snd p)) = shape_size (tshape (snd p)).

  Lemma keq_spec (a b : sector) : keq a b = true <-> a = b.
  Proof. apply Tdot.list_eqb_spec. apply (ceqb_eq G HG). Qed.

  Lemma Forall_dset {V} (P : sector * V -> Prop) k v (d : list (sector * V)) :
    Forall P d -> P (k, v) -> Forall P (dset keq k v d).
  Proof.
    intros Hd Hv. induction d as [|[k' v'] d IH]; cbn [dset]; [repeat constructor; exact Hv|].
    inversion Hd as [|a l Ha Hl]; subst a l.
    destruct (keq k k') eqn:E.
    - apply keq_spec in E. subst k'. constructor; assumption.
    - constructor; [exact Ha | apply IH; exact Hl].
  Qed.

  Lemma acc_add_shaped ixs ps : forall acc,
    Forall (blk_shaped ixs) ps -> Forall (blk_shaped ixs) acc ->
    Forall (blk_shaped ixs) (fold_left (acc_add G R) ps acc).
  Proof.
    induction ps as [|p ps IH]; intros acc Hps Hacc; cbn [fold_left]; [exact Hacc|].
    inversion Hps as [|a l Hp Hps']; subst a l. apply IH; [exact Hps'|].
    unfold acc_add. destruct (lookup keq (fst p) acc) as [t|] eqn:E.
    - apply Forall_dset; [exact Hacc|].
      apply (Tdot.lookup_In keq keq_spec) in E. rewrite Forall_forall in Hacc. destruct (Hacc _ E) as [H1 H2].
      cbn [fst snd] in H1, H2. split; cbn [fst snd]; [exact H1 | apply length_build].
    - apply Forall_app. split; [exact Hacc | constructor; [exact Hp | constructor]].
  Qed.

  Lemma block_shape_app (l1 l2 : list (index G)) (s1 s2 : sector) : length l1 = length s1 ->
    block_shape G (l1 ++ l2) (s1 ++ s2) = block_shape G l1 s1 ++ block_shape G l2 s2.
  Proof. intros H. apply (zipw_app (size_of G) l1 l2 s1 s2 H). Qed.

  Lemma without_block_shape ixs (s : sector) axes : length s = length ixs ->
    without_axes (block_shape G ixs s) axes
    = block_shape G (without_axes ixs axes) (take_axes (ident G) s (rest_axes (length ixs) axes)).
  Proof.
    intros Hl. rewrite (Tdot.without_axes_take 0), (Tdot.length_block_shape G ixs s Hl).
    rewrite (Tdot.take_block_shape G ixs s); [| intros i Hi; apply (Tdot.In_rest_axes _ _ _ Hi) | exact Hl].
    rewrite <- (Tdot.without_axes_take dix). reflexivity.
  Qed.

  Section Main.
    Context (a b : arr) (aa ab : list nat) (ta tb : tensor R).
    Context (Hwa : wf_array G R a = true) (Hwb : wf_array G R b = true).
    Context (Haa_nd : NoDup aa) (Haa_lt : forall i, In i aa -> i < ndim G R a).
    Context (Hab_nd : NoDup ab) (Hab_lt : forall i, In i ab -> i < ndim G R b).
    Context (Hlen_ax : length aa = length ab).
    (* the contracted legs carry the same tables (so their dense positions correspond) *)
    Context (Hcm : map (chargemap G) (take_axes dix (indices G R a) aa)
                   = map (chargemap G) (take_axes dix (indices G R b) ab)).
    Context (Hta : to_dense G R a = Some ta) (Htb : to_dense G R b = Some tb).

    Let na := ndim G R a.
    Let nb := ndim G R b.
    Let ixa := indices G R a.
    Let ixb := indices G R b.
    Let la := rest_axes na aa.
    Let rb := rest_axes nb ab.
    Let fa := without_axes ixa aa.
    Let fb := without_axes ixb ab.
    Let free := fa ++ fb.
    Let cixs := take_axes dix ixa aa.
    Let res := tdot_blockwise G R a b la aa ab rb.

    Let Da : dense_is G R a ta := dense_is_of G R HG HO a ta Hwa Hta.
    Let Db : dense_is G R b tb := dense_is_of G R HG HO b tb Hwb Htb.

    Lemma free_good : Forall (cd_ix_good G) free.
    Proof.
      pose proof (wf_ix_good G R HO a Hwa (to_dense_nonempty G R a ta Hta)) as Ga.
      pose proof (wf_ix_good G R HO b Hwb (to_dense_nonempty G R b tb Htb)) as Gb.
      rewrite Forall_forall in Ga, Gb.
      unfold free, fa, fb. apply Forall_app. split; apply Forall_forall; intros ix Hin;
        apply (In_without_axes dix) in Hin; [apply Ga | apply Gb]; exact Hin.
    Qed.

    Lemma res_blocks_shaped : Forall (blk_shaped free) (blocks G R res).
    Proof.
      pose proof (Tdot.wf_blocks_ok G R (ceqb_eq G HG) a Hwa) as Ba.
      pose proof (Tdot.wf_blocks_ok G R (ceqb_eq G HG) b Hwb) as Bb.
      unfold res, tdot_blockwise. cbv zeta. cbn [blocks].
      apply acc_add_shaped; [|constructor].
      apply Forall_forall. intros [s t] Hin. unfold tdot_pairs in Hin.
      apply in_flat_map in Hin. destruct Hin as [[sa ta'] [Hina Hin]].
      apply in_flat_map in Hin. destruct Hin as [[sb tb'] [Hinb Hin]]. cbn [fst snd] in Hin.
      destruct (keq (take_axes (ident G) sa aa) (take_axes (ident G) sb ab)); [|destruct Hin].
      destruct Hin as [Hin|[]]. inversion Hin; subst s t. clear Hin.
      split; cbn [fst snd]; [|apply length_build].
      unfold ttensordot. rewrite tshape_build.
      pose proof (Tdot.bo_len G R a Ba _ Hina) as Hlsa. pose proof (Tdot.bo_shape G R a Ba _ Hina) as Hssa.
      pose proof (Tdot.bo_len G R b Bb _ Hinb) as Hlsb. pose proof (Tdot.bo_shape G R b Bb _ Hinb) as Hssb.
      cbn [fst snd] in *. rewrite Hssa, Hssb.
      rewrite (without_block_shape (indices G R a) sa aa Hlsa), (without_block_shape (indices G R b) sb ab Hlsb).
      unfold free, fa, fb, la, rb, na, nb, ixa, ixb, ndim. symmetry. apply block_shape_app.
      rewrite Tdot.length_take_axes. apply length_without_axes.
    Qed.

    Lemma to_dense_reindex_free :
      to_dense G R (a_reindex res free) = Some (dense_go G R free (blocks G R res) free 0 []).
    Proof.
      unfold to_dense, a_reindex. cbn [indices blocks].
      destruct (existsb (fun ix => is_nil (chargemap G ix)) free) eqn:E; [|reflexivity].
      exfalso. apply existsb_exists in E. destruct E as [ix [Hin Hnil]].
      pose proof free_good as Hg. rewrite Forall_forall in Hg. destruct (Hg ix Hin) as [_ [_ Hne]].
      apply Hne. destruct (chargemap G ix); [reflexivity | discriminate Hnil].
    Qed.

    Lemma shape_ta : tshape ta = map (size_total G) ixa.
    Proof. apply (di_shape _ _ _ _ Da). Qed.
    Lemma shape_tb : tshape tb = map (size_total G) ixb.
    Proof. apply (di_shape _ _ _ _ Db). Qed.

    Lemma tdot_shape :
      without_axes (tshape ta) aa ++ without_axes (tshape tb) ab = map (size_total G) free.
    Proof.
      rewrite shape_ta, shape_tb. unfold free, fa, fb. rewrite map_app.
      rewrite !(without_axes_map (size_total G) dix). reflexivity.
    Qed.

    Lemma size_cixs : map (size_total G) cixs = map (size_total G) (take_axes dix ixb ab).
    Proof. apply size_total_map_chargemap. exact Hcm. Qed.

    (* one operand: the entry of its dense form at the scattered position is `sem` at the merged
       coordinates *)
    Lemma operand_entry (x : arr) (tx : tensor R) (ax : list nat) (k pf : list nat) :
      dense_is G R x tx -> NoDup ax -> (forall i, In i ax -> i < ndim G R x) ->
      inb (map (size_total G) (take_axes dix (indices G R x) ax)) k = true ->
      inb (map (size_total G) (without_axes (indices G R x) ax)) pf = true ->
      get R tx (scatter (length (tshape tx)) ax k pf)
      = sem G R x (Tdot.merge G (ndim G R x) ax (coords_of G (without_axes (indices G R x) ax) pf)
                                                (coords_of G (take_axes dix (indices G R x) ax) k)).
    Proof.
      intros D Hnd Hlt Hk Hpf.
      set (n := ndim G R x). set (ixs := indices G R x) in *.
      assert (Hn : length (tshape tx) = n) by (rewrite (di_shape _ _ _ _ D), map_length; reflexivity).
      assert (Hlk : length k = length ax).
      { apply cd_inb_length in Hk. rewrite Hk, map_length. apply Tdot.length_take_axes. }
      assert (Hlpf : length pf = length (rest_axes n ax)).
      { apply cd_inb_length in Hpf. rewrite Hpf, map_length. apply length_without_axes. }
      rewrite Hn, Tdot.scatter_scatterA.
      assert (Hls : length (Tdot.scatterA 0 n ax k pf) = n) by apply Tdot.length_scatterA_go.
      assert (Hin : inb (map (size_total G) ixs) (Tdot.scatterA 0 n ax k pf) = true).
      { apply (inb_of_parts _ _ ax).
        - rewrite Hls, map_length. reflexivity.
        - rewrite (Tdot.take_scatterA_axes 0 n ax k pf Hnd Hlt Hlk).
          rewrite (take_axes_map (size_total G) dix). exact Hk.
        - rewrite map_length. change (length ixs) with n.
          rewrite (Tdot.take_scatterA_rest 0 n ax k pf Hlpf).
          rewrite (take_axes_map (size_total G) dix), <- (Tdot.without_axes_take dix). exact Hpf. }
      rewrite (di_get _ _ _ _ D _ Hin). f_equal.
      change (indices G R x) with ixs.
      rewrite (coords_of_zipw G ixs (Tdot.scatterA 0 n ax k pf)).
      rewrite (zipw_scatterA (coord_at G) dix 0 n ax ixs k pf Hnd Hlt eq_refl Hlk Hlpf).
      unfold Tdot.merge. rewrite (Tdot.without_axes_take dix). reflexivity.
    Qed.

    Theorem tensordot_dense_core :
      to_dense G R (a_reindex res free) = Some (ttensordot R ta tb aa ab).
    Proof.
      rewrite to_dense_reindex_free. f_equal.
      assert (Hbg : cd_blocks_good G R free (blocks G R res)).
      { intros s t Hin. pose proof res_blocks_shaped as H. rewrite Forall_forall in H. apply (H (s, t) Hin). }
      destruct (dense_go_spec G R HG free (blocks G R res) free_good Hbg) as [Hshape [Hlen Hget]].
      apply tensor_ext.
      - rewrite Hshape. unfold ttensordot. rewrite tshape_build. symmetry. exact tdot_shape.
      - exact Hlen.
      - apply length_build.
      - intros pos Hpos. rewrite Hshape in Hpos. rewrite (Hget pos Hpos).
        change (match lookup keq (map fst (coords_of G free pos)) (blocks G R res) with
                | Some b0 => get R b0 (map snd (coords_of G free pos)) | None => r0 R end)
          with (sem G R res (coords_of G free pos)).
        (* split the position *)
        pose proof Hpos as Hsplit. unfold free in Hsplit. rewrite map_app in Hsplit.
        apply inb_app_split in Hsplit. rewrite map_length in Hsplit. destruct Hsplit as [Hpl Hpr].
        set (pl := firstn (length fa) pos) in *. set (pr := skipn (length fa) pos) in *.
        assert (Epos : pos = pl ++ pr) by (symmetry; apply firstn_skipn).
        assert (Hlpl : length pl = length fa) by (apply cd_inb_length in Hpl; rewrite Hpl, map_length; reflexivity).
        rewrite Epos. unfold free. rewrite (coords_of_app G fa fb pl pr Hlpl).
        (* block-sparse side *)
        pose proof (wf_nodup_tables G R HO a Hwa) as Nda. pose proof (wf_nodup_tables G R HO b Hwb) as Ndb.
        assert (Ndfa : Forall (fun ix => NoDup (icharges G ix)) fa).
        { rewrite Forall_forall in Nda |- *. intros ix Hin. apply Nda. apply (In_without_axes dix _ _ _ Hin). }
        assert (Ndfb : Forall (fun ix => NoDup (icharges G ix)) fb).
        { rewrite Forall_forall in Ndb |- *. intros ix Hin. apply Ndb. apply (In_without_axes dix _ _ _ Hin). }
        assert (Ndc : Forall (fun ix => NoDup (icharges G ix)) cixs).
        { rewrite Forall_forall in Nda |- *. intros ix Hin. apply Nda. unfold cixs, take_axes in Hin.
          apply in_map_iff in Hin. destruct Hin as [i [<- Hi]]. apply nth_In. apply Haa_lt. exact Hi. }
        destruct (cd_coords_fwd G HG fa Ndfa pl Hpl) as [Hcl _].
        destruct (cd_coords_fwd G HG fb Ndfb pr Hpr) as [Hcr _].
        unfold res, la, rb, na, nb.
        rewrite (Tdot.blockwise_sem_core G R RL (ceqb_eq G HG) a b aa ab _ _
                   (Tdot.wf_blocks_ok G R (ceqb_eq G HG) a Hwa) (Tdot.wf_blocks_ok G R (ceqb_eq G HG) b Hwb)
                   Haa_nd Haa_lt Hab_nd Hab_lt Hlen_ax Ndc Hcl Hcr).
        (* numpy side *)
        rewrite (Tdot.get_ttensordot R ta tb aa ab pl pr).
        2:{ rewrite Hlpl, shape_ta. rewrite (without_axes_map (size_total G) dix), map_length. reflexivity. }
        2:{ rewrite tdot_shape, <- Epos. exact Hpos. }
        f_equal. change (take_axes dix (indices G R a) aa) with cixs. rewrite <- (coords_of_all_idx G cixs), map_map.
        replace (take_axes 0 (tshape ta) aa) with (map (size_total G) cixs)
          by (rewrite shape_ta; symmetry; apply (take_axes_map (size_total G) dix)).
        apply map_ext_in. intros k Hk. apply In_all_idx_inb in Hk.
        f_equal.
        + symmetry. apply (operand_entry a ta aa k pl Da Haa_nd Haa_lt Hk).
          rewrite <- (without_axes_map (size_total G) dix). rewrite (without_axes_map (size_total G) dix). exact Hpl.
        + symmetry. rewrite (coords_of_chargemap G cixs (take_axes dix (indices G R b) ab) k Hcm).
          apply (operand_entry b tb ab k pr Db Hab_nd Hab_lt); [|exact Hpr].
          pose proof size_cixs as Hsz. unfold ixb in Hsz. rewrite <- Hsz. exact Hk.
    Qed.
  End Main.
End DenseTdot.

(* ================================================================== *)
(* Part E: tensordot front end, matmul, scalar results, trace *)
Section DenseC02.
  Context (G : Symmetry) (R : Ring) (HG : GroupLaws G) (HO : OrderLaws G) (RL : Tdot.SumLaws R).
  Notation dco := (ident G, 0).
  Notation dix := (dflt_index G).
  Notation arr := (aarray G R).

  (* the free tables of a contraction, unpruned: where numpy's result lives *)
  Definition free_tables (a b : arr) (aa ab : list nat) : list (index G) :=
    without_axes (indices G R a) aa ++ without_axes (indices G R b) ab.
  (* the contracted legs carry the same tables *)
  Definition legs_match (a b : arr) (aa ab : list nat) : Prop :=
    map (chargemap G) (take_axes dix (indices G R a) aa) = map (chargemap G) (take_axes dix (indices G R b) ab).

  Theorem tensordot_dense (a b : arr) (la aa ab rb : list nat) (ta tb : tensor R) :
    wf_array G R a = true -> wf_array G R b = true ->
    Tdot.axes_ok (ndim G R a) aa = true -> Tdot.axes_ok (ndim G R b) ab = true -> length aa = length ab ->
    la = rest_axes (ndim G R a) aa -> rb = rest_axes (ndim G R b) ab ->
    legs_match a b aa ab ->
    to_dense G R a = Some ta -> to_dense G R b = Some tb ->
    to_dense G R (a_reindex G R (tdot_blockwise G R a b la aa ab rb) (free_tables a b aa ab))
    = Some (ttensordot R ta tb aa ab).
  Proof.
    intros Hwa Hwb Haa Hab Hlen -> -> Hcm Hta Htb.
    apply Tdot.axes_ok_spec in Haa. destruct Haa as [Haa1 Haa2].
    apply Tdot.axes_ok_spec in Hab. destruct Hab as [Hab1 Hab2].
    apply (tensordot_dense_core G R HG HO RL); assumption.
  Qed.

  (* the public entry point tensordot(a, b, axes, mode="blockwise") *)
  Theorem a_tensordot_dense (a b : arr) axes (aa ab : list nat) (ta tb : tensor R) :
    parse_axes (ndim G R a) (ndim G R b) axes = Some (aa, ab) ->
    wf_array G R a = true -> wf_array G R b = true ->
    Tdot.axes_ok (ndim G R a) aa = true -> Tdot.axes_ok (ndim G R b) ab = true -> length aa = length ab ->
    legs_match a b aa ab ->
    to_dense G R a = Some ta -> to_dense G R b = Some tb ->
    exists res, a_tensordot G R a b axes MBlockwise = Some res /\
      to_dense G R (a_reindex G R res (free_tables a b aa ab)) = Some (ttensordot R ta tb aa ab).
  Proof.
    intros Hp Hwa Hwb Haa Hab Hlen Hcm Hta Htb. unfold a_tensordot. rewrite Hp.
    eexists. split; [reflexivity|]. apply tensordot_dense; auto.
  Qed.

  (* every entry of numpy's result is `sem` of the block-sparse result *)
  Theorem tensordot_dense_entry (a b : arr) (la aa ab rb : list nat) (ta tb : tensor R) (pos : list nat) :
    wf_array G R a = true -> wf_array G R b = true ->
    Tdot.axes_ok (ndim G R a) aa = true -> Tdot.axes_ok (ndim G R b) ab = true -> length aa = length ab ->
    la = rest_axes (ndim G R a) aa -> rb = rest_axes (ndim G R b) ab ->
    legs_match a b aa ab ->
    to_dense G R a = Some ta -> to_dense G R b = Some tb ->
    inb (map (size_total G) (free_tables a b aa ab)) pos = true ->
    get R (ttensordot R ta tb aa ab) pos
    = sem G R (tdot_blockwise G R a b la aa ab rb) (coords_of G (free_tables a b aa ab) pos).
  Proof.
    intros Hwa Hwb Haa Hab Hlen Ela Erb Hcm Hta Htb Hpos.
    pose proof (tensordot_dense a b la aa ab rb ta tb Hwa Hwb Haa Hab Hlen Ela Erb Hcm Hta Htb) as H.
    subst la rb.
    apply Tdot.axes_ok_spec in Haa. destruct Haa as [Haa1 Haa2].
    apply Tdot.axes_ok_spec in Hab. destruct Hab as [Hab1 Hab2].
    unfold free_tables in H. rewrite (to_dense_reindex_free G R HO a b aa ab ta tb Hwa Hwb Hta Htb) in H.
    injection H as H1.
    set (res := tdot_blockwise G R a b _ aa ab _) in *.
    assert (Hbg : cd_blocks_good G R (free_tables a b aa ab) (blocks G R res)).
    { intros s t Hin.
      pose proof (res_blocks_shaped G R HG a b aa ab Hwa Hwb) as Hs. rewrite Forall_forall in Hs.
      apply (Hs (s, t) Hin). }
    destruct (dense_go_spec G R HG _ _ (free_good G R HO a b aa ab ta tb Hwa Hwb Hta Htb) Hbg) as [_ [_ Hget]].
    unfold free_tables in *. rewrite <- H1. exact (Hget pos Hpos).
  Qed.

  (* ---------------- matmul: a @ b for ranks 1 and 2 ---------------- *)
  Theorem matmul_dense (a b res : arr) (ta tb : tensor R) :
    wf_array G R a = true -> wf_array G R b = true ->
    a_matmul G R a b = Some res ->
    chargemap G (nth (ndim G R a - 1) (indices G R a) dix) = chargemap G (nth 0 (indices G R b) dix) ->
    to_dense G R a = Some ta -> to_dense G R b = Some tb ->
    to_dense G R (a_reindex G R res (free_tables a b [ndim G R a - 1] [0]))
    = Some (ttensordot R ta tb [ndim G R a - 1] [0]).
  Proof.
    intros Hwa Hwb Hm Hcm Hta Htb. unfold a_matmul in Hm.
    assert (Hleg : legs_match a b [ndim G R a - 1] [0]).
    { unfold legs_match, take_axes. cbn [map]. rewrite Hcm. reflexivity. }
    destruct (ndim G R a) as [|[|[|na]]] eqn:Ea; try discriminate Hm;
      destruct (ndim G R b) as [|[|[|nb]]] eqn:Eb; try discriminate Hm;
      inversion Hm; subst res; cbn [Nat.sub] in *;
      apply tensordot_dense; try assumption; try reflexivity; rewrite ?Ea, ?Eb; reflexivity.
  Qed.

  (* ---------------- full contraction: the returned scalar ---------------- *)
  Theorem scalar_dense (a b : arr) (aa ab : list nat) (ta tb : tensor R) :
    wf_array G R a = true -> wf_array G R b = true ->
    Tdot.axes_ok (ndim G R a) aa = true -> Tdot.axes_ok (ndim G R b) ab = true ->
    length aa = ndim G R a -> length ab = ndim G R b -> length aa = length ab ->
    legs_match a b aa ab ->
    to_dense G R a = Some ta -> to_dense G R b = Some tb ->
    tshape (ttensordot R ta tb aa ab) = [] /\
    a_scalar G R (tdot_blockwise G R a b [] aa ab []) = get R (ttensordot R ta tb aa ab) [].
  Proof.
    intros Hwa Hwb Haa Hab Hla Hlb Hlen Hcm Hta Htb.
    pose proof (TraceEinsumProofs.full_axes_rest _ _ Haa Hla) as Ea.
    pose proof (TraceEinsumProofs.full_axes_rest _ _ Hab Hlb) as Eb.
    assert (Hfree : free_tables a b aa ab = []).
    { unfold free_tables. rewrite !(Tdot.without_axes_take dix). unfold ndim in Ea, Eb. rewrite Ea, Eb. reflexivity. }
    pose proof (tensordot_dense_entry a b [] aa ab [] ta tb [] Hwa Hwb Haa Hab Hlen (eq_sym Ea) (eq_sym Eb) Hcm Hta Htb) as H.
    rewrite Hfree in H. specialize (H eq_refl). split.
    - pose proof (dense_is_of G R HG HO a ta Hwa Hta) as Da. pose proof (dense_is_of G R HG HO b tb Hwb Htb) as Db.
      unfold ttensordot. rewrite tshape_build, (di_shape _ _ _ _ Da), (di_shape _ _ _ _ Db).
      rewrite !(without_axes_map (size_total G) dix). fold (free_tables a b aa ab).
      unfold free_tables in Hfree. apply app_eq_nil in Hfree. destruct Hfree as [-> ->]. reflexivity.
    - rewrite H. reflexivity.
  Qed.

  (* ---------------- trace ---------------- *)
  Theorem trace_dense (x : arr) (t : tensor R) :
    wf_array G R x = true -> ndim G R x = 2 ->
    chargemap G (nth 0 (indices G R x) dix) = chargemap G (nth 1 (indices G R x) dix) ->
    to_dense G R x = Some t ->
    a_trace G R x = Some (ttrace R t).
  Proof.
    intros Hwf Hn Hcm Ht. pose proof (dense_is_of G R HG HO x t Hwf Ht) as D.
    assert (Hnd : Tdot.charges_nodup G [nth 0 (indices G R x) dix] = true).
    { unfold Tdot.charges_nodup. cbn [forallb]. rewrite andb_true_r.
      pose proof (wf_tables_nodupb G R HG HO x Hwf) as Hb. unfold StructProofs.tables_nodup in Hb.
      rewrite forallb_forall in Hb. apply Hb. apply nth_In. unfold ndim in Hn. lia. }
    rewrite (TraceEinsumProofs.trace_sem G R RL (ceqb_eq G HG) x Hwf Hn Hcm Hnd). f_equal.
    unfold ndim in Hn. destruct (indices G R x) as [|ix0 [|ix1 [|ix2 l]]] eqn:Ei; try discriminate Hn.
    cbn [nth] in *. unfold ttrace. rewrite (di_shape _ _ _ _ D), Ei. cbn [map nth].
    rewrite <- (size_total_chargemap G ix0 ix1 Hcm), Nat.min_id.
    rewrite (index_coords_seq G ix0), map_map. f_equal.
    apply map_ext_in. intros i Hi. apply in_seq in Hi.
    assert (Hin : inb (map (size_total G) (indices G R x)) [i; i] = true).
    { rewrite Ei. cbn [map inb]. rewrite <- (size_total_chargemap G ix0 ix1 Hcm).
      assert (Hlt : Nat.ltb i (size_total G ix0) = true) by (apply Nat.ltb_lt; lia). rewrite Hlt. reflexivity. }
    rewrite (di_get _ _ _ _ D _ Hin), Ei. unfold coords_of. cbn [List.combine map fst snd].
    rewrite (coord_at_chargemap G ix0 ix1 i Hcm). reflexivity.
  Qed.
End DenseC02.

(* ================================================================== *)
(* Part F: the result's OWN dense form (pruned tables) inside numpy's result *)
Section DensePruned.
  Context (G : Symmetry) (R : Ring) (HG : GroupLaws G) (HO : OrderLaws G) (RL : Tdot.SumLaws R).
  Notation dco := (ident G, 0).
  Notation dix := (dflt_index G).
  Notation arr := (aarray G R).
  Notation keq := (list_eqb (ceqb G)).

  Lemma coords_ok_of_nth ixs : forall cs : list (coord G), length cs = length ixs ->
    (forall i, i < length ixs -> snd (nth i cs dco) < size_of G (nth i ixs dix) (fst (nth i cs dco))) ->
    coords_ok G ixs cs = true.
  Proof.
    induction ixs as [|ix ixs IH]; intros [|c cs] Hl Hn; cbn [length] in Hl; try discriminate Hl; [reflexivity|].
    rewrite cd_coords_ok_cons. apply andb_true_iff. split.
    - apply Nat.ltb_lt. apply (Hn 0). cbn [length]. lia.
    - apply IH; [lia|]. intros i Hi. apply (Hn (S i)). cbn [length]. lia.
  Qed.

  Lemma lookup_filter_sub (P : C G * nat -> bool) c d (cm : list (C G * nat)) :
    NoDup (map fst cm) -> lookup (ceqb G) c (filter P cm) = Some d -> lookup (ceqb G) c cm = Some d.
  Proof.
    intros Hnd H. apply (Tdot.lookup_In (ceqb G) (ceqb_eq G HG)) in H. apply filter_In in H. destruct H as [H _].
    apply (Tdot.lookup_nodup_In (ceqb G) (ceqb_eq G HG)); assumption.
  Qed.

  Section Main.
    Context (a b : arr) (aa ab : list nat) (ta tb : tensor R).
    Context (Hwa : wf_array G R a = true) (Hwb : wf_array G R b = true).
    Context (Haa : Tdot.axes_ok (ndim G R a) aa = true) (Hab : Tdot.axes_ok (ndim G R b) ab = true).
    Context (Hlen_ax : length aa = length ab).
    Context (Hcm : legs_match G R a b aa ab).
    (* contracted legs have opposite directions (so that the result is a valid array) *)
    Context (Hdual : forall k, k < length aa ->
               idual G (nth (nth k aa 0) (indices G R a) dix) = negb (idual G (nth (nth k ab 0) (indices G R b) dix))).
    Context (Hta : to_dense G R a = Some ta) (Htb : to_dense G R b = Some tb).

    Let res := tdot_blockwise G R a b (rest_axes (ndim G R a) aa) aa ab (rest_axes (ndim G R b) ab).
    Let free := free_tables G R a b aa ab.

    Lemma res_wf : wf_array G R res = true.
    Proof.
      pose proof (Tdot.axes_ok_spec _ _ Haa) as [Haa1 Haa2]. pose proof (Tdot.axes_ok_spec _ _ Hab) as [Hab1 Hab2].
      apply (WfProofs.tdot_blockwise_wf G HG R HO); assumption.
    Qed.

    Lemma free_nodup : Forall (fun ix => NoDup (icharges G ix)) free.
    Proof.
      pose proof (wf_nodup_tables G R HO a Hwa) as Nda. pose proof (wf_nodup_tables G R HO b Hwb) as Ndb.
      rewrite Forall_forall in Nda, Ndb. unfold free, free_tables. apply Forall_app.
      split; apply Forall_forall; intros ix Hin; apply (In_without_axes dix) in Hin; [apply Nda | apply Ndb]; exact Hin.
    Qed.

    Lemma pruned_tables i : i < length free ->
      chargemap G (nth i (indices G R res) dix) =
      filter (fun p => mem (ceqb G) (fst p) (map (fun s => nth i s (ident G)) (sectors G R res)))
             (chargemap G (nth i free dix)).
    Proof.
      intros Hi.
      destruct (Tdot.blockwise_indices G R (ceqb_eq G HG) a b (rest_axes (ndim G R a) aa) aa ab (rest_axes (ndim G R b) ab))
        as [_ [_ H]].
      apply (H i Hi).
    Qed.

    Lemma pruned_length : length (indices G R res) = length free.
    Proof.
      destruct (Tdot.blockwise_indices G R (ceqb_eq G HG) a b (rest_axes (ndim G R a) aa) aa ab (rest_axes (ndim G R b) ab))
        as [_ [H _]].
      exact H.
    Qed.

    (* a coordinate list inside the pruned tables is inside the free tables *)
    Lemma pruned_coords_ok cs : coords_ok G (indices G R res) cs = true -> coords_ok G free cs = true.
    Proof.
      intros H. destruct (StructProofs.coords_nth G _ _ H) as [Hl Hn]. rewrite pruned_length in Hl, Hn.
      apply coords_ok_of_nth; [exact Hl|]. intros i Hi. specialize (Hn i Hi).
      unfold size_of in Hn |- *. rewrite (pruned_tables i Hi) in Hn.
      destruct (lookup (ceqb G) (fst (nth i cs dco)) (filter _ (chargemap G (nth i free dix)))) as [d|] eqn:E; [|lia].
      assert (Hndi : NoDup (map fst (chargemap G (nth i free dix)))).
      { pose proof free_nodup as Hnd. rewrite Forall_forall in Hnd. apply (Hnd (nth i free dix)). apply nth_In. exact Hi. }
      rewrite (lookup_filter_sub _ _ d _ Hndi E). exact Hn.
    Qed.

    Theorem tensordot_dense_pruned_core :
      blocks G R res <> [] ->
      exists tr, to_dense G R res = Some tr /\
        tshape tr = map (size_total G) (indices G R res) /\
        (forall pos, inb (tshape tr) pos = true ->
           inb (map (size_total G) free) (pos_of G free (coords_of G (indices G R res) pos)) = true /\
           get R tr pos = get R (ttensordot R ta tb aa ab) (pos_of G free (coords_of G (indices G R res) pos))) /\
        (forall pos, inb (map (size_total G) free) pos = true ->
           (exists i, i < length free /\
              ~ In (fst (nth i (coords_of G free pos) dco)) (icharges G (nth i (indices G R res) dix))) ->
           get R (ttensordot R ta tb aa ab) pos = r0 R).
    Proof.
      intros Hne.
      pose proof (cd_stored_tables G R res res_wf Hne) as Htab.
      destruct (dense_exists G R HG HO res res_wf Htab) as [tr Htr].
      pose proof (dense_is_of G R HG HO res tr res_wf Htr) as D.
      exists tr. split; [exact Htr|]. split; [apply (di_shape _ _ _ _ D)|]. split.
      - intros pos Hpos. rewrite (di_shape _ _ _ _ D) in Hpos.
        pose proof (di_ok _ _ _ _ D _ Hpos) as Hok. apply pruned_coords_ok in Hok.
        destruct (cd_coords_bwd G HG free _ Hok) as [Hin Hback]. split; [exact Hin|].
        rewrite (di_get _ _ _ _ D _ Hpos).
        rewrite (tensordot_dense_entry G R HG HO RL a b _ aa ab _ ta tb _ Hwa Hwb Haa Hab Hlen_ax eq_refl eq_refl Hcm Hta Htb Hin).
        fold free. rewrite Hback. reflexivity.
      - intros pos Hpos [i [Hi Hnot]].
        rewrite (tensordot_dense_entry G R HG HO RL a b _ aa ab _ ta tb _ Hwa Hwb Haa Hab Hlen_ax eq_refl eq_refl Hcm Hta Htb Hpos).
        fold free. fold res. unfold sem.
        destruct (lookup keq (map fst (coords_of G free pos)) (blocks G R res)) as [t|] eqn:E; [|reflexivity].
        exfalso. apply Hnot.
        apply (Tdot.lookup_In keq (Tdot.list_eqb_spec (ceqb G) (ceqb_eq G HG))) in E.
        destruct (cd_coords_fwd G HG free free_nodup pos Hpos) as [Hok _].
        destruct (StructProofs.coords_nth G _ _ Hok) as [Hl Hn]. specialize (Hn i Hi).
        set (cs := coords_of G free pos) in *. set (c := fst (nth i cs dco)) in *.
        unfold icharges. rewrite (pruned_tables i Hi).
        unfold size_of in Hn. destruct (lookup (ceqb G) c (chargemap G (nth i free dix))) as [d|] eqn:El; [|lia].
        apply (Tdot.lookup_In (ceqb G) (ceqb_eq G HG)) in El.
        apply in_map_iff. exists (c, d). split; [reflexivity|]. apply filter_In. split; [exact El|].
        cbn [fst]. apply (Tdot.mem_In (ceqb G) (ceqb_eq G HG)). apply in_map_iff.
        exists (map fst cs). split.
        + unfold c. apply (map_nth fst cs dco i).
        + unfold sectors. apply in_map_iff. exists (map fst cs, t). split; [reflexivity | exact E].
    Qed.
  End Main.
End DensePruned.

(* ================================================================== *)
(* Part G: multiply_diagonal, expand_dims *)
Lemma inb_insert_inv n : forall sh pos', inb (insert_nth sh n 1) pos' = true ->
  exists pos, pos' = insert_nth pos n 0 /\ inb sh pos = true.
Proof.
  induction n as [|n IH]; intros sh pos' H.
  - rewrite StructProofs.insert_nth_0 in H. destruct pos' as [|p pos]; cbn [inb] in H; [discriminate H|].
    apply andb_true_iff in H. destruct H as [Hp H]. apply Nat.ltb_lt in Hp.
    exists pos. split; [|exact H]. rewrite StructProofs.insert_nth_0. f_equal. lia.
  - destruct sh as [|d sh].
    + rewrite StructProofs.insert_nth_S_nil in H. destruct pos' as [|p [|q pos]]; cbn [inb] in H; try discriminate H.
      * apply andb_true_iff in H. destruct H as [Hp _]. apply Nat.ltb_lt in Hp.
        exists []. split; [|reflexivity]. rewrite StructProofs.insert_nth_S_nil. f_equal. lia.
      * rewrite andb_false_r in H. discriminate H.
    + rewrite StructProofs.insert_nth_S_cons in H. destruct pos' as [|p pos']; cbn [inb] in H; [discriminate H|].
      apply andb_true_iff in H. destruct H as [Hp H]. destruct (IH sh pos' H) as [pos [E Hin]].
      exists (p :: pos). split; [rewrite StructProofs.insert_nth_S_cons, E; reflexivity|].
      cbn [inb]. rewrite Hp, Hin. reflexivity.
Qed.

Lemma zipw_insert_nth {A B C} (f : A -> B -> C) n x y : forall l1 l2, length l1 = length l2 ->
  zipw f (insert_nth l1 n x) (insert_nth l2 n y) = insert_nth (zipw f l1 l2) n (f x y).
Proof.
  induction n as [|n IH]; intros l1 l2 Hl.
  - rewrite !StructProofs.insert_nth_0. reflexivity.
  - destruct l1 as [|a l1], l2 as [|b l2]; cbn [length] in Hl; try discriminate Hl.
    + reflexivity.
    + rewrite !StructProofs.insert_nth_S_cons.
      change (zipw f (a :: insert_nth l1 n x) (b :: insert_nth l2 n y))
        with (f a b :: zipw f (insert_nth l1 n x) (insert_nth l2 n y)).
      change (zipw f (a :: l1) (b :: l2)) with (f a b :: zipw f l1 l2).
      rewrite StructProofs.insert_nth_S_cons. f_equal. apply IH. lia.
Qed.

Section DenseC08b.
  Context (G : Symmetry) (R : Ring) (HG : GroupLaws G) (HO : OrderLaws G).
  Notation dco := (ident G, 0).
  Notation dix := (dflt_index G).
  Notation arr := (aarray G R).

  (* ---------------- multiply_diagonal ---------------- *)
  (* the dense form of a block vector over an index table: concatenation over the table's
     (sorted) charges, zeros for the charges the vector lacks *)
  Definition vec_dense (ix : index G) (v : bvec G R) : tensor R :=
    mkT [size_total G ix]
        (flat_map (fun p => match lookup (ceqb G) (fst p) v with
                            | Some b => tdata b
                            | None => repeat (r0 R) (snd p)
                            end) (chargemap G ix)).
  (* the vector's blocks are 1-d with the extents of the table *)
  Definition vec_ok (ix : index G) (v : bvec G R) : Prop :=
    forall c d b, In (c, d) (chargemap G ix) -> lookup (ceqb G) c v = Some b ->
      tshape b = [d] /\ length (tdata b) = d.

  Lemma vec_dense_get_cm (v : bvec G R) : forall cm p,
    (forall c d b, In (c, d) cm -> lookup (ceqb G) c v = Some b -> tshape b = [d] /\ length (tdata b) = d) ->
    p < nsum (map snd cm) ->
    nth p (flat_map (fun q => match lookup (ceqb G) (fst q) v with
                              | Some b => tdata b | None => repeat (r0 R) (snd q) end) cm) (r0 R)
    = StructProofs.vsem G R v (nth p (cd_coords G cm) dco).
  Proof.
    induction cm as [|[c d] cm IH]; intros p Hok Hp.
    - cbn [map nsum fold_right] in Hp. lia.
    - cbn [map snd nsum fold_right] in Hp. fold (nsum (map snd cm)) in Hp.
      cbn [flat_map fst snd].
      assert (Hlen : length (match lookup (ceqb G) c v with Some b => tdata b | None => repeat (r0 R) d end) = d).
      { destruct (lookup (ceqb G) c v) as [b|] eqn:E; [apply (Hok c d b (or_introl eq_refl) E) | apply repeat_length]. }
      destruct (Nat.ltb p d) eqn:Ep.
      + apply Nat.ltb_lt in Ep. rewrite app_nth1 by (rewrite Hlen; exact Ep).
        rewrite (cd_nth_coords_lt G c d cm p dco Ep).
        unfold StructProofs.vsem, StructProofs.dsem. cbn [fst snd].
        destruct (lookup (ceqb G) c v) as [b|] eqn:E.
        * destruct (Hok c d b (or_introl eq_refl) E) as [Hs _]. unfold get. rewrite Hs.
          cbn [offset shape_size fold_right]. f_equal. lia.
        * apply nth_repeat.
      + apply Nat.ltb_ge in Ep. rewrite app_nth2 by (rewrite Hlen; exact Ep). rewrite Hlen.
        rewrite (cd_nth_coords_ge G c d cm p dco Ep). apply IH; [|lia].
        intros c' d' b Hin. apply Hok. right. exact Hin.
  Qed.

  Lemma vec_dense_get ix v p : vec_ok ix v -> p < size_total G ix ->
    get R (vec_dense ix v) [p] = StructProofs.vsem G R v (coord_at G ix p).
  Proof.
    intros Hok Hp. unfold get, vec_dense. cbn [tshape tdata offset shape_size fold_right].
    replace (p * 1 + 0) with p by lia. unfold coord_at. rewrite cd_index_coords.
    apply vec_dense_get_cm; [exact Hok | exact Hp].
  Qed.

  Theorem multiply_diagonal_dense (x : arr) (v : bvec G R) (axis : nat) (t : tensor R) :
    (forall a, rmul R (r0 R) a = r0 R) -> (forall a, rmul R a (r0 R) = r0 R) ->
    wf_array G R x = true -> axis < ndim G R x ->
    vec_ok (nth axis (indices G R x) dix) v ->
    to_dense G R x = Some t ->
    to_dense G R (a_multiply_diagonal G R x v axis)
    = Some (tmul_diag R t (vec_dense (nth axis (indices G R x) dix) v) axis).
  Proof.
    intros H0l H0r Hwf Hax Hv Ht. pose proof (dense_is_of G R HG HO x t Hwf Ht) as D.
    pose proof (to_dense_nonempty G R x t Ht) as Hne.
    apply (dense_intro G R HG HO).
    - apply (WfProofs.multiply_diagonal_wf G HG R). exact Hwf.
    - exact Hne.
    - apply (di_shape _ _ _ _ D).
    - apply length_build.
    - cbn [a_multiply_diagonal with_blocks indices]. intros pos Hpos.
      rewrite StructProofs.get_tmul_diag by (rewrite (di_shape _ _ _ _ D); exact Hpos).
      rewrite (di_get _ _ _ _ D _ Hpos).
      rewrite (StructProofs.multiply_diagonal_sem G HG R H0l H0r x v axis _ Hwf (di_ok _ _ _ _ D _ Hpos)).
      f_equal.
      pose proof Hpos as Hp. apply inb_iff in Hp. destruct Hp as [Hl Hn]. rewrite map_length in Hl, Hn.
      specialize (Hn axis Hax).
      rewrite (StructProofs.map_nth_lt (size_total G) (indices G R x) dix 0 axis Hax) in Hn.
      rewrite (vec_dense_get _ v _ Hv Hn). f_equal.
      rewrite coords_of_zipw. symmetry.
      apply (zipw_nth (coord_at G) (indices G R x) pos dix 0 axis). symmetry. exact Hl.
  Qed.

  (* ---------------- expand_dims ---------------- *)
  Theorem expand_dims_dense (x : arr) (axis : nat) (t : tensor R) :
    wf_array G R x = true -> to_dense G R x = Some t ->
    to_dense G R (a_expand_dims G R x axis) = Some (treshape R t (insert_nth (tshape t) axis 1)).
  Proof.
    intros Hwf Ht. pose proof (dense_is_of G R HG HO x t Hwf Ht) as D.
    pose proof (to_dense_nonempty G R x t Ht) as Hne.
    set (y := a_expand_dims G R x axis).
    assert (Hix : exists d, indices G R y = insert_nth (indices G R x) axis (StructProofs.unit_index G d)).
    { unfold y, a_expand_dims. cbn [indices]. eexists. reflexivity. }
    destruct Hix as [d Hix].
    assert (Hsh : map (size_total G) (indices G R y) = insert_nth (tshape t) axis 1).
    { rewrite Hix, StructProofs.map_insert_nth, (di_shape _ _ _ _ D). reflexivity. }
    apply (dense_intro G R HG HO).
    - apply (WfProofs.expand_dims_wf G HG R). exact Hwf.
    - fold y. rewrite Hix. apply WfProofs.Forall_insert; [exact Hne|]. intros H. discriminate H.
    - fold y. cbn [treshape tshape]. symmetry. exact Hsh.
    - cbn [treshape tshape tdata]. rewrite StructProofs.shape_size_insert. apply (di_len _ _ _ _ D).
    - fold y. intros pos' Hpos'. rewrite Hsh in Hpos'.
      destruct (inb_insert_inv axis _ _ Hpos') as [pos [-> Hin]].
      rewrite StructProofs.get_treshape_insert by (apply cd_inb_length in Hin; symmetry; exact Hin).
      rewrite (di_shape _ _ _ _ D) in Hin. rewrite (di_get _ _ _ _ D _ Hin).
      rewrite Hix, (coords_of_zipw G (insert_nth (indices G R x) axis (StructProofs.unit_index G d))).
      rewrite (zipw_insert_nth (coord_at G) axis (StructProofs.unit_index G d) 0 (indices G R x) pos)
        by (apply cd_inb_length in Hin; rewrite Hin, map_length; reflexivity).
      change (coord_at G (StructProofs.unit_index G d) 0) with dco.
      destruct (StructProofs.expand_dims_sem G HG R x axis _ Hwf (di_ok _ _ _ _ D _ Hin)) as [Hs _].
      symmetry. exact Hs.
  Qed.
End DenseC08b.

(* definitional unfoldings quoted by the Props files *)
Lemma vec_dense_def (G : Symmetry) (R : Ring) (ix : index G) (v : bvec G R) :
  vec_dense G R ix v =
  mkT [size_total G ix]
      (flat_map (fun p => match lookup (ceqb G) (fst p) v with
                          | Some b => tdata b
                          | None => repeat (r0 R) (snd p)
                          end) (chargemap G ix)).
Proof. reflexivity. Qed.

Lemma reindex_spec (G : Symmetry) (R : Ring) (x : aarray G R) (ixs : list (index G)) :
  indices G R (a_reindex G R x ixs) = ixs /\ charge G R (a_reindex G R x ixs) = charge G R x /\
  blocks G R (a_reindex G R x ixs) = blocks G R x /\
  forall cs, sem G R (a_reindex G R x ixs) cs = sem G R x cs.
Proof. repeat split. Qed.

Lemma free_tables_def (G : Symmetry) (R : Ring) (a b : aarray G R) (aa ab : list nat) :
  free_tables G R a b aa ab = without_axes (indices G R a) aa ++ without_axes (indices G R b) ab.
Proof. reflexivity. Qed.

Lemma legs_match_def (G : Symmetry) (R : Ring) (a b : aarray G R) (aa ab : list nat) :
  legs_match G R a b aa ab <->
  map (chargemap G) (take_axes (dflt_index G) (indices G R a) aa)
  = map (chargemap G) (take_axes (dflt_index G) (indices G R b) ab).
Proof. reflexivity. Qed.

(* ================================================================== *)
(* Part H: squeeze *)
Lemma Forall_mask_keep {A} (P : A -> Prop) m : forall l, Forall P l -> Forall P (StructProofs.mask_keep m l).
Proof.
  induction m as [|b m IH]; intros [|x l] H; cbn [StructProofs.mask_keep]; try constructor.
  inversion H as [|a l0 Ha Hl]; subst a l0. destruct b; [apply IH; exact Hl | constructor; [exact Ha | apply IH; exact Hl]].
Qed.

Lemma zipw_mask_keep {A B C} (f : A -> B -> C) m : forall l1 l2, length l1 = length l2 ->
  zipw f (StructProofs.mask_keep m l1) (StructProofs.mask_keep m l2) = StructProofs.mask_keep m (zipw f l1 l2).
Proof.
  induction m as [|b m IH]; intros [|x l1] [|y l2] Hl; cbn [length] in Hl; try discriminate Hl; try reflexivity.
  change (zipw f (x :: l1) (y :: l2)) with (f x y :: zipw f l1 l2).
  cbn [StructProofs.mask_keep]. destruct b.
  - apply IH. lia.
  - change (zipw f (x :: StructProofs.mask_keep m l1) (y :: StructProofs.mask_keep m l2))
      with (f x y :: zipw f (StructProofs.mask_keep m l1) (StructProofs.mask_keep m l2)).
    f_equal. apply IH. lia.
Qed.

(* the multi-index of the full array that a multi-index of the squeezed array comes from *)
Fixpoint unmask (m : list bool) (pos' : list nat) : list nat :=
  match m with
  | [] => []
  | true :: m' => 0 :: unmask m' pos'
  | false :: m' => match pos' with p :: r => p :: unmask m' r | [] => 0 :: unmask m' [] end
  end.

Lemma unmask_spec m : forall sh pos', length m = length sh ->
  (forall i, i < length m -> nth i m false = true -> nth i sh 0 = 1) ->
  inb (StructProofs.mask_keep m sh) pos' = true ->
  StructProofs.mask_keep m (unmask m pos') = pos' /\ inb sh (unmask m pos') = true /\ (forall i, i < length m -> nth i m false = true -> nth i (unmask m pos') 0 = 0).
Proof.
  induction m as [|b m IH]; intros [|d sh] pos' Hl H1 Hin; cbn [length] in Hl; try discriminate Hl.
  - cbn [StructProofs.mask_keep] in Hin. apply cd_inb_nil in Hin. subst pos'.
    split; [reflexivity|]. split; [reflexivity|]. intros i Hi. cbn [length] in Hi. lia.
  - assert (H1' : forall i, i < length m -> nth i m false = true -> nth i sh 0 = 1).
    { intros i Hi Hm. apply (H1 (S i)); [cbn [length]; lia | exact Hm]. }
    cbn [StructProofs.mask_keep] in Hin. destruct b.
    + pose proof (H1 0 ltac:(cbn [length]; lia) eq_refl) as Hd. cbn [nth] in Hd. subst d.
      destruct (IH sh pos' ltac:(lia) H1' Hin) as [E1 [E2 E3]].
      cbn [unmask StructProofs.mask_keep inb]. rewrite E2. split; [exact E1|]. split; [reflexivity|].
      intros [|i] Hi Hm; cbn [nth]; [reflexivity|]. apply E3; [cbn [length] in Hi; lia | exact Hm].
    + destruct pos' as [|p r]; cbn [inb] in Hin; [discriminate Hin|].
      apply andb_true_iff in Hin. destruct Hin as [Hp Hin].
      destruct (IH sh r ltac:(lia) H1' Hin) as [E1 [E2 E3]].
      cbn [unmask StructProofs.mask_keep inb]. rewrite E1, E2, Hp. split; [reflexivity|]. split; [reflexivity|].
      intros [|i] Hi Hm; cbn [nth] in *; [discriminate Hm|]. apply E3; [cbn [length] in Hi; lia | exact Hm].
Qed.

Section DenseSqueeze.
  Context (G : Symmetry) (R : Ring) (HG : GroupLaws G) (HO : OrderLaws G).
  Notation dco := (ident G, 0).
  Notation dix := (dflt_index G).
  Notation arr := (aarray G R).

  Lemma wf_index_sizes ix : wf_index G ix = true -> forall c d, In (c, d) (chargemap G ix) -> 0 < d.
  Proof.
    destruct ix as [cm dl sub]. cbn [wf_index chargemap]. intros H c d Hin.
    apply andb_true_iff in H. destruct H as [H _]. unfold cm_ok in H.
    apply andb_true_iff in H. destruct H as [_ H]. rewrite forallb_forall in H. specialize (H _ Hin).
    cbn [fst snd] in H. apply andb_true_iff in H. destruct H as [_ H]. apply Nat.ltb_lt. exact H.
  Qed.

  Lemma squeezed_sizes (x y : arr) axes : wf_array G R x = true -> a_squeeze G R x axes = Some y ->
    forall i, i < ndim G R x -> nth i (StructProofs.removes G R x axes) false = true ->
      size_total G (nth i (indices G R x) dix) = 1.
  Proof.
    intros Hwf Hy i Hi Hm. rewrite StructProofs.a_squeeze_unfold in Hy.
    destruct (forallb _ _) eqn:E; cbn [negb] in Hy; [|discriminate Hy]. clear Hy.
    pose proof (StructProofs.removes_length G R x axes) as Hlen.
    apply (StructProofs.forallb_combine_nth _ false dix _ _ Hlen) with (i := i) in E; [|rewrite Hlen; exact Hi].
    cbn [fst snd] in E. rewrite Hm in E. apply (StructProofs.sqb_spec G HG) in E. destruct E as [Hle [d Hcm]].
    assert (Hwi : wf_index G (nth i (indices G R x) dix) = true).
    { unfold wf_array in Hwf. repeat (apply andb_true_iff in Hwf; destruct Hwf as [Hwf ?]).
      rewrite forallb_forall in Hwf. apply Hwf. apply nth_In. exact Hi. }
    pose proof (wf_index_sizes _ Hwi (ident G) d) as Hd. rewrite Hcm in Hd. specialize (Hd (or_introl eq_refl)).
    unfold size_total in *. rewrite Hcm in *. cbn [map snd nsum fold_right] in *. lia.
  Qed.

  Theorem squeeze_dense (x y : arr) (axes : option (list nat)) (t : tensor R) :
    wf_array G R x = true -> a_squeeze G R x axes = Some y -> to_dense G R x = Some t ->
    to_dense G R y = Some (treshape R t (StructProofs.mask_keep (StructProofs.removes G R x axes) (tshape t))).
  Proof.
    intros Hwf Hy Ht. pose proof (dense_is_of G R HG HO x t Hwf Ht) as D.
    pose proof (to_dense_nonempty G R x t Ht) as Hne.
    set (m := StructProofs.removes G R x axes).
    pose proof (StructProofs.removes_length G R x axes) as Hlm. fold m in Hlm.
    assert (Hiy : indices G R y = StructProofs.mask_keep m (indices G R x)).
    { pose proof Hy as Hy'. rewrite StructProofs.a_squeeze_unfold in Hy'.
      destruct (negb _); [discriminate Hy'|]. cbv zeta in Hy'. inversion Hy' as [Ey]. cbn [indices].
      apply (StructProofs.take_axes_mask dix). exact Hlm. }
    assert (Hsh : tshape t = map (size_total G) (indices G R x)) by apply (di_shape _ _ _ _ D).
    assert (Hones : forall i, i < length m -> nth i m false = true -> nth i (tshape t) 0 = 1).
    { intros i Hi Hm. rewrite Hlm in Hi. rewrite Hsh.
      rewrite (StructProofs.map_nth_lt (size_total G) (indices G R x) dix 0 i Hi).
      apply (squeezed_sizes x y axes Hwf Hy i Hi Hm). }
    assert (Hlsh : length m = length (tshape t)) by (rewrite Hsh, map_length; exact Hlm).
    assert (Hshy : map (size_total G) (indices G R y) = StructProofs.mask_keep m (tshape t)).
    { rewrite Hiy, Hsh. apply StructProofs.mask_keep_map. }
    apply (dense_intro G R HG HO).
    - apply (WfProofs.squeeze_wf G HG R x y axes Hwf Hy).
    - rewrite Hiy. apply Forall_mask_keep. exact Hne.
    - cbn [treshape tshape]. symmetry. exact Hshy.
    - cbn [treshape tshape tdata].
      destruct (StructProofs.offset_mask m (tshape t) (repeat 0 (length (tshape t))) Hlsh) as [E _].
      + rewrite repeat_length. reflexivity.
      + intros i Hi Hm. split; [apply Hones; assumption | apply nth_repeat].
      + rewrite E. apply (di_len _ _ _ _ D).
    - intros pos' Hpos'. rewrite Hshy in Hpos'.
      destruct (unmask_spec m (tshape t) pos' Hlsh Hones Hpos') as [E1 [E2 E3]].
      set (pos := unmask m pos') in *.
      assert (Hlp : length (tshape t) = length pos) by (apply cd_inb_length in E2; symmetry; exact E2).
      destruct (StructProofs.offset_mask m (tshape t) pos Hlsh Hlp) as [_ Eo].
      { intros i Hi Hm. split; [apply Hones | apply E3]; assumption. }
      unfold get at 1. cbn [treshape tshape tdata]. rewrite <- E1 at 1. rewrite Eo.
      change (nth (offset (tshape t) pos) (tdata t) (r0 R)) with (get R t pos).
      rewrite Hsh in E2. rewrite (di_get _ _ _ _ D _ E2).
      destruct (StructProofs.squeeze_sem G HG R x axes y _ Hwf (di_ok _ _ _ _ D _ E2) Hy) as [Hs _].
      fold m in Hs. rewrite <- Hs. f_equal.
      rewrite Hiy, <- E1. rewrite !coords_of_zipw. symmetry. apply zipw_mask_keep.
      rewrite <- Hlp, Hsh, map_length. reflexivity.
  Qed.
End DenseSqueeze.

(* ================================================================== *)
(* Part I: single-array einsum "lhs->rhs" (traces + permutation) on the dense forms *)
Section DenseEinsum.
  Context (G : Symmetry) (R : Ring) (HG : GroupLaws G) (HO : OrderLaws G) (RL : Tdot.SumLaws R).
  Notation dco := (ident G, 0).
  Notation dix := (dflt_index G).
  Notation arr := (aarray G R).
  Notation keq := (list_eqb (ceqb G)).
  Import TraceEinsumProofs.

  Section Main.
    Context (x y : arr) (lhs rhs : list nat) (t : tensor R).
    Context (Hy : a_einsum G R x lhs rhs = Some y).
    Context (Hwf : wf_array G R x = true).
    Context (Hlab : labels_ok lhs rhs = true).
    (* the two positions of every summed label carry the same table *)
    Context (Htab : traced_tables_ok G (indices G R x) lhs rhs = true).
    Context (Ht : to_dense G R x = Some t).

    Let ixs := indices G R x.
    Let traced := traced_of lhs rhs.
    Let first (q : nat) : index G := nth (index_of q lhs) ixs dix.
    Let iy := map first rhs.
    Let cixs := map first traced.
    Let D : dense_is G R x t := dense_is_of G R HG HO x t Hwf Ht.

    Lemma es_len : length lhs = length ixs.
    Proof. destruct (einsum_some G R x lhs rhs y Hy) as [H _]. exact H. Qed.
    Lemma es_two q : In q traced -> count_nat q lhs = 2.
    Proof. destruct (einsum_some G R x lhs rhs y Hy) as [_ [H _]]. apply H. Qed.
    Lemma es_y : y = mkA G R iy (charge G R x) (einsum_blocks G R x lhs rhs).
    Proof. destruct (einsum_some G R x lhs rhs y Hy) as [_ [_ H]]. exact H. Qed.
    Lemma es_nd : NoDup rhs.
    Proof. apply (labels_ok_spec lhs rhs Hlab). Qed.
    Lemma es_one q : In q rhs -> count_nat q lhs = 1.
    Proof. apply (labels_ok_spec lhs rhs Hlab). Qed.

    Lemma es_iy_take : iy = take_axes dix ixs (eperm lhs rhs).
    Proof. unfold iy, first, take_axes, eperm. rewrite map_map. reflexivity. Qed.
    Lemma es_cixs_take : cixs = take_axes dix ixs (etperm lhs rhs).
    Proof. unfold cixs, first, take_axes, etperm. rewrite map_map. reflexivity. Qed.

    Lemma es_first_lt q : In q lhs -> index_of q lhs < length ixs.
    Proof. intros H. rewrite <- es_len. apply (index_of_In q lhs H). Qed.

    Lemma es_first_in q : In q lhs -> In (first q) ixs.
    Proof. intros H. unfold first. apply nth_In. apply es_first_lt. exact H. Qed.

    Lemma es_iy_sub ix : In ix iy -> In ix ixs.
    Proof.
      unfold iy. intros H. apply in_map_iff in H. destruct H as [q [<- Hq]].
      apply es_first_in. apply (kept_in_lhs lhs rhs es_one q Hq).
    Qed.
    Lemma es_cixs_sub ix : In ix cixs -> In ix ixs.
    Proof.
      unfold cixs. intros H. apply in_map_iff in H. destruct H as [q [<- Hq]].
      apply es_first_in. apply (traced_of_In lhs rhs q). exact Hq.
    Qed.

    Lemma es_iy_good : Forall (cd_ix_good G) iy.
    Proof.
      pose proof (wf_ix_good G R HO x Hwf (to_dense_nonempty G R x t Ht)) as Gx. rewrite Forall_forall in Gx |- *.
      intros ix Hin. apply Gx. apply es_iy_sub. exact Hin.
    Qed.

    Lemma es_blocks_shaped : Forall (blk_shaped G R iy) (einsum_blocks G R x lhs rhs).
    Proof.
      unfold einsum_blocks. rewrite (fold_cond_acc G R). apply (acc_add_shaped G R HG); [|constructor].
      apply Forall_forall. intros p Hin. apply in_map_iff in Hin. destruct Hin as [sb [<- Hin]].
      apply filter_In in Hin. destruct Hin as [Hin _]. split; cbn [fst snd].
      - rewrite es_iy_take.
        apply (einsum_block_shape G R x lhs rhs [] (Tdot.wf_blocks_ok G R (ceqb_eq G HG) x Hwf) es_len es_one es_two sb Hin).
      - unfold teinsum. cbv zeta. apply length_build.
    Qed.

    Lemma es_to_dense_y : to_dense G R y = Some (dense_go G R iy (blocks G R y) iy 0 []).
    Proof.
      rewrite es_y. unfold to_dense. cbn [indices blocks].
      destruct (existsb (fun ix => is_nil (chargemap G ix)) iy) eqn:E; [|reflexivity].
      exfalso. apply existsb_exists in E. destruct E as [ix [Hin Hnil]].
      pose proof es_iy_good as Hg. rewrite Forall_forall in Hg. destruct (Hg ix Hin) as [_ [_ Hne]].
      apply Hne. destruct (chargemap G ix); [reflexivity | discriminate Hnil].
    Qed.

    (* every position of lhs carries the table of the FIRST position of its label *)
    Lemma es_same_table i : i < length lhs ->
      chargemap G (nth i ixs dix) = chargemap G (first (nth i lhs 0)).
    Proof.
      intros Hi. set (q := nth i lhs 0).
      assert (Hql : In q lhs) by (apply nth_In; exact Hi).
      assert (Hip : In i (positions q lhs)) by (apply positions_spec; split; [exact Hi | reflexivity]).
      pose proof (index_of_positions q lhs Hql) as Hfp.
      destruct (mem Nat.eqb q rhs) eqn:E.
      - apply (Tdot.memN_In q rhs) in E.
        rewrite (positions_one q lhs i (index_of q lhs) (es_one q E) Hip Hfp). reflexivity.
      - assert (Hqt : In q traced).
        { apply traced_of_In. split; [exact Hql|]. intros Hin. apply (Tdot.memN_In q rhs) in Hin. congruence. }
        unfold traced_tables_ok in Htab. rewrite forallb_forall in Htab. specialize (Htab q Hqt).
        rewrite forallb_forall in Htab. specialize (Htab i Hip).
        rewrite forallb_forall in Htab. specialize (Htab _ Hfp).
        apply (Tdot.list_eqb_spec _ (pair_eqb_spec G (ceqb_eq G HG))) in Htab. exact Htab.
    Qed.

    Lemma es_nth_iy q : In q rhs -> nth (index_of q rhs) iy dix = first q.
    Proof. intros H. unfold iy. apply (Tdot.nth_index_of_map dix first rhs q H). Qed.
    Lemma es_nth_cixs q : In q traced -> nth (index_of q traced) cixs dix = first q.
    Proof. intros H. unfold cixs. apply (Tdot.nth_index_of_map dix first traced q H). Qed.

    Lemma nth_coords_of (l : list (index G)) pos i : length pos = length l ->
      nth i (coords_of G l pos) dco = coord_at G (nth i l dix) (nth i pos 0).
    Proof.
      intros H. rewrite coords_of_zipw. apply (zipw_nth (coord_at G) l pos dix 0 i). symmetry. exact H.
    Qed.

    Section Pos.
      Context (o k : list nat).
      Context (Ho : inb (map (size_total G) iy) o = true) (Hk : inb (map (size_total G) cixs) k = true).

      Lemma es_lo : length o = length rhs.
      Proof. apply cd_inb_length in Ho. rewrite Ho, map_length. unfold iy. apply map_length. Qed.
      Lemma es_lk : length k = length traced.
      Proof. apply cd_inb_length in Hk. rewrite Hk, map_length. unfold cixs. apply map_length. Qed.

      (* the label of position i is kept or summed *)
      Lemma es_case i : i < length lhs ->
        (In (nth i lhs 0) rhs /\ mem Nat.eqb (nth i lhs 0) rhs = true) \/
        (In (nth i lhs 0) traced /\ mem Nat.eqb (nth i lhs 0) rhs = false).
      Proof.
        intros Hi. destruct (mem Nat.eqb (nth i lhs 0) rhs) eqn:E.
        - left. split; [apply (Tdot.memN_In _ rhs); exact E | reflexivity].
        - right. split; [|reflexivity]. apply traced_of_In. split; [apply nth_In; exact Hi|].
          intros Hin. apply (Tdot.memN_In _ rhs) in Hin. congruence.
      Qed.

      Lemma es_place_inb : inb (map (size_total G) ixs) (place 0 lhs rhs o k) = true.
      Proof.
        apply inb_iff. rewrite length_place, map_length. split; [exact es_len|].
        intros i Hi. rewrite <- es_len in Hi.
        rewrite (StructProofs.map_nth_lt (size_total G) ixs dix 0 i) by (rewrite <- es_len; exact Hi).
        rewrite (size_total_chargemap G _ _ (es_same_table i Hi)).
        rewrite (nth_place 0 lhs rhs o k i Hi). cbv zeta.
        destruct (es_case i Hi) as [[Hq E]|[Hq E]]; rewrite E.
        - apply inb_iff in Ho. destruct Ho as [_ Hn].
          pose proof (index_of_In _ rhs Hq) as [Hj _].
          specialize (Hn (index_of (nth i lhs 0) rhs)). rewrite map_length in Hn. unfold iy in Hn at 1.
          rewrite map_length in Hn. specialize (Hn Hj).
          rewrite (StructProofs.map_nth_lt (size_total G) iy dix 0) in Hn by (unfold iy; rewrite map_length; exact Hj).
          rewrite (es_nth_iy _ Hq) in Hn. exact Hn.
        - apply inb_iff in Hk. destruct Hk as [_ Hn].
          pose proof (index_of_In _ traced Hq) as [Hj _].
          specialize (Hn (index_of (nth i lhs 0) traced)). rewrite map_length in Hn. unfold cixs in Hn at 1.
          rewrite map_length in Hn. specialize (Hn Hj).
          rewrite (StructProofs.map_nth_lt (size_total G) cixs dix 0) in Hn by (unfold cixs; rewrite map_length; exact Hj).
          rewrite (es_nth_cixs _ Hq) in Hn. exact Hn.
      Qed.

      Lemma es_place_coords :
        coords_of G ixs (place 0 lhs rhs o k) = place dco lhs rhs (coords_of G iy o) (coords_of G cixs k).
      Proof.
        assert (Hl1 : length (coords_of G ixs (place 0 lhs rhs o k)) = length lhs).
        { rewrite coords_of_length; [symmetry; exact es_len | rewrite length_place; exact es_len]. }
        apply (nth_ext _ _ dco dco); [etransitivity; [exact Hl1 | symmetry; apply length_place]|].
        intros i Hi0. assert (Hi : i < length lhs) by (exact (eq_ind _ (fun n => i < n) Hi0 _ Hl1)).
        etransitivity; [apply (nth_coords_of ixs (place 0 lhs rhs o k) i); rewrite length_place; exact es_len|].
        rewrite (coord_at_chargemap G _ _ _ (es_same_table i Hi)).
        rewrite (nth_place 0 lhs rhs o k i Hi). symmetry.
        etransitivity; [apply (nth_place dco lhs rhs _ _ i Hi)|]. cbv zeta.
        destruct (es_case i Hi) as [[Hq E]|[Hq E]]; rewrite E.
        - etransitivity; [apply (nth_coords_of iy o); unfold iy; rewrite map_length; exact es_lo|].
          rewrite (es_nth_iy _ Hq). reflexivity.
        - etransitivity; [apply (nth_coords_of cixs k); unfold cixs; rewrite map_length; exact es_lk|].
          change (traced_of lhs rhs) with traced. rewrite (es_nth_cixs _ Hq). reflexivity.
      Qed.
    End Pos.

    Theorem einsum_dense_core : to_dense G R y = Some (teinsum R t lhs rhs).
    Proof.
      rewrite es_to_dense_y. f_equal.
      assert (Hbg : cd_blocks_good G R iy (blocks G R y)).
      { rewrite es_y. cbn [blocks]. intros s b Hin. pose proof es_blocks_shaped as H. rewrite Forall_forall in H.
        apply (H (s, b) Hin). }
      destruct (dense_go_spec G R HG iy (blocks G R y) es_iy_good Hbg) as [Hshape [Hlen Hget]].
      assert (Hsh : tshape (teinsum R t lhs rhs) = map (size_total G) iy).
      { rewrite tshape_teinsum, (di_shape _ _ _ _ D), es_iy_take. apply (take_axes_map (size_total G) dix). }
      apply tensor_ext.
      - rewrite Hshape, Hsh. reflexivity.
      - exact Hlen.
      - unfold teinsum. cbv zeta. apply length_build.
      - intros o Ho. rewrite Hshape in Ho. rewrite (Hget o Ho).
        change (match lookup keq (map fst (coords_of G iy o)) (blocks G R y) with
                | Some b0 => get R b0 (map snd (coords_of G iy o)) | None => r0 R end)
          with (sem G R y (coords_of G iy o)).
        pose proof (wf_nodup_tables G R HO x Hwf) as Ndx. rewrite Forall_forall in Ndx.
        assert (Ndy : Forall (fun ix => NoDup (icharges G ix)) iy).
        { apply Forall_forall. intros ix Hin. apply Ndx. apply es_iy_sub. exact Hin. }
        assert (Hcn : Tdot.charges_nodup G (take_axes dix (indices G R x) (etperm lhs rhs)) = true).
        { unfold Tdot.charges_nodup. apply forallb_forall. intros ix Hin.
          pose proof (wf_tables_nodupb G R HG HO x Hwf) as Hb. unfold StructProofs.tables_nodup in Hb.
          rewrite forallb_forall in Hb. apply Hb. apply es_cixs_sub. rewrite es_cixs_take. exact Hin. }
        destruct (cd_coords_fwd G HG iy Ndy o Ho) as [Hco _].
        assert (Eiy : indices G R y = iy) by (rewrite es_y; reflexivity).
        rewrite (einsum_sem G R RL (ceqb_eq G HG) x lhs rhs y (coords_of G iy o) Hy Hwf Hlab Hcn)
          by (rewrite Eiy; exact Hco).
        rewrite get_teinsum by (rewrite Hsh; exact Ho).
        change (take_axes dix (indices G R x) (etperm lhs rhs)) with (take_axes dix ixs (etperm lhs rhs)).
        rewrite <- es_cixs_take.
        replace (take_axes 0 (tshape t) (etperm lhs rhs)) with (map (size_total G) cixs)
          by (rewrite (di_shape _ _ _ _ D), es_cixs_take; symmetry; apply (take_axes_map (size_total G) dix)).
        f_equal. rewrite <- (coords_of_all_idx G cixs), map_map.
        apply map_ext_in. intros k Hk. apply In_all_idx_inb in Hk.
        rewrite <- (es_place_coords o k Ho Hk).
        symmetry. apply (di_get _ _ _ _ D). apply (es_place_inb o k Ho Hk).
    Qed.
  End Main.
End DenseEinsum.

(* ================================================================== *)
(* Examples: the hypotheses hold on concrete, non-trivial instances, and the two sides agree
   by computation *)
Module ExDense.
  Local Open Scope Z_scope.
  Import StructProofs.

  (* --- C02: a sparse U1 contraction in which pruning happens: the free tables have total
     sizes 4 and 4, the result stores the single sector (1,1), so its own tables keep only
     charge 1 (dense shape [1;1]) while numpy's result has shape [4;4] --- *)
  Definition ia : list (index U1) :=
    [Index U1 [(0, 2%nat); (1, 1%nat); (2, 1%nat)] false None; Index U1 [(0, 1%nat); (1, 2%nat)] true None].
  Definition ib : list (index U1) :=
    [Index U1 [(0, 1%nat); (1, 2%nat)] false None; Index U1 [(-1, 1%nat); (0, 2%nat); (1, 1%nat)] true None].
  Definition xa : aarray U1 ZRing :=
    mkA U1 ZRing ia 0 [([0; 0], @mkT ZRing [2; 1]%nat [5; 7]); ([1; 1], @mkT ZRing [1; 2]%nat [2; 3])].
  Definition xb : aarray U1 ZRing := mkA U1 ZRing ib 0 [([1; 1], @mkT ZRing [2; 1]%nat [11; 13])].
  Definition res : aarray U1 ZRing := tdot_blockwise U1 ZRing xa xb [0%nat] [1%nat] [0%nat] [1%nat].
  Definition tta : tensor ZRing := @mkT ZRing [4; 3]%nat [5; 0; 0; 7; 0; 0; 0; 2; 3; 0; 0; 0].
  Definition ttb : tensor ZRing := @mkT ZRing [3; 4]%nat [0; 0; 0; 0; 0; 0; 0; 11; 0; 0; 0; 13].

  Example ex_tdot_hyps :
    wf_array U1 ZRing xa = true /\ wf_array U1 ZRing xb = true /\
    Tdot.axes_ok (ndim U1 ZRing xa) [1%nat] = true /\ Tdot.axes_ok (ndim U1 ZRing xb) [0%nat] = true /\
    [0%nat] = rest_axes (ndim U1 ZRing xa) [1%nat] /\ [1%nat] = rest_axes (ndim U1 ZRing xb) [0%nat] /\
    legs_match U1 ZRing xa xb [1%nat] [0%nat] /\
    (forall k, (k < length [1%nat])%nat ->
       idual U1 (nth (nth k [1%nat] 0%nat) (indices U1 ZRing xa) (dflt_index U1))
       = negb (idual U1 (nth (nth k [0%nat] 0%nat) (indices U1 ZRing xb) (dflt_index U1)))) /\
    to_dense U1 ZRing xa = Some tta /\ to_dense U1 ZRing xb = Some ttb /\
    blocks U1 ZRing res <> [] /\
    (* pruning happened *)
    map (chargemap U1) (indices U1 ZRing res) = [[(1, 1%nat)]; [(1, 1%nat)]] /\
    map (size_total U1) (free_tables U1 ZRing xa xb [1%nat] [0%nat]) = [4%nat; 4%nat].
  Proof.
    repeat split; try (vm_compute; reflexivity).
    - intros k Hk. cbn [length] in Hk. assert (k = 0%nat) by lia. subst k. reflexivity.
    - intros H. vm_compute in H. discriminate H.
  Qed.

  Example ex_tdot_dense :
    to_dense U1 ZRing (a_reindex U1 ZRing res (free_tables U1 ZRing xa xb [1%nat] [0%nat]))
    = Some (ttensordot ZRing tta ttb [1%nat] [0%nat])
    /\ ttensordot ZRing tta ttb [1%nat] [0%nat]
       = @mkT ZRing [4; 4]%nat [0; 0; 0; 0; 0; 0; 0; 0; 0; 0; 0; 61; 0; 0; 0; 0]
    /\ to_dense U1 ZRing res = Some (@mkT ZRing [1; 1]%nat [61])
    /\ pos_of U1 (free_tables U1 ZRing xa xb [1%nat] [0%nat]) (coords_of U1 (indices U1 ZRing res) [0%nat; 0%nat])
       = [2%nat; 3%nat].
  Proof. repeat split; vm_compute; reflexivity. Qed.

  (* the theorem, instantiated *)
  Example ex_tdot_inst :
    to_dense U1 ZRing (a_reindex U1 ZRing res (free_tables U1 ZRing xa xb [1%nat] [0%nat]))
    = Some (ttensordot ZRing tta ttb [1%nat] [0%nat]).
  Proof.
    destruct ex_tdot_hyps as (H1 & H2 & H3 & H4 & H5 & H6 & H7 & _ & H9 & H10 & _).
    exact (tensordot_dense U1 ZRing U1_laws U1_order Tdot.ZRing_sum_laws xa xb [0%nat] [1%nat] [0%nat] [1%nat]
             tta ttb H1 H2 H3 H4 eq_refl H5 H6 H7 H9 H10).
  Qed.

  (* --- C02: trace / matmul / scalar on a U1 matrix with a missing diagonal block --- *)
  Definition im : list (index U1) :=
    [Index U1 [(0, 2%nat); (1, 1%nat)] false None; Index U1 [(0, 2%nat); (1, 1%nat)] true None].
  Definition xm : aarray U1 ZRing := mkA U1 ZRing im 0 [([0; 0], @mkT ZRing [2; 2]%nat [1; 2; 3; 4])].
  Example ex_trace_matmul :
    wf_array U1 ZRing xm = true /\
    (exists t, to_dense U1 ZRing xm = Some t /\ a_trace U1 ZRing xm = Some (ttrace ZRing t) /\ ttrace ZRing t = 5 /\
       exists r, a_matmul U1 ZRing xm xm = Some r /\
         to_dense U1 ZRing (a_reindex U1 ZRing r (free_tables U1 ZRing xm xm [1%nat] [0%nat]))
         = Some (ttensordot ZRing t t [1%nat] [0%nat]) /\
         a_scalar U1 ZRing (tdot_blockwise U1 ZRing xm xm [] [0%nat; 1%nat] [1%nat; 0%nat] [])
         = get ZRing (ttensordot ZRing t t [0%nat; 1%nat] [1%nat; 0%nat]) []).
  Proof.
    split; [vm_compute; reflexivity|]. eexists. split; [vm_compute; reflexivity|].
    split; [vm_compute; reflexivity|]. split; [vm_compute; reflexivity|].
    eexists. split; [vm_compute; reflexivity|]. split; vm_compute; reflexivity.
  Qed.

  (* --- C02: einsum "abcb->ca" on the rank-4 U1 example of Proofs/TraceEinsumProofs.v --- *)
  Example ex_einsum_dense :
    wf_array U1 ZRing TraceEinsumProofs.ExEinsum.x = true /\
    TraceEinsumProofs.labels_ok TraceEinsumProofs.ExEinsum.lhs TraceEinsumProofs.ExEinsum.rhs = true /\
    TraceEinsumProofs.traced_tables_ok U1 (indices U1 ZRing TraceEinsumProofs.ExEinsum.x)
      TraceEinsumProofs.ExEinsum.lhs TraceEinsumProofs.ExEinsum.rhs = true /\
    exists y t, a_einsum U1 ZRing TraceEinsumProofs.ExEinsum.x TraceEinsumProofs.ExEinsum.lhs TraceEinsumProofs.ExEinsum.rhs = Some y /\
      to_dense U1 ZRing TraceEinsumProofs.ExEinsum.x = Some t /\
      tshape t = [3; 3; 3; 3]%nat /\
      to_dense U1 ZRing y = Some (teinsum ZRing t TraceEinsumProofs.ExEinsum.lhs TraceEinsumProofs.ExEinsum.rhs).
  Proof.
    split; [vm_compute; reflexivity|]. split; [vm_compute; reflexivity|]. split; [vm_compute; reflexivity|].
    eexists. eexists. split; [vm_compute; reflexivity|]. split; [vm_compute; reflexivity|].
    split; vm_compute; reflexivity.
  Qed.

  (* --- C08: the Z2 / Gaussian-integer examples of Proofs/StructProofs.v (rank 3, x stores two
     sectors, y one of them) --- *)
  Example ex_c08_dense :
    wf_array Z2 GRing ex_x = true /\ wf_array Z2 GRing ex_y = true /\
    indices Z2 GRing ex_x = indices Z2 GRing ex_y /\ charge Z2 GRing ex_x = charge Z2 GRing ex_y /\
    Permutation ex_perm (seq 0 (ndim Z2 GRing ex_x)) /\
    vec_ok Z2 GRing (nth 0%nat (indices Z2 GRing ex_x) (dflt_index Z2)) ex_v /\
    exists tx ty, to_dense Z2 GRing ex_x = Some tx /\ to_dense Z2 GRing ex_y = Some ty /\
      tshape tx = [3; 3; 1]%nat /\
      to_dense Z2 GRing (a_transpose Z2 GRing ex_x ex_perm) = Some (ttranspose GRing tx ex_perm) /\
      to_dense Z2 GRing (a_conj Z2 GRing ex_x) = Some (tconj GRing tx) /\
      to_dense Z2 GRing (a_dagger Z2 GRing ex_x) = Some (ttranspose GRing (tconj GRing tx) (rev_axes 3)) /\
      to_dense Z2 GRing (a_scale Z2 GRing ex_x (2, 1)) = Some (tscale GRing (2, 1) tx) /\
      to_dense Z2 GRing (a_neg Z2 GRing ex_x) = Some (tneg GRing tx) /\
      to_dense Z2 GRing (a_add Z2 GRing ex_x ex_y) = Some (tadd GRing tx ty) /\
      to_dense Z2 GRing (a_mul Z2 GRing ex_x ex_y) = Some (tmul GRing tx ty) /\
      to_dense Z2 GRing (a_multiply_diagonal Z2 GRing ex_x ex_v 0)
      = Some (tmul_diag GRing tx (vec_dense Z2 GRing (nth 0%nat (indices Z2 GRing ex_x) (dflt_index Z2)) ex_v) 0) /\
      to_dense Z2 GRing (a_expand_dims Z2 GRing ex_x 1) = Some (treshape GRing tx (insert_nth (tshape tx) 1 1%nat)) /\
      a_sum Z2 GRing ex_x = tsum GRing tx /\ a_norm2 Z2 GRing ex_x = tnorm2 GRing tx.
  Proof.
    split; [vm_compute; reflexivity|]. split; [vm_compute; reflexivity|].
    split; [reflexivity|]. split; [reflexivity|]. split; [exact ex_perm_ok|].
    split.
    { intros c d b Hin Hl. vm_compute in Hin. destruct Hin as [Hin|[Hin|[]]]; inversion Hin; subst c d;
        vm_compute in Hl; inversion Hl; subst b; split; reflexivity. }
    eexists. eexists. split; [vm_compute; reflexivity|]. split; [vm_compute; reflexivity|].
    repeat split; vm_compute; reflexivity.
  Qed.

  (* ex_z stores the same sectors as ex_x, in the other order: strict subtraction is defined *)
  Example ex_c08_sub :
    exists z tx tz, a_sub Z2 GRing ex_x ex_z = Some z /\
      to_dense Z2 GRing ex_x = Some tx /\ to_dense Z2 GRing ex_z = Some tz /\
      to_dense Z2 GRing z = Some (tsub GRing tx tz).
  Proof.
    eexists. eexists. eexists. split; [vm_compute; reflexivity|].
    split; [vm_compute; reflexivity|]. split; vm_compute; reflexivity.
  Qed.
End ExDense.
