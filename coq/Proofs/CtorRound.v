(* Proofs/CtorRound.v — property C16: the two round trips between the dense and the
   block-sparse form (from_dense / to_dense of Model/Ctor.v).

   The bridge theorem `to_dense_sem` (Proofs/CtorDense.v) enters ONLY as an explicit premise
   `to_dense_sem_stmt G R` of the two main theorems (plain implications, to be composed with
   that theorem):
     to_dense_from_dense_of : to_dense_sem_stmt G R -> to_dense_from_dense_stmt G R
     from_dense_to_dense_of : to_dense_sem_stmt G R -> from_dense_to_dense_stmt G R
   Premise-free stand-alone results: the facts about group_positions (gp_NoDup, gp_keys,
   gp_In, gp_SS, gp_nonempty), the rebuilt axis index (axis_wf, axis_size_of, gp_size_total,
   axis_sp_stable = the stable sort of the positions by label), the value of from_dense
   (from_dense_eq, fd_array_wf, fd_secs_In, fd_duals, fd_lookup), and for an index of a wf
   array: the groups of its labels are the consecutive ranges of its table (rt_positions)
   and the rebuilt table is the table (rt_chargemap). *)
From SV Require Import Base.Prelude Base.Sym Base.Tensor Model.Sectors Model.Array Model.Arith
  Model.Wf Model.Fermi Model.Ctor Model.SymInst Proofs.SymLaws Proofs.TensorProofs
  Proofs.SectorsProofs Proofs.GroupFacts Proofs.StructProofs Proofs.OrderProofs Proofs.CtorSpec.
From Coq Require Import Permutation Sorting Lia.
Local Open Scope nat_scope.

(* ------------------------------------------------------------------ *)
(* generic list facts *)

Lemma cr_map_fst_combine {A B} (a : list A) (b : list B) :
  length a = length b -> map fst (List.combine a b) = a.
Proof.
  revert b. induction a as [|x a IH]; intros [|y b] H; cbn [length] in H; try discriminate H;
    cbn [List.combine map fst]; [reflexivity|]. f_equal. apply IH. lia.
Qed.

Lemma cr_map_snd_combine {A B} (a : list A) (b : list B) :
  length a = length b -> map snd (List.combine a b) = b.
Proof.
  revert b. induction a as [|x a IH]; intros [|y b] H; cbn [length] in H; try discriminate H;
    cbn [List.combine map snd]; [reflexivity|]. f_equal. apply IH. lia.
Qed.

Lemma cr_in_combine_seq {A} (l : list A) s i x :
  In (i, x) (List.combine (seq s (length l)) l) <-> s <= i /\ nth_error l (i - s) = Some x.
Proof.
  revert s. induction l as [|y l IH]; intros s; cbn [length seq List.combine In].
  - split; [intros [] | intros [_ H]]. destruct (i - s); discriminate H.
  - rewrite IH. split.
    + intros [H | [H1 H2]].
      * inversion H; subst. split; [lia|]. rewrite Nat.sub_diag. reflexivity.
      * split; [lia|]. replace (i - s) with (S (i - S s)) by lia. exact H2.
    + intros [H1 H2]. destruct (Nat.eq_dec i s) as [->|Hne].
      * left. rewrite Nat.sub_diag in H2. cbn [nth_error] in H2. inversion H2. reflexivity.
      * right. split; [lia|]. replace (i - s) with (S (i - S s)) in H2 by lia. exact H2.
Qed.

Lemma cr_in_enumerate {A} (l : list A) i x (d : A) :
  In (i, x) (enumerate l) <-> i < length l /\ nth i l d = x.
Proof.
  unfold enumerate. rewrite cr_in_combine_seq. rewrite Nat.sub_0_r. split.
  - intros [_ H]. split; [apply nth_error_Some; rewrite H; discriminate|].
    apply nth_error_nth. exact H.
  - intros [H1 H2]. split; [lia|]. rewrite <- H2. apply nth_error_nth'. exact H1.
Qed.

Lemma cr_SS_seq s n : StronglySorted lt (seq s n).
Proof.
  revert s. induction n as [|n IH]; intros s; cbn [seq]; constructor; [apply IH|].
  apply Forall_forall. intros x Hx. apply in_seq in Hx. lia.
Qed.

Lemma cr_SS_app {A} (Rel : A -> A -> Prop) l1 l2 :
  StronglySorted Rel l1 -> StronglySorted Rel l2 ->
  (forall a b, In a l1 -> In b l2 -> Rel a b) -> StronglySorted Rel (l1 ++ l2).
Proof.
  intros H1 H2 H12. induction H1 as [|x l1 H1 IH HF]; cbn [app]; [exact H2|].
  constructor.
  - apply IH. intros a b Ha Hb. apply H12; [right; exact Ha | exact Hb].
  - apply Forall_forall. intros y Hy. apply in_app_or in Hy. destruct Hy as [Hy|Hy].
    + rewrite Forall_forall in HF. apply HF. exact Hy.
    + apply H12; [left; reflexivity | exact Hy].
Qed.

Lemma cr_SS_nth {A} (Rel : A -> A -> Prop) (l : list A) (d : A) :
  StronglySorted Rel l -> forall i j, i < j -> j < length l -> Rel (nth i l d) (nth j l d).
Proof.
  intros HS. induction HS as [|x l HS IH HF]; intros i j Hij Hj; cbn [length] in Hj; [lia|].
  destruct j as [|j]; [lia|]. destruct i as [|i]; cbn [nth].
  - rewrite Forall_forall in HF. apply HF. apply nth_In. lia.
  - apply IH; lia.
Qed.

(* ------------------------------------------------------------------ *)
(* (a) group_positions: positions grouped by label *)

Section Groups.
  Context (G : Symmetry) (HG : GroupLaws G).
  Notation Ch := (C G).
  Notation ceq_spec := (ceqb_spec G HG).

  Definition pos_spec (ps : list (nat * Ch)) (c : Ch) : list nat :=
    map fst (filter (fun p => ceqb G (snd p) c) ps).

  Lemma pos_spec_app ps1 ps2 c : pos_spec (ps1 ++ ps2) c = pos_spec ps1 c ++ pos_spec ps2 c.
  Proof. unfold pos_spec. rewrite filter_app, map_app. reflexivity. Qed.

  (* the invariant of the fold: after the enumerated prefix `ps` *)
  Definition ginv (g : list (Ch * list nat)) (ps : list (nat * Ch)) : Prop :=
    NoDup (map fst g)
    /\ (forall c, positions_of G g c = pos_spec ps c)
    /\ (forall c, In c (map fst g) <-> In c (map snd ps)).

  Lemma group_add_dset g p :
    group_add G g p = dset (ceqb G) (snd p) (positions_of G g (snd p) ++ [fst p]) g.
  Proof.
    unfold group_add, positions_of. destruct (lookup (ceqb G) (snd p) g) as [l|] eqn:E; [reflexivity|].
    cbn [app]. symmetry. apply (keys_dset_notin (ceqb G) ceq_spec).
    apply (lookup_None_iff (ceqb G) ceq_spec). exact E.
  Qed.

  Lemma keys_dset_iff {V} k (v : V) d c :
    In c (map fst (dset (ceqb G) k v d)) <-> In c (map fst d) \/ c = k.
  Proof.
    destruct (mem (ceqb G) k (map fst d)) eqn:E.
    - apply (mem_In (ceqb G) ceq_spec) in E. rewrite (keys_dset_in (ceqb G) ceq_spec k v d E).
      split; [intros H; left; exact H | intros [H|H]; [exact H | subst c; exact E]].
    - assert (Hni : ~ In k (map fst d)).
      { intros Hi. apply (mem_In (ceqb G) ceq_spec) in Hi. rewrite Hi in E. discriminate E. }
      rewrite (keys_dset_notin (ceqb G) ceq_spec k v d Hni), map_app, in_app_iff. cbn [map fst In].
      split; [intros [H|[H|[]]]; [left; exact H | right; symmetry; exact H]
             | intros [H|H]; [left; exact H | right; left; symmetry; exact H]].
  Qed.

  Lemma ginv_step g ps p : ginv g ps -> ginv (group_add G g p) (ps ++ [p]).
  Proof.
    intros [Hnd [Hpos Hkeys]]. rewrite group_add_dset. split; [|split].
    - apply (dset_keys_NoDup (ceqb G) ceq_spec). exact Hnd.
    - intros c. unfold positions_of at 1. rewrite (lookup_dset (ceqb G) ceq_spec).
      rewrite pos_spec_app. unfold pos_spec at 2. cbn [filter].
      destruct (ceqb G c (snd p)) eqn:E.
      + apply (ceqb_eq G HG) in E. subst c. rewrite (ceqb_refl G HG). cbn [map fst].
        rewrite Hpos. reflexivity.
      + rewrite (ceqb_sym G HG), E. cbn [map]. rewrite app_nil_r. apply Hpos.
    - intros c. rewrite keys_dset_iff, map_app, in_app_iff, Hkeys. cbn [map In].
      split; [intros [H|H]; [left; exact H | right; left; symmetry; exact H]
             | intros [H|[H|[]]]; [left; exact H | right; symmetry; exact H]].
  Qed.

  Lemma ginv_fold l : forall g ps, ginv g ps -> ginv (fold_left (group_add G) l g) (ps ++ l).
  Proof.
    induction l as [|p l IH]; intros g ps H; cbn [fold_left].
    - rewrite app_nil_r. exact H.
    - change (p :: l) with ([p] ++ l). rewrite app_assoc. apply IH. apply ginv_step. exact H.
  Qed.

  Lemma ginv_nil : ginv [] [].
  Proof.
    split; [constructor | split]; [intros c; reflexivity | intros c; split; intros []].
  Qed.

  Lemma group_positions_inv labels : ginv (group_positions G labels) (enumerate labels).
  Proof. unfold group_positions. apply (ginv_fold (enumerate labels) [] [] ginv_nil). Qed.

  Lemma gp_NoDup labels : NoDup (map fst (group_positions G labels)).
  Proof. exact (proj1 (group_positions_inv labels)). Qed.

  Lemma gp_keys labels c : In c (map fst (group_positions G labels)) <-> In c labels.
  Proof.
    destruct (group_positions_inv labels) as [_ [_ H]]. rewrite H. unfold enumerate.
    rewrite cr_map_snd_combine by (apply seq_length). reflexivity.
  Qed.

  Lemma gp_positions labels c :
    positions_of G (group_positions G labels) c = pos_spec (enumerate labels) c.
  Proof. destruct (group_positions_inv labels) as [_ [H _]]. apply H. Qed.

  Lemma pos_spec_In labels c i :
    In i (pos_spec (enumerate labels) c) <-> i < length labels /\ nth i labels (ident G) = c.
  Proof.
    unfold pos_spec. rewrite in_map_iff. split.
    - intros [[j x] [Hj Hp]]. cbn [fst] in Hj. subst j. apply filter_In in Hp.
      destruct Hp as [Hp Hc]. cbn [snd] in Hc. apply (ceqb_eq G HG) in Hc. subst x.
      apply (cr_in_enumerate labels i c (ident G)). exact Hp.
    - intros H. exists (i, c). split; [reflexivity|]. apply filter_In. split.
      + apply (cr_in_enumerate labels i c (ident G)). exact H.
      + cbn [snd]. apply (ceqb_refl G HG).
  Qed.

  Lemma gp_In labels c i :
    In i (positions_of G (group_positions G labels) c) <->
    i < length labels /\ nth i labels (ident G) = c.
  Proof. rewrite gp_positions. apply pos_spec_In. Qed.

  Lemma pos_spec_SS labels c : StronglySorted lt (pos_spec (enumerate labels) c).
  Proof.
    unfold pos_spec. apply SS_map_filter. unfold enumerate.
    rewrite cr_map_fst_combine by (apply seq_length). apply cr_SS_seq.
  Qed.

  Lemma gp_SS labels c : StronglySorted lt (positions_of G (group_positions G labels) c).
  Proof. rewrite gp_positions. apply pos_spec_SS. Qed.

  (* every group is non-empty *)
  Lemma gp_nonempty labels c :
    In c (map fst (group_positions G labels)) -> 0 < length (positions_of G (group_positions G labels) c).
  Proof.
    intros H. apply (proj1 (gp_keys labels c)) in H. apply (In_nth _ _ (ident G)) in H. destruct H as [i [Hi Hc]].
    assert (Hin : In i (positions_of G (group_positions G labels) c)). { apply gp_In. split; assumption. }

    destruct (positions_of G (group_positions G labels) c); [destruct Hin | cbn [length]; lia].
  Qed.
End Groups.

(* ------------------------------------------------------------------ *)
(* (b) the index from_dense builds for one axis out of the groups *)

Lemma cr_SS_impl_In {A} (R1 R2 : A -> A -> Prop) l :
  StronglySorted R1 l -> (forall a b, In a l -> In b l -> R1 a b -> R2 a b) -> StronglySorted R2 l.
Proof.
  intros HS. induction HS as [|x l HS IH HF]; intros H; constructor.
  - apply IH. intros a b Ha Hb. apply H; right; assumption.
  - apply Forall_forall. intros y Hy. rewrite Forall_forall in HF.
    apply H; [left; reflexivity | right; exact Hy | apply HF; exact Hy].
Qed.

Lemma cr_SS_irrefl_NoDup {A} (Rel : A -> A -> Prop) l :
  (forall a, ~ Rel a a) -> StronglySorted Rel l -> NoDup l.
Proof.
  intros Hirr HS. induction HS as [|x l HS IH HF]; constructor; [|exact IH].
  intros Hi. rewrite Forall_forall in HF. exact (Hirr x (HF x Hi)).
Qed.

Section Axis.
  Context (G : Symmetry) (HG : GroupLaws G) (HO : OrderLaws G).
  Notation Ch := (C G).
  Notation ceq_spec := (ceqb_spec G HG).

  Definition grp_table (g : list (Ch * list nat)) : list (Ch * nat) :=
    map (fun e => (fst e, length (snd e))) g.
  Definition axis_ix (g : list (Ch * list nat)) (dl : bool) : index G :=
    mk_index G (grp_table g) dl None.
  (* the dense positions of the rebuilt axis, in dense order: the groups in sorted-charge order *)
  Definition axis_sp (g : list (Ch * list nat)) : list nat :=
    flat_map (fun p => positions_of G g (fst p)) (sort_cm G (grp_table g)).

  Lemma grp_table_keys g : map fst (grp_table g) = map fst g.
  Proof. unfold grp_table. rewrite map_map. apply map_ext. intros a. reflexivity. Qed.

  Lemma sort_cm_perm cm : Permutation (sort_cm G cm) cm.
  Proof. unfold sort_cm. apply isort_perm. Qed.

  Lemma sort_cm_SS cm : NoDup (map fst cm) -> StronglySorted (ltP (cltb G)) (map fst (sort_cm G cm)).
  Proof. intros H. unfold sort_cm. exact (isort_sorted fst (cltb G) cm HO H). Qed.

  Lemma axis_keys_perm g : Permutation (map fst (sort_cm G (grp_table g))) (map fst g).
  Proof. rewrite <- grp_table_keys. apply Permutation_map. apply sort_cm_perm. Qed.

  Lemma axis_keys_NoDup g : NoDup (map fst g) -> NoDup (map fst (sort_cm G (grp_table g))).
  Proof.
    intros H. eapply Permutation_NoDup; [apply Permutation_sym; apply axis_keys_perm | exact H].
  Qed.

  Lemma axis_chargemap g dl : chargemap G (axis_ix g dl) = sort_cm G (grp_table g).
  Proof. reflexivity. Qed.
  Lemma axis_idual g dl : idual G (axis_ix g dl) = dl.
  Proof. reflexivity. Qed.
  Lemma axis_isub g dl : isub G (axis_ix g dl) = None.
  Proof. reflexivity. Qed.

  Lemma axis_icharges_In g dl c : In c (icharges G (axis_ix g dl)) <-> In c (map fst g).
  Proof.
    unfold icharges. rewrite axis_chargemap. split; intros H.
    - eapply Permutation_in; [apply axis_keys_perm | exact H].
    - eapply Permutation_in; [apply Permutation_sym; apply axis_keys_perm | exact H].
  Qed.

  Lemma axis_size_of g dl c : NoDup (map fst g) ->
    size_of G (axis_ix g dl) c = length (positions_of G g c).
  Proof.
    intros Hnd. unfold size_of. rewrite axis_chargemap. unfold positions_of.
    rewrite (lookup_perm (ceqb G) ceq_spec c _ _ (axis_keys_NoDup g Hnd) (sort_cm_perm _)).
    unfold grp_table. rewrite (lookup_map_val (ceqb G)).
    destruct (lookup (ceqb G) c g); reflexivity.
  Qed.

  Lemma axis_table_entry g c k : NoDup (map fst g) ->
    In (c, k) (sort_cm G (grp_table g)) -> In c (map fst g) /\ k = length (positions_of G g c).
  Proof.
    intros Hnd Hin. split.
    - apply (axis_icharges_In g false). unfold icharges. rewrite axis_chargemap.
      apply in_map_iff. exists (c, k). split; [reflexivity | exact Hin].
    - rewrite <- (axis_size_of g false c Hnd). unfold size_of. rewrite axis_chargemap.
      rewrite (In_lookup (ceqb G) ceq_spec c k _ (axis_keys_NoDup g Hnd) Hin). reflexivity.
  Qed.

  Lemma axis_table_Forall g : NoDup (map fst g) ->
    Forall (fun p => snd p = length (positions_of G g (fst p))) (sort_cm G (grp_table g)).
  Proof.
    intros Hnd. apply Forall_forall. intros [c k] Hin. cbn [fst snd].
    exact (proj2 (axis_table_entry g c k Hnd Hin)).
  Qed.

  Lemma axis_wf g dl : NoDup (map fst g) ->
    (forall c, In c (map fst g) -> valid G c = true) ->
    (forall c, In c (map fst g) -> 0 < length (positions_of G g c)) ->
    wf_index G (axis_ix g dl) = true.
  Proof.
    intros Hnd Hval Hne. unfold axis_ix, mk_index. cbn [wf_index]. rewrite andb_true_r.
    unfold cm_ok. apply andb_true_iff. split.
    - apply sorted_by_of_SS. apply sort_cm_SS. rewrite grp_table_keys. exact Hnd.
    - apply forallb_forall. intros [c k] Hin. cbn [fst snd].
      destruct (axis_table_entry g c k Hnd Hin) as [Hc Hk]. apply andb_true_iff. split.
      + apply Hval. exact Hc.
      + apply Nat.ltb_lt. rewrite Hk. apply Hne. exact Hc.
  Qed.

  (* coordinates of an index *)
  Lemma in_index_coords (ix : index G) co :
    In co (index_coords G ix) -> exists d, In (fst co, d) (chargemap G ix) /\ snd co < d.
  Proof.
    unfold index_coords. intros H. apply in_flat_map in H. destruct H as [[c d] [Hp H]].
    cbn [fst snd] in H. apply in_map_iff in H. destruct H as [o [<- Ho]]. apply in_seq in Ho.
    exists d. cbn [fst snd]. split; [exact Hp | lia].
  Qed.

  Lemma length_coords_cm (cm : list (Ch * nat)) :
    length (flat_map (fun p : Ch * nat => map (fun o => (fst p, o)) (seq 0 (snd p))) cm) = nsum (map snd cm).
  Proof.
    induction cm as [|[c d] cm IH]; [reflexivity|].
    cbn [flat_map map snd fst]. rewrite app_length, map_length, seq_length, IH. reflexivity.
  Qed.

  Lemma length_index_coords (ix : index G) : length (index_coords G ix) = size_total G ix.
  Proof. unfold index_coords, size_total. apply length_coords_cm. Qed.

  Lemma coords_sp (pf : Ch -> list nat) (cm : list (Ch * nat)) :
    Forall (fun p => snd p = length (pf (fst p))) cm ->
    map (fun co : Ch * nat => nth (snd co) (pf (fst co)) 0)
        (flat_map (fun p => map (fun o => (fst p, o)) (seq 0 (snd p))) cm)
    = flat_map (fun p => pf (fst p)) cm.
  Proof.
    induction 1 as [|[c d] cm Hp HF IH]; cbn [flat_map]; [reflexivity|].
    rewrite map_app, IH. f_equal. cbn [fst snd] in *. rewrite map_map. cbn [fst snd].
    subst d. apply map_nth_seq.
  Qed.

  Lemma axis_coords_sp g dl : NoDup (map fst g) ->
    map (fun co : Ch * nat => nth (snd co) (positions_of G g (fst co)) 0) (index_coords G (axis_ix g dl))
    = axis_sp g.
  Proof.
    intros Hnd. unfold index_coords, axis_sp. rewrite axis_chargemap.
    apply (coords_sp (positions_of G g)). apply axis_table_Forall. exact Hnd.
  Qed.

  Lemma axis_sp_length g dl : NoDup (map fst g) -> length (axis_sp g) = size_total G (axis_ix g dl).
  Proof.
    intros Hnd. rewrite <- (axis_coords_sp g dl Hnd), map_length. apply length_index_coords.
  Qed.

  (* ---- with g = group_positions labels ---- *)
  Definition lab (labels : list Ch) (i : nat) : Ch := nth i labels (ident G).
  Definition srel (labels : list Ch) (a b : nat) : Prop :=
    cltb G (lab labels a) (lab labels b) = true \/ (lab labels a = lab labels b /\ a < b).

  Lemma srel_irrefl labels a : ~ srel labels a a.
  Proof.
    intros [H|[_ H]]; [|lia]. rewrite (st_irrefl _ HO) in H. discriminate H.
  Qed.

  Lemma flat_positions_SS labels ks :
    StronglySorted (ltP (cltb G)) ks ->
    StronglySorted (srel labels) (flat_map (positions_of G (group_positions G labels)) ks).
  Proof.
    intros HS. induction HS as [|c ks HS IH HF]; cbn [flat_map]; [constructor|].
    apply cr_SS_app; [|exact IH|].
    - apply (cr_SS_impl_In lt); [apply (gp_SS G HG)|].
      intros a b Ha Hb Hab. right. apply (gp_In G HG) in Ha, Hb. unfold lab. split; [|exact Hab].
      rewrite (proj2 Ha), (proj2 Hb). reflexivity.
    - intros a b Ha Hb. left. apply (gp_In G HG) in Ha. apply in_flat_map in Hb.
      destruct Hb as [c' [Hc' Hb]]. apply (gp_In G HG) in Hb. unfold lab.
      rewrite (proj2 Ha), (proj2 Hb). rewrite Forall_forall in HF. exact (HF c' Hc').
  Qed.

  Lemma axis_sp_keys g :
    axis_sp g = flat_map (positions_of G g) (map fst (sort_cm G (grp_table g))).
  Proof.
    unfold axis_sp. induction (sort_cm G (grp_table g)) as [|p cm IH]; cbn [flat_map map]; [reflexivity|].
    rewrite IH. reflexivity.
  Qed.

  Lemma axis_sp_SS labels : StronglySorted (srel labels) (axis_sp (group_positions G labels)).
  Proof.
    rewrite axis_sp_keys. apply flat_positions_SS. apply sort_cm_SS. rewrite grp_table_keys.
    apply (gp_NoDup G HG).
  Qed.

  Lemma axis_sp_In labels i : In i (axis_sp (group_positions G labels)) <-> i < length labels.
  Proof.
    rewrite axis_sp_keys, in_flat_map. split.
    - intros [c [_ Hi]]. apply (gp_In G HG) in Hi. exact (proj1 Hi).
    - intros Hi. exists (nth i labels (ident G)). split.
      + eapply Permutation_in; [apply Permutation_sym; apply axis_keys_perm|].
        apply (gp_keys G HG). apply nth_In. exact Hi.
      + apply (gp_In G HG). split; [exact Hi | reflexivity].
  Qed.

  Lemma axis_sp_perm labels :
    Permutation (axis_sp (group_positions G labels)) (seq 0 (length labels)).
  Proof.
    apply NoDup_Permutation.
    - apply (cr_SS_irrefl_NoDup (srel labels)); [apply srel_irrefl | apply axis_sp_SS].
    - apply seq_NoDup.
    - intros i. rewrite axis_sp_In, in_seq. lia.
  Qed.

  Theorem axis_sp_stable labels :
    stable_sorted_positions G labels (axis_sp (group_positions G labels)).
  Proof.
    split; [apply axis_sp_perm|]. intros i j Hij Hj. cbn zeta.
    assert (Hlen : length (axis_sp (group_positions G labels)) = length labels)
      by (rewrite (Permutation_length (axis_sp_perm labels)); apply seq_length).
    pose proof (cr_SS_nth (srel labels) _ 0 (axis_sp_SS labels) i j Hij
                  (eq_ind_r (fun n => j < n) Hj Hlen)) as Hrel.
    unfold srel, lab in Hrel.
    set (a := nth i (axis_sp (group_positions G labels)) 0) in *.
    set (b := nth j (axis_sp (group_positions G labels)) 0) in *.
    destruct Hrel as [Hlt | [Heq Hab]].
    - split.
      + destruct (cltb G (nth b labels (ident G)) (nth a labels (ident G))) eqn:E; [|reflexivity].
        pose proof (st_trans _ HO _ _ _ Hlt E) as Hc. rewrite (st_irrefl _ HO) in Hc. discriminate Hc.
      + intros Heq. rewrite Heq, (st_irrefl _ HO) in Hlt. discriminate Hlt.
    - split; [rewrite Heq; apply (st_irrefl _ HO) | intros _; exact Hab].
  Qed.

  Lemma gp_size_total labels dl :
    size_total G (axis_ix (group_positions G labels) dl) = length labels.
  Proof.
    rewrite <- (axis_sp_length _ dl (gp_NoDup G HG labels)).
    rewrite (Permutation_length (axis_sp_perm labels)). apply seq_length.
  Qed.

  (* the (charge, offset) coordinate of dense position p of the rebuilt axis *)
  Lemma gp_coord_at labels dl p : p < length labels ->
    let g := group_positions G labels in
    let co := coord_at G (axis_ix g dl) p in
    let a := nth p (axis_sp g) 0 in
    In (fst co) (map fst g)
    /\ snd co < length (positions_of G g (fst co))
    /\ nth (snd co) (positions_of G g (fst co)) 0 = a
    /\ nth a labels (ident G) = fst co
    /\ a < length labels.
  Proof.
    intros Hp g co a. pose proof (gp_NoDup G HG labels) as Hnd. fold g in Hnd.
    assert (Hlen : length (index_coords G (axis_ix g dl)) = length labels)
      by (rewrite length_index_coords; apply gp_size_total).
    assert (Hco : In co (index_coords G (axis_ix g dl)))
      by (apply nth_In; rewrite Hlen; exact Hp).
    destruct (in_index_coords _ _ Hco) as [d [Hd Ho]]. rewrite axis_chargemap in Hd.
    destruct (axis_table_entry g _ _ Hnd Hd) as [Hk Hdl]. subst d.
    assert (Ha : nth (snd co) (positions_of G g (fst co)) 0 = a).
    { unfold a. rewrite <- (axis_coords_sp g dl Hnd).
      rewrite (map_nth_lt _ _ (ident G, 0)) by (exact (eq_ind_r (fun n => p < n) Hp Hlen)). reflexivity. }
    assert (Hin : In a (positions_of G g (fst co))) by (rewrite <- Ha; apply nth_In; exact Ho).
    apply (gp_In G HG) in Hin.
    repeat split; [exact Hk | exact Ho | exact Ha | exact (proj2 Hin) | exact (proj1 Hin)].
  Qed.
End Axis.

(* ------------------------------------------------------------------ *)
(* (c) the array from_dense builds *)

Lemma cr_Forall2_In_equiv {A} (ls ls' : list (list A)) :
  Forall2 (fun l l' => forall c, In c l <-> In c l') ls ls' ->
  forall s, Forall2 (fun c m => In c m) s ls <-> Forall2 (fun c m => In c m) s ls'.
Proof.
  induction 1 as [|l l' ls ls' Hl HF IH]; intros s.
  - split; intros H; inversion H; constructor.
  - split; intros H; inversion H as [|c m t ms Hc Ht]; subst; constructor;
      try (apply Hl; exact Hc); apply IH; exact Ht.
Qed.

Lemma cr_Forall2_map_l {A B} (P : B -> A -> Prop) (f : A -> B) (l : list A) :
  (forall a, In a l -> P (f a) a) -> Forall2 P (map f l) l.
Proof.
  induction l as [|a l IH]; intros H; cbn [map]; constructor.
  - apply H. left. reflexivity.
  - apply IH. intros b Hb. apply H. right. exact Hb.
Qed.

Lemma cr_lookup_tab {K V} (ke : K -> K -> bool) (Hke : eqb_spec_on ke) (f : K -> V) k l :
  lookup ke k (map (fun s => (s, f s)) l) = if mem ke k l then Some (f k) else None.
Proof.
  induction l as [|x l IH]; cbn [map lookup mem]; [reflexivity|].
  destruct (ke k x) eqn:E; cbn [orb]; [|exact IH]. apply Hke in E. subst x. reflexivity.
Qed.

Section FromDense.
  Context (G : Symmetry) (HG : GroupLaws G) (HO : OrderLaws G) (R : Ring).
  Notation Ch := (C G).
  Notation keq := (list_eqb (ceqb G)).
  Notation ceq_spec := (ceqb_spec G HG).
  Notation keq_spec := (list_eqb_spec (ceqb G) ceq_spec).

  Definition fd_groups (maps : list (list Ch)) : list (list (Ch * list nat)) :=
    map (group_positions G) maps.
  Definition fd_ixs (groups : list (list (Ch * list nat))) (dls : list bool) : list (index G) :=
    map (fun p => mk_index G (map (fun e => (fst e, length (snd e))) (fst p)) (snd p) None)
        (List.combine groups dls).
  Definition fd_positions (groups : list (list (Ch * list nat))) (s : list Ch) : list (list nat) :=
    map (fun p => positions_of G (fst p) (snd p)) (List.combine groups s).
  Definition fd_secs (groups : list (list (Ch * list nat))) (dls : list bool) (c : Ch) : list (list Ch) :=
    filter (is_valid_sector G dls c) (product (map (fun g : list (Ch * list nat) => map fst g) groups)).
  Definition fd_blocks (d : tensor R) groups dls c : list (list Ch * tensor R) :=
    map (fun s => (s, tselect R d (fd_positions groups s))) (fd_secs groups dls c).
  (* the value of from_dense *)
  Definition fd_array (d : tensor R) (maps : list (list Ch)) (dls : list bool) (q : Ch) : aarray G R :=
    mkA G R (fd_ixs (fd_groups maps) dls) q (fd_blocks d (fd_groups maps) dls q).
  (* the per-axis dense positions of the result *)
  Definition fd_sps (maps : list (list Ch)) : list (list nat) :=
    map (fun m => axis_sp G (group_positions G m)) maps.

  Lemma from_dense_eq d maps dls q :
    length dls = length (tshape d) -> map (@length Ch) maps = tshape d ->
    from_dense G R d maps dls (Some q) = Some (fd_array d maps dls q).
  Proof.
    intros Hd Hm. unfold from_dense. cbn zeta.
    assert (Hl : length maps = length (tshape d)) by (rewrite <- Hm, map_length; reflexivity).
    rewrite Hl, Hd, Nat.eqb_refl, Hm.
    rewrite (proj2 (list_eqb_eq Nat.eqb nat_eqb_iff (tshape d) (tshape d)) eq_refl).
    cbn [andb]. reflexivity.
  Qed.

  Lemma fd_ixs_nil dls : fd_ixs (fd_groups []) dls = [].
  Proof. reflexivity. Qed.
  Lemma fd_ixs_cons m maps dl dls :
    fd_ixs (fd_groups (m :: maps)) (dl :: dls)
    = axis_ix G (group_positions G m) dl :: fd_ixs (fd_groups maps) dls.
  Proof. reflexivity. Qed.
  Lemma fd_positions_nil s : fd_positions (fd_groups []) s = [].
  Proof. reflexivity. Qed.
  Lemma fd_positions_cons m maps c s :
    fd_positions (fd_groups (m :: maps)) (c :: s)
    = positions_of G (group_positions G m) c :: fd_positions (fd_groups maps) s.
  Proof. reflexivity. Qed.

  Lemma fd_ixs_length maps : forall dls, length dls = length maps ->
    length (fd_ixs (fd_groups maps) dls) = length maps.
  Proof.
    intros dls H. unfold fd_ixs, fd_groups. rewrite map_length, combine_length, map_length. lia.
  Qed.

  Lemma fd_duals maps : forall dls, length dls = length maps ->
    map (idual G) (fd_ixs (fd_groups maps) dls) = dls.
  Proof.
    induction maps as [|m maps IH]; intros [|dl dls] H; cbn [length] in H; try discriminate H;
      [reflexivity|].
    rewrite fd_ixs_cons. cbn [map]. rewrite axis_idual. f_equal. apply IH. lia.
  Qed.

  Lemma fd_isub maps : forall dls, Forall (fun ix => isub G ix = None) (fd_ixs (fd_groups maps) dls).
  Proof.
    intros dls. unfold fd_ixs. apply Forall_forall. intros ix H. apply in_map_iff in H.
    destruct H as [p [<- _]]. reflexivity.
  Qed.

  Lemma fd_chargemaps_indep maps : forall dls dls', length dls = length maps -> length dls' = length maps ->
    map (chargemap G) (fd_ixs (fd_groups maps) dls) = map (chargemap G) (fd_ixs (fd_groups maps) dls').
  Proof.
    induction maps as [|m maps IH]; intros [|dl dls] [|dl' dls'] H H'; cbn [length] in H, H';
      try discriminate H; try discriminate H'; [reflexivity|].
    rewrite !fd_ixs_cons. cbn [map]. f_equal. apply IH; lia.
  Qed.

  Definition labels_valid (maps : list (list Ch)) : Prop :=
    Forall (fun m => Forall (fun c => valid G c = true) m) maps.

  Lemma gp_axis_wf m dl : Forall (fun c => valid G c = true) m ->
    wf_index G (axis_ix G (group_positions G m) dl) = true.
  Proof.
    intros Hv. apply (axis_wf G HG HO).
    - apply (gp_NoDup G HG).
    - intros c Hc. apply (proj1 (gp_keys G HG m c)) in Hc. rewrite Forall_forall in Hv. apply Hv. exact Hc.
    - intros c Hc. apply (gp_nonempty G HG). exact Hc.
  Qed.

  Lemma fd_wf_ixs maps : labels_valid maps -> forall dls, length dls = length maps ->
    forallb (wf_index G) (fd_ixs (fd_groups maps) dls) = true.
  Proof.
    induction 1 as [|m maps Hm HF IH]; intros [|dl dls] H; cbn [length] in H; try discriminate H;
      [reflexivity|].
    rewrite fd_ixs_cons. cbn [forallb]. rewrite (gp_axis_wf m dl Hm). cbn [andb]. apply IH. lia.
  Qed.

  Lemma fd_size_totals maps : forall dls, length dls = length maps ->
    map (size_total G) (fd_ixs (fd_groups maps) dls) = map (@length Ch) maps.
  Proof.
    induction maps as [|m maps IH]; intros [|dl dls] H; cbn [length] in H; try discriminate H;
      [reflexivity|].
    rewrite fd_ixs_cons. cbn [map]. rewrite (gp_size_total G HG HO). f_equal. apply IH. lia.
  Qed.

  Lemma fd_tables_nonempty maps dls : length dls = length maps ->
    Forall (fun m => m <> []) maps ->
    Forall (fun ix => chargemap G ix <> []) (fd_ixs (fd_groups maps) dls).
  Proof.
    intros Hl HF. revert dls Hl. induction HF as [|m maps Hm HF IH]; intros [|dl dls] Hl;
      cbn [length] in Hl; try discriminate Hl; [constructor|].
    rewrite fd_ixs_cons. constructor; [|apply IH; lia].
    intros E. apply Hm. pose proof (gp_size_total G HG HO m dl) as Hs.
    unfold size_total in Hs. rewrite E in Hs. cbn in Hs. destruct m; [reflexivity | discriminate Hs].
  Qed.

  Lemma fd_keys_equiv maps :
    Forall2 (fun l l' : list Ch => forall c, In c l <-> In c l')
            (map (fun g : list (Ch * list nat) => map fst g) (fd_groups maps)) maps.
  Proof.
    unfold fd_groups. rewrite map_map.
    apply (cr_Forall2_map_l (fun l l' : list Ch => forall c, In c l <-> In c l')).
    intros m _ c. apply (gp_keys G HG).
  Qed.

  Lemma fd_secs_In maps dls q s :
    In s (fd_secs (fd_groups maps) dls q) <->
    (Forall2 (fun c m => In c m) s maps /\ is_valid_sector G dls q s = true).
  Proof.
    unfold fd_secs. rewrite filter_In, in_product, (cr_Forall2_In_equiv _ _ (fd_keys_equiv maps) s).
    reflexivity.
  Qed.

  Lemma fd_secs_NoDup maps dls q : NoDup (fd_secs (fd_groups maps) dls q).
  Proof.
    unfold fd_secs. apply NoDup_filter. apply NoDup_product. unfold fd_groups.
    apply Forall_forall. intros l Hl. apply in_map_iff in Hl. destruct Hl as [g [<- Hg]].
    apply in_map_iff in Hg. destruct Hg as [m [<- _]]. apply (gp_NoDup G HG).
  Qed.

  Lemma fd_sectors d maps dls q :
    sectors G R (fd_array d maps dls q) = fd_secs (fd_groups maps) dls q.
  Proof.
    unfold sectors, fd_array, fd_blocks. cbn [blocks]. rewrite map_map. cbn [fst]. apply map_id.
  Qed.

  Lemma fd_lookup d maps dls q s :
    lookup keq s (blocks G R (fd_array d maps dls q))
    = if is_valid_sector G dls q s && mem keq s (product (map (fun g : list (Ch * list nat) => map fst g) (fd_groups maps)))
      then Some (tselect R d (fd_positions (fd_groups maps) s)) else None.
  Proof.
    unfold fd_array, fd_blocks. cbn [blocks].
    rewrite (cr_lookup_tab keq keq_spec (fun s => tselect R d (fd_positions (fd_groups maps) s))).
    replace (mem keq s (fd_secs (fd_groups maps) dls q))
      with (is_valid_sector G dls q s && mem keq s (product (map (fun g : list (Ch * list nat) => map fst g) (fd_groups maps))));
      [reflexivity|].
    apply bool_eq_iff. rewrite andb_true_iff, !(mem_In keq keq_spec). unfold fd_secs.
    rewrite filter_In. tauto.
  Qed.

  Lemma fd_block_shape maps : forall dls s, length dls = length maps -> length s = length maps ->
    block_shape G (fd_ixs (fd_groups maps) dls) s = map (@length nat) (fd_positions (fd_groups maps) s).
  Proof.
    induction maps as [|m maps IH]; intros [|dl dls] [|c s] H H'; cbn [length] in H, H';
      try discriminate H; try discriminate H'; [reflexivity|].
    rewrite fd_ixs_cons, fd_positions_cons. unfold block_shape. cbn [List.combine map fst snd].
    rewrite (axis_size_of G HG _ dl c (gp_NoDup G HG m)). f_equal.
    apply (IH dls s); lia.
  Qed.

  Lemma fd_mem_tables maps s : Forall2 (fun c m => In c m) s maps ->
    forall dls, length dls = length maps ->
    forallb (fun p => mem (ceqb G) (snd p) (icharges G (fst p)))
            (List.combine (fd_ixs (fd_groups maps) dls) s) = true.
  Proof.
    induction 1 as [|c m s maps Hc HF IH]; intros [|dl dls] H; cbn [length] in H; try discriminate H;
      [reflexivity|].
    rewrite fd_ixs_cons. cbn [List.combine forallb fst snd]. apply andb_true_iff. split; [|apply IH; lia].
    apply (mem_ceqb_In G HG). apply (axis_icharges_In G). apply (gp_keys G HG). exact Hc.
  Qed.

  (* clauses 1-5 of to_dense_from_dense_stmt need no premise *)
  Theorem fd_array_wf d maps dls q :
    length dls = length maps -> labels_valid maps -> valid G q = true ->
    wf_array G R (fd_array d maps dls q) = true.
  Proof.
    intros Hl Hv Hq. unfold wf_array. rewrite fd_sectors. unfold fd_array at 1 2 3 4 5. cbn [indices charge blocks].
    rewrite (fd_wf_ixs maps Hv dls Hl), Hq.
    rewrite (proj2 (nodupb_NoDup keq keq_spec _) (fd_secs_NoDup maps dls q)). cbn [andb].
    apply forallb_forall. intros [s b] Hin. unfold fd_blocks in Hin. apply in_map_iff in Hin.
    destruct Hin as [s' [E Hs]]. inversion E; subst s' b. clear E. cbn [fst snd].
    apply fd_secs_In in Hs. destruct Hs as [HF Hval].
    assert (Hls : length s = length maps) by (apply (Forall2_len _ _ _ HF)).
    apply andb_true_iff. split; [apply andb_true_iff; split|].
    - unfold sector_ok. rewrite (fd_ixs_length maps dls Hl), (proj2 (Nat.eqb_eq _ _) Hls).
      rewrite (fd_mem_tables maps s HF dls Hl), (fd_duals maps dls Hl), Hval. reflexivity.
    - apply (list_eqb_eq Nat.eqb nat_eqb_iff). unfold tselect. rewrite tshape_build.
      symmetry. apply fd_block_shape; assumption.
    - apply Nat.eqb_eq. unfold tselect, build. cbn [tdata tshape]. rewrite map_length. apply length_all_idx.
  Qed.
End FromDense.

(* ------------------------------------------------------------------ *)
(* (d,e) dense -> blocks -> dense *)

Section RoundOne.
  Context (G : Symmetry) (HG : GroupLaws G) (HO : OrderLaws G) (R : Ring).
  Notation Ch := (C G).
  Notation keq := (list_eqb (ceqb G)).
  Notation ceq_spec := (ceqb_spec G HG).
  Notation keq_spec := (list_eqb_spec (ceqb G) ceq_spec).

  Definition fd_src (maps : list (list Ch)) (pos : list nat) : list nat :=
    map (fun p => nth (snd p) (fst p) 0) (List.combine (fd_sps G maps) pos).
  Definition fd_sec (maps : list (list Ch)) (src : list nat) : list Ch :=
    map (fun p => nth (snd p) (fst p) (ident G)) (List.combine maps src).

  Lemma fd_sps_stable maps : Forall2 (stable_sorted_positions G) maps (fd_sps G maps).
  Proof.
    induction maps as [|m maps IH]; cbn [fd_sps map]; constructor; [|exact IH].
    apply (axis_sp_stable G HG HO).
  Qed.

  Lemma fd_point maps : forall dls pos, length dls = length maps ->
    inb (map (@length Ch) maps) pos = true ->
    map fst (coords_of G (fd_ixs G (fd_groups G maps) dls) pos) = fd_sec maps (fd_src maps pos)
    /\ Forall2 (fun c m => In c m) (fd_sec maps (fd_src maps pos)) maps
    /\ inb (map (@length Ch) maps) (fd_src maps pos) = true
    /\ inb (map (@length nat) (fd_positions G (fd_groups G maps) (fd_sec maps (fd_src maps pos))))
           (map snd (coords_of G (fd_ixs G (fd_groups G maps) dls) pos)) = true
    /\ map (fun p => nth (snd p) (fst p) 0)
           (List.combine (fd_positions G (fd_groups G maps) (fd_sec maps (fd_src maps pos)))
                         (map snd (coords_of G (fd_ixs G (fd_groups G maps) dls) pos)))
       = fd_src maps pos.
  Proof.
    induction maps as [|m maps IH]; intros [|dl dls] [|p pos] Hl Hin; cbn [length] in Hl;
      try discriminate Hl; cbn [map inb] in Hin; try discriminate Hin.
    - repeat split; constructor.
    - apply andb_true_iff in Hin. destruct Hin as [Hp Hin]. apply Nat.ltb_lt in Hp.
      assert (Hl' : length dls = length maps) by lia.
      destruct (IH dls pos Hl' Hin) as [I1 [I2 [I3 [I4 I5]]]].
      pose proof (gp_coord_at G HG HO m dl p Hp) as K. cbn zeta in K.
      destruct K as [K1 [K2 [K3 [K4 K5]]]].
      rewrite fd_ixs_cons.
      change (coords_of G (axis_ix G (group_positions G m) dl :: fd_ixs G (fd_groups G maps) dls) (p :: pos))
        with (coord_at G (axis_ix G (group_positions G m) dl) p
              :: coords_of G (fd_ixs G (fd_groups G maps) dls) pos).
      change (fd_src (m :: maps) (p :: pos))
        with (nth p (axis_sp G (group_positions G m)) 0 :: fd_src maps pos).
      set (a := nth p (axis_sp G (group_positions G m)) 0) in *.
      change (fd_sec (m :: maps) (a :: fd_src maps pos))
        with (nth a m (ident G) :: fd_sec maps (fd_src maps pos)).
      rewrite fd_positions_cons. cbn [map fst snd inb List.combine].
      rewrite K4. repeat split.
      + f_equal. exact I1.
      + constructor; [|exact I2]. apply (gp_keys G HG). exact K1.
      + rewrite (proj2 (Nat.ltb_lt _ _) K5). exact I3.
      + rewrite (proj2 (Nat.ltb_lt _ _) K2). exact I4.
      + f_equal; [exact K3 | exact I5].
  Qed.

  Lemma to_dense_tables (x : aarray G R) t : to_dense G R x = Some t ->
    Forall (fun ix => chargemap G ix <> []) (indices G R x).
  Proof.
    unfold to_dense. destruct (existsb _ _) eqn:E; [discriminate|]. intros _.
    apply Forall_forall. intros ix Hix Hnil.
    assert (Ht : existsb (fun ix => is_nil (chargemap G ix)) (indices G R x) = true).
    { apply existsb_exists. exists ix. split; [exact Hix | rewrite Hnil; reflexivity]. }
    rewrite Ht in E. discriminate E.
  Qed.

  Theorem to_dense_from_dense_sect : to_dense_sem_stmt G R ->
    forall (d : tensor R) (maps : list (list Ch)) (dls : list bool) (q : Ch),
      length dls = length (tshape d) -> map (@length Ch) maps = tshape d ->
      forall t, to_dense G R (fd_array G R d maps dls q) = Some t ->
      labels_valid G maps -> valid G q = true ->
      tshape t = tshape d
      /\ forall pos, inb (tshape d) pos = true ->
           inb (tshape d) (fd_src maps pos) = true
           /\ get R t pos = if is_valid_sector G dls q (fd_sec maps (fd_src maps pos))
                            then get R d (fd_src maps pos) else r0 R.
  Proof.
    intros Hsem d maps dls q Hdl Hmaps t Ht Hv Hq.
    assert (Hl : length dls = length maps) by (rewrite Hdl, <- Hmaps, map_length; reflexivity).
    pose proof (fd_array_wf G HG HO R d maps dls q Hl Hv Hq) as Hwf.
    pose proof (to_dense_tables _ _ Ht) as Hne.
    destruct (Hsem HG HO _ Hwf Hne) as [t' [Ht' [Hsh [_ [Hpos _]]]]].
    rewrite Ht in Ht'. inversion Ht'; subst t'. clear Ht'.
    change (indices G R (fd_array G R d maps dls q)) with (fd_ixs G (fd_groups G maps) dls) in *.
    rewrite (fd_size_totals G HG HO maps dls Hl) in Hsh, Hpos. rewrite Hmaps in Hsh.
    split; [exact Hsh|]. intros pos Hin. rewrite <- Hmaps in Hin |- *.
    destruct (fd_point maps dls pos Hl Hin) as [P1 [P2 [P3 [P4 P5]]]].
    split; [exact P3|].
    destruct (Hpos pos Hin) as [_ [_ Hget]]. rewrite Hget. unfold sem. rewrite P1.
    rewrite (fd_lookup G HG R).
    destruct (is_valid_sector G dls q (fd_sec maps (fd_src maps pos))) eqn:Ev; cbn [andb]; [|reflexivity].
    assert (Hm : mem keq (fd_sec maps (fd_src maps pos))
                   (product (map (fun g : list (Ch * list nat) => map fst g) (fd_groups G maps))) = true).
    { apply (mem_In keq keq_spec). apply in_product.
      apply (cr_Forall2_In_equiv _ _ (fd_keys_equiv G HG maps)). exact P2. }
    rewrite Hm. unfold tselect. rewrite (get_build R) by exact P4. rewrite P5. reflexivity.
  Qed.
End RoundOne.

Theorem to_dense_from_dense_of (G : Symmetry) (R : Ring) :
  to_dense_sem_stmt G R -> to_dense_from_dense_stmt G R.
Proof.
  intros Hsem HG HO d maps dls q Hdl Hmaps Hv Hq.
  assert (Hl : length dls = length maps) by (rewrite Hdl, <- Hmaps, map_length; reflexivity).
  exists (fd_array G R d maps dls q).
  split; [apply from_dense_eq; assumption|].
  split; [apply (fd_array_wf G HG HO); assumption|].
  split; [reflexivity|].
  split; [apply fd_duals; assumption|].
  split; [intros s; rewrite fd_sectors; apply (fd_secs_In G HG)|].
  intros t Ht.
  destruct (to_dense_from_dense_sect G HG HO R Hsem d maps dls q Hdl Hmaps t Ht Hv Hq) as [Hsh Hpos].
  split; [exact Hsh|].
  exists (fd_sps G maps). split; [apply (fd_sps_stable G HG HO)|].
  intros pos Hin. cbn zeta. exact (Hpos pos Hin).
Qed.

(* ------------------------------------------------------------------ *)
(* blocks -> dense -> blocks *)

Lemma cr_combine_app {A B} (a1 a2 : list A) (b1 b2 : list B) : length a1 = length b1 ->
  List.combine (a1 ++ a2) (b1 ++ b2) = List.combine a1 b1 ++ List.combine a2 b2.
Proof.
  revert b1. induction a1 as [|x a1 IH]; intros [|y b1] H; cbn [length] in H; try discriminate H;
    cbn [app List.combine]; [reflexivity|]. f_equal. apply IH. lia.
Qed.

Lemma cr_Forall2_map2 {A B C} (P : B -> C -> Prop) (f : A -> B) (g : A -> C) (l : list A) :
  (forall a, In a l -> P (f a) (g a)) -> Forall2 P (map f l) (map g l).
Proof.
  induction l as [|a l IH]; intros H; cbn [map]; constructor.
  - apply H. left. reflexivity.
  - apply IH. intros b Hb. apply H. right. exact Hb.
Qed.

Lemma cr_keyed_perm_eq {K V} (l1 : list (K * V)) : forall l2,
  map fst l1 = map fst l2 -> NoDup (map fst l1) -> Permutation l1 l2 -> l1 = l2.
Proof.
  induction l1 as [|[k1 v1] l1 IH]; intros [|[k2 v2] l2] Hk Hnd Hp; cbn [map fst] in Hk;
    try discriminate Hk; [reflexivity|].
  injection Hk as Hk1 Hk2. subst k2. cbn [map fst] in Hnd.
  inversion Hnd as [|x0 l0 Hni Hnd']; subst.
  assert (Hv : v1 = v2).
  { assert (Hin : In (k1, v1) ((k1, v2) :: l2))
      by (eapply Permutation_in; [exact Hp | left; reflexivity]).
    destruct Hin as [Hin|Hin]; [inversion Hin; reflexivity|].
    exfalso. apply Hni. rewrite Hk2. apply in_map_iff. exists (k1, v1). split; [reflexivity | exact Hin]. }
  subst v2. f_equal. apply IH; [exact Hk2 | exact Hnd' | eapply Permutation_cons_inv; exact Hp].
Qed.

Section RoundTwo.
  Context (G : Symmetry) (HG : GroupLaws G) (HO : OrderLaws G) (R : Ring).
  Notation Ch := (C G).
  Notation keq := (list_eqb (ceqb G)).
  Notation ceq_spec := (ceqb_spec G HG).
  Notation keq_spec := (list_eqb_spec (ceqb G) ceq_spec).

  (* what wf_index gives about the table of an index *)
  Definition cm_good (cm : list (Ch * nat)) : Prop :=
    StronglySorted (ltP (cltb G)) (map fst cm)
    /\ forall c d, In (c, d) cm -> valid G c = true /\ 0 < d.

  Lemma cm_ok_good cm : cm_ok G cm = true -> cm_good cm.
  Proof.
    unfold cm_ok. intros H. apply andb_true_iff in H. destruct H as [Hs Hf]. split.
    - apply (SS_of_sorted_by (cltb G) _ HO Hs).
    - intros c d Hin. rewrite forallb_forall in Hf. specialize (Hf _ Hin). cbn [fst snd] in Hf.
      apply andb_true_iff in Hf. destruct Hf as [Hv Hd]. apply Nat.ltb_lt in Hd. split; assumption.
  Qed.

  Lemma wf_index_good (ix : index G) : wf_index G ix = true -> cm_good (chargemap G ix).
  Proof.
    destruct ix as [cm dl sub]. cbn [wf_index chargemap]. intros H. apply andb_true_iff in H.
    apply cm_ok_good. exact (proj1 H).
  Qed.

  Lemma cm_good_NoDup cm : cm_good cm -> NoDup (map fst cm).
  Proof. intros [Hs _]. exact (SS_NoDup (cltb G) _ HO Hs). Qed.

  Definition size_in (cm : list (Ch * nat)) (c : Ch) : nat :=
    match lookup (ceqb G) c cm with Some d => d | None => 0 end.
  Definition cm_coords (cm : list (Ch * nat)) : list (Ch * nat) :=
    flat_map (fun p : Ch * nat => map (fun o => (fst p, o)) (seq 0 (snd p))) cm.

  Lemma pos_spec_const c' c : forall (L : list Ch) s, (forall x, In x L -> x = c') ->
    pos_spec G (List.combine (seq s (length L)) L) c = if ceqb G c' c then seq s (length L) else [].
  Proof.
    induction L as [|x L IH]; intros s Hall; cbn [length seq List.combine].
    - unfold pos_spec. cbn [filter map]. destruct (ceqb G c' c); reflexivity.
    - assert (Hx : x = c') by (apply Hall; left; reflexivity). subst x.
      unfold pos_spec. cbn [filter snd]. fold (pos_spec G (List.combine (seq (S s) (length L)) L) c).
      specialize (IH (S s) (fun y Hy => Hall y (or_intror Hy))).
      unfold pos_spec in IH |- *. destruct (ceqb G c' c); cbn [map fst]; rewrite IH; reflexivity.
  Qed.

  Lemma pos_spec_cm c : forall cm s, NoDup (map fst cm) ->
    pos_spec G (List.combine (seq s (length (map fst (cm_coords cm)))) (map fst (cm_coords cm))) c
    = seq (s + base_of G cm c) (size_in cm c).
  Proof.
    induction cm as [|[c' d'] cm IH]; intros s Hnd.
    - cbn. reflexivity.
    - cbn [map fst] in Hnd. inversion Hnd as [|x0 l0 Hni Hnd']; subst.
      unfold cm_coords. cbn [flat_map fst snd]. fold (cm_coords cm).
      rewrite map_app, app_length, seq_app.
      rewrite cr_combine_app by (rewrite seq_length; reflexivity).
      rewrite (pos_spec_app G).
      rewrite (pos_spec_const c' c (map fst (map (fun o : nat => (c', o)) (seq 0 d'))) s).
      2:{ intros x Hx. rewrite map_map in Hx. cbn [fst] in Hx. apply in_map_iff in Hx.
          destruct Hx as [o [Hx _]]. symmetry. exact Hx. }
      rewrite IH by exact Hnd'.
      rewrite !map_length, seq_length.
      unfold size_in. cbn [base_of lookup].
      destruct (ceqb G c c') eqn:E.
      + apply (ceqb_eq G HG) in E. subst c'. rewrite (ceqb_refl G HG).
        assert (Hn : lookup (ceqb G) c cm = None) by (apply (lookup_None_iff (ceqb G) ceq_spec); exact Hni).
        rewrite Hn. cbn [seq]. rewrite app_nil_r, Nat.add_0_r. reflexivity.
      + rewrite (ceqb_sym G HG), E. cbn [app]. rewrite Nat.add_assoc. reflexivity.
  Qed.

  Lemma index_coords_cm (ix : index G) : index_coords G ix = cm_coords (chargemap G ix).
  Proof. reflexivity. Qed.

  (* the groups of the labels of an index are the consecutive ranges of its table *)
  Lemma rt_positions (ix : index G) c : NoDup (icharges G ix) ->
    positions_of G (group_positions G (map fst (index_coords G ix))) c
    = seq (base_of G (chargemap G ix) c) (size_of G ix c).
  Proof.
    intros Hnd. rewrite (gp_positions G HG). unfold enumerate. rewrite index_coords_cm.
    rewrite (pos_spec_cm c (chargemap G ix) 0 Hnd). reflexivity.
  Qed.

  Lemma rt_labels_In (ix : index G) c : cm_good (chargemap G ix) ->
    (In c (map fst (index_coords G ix)) <-> In c (icharges G ix)).
  Proof.
    intros [_ Hpos]. split.
    - intros H. apply in_map_iff in H. destruct H as [co [<- Hco]].
      destruct (in_index_coords G _ _ Hco) as [d [Hd _]]. unfold icharges. apply in_map_iff.
      exists (fst co, d). split; [reflexivity | exact Hd].
    - intros H. unfold icharges in H. apply in_map_iff in H. destruct H as [[c' d] [<- Hd]]. cbn [fst].
      destruct (Hpos _ _ Hd) as [_ Hd0]. apply in_map_iff. exists (c', 0). split; [reflexivity|].
      unfold index_coords. apply in_flat_map. exists (c', d). split; [exact Hd|]. cbn [fst snd].
      apply in_map_iff. exists 0. split; [reflexivity|]. apply in_seq. lia.
  Qed.

  Lemma rt_labels_valid_axis (ix : index G) : cm_good (chargemap G ix) ->
    Forall (fun c => valid G c = true) (map fst (index_coords G ix)).
  Proof.
    intros Hg. apply Forall_forall. intros c Hc. apply (rt_labels_In ix c Hg) in Hc.
    unfold icharges in Hc. apply in_map_iff in Hc. destruct Hc as [[c' d] [<- Hd]].
    exact (proj1 (proj2 Hg _ _ Hd)).
  Qed.

  (* the rebuilt table of one axis is the table of the index *)
  Lemma rt_chargemap (ix : index G) dl : cm_good (chargemap G ix) ->
    chargemap G (axis_ix G (group_positions G (map fst (index_coords G ix))) dl) = chargemap G ix.
  Proof.
    intros Hg. pose proof (cm_good_NoDup _ Hg) as Hnd. rewrite axis_chargemap.
    set (g := group_positions G (map fst (index_coords G ix))).
    pose proof (gp_NoDup G HG (map fst (index_coords G ix))) as Hgnd. fold g in Hgnd.
    pose proof (axis_keys_NoDup G g Hgnd) as Hsnd.
    assert (Hsize : forall c, length (positions_of G g c) = size_of G ix c).
    { intros c. unfold g. rewrite (rt_positions ix c Hnd). apply seq_length. }
    assert (Hkeys : forall c, In c (map fst g) <-> In c (icharges G ix)).
    { intros c. unfold g. rewrite (gp_keys G HG). apply rt_labels_In. exact Hg. }
    assert (Hperm : Permutation (sort_cm G (grp_table G g)) (chargemap G ix)).
    { apply NoDup_Permutation.
      - exact (NoDup_map_inv fst _ Hsnd).
      - exact (NoDup_map_inv fst _ Hnd).
      - intros [c k]. split; intros Hin.
        + destruct (axis_table_entry G HG g c k Hgnd Hin) as [Hc Hk]. rewrite Hsize in Hk.
          apply Hkeys in Hc. unfold icharges in Hc. apply in_map_iff in Hc.
          destruct Hc as [[c' d] [E Hd]]. cbn [fst] in E. subst c'.
          unfold size_of in Hk. rewrite (In_lookup (ceqb G) ceq_spec c d _ Hnd Hd) in Hk. subst k. exact Hd.
        + assert (Hc : In c (icharges G (axis_ix G g false))).
          { apply (axis_icharges_In G). apply Hkeys. unfold icharges. apply in_map_iff.
            exists (c, k). split; [reflexivity | exact Hin]. }
          unfold icharges in Hc. rewrite axis_chargemap in Hc. apply in_map_iff in Hc.
          destruct Hc as [[c' k'] [E Hk']]. cbn [fst] in E. subst c'.
          destruct (axis_table_entry G HG g c k' Hgnd Hk') as [_ Hk2]. rewrite Hsize in Hk2.
          unfold size_of in Hk2. rewrite (In_lookup (ceqb G) ceq_spec c k _ Hnd Hin) in Hk2.
          subst k'. exact Hk'. }
    apply cr_keyed_perm_eq; [|exact Hsnd|exact Hperm].
    apply (SS_perm_eq (cltb G) _ _ HO).
    - apply (sort_cm_SS G HO). rewrite grp_table_keys. exact Hgnd.
    - exact (proj1 Hg).
    - apply Permutation_map. exact Hperm.
  Qed.

  Definition ixs_good (ixs : list (index G)) : Prop := Forall (fun ix => cm_good (chargemap G ix)) ixs.

  Lemma wf_ixs_good (x : aarray G R) : wf_array G R x = true -> ixs_good (indices G R x).
  Proof.
    unfold wf_array. intros H. repeat (apply andb_true_iff in H; destruct H as [H ?]).
    apply Forall_forall. intros ix Hix. rewrite forallb_forall in H. apply wf_index_good. apply H. exact Hix.
  Qed.

  Lemma rt_chargemaps ixs : ixs_good ixs -> forall dls, length dls = length ixs ->
    map (chargemap G) (fd_ixs G (fd_groups G (labels_of G ixs)) dls) = map (chargemap G) ixs.
  Proof.
    induction 1 as [|ix ixs Hix HF IH]; intros [|dl dls] Hl; cbn [length] in Hl; try discriminate Hl;
      [reflexivity|].
    change (labels_of G (ix :: ixs)) with (map fst (index_coords G ix) :: labels_of G ixs).
    rewrite fd_ixs_cons. cbn [map]. rewrite (rt_chargemap ix dl Hix). f_equal. apply IH. lia.
  Qed.

  Lemma rt_labels_valid ixs : ixs_good ixs -> labels_valid G (labels_of G ixs).
  Proof.
    intros H. unfold labels_valid, labels_of. apply Forall_forall. intros m Hm.
    apply in_map_iff in Hm. destruct Hm as [ix [<- Hix]]. unfold ixs_good in H. rewrite Forall_forall in H.
    apply rt_labels_valid_axis. apply H. exact Hix.
  Qed.

  Lemma rt_labels_equiv ixs : ixs_good ixs ->
    Forall2 (fun l l' : list Ch => forall c, In c l <-> In c l') (labels_of G ixs) (map (icharges G) ixs).
  Proof.
    intros H. unfold labels_of. apply (cr_Forall2_map2 (fun l l' : list Ch => forall c, In c l <-> In c l')).
    intros ix Hix c. unfold ixs_good in H. rewrite Forall_forall in H. apply rt_labels_In. apply H. exact Hix.
  Qed.

  Lemma rt_labels_lengths ixs : map (@length Ch) (labels_of G ixs) = map (size_total G) ixs.
  Proof.
    unfold labels_of. rewrite map_map. apply map_ext. intros ix. rewrite map_length.
    apply (length_index_coords G).
  Qed.

  (* dense position of a coordinate = the selected position of the rebuilt block *)
  Lemma rt_point ixs : ixs_good ixs -> forall cs, coords_ok G ixs cs = true ->
    inb (map (@length nat) (fd_positions G (fd_groups G (labels_of G ixs)) (map fst cs))) (map snd cs) = true
    /\ map (fun p => nth (snd p) (fst p) 0)
           (List.combine (fd_positions G (fd_groups G (labels_of G ixs)) (map fst cs)) (map snd cs))
       = pos_of G ixs cs.
  Proof.
    induction 1 as [|ix ixs Hix HF IH]; intros [|[c o] cs] Hc; try discriminate Hc.
    - split; reflexivity.
    - rewrite coords_ok_cons in Hc. apply andb_true_iff in Hc. destruct Hc as [Ho Hc].
      cbn [fst snd] in Ho. apply Nat.ltb_lt in Ho. destruct (IH cs Hc) as [I1 I2].
      change (labels_of G (ix :: ixs)) with (map fst (index_coords G ix) :: labels_of G ixs).
      cbn [map fst snd]. rewrite fd_positions_cons.
      rewrite (rt_positions ix c (cm_good_NoDup _ Hix)).
      cbn [map inb List.combine fst snd]. rewrite seq_length, (proj2 (Nat.ltb_lt _ _) Ho). cbn [andb].
      split; [exact I1|].
      unfold pos_of. cbn [List.combine map fst snd]. fold (pos_of G ixs cs).
      rewrite seq_nth by exact Ho. f_equal. exact I2.
  Qed.

  Lemma rt_stored_in_tables ixs : forall s : list Ch, length s = length ixs ->
    forallb (fun p => mem (ceqb G) (snd p) (icharges G (fst p))) (List.combine ixs s) = true ->
    Forall2 (fun c m => In c m) s (map (icharges G) ixs).
  Proof.
    induction ixs as [|ix ixs IH]; intros [|c s] Hl Hf; cbn [length] in Hl; try discriminate Hl;
      cbn [map]; constructor.
    - cbn [List.combine forallb fst snd] in Hf. apply andb_true_iff in Hf.
      apply (mem_ceqb_In G HG). exact (proj1 Hf).
    - cbn [List.combine forallb] in Hf. apply andb_true_iff in Hf. apply IH; [lia | exact (proj2 Hf)].
  Qed.

  Lemma wf_stored (x : aarray G R) s b : wf_array G R x = true -> In (s, b) (blocks G R x) ->
    Forall2 (fun c m => In c m) s (map (icharges G) (indices G R x))
    /\ is_valid_sector G (duals G R x) (charge G R x) s = true.
  Proof.
    unfold wf_array. intros H Hin. repeat (apply andb_true_iff in H; destruct H as [H ?]).
    rewrite forallb_forall in H0. specialize (H0 _ Hin). cbn [fst snd] in H0.
    repeat (apply andb_true_iff in H0; destruct H0 as [H0 ?]).
    unfold sector_ok in H0. repeat (apply andb_true_iff in H0; destruct H0 as [H0 ?]).
    apply Nat.eqb_eq in H0. split; [apply rt_stored_in_tables; assumption | assumption].
  Qed.
End RoundTwo.

Theorem from_dense_to_dense_of (G : Symmetry) (R : Ring) :
  to_dense_sem_stmt G R -> from_dense_to_dense_stmt G R.
Proof.
  intros Hsem HG HO x t Hwf Ht.
  pose proof (to_dense_tables G R x t Ht) as Hne.
  destruct (Hsem HG HO x Hwf Hne) as [t' [Ht' [Hsh [_ [_ Hcs]]]]].
  rewrite Ht in Ht'. inversion Ht'; subst t'. clear Ht'.
  pose proof (wf_ixs_good G HO R x Hwf) as Hgood.
  set (ixs := indices G R x) in *.
  assert (Hdl : length (duals G R x) = length (tshape t)).
  { rewrite Hsh. unfold duals. fold ixs. rewrite !map_length. reflexivity. }
  assert (Hmaps : map (@length (C G)) (labels_of G ixs) = tshape t).
  { rewrite Hsh. apply rt_labels_lengths. }
  assert (Hl : length (duals G R x) = length (labels_of G ixs)).
  { unfold duals, labels_of. fold ixs. rewrite !map_length. reflexivity. }
  assert (Hl' : length (duals G R x) = length ixs).
  { unfold duals. fold ixs. rewrite map_length. reflexivity. }
  exists (fd_array G R t (labels_of G ixs) (duals G R x) (charge G R x)).
  split; [apply from_dense_eq; assumption|].
  split; [reflexivity|].
  split; [apply (rt_chargemaps G HG HO); assumption|].
  split; [apply fd_duals; assumption|].
  split; [apply fd_isub|].
  split.
  - intros s. rewrite fd_sectors, (fd_secs_In G HG).
    rewrite (cr_Forall2_In_equiv _ _ (rt_labels_equiv G ixs Hgood) s). reflexivity.
  - intros cs Hc. destruct (Hcs cs Hc) as [_ [_ Hget]]. rewrite <- Hget.
    destruct (rt_point G HG HO ixs Hgood cs Hc) as [P1 P2].
    unfold sem at 1. rewrite (fd_lookup G HG R).
    destruct (is_valid_sector G (duals G R x) (charge G R x) (map fst cs)
              && mem (list_eqb (ceqb G)) (map fst cs)
                   (product (map (fun g : list (C G * list nat) => map fst g) (fd_groups G (labels_of G ixs)))))
      eqn:E.
    + unfold tselect. rewrite (get_build R) by exact P1. rewrite P2. reflexivity.
    + rewrite Hget. unfold sem.
      destruct (lookup (list_eqb (ceqb G)) (map fst cs) (blocks G R x)) as [b|] eqn:El; [|reflexivity].
      exfalso. apply (lookup_In (list_eqb (ceqb G)) (list_eqb_spec (ceqb G) (ceqb_spec G HG))) in El.
      destruct (wf_stored G HG R x _ _ Hwf El) as [W1 W2]. fold ixs in W1.
      rewrite W2 in E. cbn [andb] in E.
      assert (Hm : mem (list_eqb (ceqb G)) (map fst cs)
                     (product (map (fun g : list (C G * list nat) => map fst g) (fd_groups G (labels_of G ixs)))) = true).
      { apply (mem_In (list_eqb (ceqb G)) (list_eqb_spec (ceqb G) (ceqb_spec G HG))). apply in_product.
        apply (cr_Forall2_In_equiv _ _ (fd_keys_equiv G HG (labels_of G ixs))).
        apply (cr_Forall2_In_equiv _ _ (rt_labels_equiv G ixs Hgood)). exact W1. }
      rewrite Hm in E. discriminate E.
Qed.

(* bonus (no premise): the array rebuilt by the second round trip is well formed *)
Theorem from_dense_to_dense_wf (G : Symmetry) (R : Ring) : GroupLaws G -> OrderLaws G ->
  forall (x : aarray G R) (t : tensor R), wf_array G R x = true ->
    wf_array G R (fd_array G R t (labels_of G (indices G R x)) (duals G R x) (charge G R x)) = true.
Proof.
  intros HG HO x t Hwf. apply (fd_array_wf G HG HO).
  - unfold duals, labels_of. rewrite !map_length. reflexivity.
  - apply (rt_labels_valid G). apply (wf_ixs_good G HO R x Hwf).
  - unfold wf_array in Hwf. repeat (apply andb_true_iff in Hwf; destruct Hwf as [Hwf ?]). assumption.
Qed.

(* ------------------------------------------------------------------ *)
(* the hypotheses are satisfiable: U1, a 3x2 dense array, unsorted interleaved labels *)

Definition ex_d : tensor ZRing := @mkT ZRing [3; 2] [1; 2; 3; 4; 5; 6]%Z.
Definition ex_maps : list (list Z) := [[1; 0; 1]; [0; 1]]%Z.
Definition ex_dls : list bool := [false; true].

(* hypotheses of to_dense_from_dense_stmt *)
Example ex_hyp_lengths :
  length ex_dls = length (tshape ex_d) /\ map (@length Z) ex_maps = tshape ex_d.
Proof. split; vm_compute; reflexivity. Qed.
Example ex_hyp_valid :
  forallb (forallb (valid U1)) ex_maps = true /\ valid U1 1%Z = true /\ valid U1 0%Z = true.
Proof. repeat split; vm_compute; reflexivity. Qed.
Example ex_hyp_valid_Forall : Forall (fun m => Forall (fun c => valid U1 c = true) m) ex_maps.
Proof. repeat constructor. Qed.

(* total charge 1: the single charge-conserving sector (1, 0) *)
Definition ex_y1 : aarray U1 ZRing :=
  mkA U1 ZRing [Index U1 [(0%Z, 1); (1%Z, 2)] false None; Index U1 [(0%Z, 1); (1%Z, 1)] true None] 1%Z
      [([1; 0]%Z, @mkT ZRing [2; 1] [1; 5]%Z)].
Example ex_from_dense_q1 : from_dense U1 ZRing ex_d ex_maps ex_dls (Some 1%Z) = Some ex_y1.
Proof. vm_compute; reflexivity. Qed.
Example ex_wf_q1 : wf_array U1 ZRing ex_y1 = true.
Proof. vm_compute; reflexivity. Qed.
Example ex_to_dense_q1 : to_dense U1 ZRing ex_y1 = Some (@mkT ZRing [3; 2] [0; 0; 1; 0; 5; 0]%Z).
Proof. vm_compute; reflexivity. Qed.

(* total charge 0: two sectors (0, 0) and (1, 1) *)
Definition ex_y0 : aarray U1 ZRing :=
  mkA U1 ZRing [Index U1 [(0%Z, 1); (1%Z, 2)] false None; Index U1 [(0%Z, 1); (1%Z, 1)] true None] 0%Z
      [([1; 1]%Z, @mkT ZRing [2; 1] [2; 6]%Z); ([0; 0]%Z, @mkT ZRing [1; 1] [3]%Z)].
Example ex_from_dense_q0 : from_dense U1 ZRing ex_d ex_maps ex_dls (Some 0%Z) = Some ex_y0.
Proof. vm_compute; reflexivity. Qed.
Example ex_wf_q0 : wf_array U1 ZRing ex_y0 = true.
Proof. vm_compute; reflexivity. Qed.
Example ex_to_dense_q0 : to_dense U1 ZRing ex_y0 = Some (@mkT ZRing [3; 2] [3; 0; 0; 2; 0; 6]%Z).
Proof. vm_compute; reflexivity. Qed.

(* the stable-sorted source positions of the two axes: labels [1;0;1] -> [1;0;2], [0;1] -> [0;1] *)
Example ex_sps : fd_sps U1 ex_maps = [[1; 0; 2]; [0; 1]].
Proof. vm_compute; reflexivity. Qed.
(* e.g. dense position (2,1) of the result reads source position (2,1) (labels (1,1), valid for q=0) *)
Example ex_src : fd_src U1 ex_maps [2; 1] = [2; 1] /\ fd_src U1 ex_maps [0; 1] = [1; 1]
                 /\ fd_sec U1 ex_maps [1; 1] = [0; 1]%Z.
Proof. repeat split; vm_compute; reflexivity. Qed.

(* hypotheses and conclusion of from_dense_to_dense_stmt on ex_y0 (wf: ex_wf_q0, dense: ex_to_dense_q0):
   the round trip rebuilds the same indices and the same blocks, stored in sorted-charge
   order (ex_y0 itself stores them in first-seen-label order), i.e. the same array
   up to the insertion order of the block dict *)
Definition ex_y0_sorted : aarray U1 ZRing :=
  mkA U1 ZRing (indices U1 ZRing ex_y0) 0%Z
      [([0; 0]%Z, @mkT ZRing [1; 1] [3]%Z); ([1; 1]%Z, @mkT ZRing [2; 1] [2; 6]%Z)].
Example ex_round_q0 :
  match to_dense U1 ZRing ex_y0 with
  | Some t => from_dense U1 ZRing t (labels_of U1 (indices U1 ZRing ex_y0)) (duals U1 ZRing ex_y0)
                         (Some (charge U1 ZRing ex_y0))
  | None => None
  end = Some ex_y0_sorted.
Proof. vm_compute; reflexivity. Qed.
Example ex_round_q0_eqb : aarray_eqb U1 ZRing ex_y0_sorted ex_y0 = true.
Proof. vm_compute; reflexivity. Qed.
Example ex_labels_q0 : labels_of U1 (indices U1 ZRing ex_y0) = [[0; 1; 1]; [0; 1]]%Z.
Proof. vm_compute; reflexivity. Qed.
