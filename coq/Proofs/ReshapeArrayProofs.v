(* Proofs/ReshapeArrayProofs.v — property C07, ARRAY level: the model `a_reshape`
   of AbelianArray.reshape (Model/ReshapeArray.v) never changes an array's
   content.  Every elementary step of an executed plan — unfuse, fuse of one
   group, expand_dims — preserves the multiset of non-zero stored entries,
   hence the squared norm.  No dependence on how the plan was computed. *)
From SV Require Import Base.Prelude Base.Sym Base.Tensor Model.Sectors Model.Array Model.Wf Model.Arith
  Model.SymInst Proofs.SymLaws Proofs.TensorProofs Proofs.OrderProofs Proofs.FuseTensor Proofs.FuseProofs
  Proofs.GroupFacts Proofs.SectorsProofs Proofs.StructProofs Proofs.WfProofs.
From SV Require Model.ReshapeArgs Proofs.ReshapeArgsProofs Proofs.ReshapePlanProofs.
From SV Require Import Model.ReshapeArray.
From Coq Require Import Permutation Sorting.
Local Open Scope nat_scope.

(* ------------------------------------------------------------------ *)
(* Part 0: list / permutation facts *)

Lemma perm_filter {A} (f : A -> bool) l l' : Permutation l l' -> Permutation (filter f l) (filter f l').
Proof.
  intros H. induction H as [|x l l' H IH|x y l|l l' l'' H1 IH1 H2 IH2].
  - apply Permutation_refl.
  - cbn [filter]. destruct (f x); [apply perm_skip|]; exact IH.
  - cbn [filter]. destruct (f x), (f y); try apply Permutation_refl. apply perm_swap.
  - eapply perm_trans; eassumption.
Qed.

Lemma perm_flat_map_ext {A B} (f g : A -> list B) l :
  (forall x, In x l -> Permutation (f x) (g x)) -> Permutation (flat_map f l) (flat_map g l).
Proof.
  induction l as [|a l IH]; intros H; cbn [flat_map]; [apply Permutation_refl|].
  apply Permutation_app; [apply H; now left|apply IH; intros x Hx; apply H; now right].
Qed.

Lemma perm_flat_map_app {A B} (f g : A -> list B) l :
  Permutation (flat_map (fun x => f x ++ g x) l) (flat_map f l ++ flat_map g l).
Proof.
  induction l as [|a l IH]; cbn [flat_map]; [apply Permutation_refl|].
  eapply perm_trans; [apply Permutation_app_head; exact IH|].
  rewrite <- !app_assoc. apply Permutation_app_head.
  rewrite !app_assoc. apply Permutation_app_tail. apply Permutation_app_comm.
Qed.

Lemma flat_map_map' {A B X} (f : A -> B) (h : B -> list X) l : flat_map h (map f l) = flat_map (fun x => h (f x)) l.
Proof. induction l as [|a l IH]; cbn [map flat_map]; [reflexivity|now rewrite IH]. Qed.

Lemma flat_map_nil' {A B} (f : A -> list B) l : (forall x, In x l -> f x = []) -> flat_map f l = [].
Proof.
  induction l as [|a l IH]; intros H; cbn [flat_map]; [reflexivity|].
  rewrite H by (now left). apply IH. intros x Hx. apply H. now right.
Qed.

Lemma flat_map_ext_in' {A B} (f g : A -> list B) l : (forall x, In x l -> f x = g x) -> flat_map f l = flat_map g l.
Proof.
  induction l as [|a l IH]; intros H; cbn [flat_map]; [reflexivity|].
  rewrite H by (now left). f_equal. apply IH. intros x Hx. apply H. now right.
Qed.

(* ------------------------------------------------------------------ *)
(* Part 1: all_idx enumerates exactly the in-bounds multi-indices, once each *)

Lemma NoDup_all_idx sh : NoDup (all_idx sh).
Proof.
  apply (NoDup_map_inv (offset sh)). rewrite map_offset_all_idx. apply seq_NoDup.
Qed.

Lemma inb_in_all_idx sh idx : inb sh idx = true -> In idx (all_idx sh).
Proof.
  intros H. rewrite <- (nth_all_idx sh idx H). apply nth_In. rewrite length_all_idx. now apply offset_lt.
Qed.

Lemma shape_size_perm l l' : Permutation l l' -> shape_size l = shape_size l'.
Proof.
  intros H. unfold shape_size.
  induction H as [|x l l' H IH|x y l|l l' l'' H1 IH1 H2 IH2]; cbn [fold_right] in *.
  - reflexivity.
  - now rewrite IH.
  - lia.
  - now rewrite IH1.
Qed.

(* the axis shift of tslice and the multi-indices a slice reads *)
Definition shiftF (axis s : nat) (idx : list nat) : list nat := Tensor.set_nth idx axis (nth axis idx 0 + s).
Definition slice_idx (sh : list nat) (axis s n : nat) : list (list nat) :=
  map (shiftF axis s) (all_idx (Tensor.set_nth sh axis n)).

Lemma slice_idx_0 d sh s n :
  slice_idx (d :: sh) 0 s n = flat_map (fun i => map (cons i) (all_idx sh)) (seq s n).
Proof.
  unfold slice_idx. rewrite set_nth_cons_0. cbn [all_idx].
  rewrite map_flat_map.
  replace (seq s n) with (map (fun i => i + s) (seq 0 n)).
  2:{ transitivity (map (fun o => s + o) (seq 0 n)); [apply map_ext; intros; lia|].
      rewrite map_add_seq. f_equal. lia. }
  rewrite flat_map_map'. apply flat_map_ext_in'. intros i _. rewrite map_map. apply map_ext.
  intros idx. unfold shiftF. cbn [nth]. now rewrite set_nth_cons_0.
Qed.

Lemma slice_idx_S d sh k s n :
  slice_idx (d :: sh) (S k) s n = flat_map (fun i => map (cons i) (slice_idx sh k s n)) (seq 0 d).
Proof.
  unfold slice_idx. rewrite set_nth_cons_S. cbn [all_idx].
  rewrite map_flat_map. apply flat_map_ext_in'. intros i _. rewrite !map_map. apply map_ext.
  intros idx. unfold shiftF. cbn [nth]. now rewrite set_nth_cons_S.
Qed.

Lemma slice_idx_split : forall axis sh s a b, axis < length sh ->
  Permutation (slice_idx sh axis s (a + b)) (slice_idx sh axis s a ++ slice_idx sh axis (s + a) b).
Proof.
  induction axis as [|k IH]; intros [|d sh] s a b Hax; cbn [length] in Hax; try lia.
  - rewrite !slice_idx_0, seq_app, flat_map_app. apply Permutation_refl.
  - rewrite !slice_idx_S.
    eapply perm_trans; [|apply perm_flat_map_app].
    apply perm_flat_map_ext. intros i _. rewrite <- map_app. apply Permutation_map. apply IH. lia.
Qed.

Lemma slice_idx_empty : forall axis sh s, axis < length sh -> slice_idx sh axis s 0 = [].
Proof.
  induction axis as [|k IH]; intros [|d sh] s Hax; cbn [length] in Hax; try lia.
  - rewrite slice_idx_0. reflexivity.
  - rewrite slice_idx_S. apply flat_map_nil'. intros i _. rewrite IH by lia. reflexivity.
Qed.

Lemma slice_idx_full sh axis : axis < length sh -> slice_idx sh axis 0 (nth axis sh 0) = all_idx sh.
Proof.
  intros Hax. unfold slice_idx. rewrite set_nth_nth_id by exact Hax.
  rewrite <- (map_id (all_idx sh)) at 2. apply map_ext_in. intros idx Hin.
  apply in_all_idx_inb in Hin. apply inb_length in Hin.
  unfold shiftF. rewrite Nat.add_0_r. apply set_nth_nth_id. lia.
Qed.

(* ------------------------------------------------------------------ *)
(* Part 2: the entries of a tensor, cut along one axis; transposition *)
Section TensorContent.
  Context (R : Ring).
  Notation T := (RT R).

  Definition well_shaped (t : tensor R) : Prop := length (tdata t) = shape_size (tshape t).

  Lemma tdata_tslice t axis s n : tdata (tslice R t axis s n) = map (get R t) (slice_idx (tshape t) axis s n).
  Proof. unfold tslice, build, slice_idx. cbn [tdata]. now rewrite map_map. Qed.

  Lemma tdata_all_idx t : well_shaped t -> tdata t = map (get R t) (all_idx (tshape t)).
  Proof. intros H. rewrite <- (build_get_id R t H) at 1. reflexivity. Qed.

  Lemma tdata_full_slice t axis : well_shaped t -> axis < length (tshape t) ->
    tdata t = tdata (tslice R t axis 0 (nth axis (tshape t) 0)).
  Proof. intros H Hax. rewrite tdata_tslice, slice_idx_full by exact Hax. now apply tdata_all_idx. Qed.

  Lemma tslice_split t axis s a b : axis < length (tshape t) ->
    Permutation (tdata (tslice R t axis s (a + b)))
                (tdata (tslice R t axis s a) ++ tdata (tslice R t axis (s + a) b)).
  Proof.
    intros Hax. rewrite !tdata_tslice, <- map_app. apply Permutation_map. now apply slice_idx_split.
  Qed.

  Lemma tslice_empty t axis s : axis < length (tshape t) -> tdata (tslice R t axis s 0) = [].
  Proof. intros Hax. rewrite tdata_tslice, slice_idx_empty by exact Hax. reflexivity. Qed.

  (* consecutive ranges: the slices at (starts_from s0 sizes, sizes) cut the slice (s0, sum) *)
  Lemma tslice_ranges t axis : axis < length (tshape t) -> forall sizes s0,
    Permutation (tdata (tslice R t axis s0 (nsum sizes)))
                (flat_map (fun p => tdata (tslice R t axis (fst p) (snd p)))
                          (List.combine (starts_from s0 sizes) sizes)).
  Proof.
    intros Hax. induction sizes as [|d sizes IH]; intros s0.
    - cbn [nsum fold_right starts_from List.combine flat_map]. rewrite tslice_empty by exact Hax. apply Permutation_refl.
    - cbn [nsum fold_right starts_from List.combine flat_map fst snd]. fold (nsum sizes).
      eapply perm_trans; [apply tslice_split; exact Hax|]. apply Permutation_app_head. apply IH.
  Qed.

  (* numpy.transpose only moves entries *)
  Lemma ttranspose_perm t perm : is_perm perm -> length (tshape t) = length perm -> well_shaped t ->
    Permutation (tdata (ttranspose R t perm)) (tdata t).
  Proof.
    intros Hp Hl Hw.
    assert (P : Permutation (map (fun idx => permuted 0 idx perm) (all_idx (tshape t)))
                            (all_idx (permuted 0 (tshape t) perm))).
    { apply NoDup_Permutation_bis.
      - apply (NoDup_map_inj_in (fun idx => permuted 0 idx perm)); [|apply NoDup_all_idx].
        intros a b Ha Hb E. apply in_all_idx_inb in Ha, Hb. apply inb_length in Ha, Hb.
        rewrite <- (FuseTensor.unpermute_permuted perm a Hp) by lia. rewrite <- (FuseTensor.unpermute_permuted perm b Hp) by lia.
        now rewrite E.
      - rewrite map_length, !length_all_idx. apply Nat.eq_le_incl. apply shape_size_perm.
        apply (take_perm 0 (tshape t) perm). rewrite Hl. exact Hp.
      - intros y Hy. apply in_map_iff in Hy. destruct Hy as (idx & <- & Hin).
        apply inb_in_all_idx. apply FuseTensor.inb_permuted; [exact Hp|exact Hl|now apply in_all_idx_inb]. }
    eapply perm_trans; [|rewrite (tdata_all_idx t Hw); apply Permutation_refl].
    unfold ttranspose, build. cbn [tdata].
    eapply perm_trans; [apply Permutation_map; apply Permutation_sym; exact P|].
    rewrite map_map. erewrite map_ext_in; [apply Permutation_refl|].
    intros idx Hin. cbn beta. apply in_all_idx_inb in Hin. apply inb_length in Hin.
    rewrite FuseTensor.unpermute_permuted; [reflexivity|exact Hp|lia].
  Qed.
End TensorContent.

(* ------------------------------------------------------------------ *)
(* Part 3: non-zero entries; the norm is a function of their multiset *)
Definition ZeroTest (R : Ring) : Prop := forall a, reqb R a (r0 R) = true <-> a = r0 R.

Lemma ZRing_zero_test : ZeroTest ZRing.
Proof. intros a. apply Z.eqb_eq. Qed.

Lemma GRing_zero_test : ZeroTest GRing.
Proof.
  intros [a b]. cbn [GRing reqb r0]. unfold pair_eqb. cbn [fst snd].
  rewrite andb_true_iff, !Z.eqb_eq. split; [intros [-> ->]; reflexivity|intros E; inversion E; split; reflexivity].
Qed.

Section Entries.
  Context (R : Ring).
  Notation T := (RT R).

  Definition is_nz (v : T) : bool := negb (reqb R v (r0 R)).
  Definition nz (l : list T) : list T := filter is_nz l.
  (* the non-zero entries of all stored blocks of a dict of blocks *)
  Definition dict_entries {K} (bl : list (K * tensor R)) : list T := flat_map (fun sb => nz (tdata (snd sb))) bl.

  Lemma nz_app l1 l2 : nz (l1 ++ l2) = nz l1 ++ nz l2.
  Proof. apply filter_app. Qed.

  Lemma nz_perm l l' : Permutation l l' -> Permutation (nz l) (nz l').
  Proof. apply perm_filter. Qed.

  Lemma dict_entries_app {K} (b1 b2 : list (K * tensor R)) : dict_entries (b1 ++ b2) = dict_entries b1 ++ dict_entries b2.
  Proof. apply flat_map_app. Qed.

  Lemma nz_flat_map {A} (f : A -> list T) l : nz (flat_map f l) = flat_map (fun x => nz (f x)) l.
  Proof. induction l as [|a l IH]; cbn [flat_map]; [reflexivity|]. now rewrite nz_app, IH. Qed.

  Context (ZT : ZeroTest R).

  Lemma nz_zeros l : Forall (fun v => v = r0 R) l -> nz l = [].
  Proof.
    induction 1 as [|v l Hv _ IH]; [reflexivity|]. cbn [nz filter]. unfold is_nz at 1.
    rewrite (proj2 (ZT v) Hv). exact IH.
  Qed.

  Context (RL : RingLaws R).

  Lemma rsum_perm l l' : Permutation l l' -> rsum R l = rsum R l'.
  Proof.
    intros H. unfold rsum.
    induction H as [|x l l' H IH|x y l|l l' l'' H1 IH1 H2 IH2]; cbn [fold_right] in *.
    - reflexivity.
    - now rewrite IH.
    - rewrite !(rl_add_assoc R RL). f_equal. apply (rl_add_comm R RL).
    - now rewrite IH1.
  Qed.

  Definition sq (v : T) : T := rmul R v (rconj R v).

  Lemma rsum_sq_nz l : rsum R (map sq (nz l)) = rsum R (map sq l).
  Proof.
    induction l as [|v l IH]; [reflexivity|]. cbn [nz filter map]. unfold is_nz at 1.
    destruct (reqb R v (r0 R)) eqn:E; cbn [negb map rsum fold_right].
    - apply ZT in E. subst v. unfold sq at 2. rewrite (rl_mul_0_l R RL), (rl_add_0_l R RL). exact IH.
    - fold (nz l). f_equal. exact IH.
  Qed.

  Lemma dict_norm2_entries {K} (bl : list (K * tensor R)) :
    dict_norm2 R bl = rsum R (map sq (dict_entries bl)).
  Proof.
    unfold dict_norm2.
    rewrite (fold_left_rsum R (rl_add_0_l R RL) (rl_add_comm R RL) (rl_add_assoc R RL)), (rl_add_0_l R RL).
    unfold dict_entries.
    rewrite (rsum_flat_map R (rl_add_0_l R RL) (rl_add_assoc R RL)).
    f_equal. apply map_ext. intros p. unfold tnorm2. symmetry. apply rsum_sq_nz.
  Qed.

  Lemma dict_norm2_perm {K K'} (b1 : list (K * tensor R)) (b2 : list (K' * tensor R)) :
    Permutation (dict_entries b1) (dict_entries b2) -> dict_norm2 R b1 = dict_norm2 R b2.
  Proof. intros H. rewrite !dict_norm2_entries. apply rsum_perm. now apply Permutation_map. Qed.

  (* ---- writing a source into an all-zero range of one axis ---- *)
  Lemma tassign_content t axis st len src :
    well_shaped R t -> axis < length (tshape t) -> st + len <= nth axis (tshape t) 0 ->
    tshape src = Tensor.set_nth (tshape t) axis len -> well_shaped R src ->
    Forall (fun v => v = r0 R) (tdata (tslice R t axis st len)) ->
    Permutation (nz (tdata (tassign R t (axis_sel (tshape t) axis st len) src)))
                (nz (tdata t) ++ nz (tdata src)).
  Proof.
    intros Hw Hax Hfit Hsrc Hwsrc Hzero.
    set (T' := tassign R t (axis_sel (tshape t) axis st len) src).
    set (d := nth axis (tshape t) 0) in *.
    set (rest := d - (st + len)).
    assert (Hd : d = st + (len + rest)) by (unfold rest; lia).
    assert (HwT : well_shaped R T') by (unfold T', tassign, well_shaped; apply length_tdata_build).
    assert (HsT : tshape T' = tshape t) by reflexivity.
    assert (D : forall u, axis < length (tshape u) -> nth axis (tshape u) 0 = d -> well_shaped R u ->
              Permutation (tdata u) (tdata (tslice R u axis 0 st) ++ tdata (tslice R u axis st len)
                                     ++ tdata (tslice R u axis (st + len) rest))).
    { intros u Hu Hdu Hwu. rewrite (tdata_full_slice R u axis Hwu Hu), Hdu, Hd.
      eapply perm_trans; [apply (tslice_split R u axis 0 st (len + rest) Hu)|].
      apply Permutation_app_head. cbn [Nat.add]. apply (tslice_split R u axis st len rest Hu). }
    pose proof (D t Hax eq_refl Hw) as Dt.
    assert (DT : Permutation (tdata T') (tdata (tslice R T' axis 0 st) ++ tdata (tslice R T' axis st len)
                                     ++ tdata (tslice R T' axis (st + len) rest))).
    { apply D; [rewrite HsT; exact Hax|rewrite HsT; reflexivity|exact HwT]. }
    unfold T' in DT at 2 3 4.
    rewrite (tslice_tassign_disjoint R t axis 0 st st len src) in DT by (try assumption; fold d; lia).
    rewrite (tslice_tassign_same R t axis st len src) in DT by assumption.
    rewrite (tslice_tassign_disjoint R t axis (st + len) rest st len src) in DT by (try assumption; fold d; lia).
    apply nz_perm in DT. apply nz_perm in Dt. rewrite !nz_app in DT, Dt.
    rewrite (nz_zeros _ Hzero) in Dt. cbn [app] in Dt.
    eapply perm_trans; [exact DT|].
    eapply perm_trans; [|apply Permutation_app_tail; apply Permutation_sym; exact Dt].
    rewrite <- !app_assoc. apply Permutation_app_head. apply Permutation_app_comm.
  Qed.
End Entries.

(* ------------------------------------------------------------------ *)
(* Part 4: the scatter fold of _fuse_blocks_via_insert keeps the non-zero entries *)
Section DsetSplit.
  Context {K V : Type} (keqb : K -> K -> bool).
  Lemma dset_some_split k (v v0 : V) d : lookup keqb k d = Some v0 ->
    exists d1 d2 k', d = d1 ++ (k', v0) :: d2 /\ dset keqb k v d = d1 ++ (k', v) :: d2.
  Proof.
    induction d as [|[k1 v1] d IH]; cbn [lookup dset]; intros H; [discriminate|].
    destruct (keqb k k1) eqn:E.
    - inversion H. subst v1. exists [], d, k1. split; reflexivity.
    - destruct (IH H) as (d1 & d2 & k' & E1 & E2). exists ((k1, v1) :: d1), d2, k'.
      cbn [app]. now rewrite <- E1, E2.
  Qed.
End DsetSplit.

Section ScatterContent.
  Context (R : Ring) (ZT : ZeroTest R) {K I : Type} (keqb : K -> K -> bool) (Hk : eqb_spec_on keqb).
  Context (key : I -> K) (rng : I -> nat * nat) (src : I -> tensor R) (shape : K -> list nat) (axis : nat).
  Notation sfold := (scatter_fold R keqb key rng src shape axis).

  Lemma scatter_content (items : list I) :
    NoDup items -> (forall i, In i items -> item_ok R key rng src shape axis i) ->
    (forall i j, In i items -> In j items -> i <> j -> key i = key j -> disj (rng i) (rng j)) ->
    Permutation (dict_entries R (sfold items)) (flat_map (fun i => nz R (tdata (src i))) items) /\
    (forall k T, In (k, T) (sfold items) -> well_shaped R T).
  Proof.
    induction items as [|i0 P IH] using rev_ind; intros Hnd Hok Hdis.
    - split; [apply Permutation_refl|intros k T []].
    - pose proof Hnd as Hnd0. apply NoDup_remove in Hnd. rewrite app_nil_r in Hnd. destruct Hnd as [Hnd Hnew].
      assert (HokP : forall i, In i P -> item_ok R key rng src shape axis i).
      { intros i Hi. apply Hok. apply in_or_app. now left. }
      assert (HdisP : forall i j, In i P -> In j P -> i <> j -> key i = key j -> disj (rng i) (rng j)).
      { intros i j Hi Hj. apply Hdis; apply in_or_app; now left. }
      destruct (IH Hnd HokP HdisP) as (IHperm & IHws).
      destruct (scatter_spec R keqb Hk key rng src shape axis P Hnd HokP HdisP) as (_ & _ & Sshape & _ & Szero).
      unfold scatter_fold. rewrite fold_left_app. cbn [fold_left]. fold (sfold P).
      set (acc := sfold P) in *.
      set (k0 := key i0).
      assert (Hi0 : item_ok R key rng src shape axis i0) by (apply Hok; apply in_or_app; right; now left).
      destruct Hi0 as (Hax & Hfit & Hsrc & Hlen). fold k0 in Hax, Hfit, Hsrc.
      unfold scatter_step. fold k0.
      rewrite flat_map_app. cbn [flat_map]. rewrite app_nil_r.
      destruct (lookup keqb k0 acc) as [T0|] eqn:E0.
      + (* the key is present: T0 is replaced by T0 with src written into a zero range *)
        pose proof (Sshape k0 T0 E0) as HT0.
        assert (HwT0 : well_shaped R T0).
        { apply (IHws k0). now apply (lookup_In keqb Hk). }
        assert (Hz : Forall (fun v => v = r0 R) (tdata (tslice R T0 axis (fst (rng i0)) (snd (rng i0))))).
        { rewrite (Szero k0 T0 (fst (rng i0)) (snd (rng i0)) E0 Hfit); [apply all_zero_tzeros|].
          intros i Hi Hki. replace (fst (rng i0), snd (rng i0)) with (rng i0) by (destruct (rng i0); reflexivity).
          apply Hdis; [apply in_or_app; right; now left|apply in_or_app; now left| |now symmetry].
          intros ->. contradiction. }
        set (T' := tassign R T0 (axis_sel (shape k0) axis (fst (rng i0)) (snd (rng i0))) (src i0)).
        assert (HT' : Permutation (nz R (tdata T')) (nz R (tdata T0) ++ nz R (tdata (src i0)))).
        { unfold T'. rewrite <- HT0. apply (tassign_content R ZT); rewrite ?HT0; assumption. }
        destruct (dset_some_split keqb k0 T' T0 acc E0) as (d1 & d2 & k' & Eacc & Edset).
        split.
        * rewrite Edset. rewrite Eacc in IHperm. rewrite !dict_entries_app in *.
          change (dict_entries R ((k', T') :: d2)) with (nz R (tdata T') ++ dict_entries R d2).
          change (dict_entries R ((k', T0) :: d2)) with (nz R (tdata T0) ++ dict_entries R d2) in IHperm.
          eapply perm_trans; [|apply Permutation_app_tail; exact IHperm].
          eapply perm_trans; [apply Permutation_app_head; apply Permutation_app_tail; exact HT'|].
          rewrite <- !app_assoc. apply Permutation_app_head. apply Permutation_app_head.
          apply Permutation_app_comm.
        * intros k T Hin. rewrite Edset in Hin. apply in_app_or in Hin. destruct Hin as [Hin|[Hin|Hin]].
          -- apply (IHws k). rewrite Eacc. apply in_or_app. now left.
          -- inversion Hin. subst. unfold T', tassign, well_shaped. apply length_tdata_build.
          -- apply (IHws k). rewrite Eacc. apply in_or_app. right. now right.
      + (* a new key: src is written into fresh zeros *)
        set (Z0 := tzeros R (shape k0)).
        set (T' := tassign R Z0 (axis_sel (shape k0) axis (fst (rng i0)) (snd (rng i0))) (src i0)).
        assert (HwZ : well_shaped R Z0) by (unfold Z0, tzeros, well_shaped; apply length_tdata_build).
        assert (HT' : Permutation (nz R (tdata T')) (nz R (tdata Z0) ++ nz R (tdata (src i0)))).
        { unfold T'. change (shape k0) with (tshape Z0) at 1. apply (tassign_content R ZT); try assumption.
          unfold Z0. rewrite tslice_tzeros by assumption. apply all_zero_tzeros. }
        rewrite (nz_zeros R ZT (tdata Z0)) in HT' by apply all_zero_tzeros. cbn [app] in HT'.
        rewrite (keys_dset_notin keqb Hk) by (now apply (lookup_None_iff keqb Hk)).
        split.
        * rewrite dict_entries_app. apply Permutation_app; [exact IHperm|].
          unfold dict_entries. cbn [flat_map snd]. rewrite app_nil_r. exact HT'.
        * intros k T Hin. apply in_app_or in Hin. destruct Hin as [Hin|[Hin|[]]]; [now apply (IHws k)|].
          inversion Hin. subst. unfold T', tassign, well_shaped. apply length_tdata_build.
  Qed.
End ScatterContent.

(* ------------------------------------------------------------------ *)
(* Part 5: the three elementary steps of reshape on arrays *)
Section ArrayContent.
  Context (G : Symmetry) (R : Ring) (GL : GroupLaws G) (OL : OrderLaws G) (ZT : ZeroTest R).
  Notation arr := (aarray G R).
  Notation keq := (list_eqb (ceqb G)).
  Notation sector := (list (C G)).
  Notation dflt := (dflt_index G).
  Notation idc := (ident G).

  (* the multiset (list up to Permutation) of the non-zero entries of all stored blocks *)
  Definition stored_entries (x : arr) : list (RT R) := dict_entries R (blocks G R x).

  Lemma block_shape_length ixs (s : sector) : length s = length ixs -> length (block_shape G ixs s) = length ixs.
  Proof. intros H. unfold block_shape. rewrite map_length, combine_length. lia. Qed.

  (* ---- fuse of ONE group of >= 2 distinct axes ---- *)
  Theorem fuse_core_content (x : arr) (g : list nat) :
    wf_array G R x = true -> NoDup g -> Forall (fun ax => ax < ndim G R x) g -> 2 <= length g ->
    Permutation (stored_entries (fuse_core G R x [g])) (stored_entries x).
  Proof.
    intros Hwf Hnd Hrng Hlen. unfold ndim in Hrng. unfold stored_entries.
    rewrite (fuse_core_blocks G R x g Hnd Hrng Hlen).
    destruct (scatter_content R ZT keq (Hke G GL) (fkey G R x g) (frng G R x g) (fsrc G R x g) (fshape G R x g)
                (fuse_position [g]) (blocks G R x)
                (blocks_NoDup G R GL x g Hwf Hlen)
                (fitem_ok G R GL OL x g Hwf Hnd Hrng Hlen)
                (fitems_disj G R GL OL x g Hwf Hnd Hrng Hlen)) as [P _].
    eapply perm_trans; [exact P|]. unfold dict_entries.
    apply perm_flat_map_ext. intros [s b] Hin. cbn [snd]. apply nz_perm.
    unfold fsrc, treshape. cbn [tdata fst snd].
    destruct (wf_parts G R GL x g Hwf Hlen) as (_ & _ & Hb). destruct (Hb s b Hin) as (Hl & _ & Hsh & Hdata).
    apply ttranspose_perm.
    - apply (Pperm G R x g Hnd Hrng Hlen).
    - rewrite (Plen G R x g Hnd Hrng Hlen), Hsh. now apply block_shape_length.
    - exact Hdata.
  Qed.

  Theorem fuse_content (x : arr) (g : list nat) :
    wf_array G R x = true -> NoDup g -> Forall (fun ax => ax < ndim G R x) g -> 2 <= length g ->
    Permutation (stored_entries (a_fuse G R x [g])) (stored_entries x).
  Proof.
    intros Hwf Hnd Hrng Hlen. rewrite a_fuse_single by (intros ->; cbn [length] in Hlen; lia).
    now apply fuse_core_content.
  Qed.

  (* ---- expand_dims: the data of every block is untouched ---- *)
  Theorem expand_dims_content (x : arr) (axis : nat) :
    stored_entries (a_expand_dims G R x axis) = stored_entries x.
  Proof.
    unfold stored_entries, a_expand_dims, dict_entries. cbn [blocks].
    rewrite flat_map_map'. reflexivity.
  Qed.
End ArrayContent.

(* ------------------------------------------------------------------ *)
(* Part 6: unfuse of one fused axis of a well-formed array: keeps the non-zero
   entries (every block is cut into its sub-blocks along the ranges of the
   extent table) and keeps well-formedness *)
Lemma flat_map_flat_map {A B X} (f : A -> list B) (h : B -> list X) l :
  flat_map h (flat_map f l) = flat_map (fun a => flat_map h (f a)) l.
Proof. induction l as [|a l IH]; cbn [flat_map]; [reflexivity|]. now rewrite flat_map_app, IH. Qed.

Lemma length_starts_from sizes : forall s, length (starts_from s sizes) = length sizes.
Proof. induction sizes as [|d r IH]; intros s; cbn [starts_from length]; [reflexivity|now rewrite IH]. Qed.

Lemma map_snd_combine {A B} (l1 : list A) (l2 : list B) : length l1 = length l2 -> map snd (List.combine l1 l2) = l2.
Proof.
  revert l2. induction l1 as [|a l1 IH]; intros [|b l2] H; try discriminate H; [reflexivity|].
  cbn [List.combine map snd]. f_equal. apply IH. cbn [length] in H. lia.
Qed.

Lemma map_combine_swap {A B X} (F : B -> bool -> X) (d : A -> bool) (l1 : list A) (l2 : list B) :
  map (fun q => F (snd q) (d (fst q))) (List.combine l1 l2) =
  map (fun cd => F (fst cd) (snd cd)) (List.combine l2 (map d l1)).
Proof.
  revert l2. induction l1 as [|a l1 IH]; intros [|b l2]; try reflexivity.
  cbn [List.combine map fst snd]. f_equal. apply IH.
Qed.

Section UnfuseStep.
  Context (G : Symmetry) (R : Ring) (GL : GroupLaws G) (OL : OrderLaws G).
  Notation arr := (aarray G R).
  Notation keq := (list_eqb (ceqb G)).
  Notation sec_ltb := (list_ltb (cltb G) (ceqb G)).
  Notation sector := (list (C G)).
  Notation dflt := (dflt_index G).
  Notation idc := (ident G).
  Notation V c := (valid G c = true).
  Notation VA l := (valid_all G l = true).

  Context (x : arr) (axis : nat) (subs : list (index G)) (ext : list (C G * list (sector * nat))).
  Context (Hwf : wf_array G R x = true).
  Context (Hsub : isub G (nth axis (indices G R x) dflt) = Some (subs, ext)).
  Notation ixs := (indices G R x).
  Notation fi := (nth axis (indices G R x) dflt).
  Notation q0 := (charge G R x).

  Lemma ax_lt : axis < length ixs.
  Proof.
    destruct (Nat.lt_ge_cases axis (length ixs)) as [H|H]; [exact H|].
    rewrite nth_overflow in Hsub by exact H. discriminate Hsub.
  Qed.

  Lemma W0 : WF G R ixs q0 (blocks G R x).
  Proof. now apply (wf_array_iff G GL R). Qed.

  Lemma fi_wf : wf_index G fi = true.
  Proof. destruct W0 as [H _ _ _]. unfold IxsOK in H. rewrite Forall_forall in H. apply H. apply nth_In. apply ax_lt. Qed.

  Definition subshape_of (ss : sector) : list nat := block_shape G subs ss.

  (* one entry (sub-sector, size) of the extent of the fused charge c *)
  Definition EntOK (c : C G) (p : sector * nat) : Prop :=
    TabOK G subs (fst p) /\
    snd p = shape_size (subshape_of (fst p)) /\
    combine G (signed_sector G false (fst p) (map (idual G) subs)) = sign G c (idual G fi).

  Lemma subs_wf : IxsOK G subs.
  Proof.
    pose proof fi_wf as H. destruct fi as [cm dl sb]. cbn [isub] in Hsub. subst sb.
    rewrite wf_index_unfold in H. rewrite !andb_true_iff in H.
    destruct H as (_ & ((((_ & H) & _) & _) & _)).
    apply Forall_forall. now apply forallb_forall.
  Qed.

  Lemma TabOK_VA ixl (s : sector) : IxsOK G ixl -> TabOK G ixl s -> VA s.
  Proof.
    intros Hix (Hl & Hm). apply (valid_all_In G GL). intros c Hc.
    apply (In_nth _ _ idc) in Hc. destruct Hc as (i & Hi & <-).
    unfold IxsOK in Hix. rewrite Forall_forall in Hix.
    apply (wf_index_charges_valid G (nth i ixl dflt)); [apply Hix; apply nth_In; lia|apply Hm; lia].
  Qed.

  Lemma extent_spec c : In c (icharges G fi) ->
    exists e, lookup (ceqb G) c ext = Some e /\
      nsum (map snd e) = size_of G fi c /\ NoDup (map fst e) /\ Forall (EntOK c) e.
  Proof.
    intros Hc. pose proof fi_wf as H. pose proof subs_wf as Hsw. unfold EntOK.
    destruct fi as [cm dl sb] eqn:Efi. cbn [isub] in Hsub. subst sb. cbn [idual].
    rewrite wf_index_unfold in H. rewrite !andb_true_iff in H.
    destruct H as (Hcm & (_ & Hall)).
    unfold icharges in Hc. cbn [chargemap] in Hc. apply in_map_iff in Hc. destruct Hc as ([c' d] & Ec & Hin).
    cbn [fst] in Ec. subst c'.
    rewrite forallb_forall in Hall. specialize (Hall _ Hin). cbn [fst snd] in Hall.
    destruct (lookup (ceqb G) c ext) as [e|]; [|discriminate]. exists e. split; [reflexivity|].
    assert (Hd : size_of G (Index G cm dl (Some (subs, ext))) c = d).
    { unfold size_of. cbn [chargemap].
      now rewrite (In_lookup (ceqb G) (Hce G GL) c d cm (cm_keys_NoDup G OL cm Hcm) Hin). }
    unfold extent_ok in Hall. rewrite !andb_true_iff in Hall. destruct Hall as ((Hs & Hsort) & Hents).
    apply Nat.eqb_eq in Hs. split; [now rewrite Hd|]. split.
    { apply (SS_NoDup sec_ltb _ (Hso G GL OL)). apply (SS_of_sorted_by sec_ltb _ (Hso G GL OL)). exact Hsort. }
    apply Forall_forall. intros [ss sz] Hp. rewrite forallb_forall in Hents. specialize (Hents _ Hp).
    cbn [fst snd] in *. rewrite !andb_true_iff in Hents. destruct Hents as (((Hl & Hm) & Hsz) & Hcomb).
    apply Nat.eqb_eq in Hl. apply Nat.eqb_eq in Hsz. apply (ceqb_eq G GL) in Hcomb.
    assert (Htab : TabOK G subs ss).
    { split; [exact Hl|]. intros i Hi.
      apply (proj1 (StructProofs.forallb_combine_nth (fun p => mem (ceqb G) (snd p) (icharges G (fst p))) dflt idc subs ss (eq_sym Hl))) with (i := i) in Hm; [|exact Hi].
      cbn [fst snd] in Hm. now apply (mem_ceqb_In G GL). }
    split; [exact Htab|]. split; [exact Hsz|].
    pose proof (TabOK_VA subs ss Hsw Htab) as Hva.
    rewrite <- Hcomb. rewrite (sign_combine G GL).
    2:{ apply (valid_all_In G GL). intros c0 Hc0. apply in_map_iff in Hc0. destruct Hc0 as ([ix cc] & <- & Hq).
        cbn [fst snd]. apply (sign_valid G GL). apply in_combine_r in Hq. exact (proj1 (valid_all_In G GL ss) Hva _ Hq). }
    f_equal. rewrite map_map. unfold signed_sector.
    rewrite <- (map_combine_swap (fun cc dd => sign G cc (xorb false dd)) (idual G) subs ss).
    apply map_ext_in. intros [ix cc] Hq. cbn [fst snd]. symmetry. apply (sign_rel G GL).
    apply in_combine_r in Hq. exact (proj1 (valid_all_In G GL ss) Hva _ Hq).
  Qed.

  (* ---- the indices and every stored sector, cut around the axis ---- *)
  Definition IX : list (index G) := firstn axis ixs.
  Definition IZ : list (index G) := skipn (S axis) ixs.

  Lemma split_nth {A} (d : A) : forall i (l : list A), i < length l ->
    l = firstn i l ++ nth i l d :: skipn (S i) l /\ length (firstn i l) = i.
  Proof.
    induction i as [|i IH]; intros [|a l] H; cbn [length] in H; try lia.
    - split; reflexivity.
    - destruct (IH l) as (E & L); [lia|]. cbn [firstn nth app length]. split; [|now rewrite L].
      f_equal. exact E.
  Qed.

  Lemma ixs_split : ixs = IX ++ fi :: IZ /\ length IX = axis.
  Proof. apply split_nth. apply ax_lt. Qed.

  Lemma ixs'_eq : replace_with_seq ixs axis subs = IX ++ subs ++ IZ.
  Proof. reflexivity. Qed.

  Lemma block_facts s b : In (s, b) (blocks G R x) ->
    exists X c Z e, s = X ++ c :: Z /\ length X = axis /\ TabOK G IX X /\ TabOK G IZ Z /\
      In c (icharges G fi) /\
      lookup (ceqb G) c ext = Some e /\ nsum (map snd e) = size_of G fi c /\ NoDup (map fst e) /\
      Forall (EntOK c) e /\
      tshape b = block_shape G IX X ++ size_of G fi c :: block_shape G IZ Z /\ well_shaped R b /\
      combine G (signed_sector G false X (map (idual G) IX) ++ sign G c (idual G fi) ::
                 signed_sector G false Z (map (idual G) IZ)) = q0.
  Proof.
    intros Hin. destruct W0 as [_ _ _ Hb]. destruct (Hb s b Hin) as (Hsec & Hsh & Hdata).
    pose proof (SecOK_Tab G _ _ s Hsec) as Htab. destruct Hsec as (_ & _ & Hq).
    destruct ixs_split as (Eix & Lix).
    apply (TabOK_F2 G) in Htab. rewrite Eix in Htab.
    apply Forall2_app_inv_l in Htab. destruct Htab as (X & s2 & FX & F2 & Es).
    inversion F2 as [|? c ? Z Hc FZ]; subst s2. clear F2.
    pose proof (Forall2_len _ _ _ FX) as LX.
    destruct (extent_spec c Hc) as (e & He & Hn & Hnd & Hents).
    exists X, c, Z, e.
    split; [exact Es|]. split; [lia|]. split; [now apply (TabOK_F2 G)|]. split; [now apply (TabOK_F2 G)|].
    split; [exact Hc|]. split; [exact He|]. split; [exact Hn|]. split; [exact Hnd|]. split; [exact Hents|].
    split; [|split; [exact Hdata|]].
    - rewrite Hsh, Es. rewrite Eix at 1. rewrite (block_shape_app G) by lia. reflexivity.
    - pose proof (f_equal (map (idual G)) Eix) as Ed. rewrite map_app in Ed. cbn [map] in Ed.
      rewrite <- Hq, Es, Ed.
      rewrite (signed_sector_app G) by (rewrite map_length; lia).
      rewrite (signed_sector_cons G), xorb_false_l. reflexivity.
  Qed.

  (* ---- the blocks of the unfused array ---- *)
  Definition upiece (sb : sector * tensor R) (q : sector * (nat * nat)) : sector * tensor R :=
    (replace_with_seq (fst sb) axis (fst q),
     treshape R (tslice R (snd sb) axis (fst (snd q)) (snd (snd q)))
              (replace_with_seq (tshape (snd sb)) axis (subshape_of (fst q)))).
  Definition upieces (sb : sector * tensor R) : list (sector * tensor R) :=
    match lookup (ceqb G) (nth axis (fst sb) idc) ext with
    | None => []
    | Some e => map (upiece sb) (ranges_from 0 e)
    end.
  Definition UB : list (sector * tensor R) := flat_map upieces (blocks G R x).

  Lemma unfuse_as_pieces : NoDup (map fst UB) ->
    a_unfuse G R x axis = Some (mkA G R (replace_with_seq ixs axis subs) q0 UB).
  Proof.
    intros Hnd. unfold a_unfuse. rewrite Hsub. f_equal. f_equal.
    rewrite <- (fold_dset_fresh keq (Hke G GL) UB Hnd). unfold UB. rewrite fold_left_flat_map.
    apply fold_left_ext. intros acc sb _. unfold upieces. cbn zeta.
    destruct (lookup (ceqb G) (nth axis (fst sb) idc) ext) as [e|]; [|reflexivity].
    rewrite fold_left_map. apply fold_left_ext. intros acc2 [ss [st len]] _. reflexivity.
  Qed.

  Lemma upieces_eq X c Z e b : length X = axis -> lookup (ceqb G) c ext = Some e ->
    upieces (X ++ c :: Z, b) = map (upiece (X ++ c :: Z, b)) (ranges_from 0 e).
  Proof.
    intros LX He. unfold upieces. cbn [fst]. rewrite (nth_middle_len X Z c idc axis LX), He. reflexivity.
  Qed.

  Lemma UB_NoDup : NoDup (map fst UB).
  Proof.
    unfold UB. rewrite map_flat_map. destruct W0 as [_ _ Hnd _].
    apply NoDup_flat_map.
    - now apply NoDup_map_fst_NoDup.
    - intros [s b] Hin. destruct (block_facts s b Hin) as (X & c & Z & e & -> & LX & _ & _ & _ & He & _ & Hnde & _).
      rewrite (upieces_eq X c Z e b LX He), map_map.
      replace (map (fun q => fst (upiece (X ++ c :: Z, b) q)) (ranges_from 0 e))
        with (map (replace_with_seq (X ++ c :: Z) axis) (map fst (ranges_from 0 e))) by (now rewrite map_map).
      rewrite ranges_keys. apply NoDup_map_inj_in; [|exact Hnde].
      intros a a' _ _. apply replace_inj.
    - intros [s b] [s' b'] k Hin Hin' Hk Hk'.
      destruct (block_facts s b Hin) as (X & c & Z & e & -> & LX & _ & _ & _ & He & _ & _ & Hents & _).
      destruct (block_facts s' b' Hin') as (X' & c' & Z' & e' & -> & LX' & _ & _ & _ & He' & _ & _ & Hents' & _).
      rewrite (upieces_eq X c Z e b LX He) in Hk. rewrite (upieces_eq X' c' Z' e' b' LX' He') in Hk'.
      rewrite map_map in Hk, Hk'. apply in_map_iff in Hk, Hk'.
      destruct Hk as ([ss [st len]] & Ek & Hr). destruct Hk' as ([ss' [st' len']] & Ek' & Hr').
      cbn [upiece fst snd] in Ek, Ek'.
      rewrite (replace_with_seq_middle X Z c ss axis LX) in Ek.
      rewrite (replace_with_seq_middle X' Z' c' ss' axis LX') in Ek'.
      apply ranges_bounds in Hr, Hr'. destruct Hr as (_ & _ & Hr). destruct Hr' as (_ & _ & Hr').
      rewrite Forall_forall in Hents, Hents'.
      destruct (Hents _ Hr) as ((Lss & _) & _ & Cs). destruct (Hents' _ Hr') as ((Lss' & _) & _ & Cs').
      cbn [fst snd] in *.
      assert (E : X ++ ss ++ Z = X' ++ ss' ++ Z') by congruence.
      apply app_inv_len in E; [|lia]. destruct E as (-> & E).
      apply app_inv_len in E; [|lia]. destruct E as (-> & ->).
      assert (Ec : c = c').
      { apply (sign_inj G GL c c' (idual G fi)).
        - destruct (block_facts _ _ Hin) as (X0 & c0 & Z0 & e0 & E0 & L0 & _ & _ & Hc0 & _).
          apply app_inv_len in E0; [|lia]. destruct E0 as (_ & E0). inversion E0. subst c0.
          apply (wf_index_charges_valid G fi c fi_wf Hc0).
        - destruct (block_facts _ _ Hin') as (X0 & c0 & Z0 & e0 & E0 & L0 & _ & _ & Hc0 & _).
          apply app_inv_len in E0; [|lia]. destruct E0 as (_ & E0). inversion E0. subst c0.
          apply (wf_index_charges_valid G fi c' fi_wf Hc0).
        - now rewrite <- Cs, <- Cs'. }
      subst c'.
      apply (NoDup_map_fst_inj (blocks G R x)); [exact Hnd|exact Hin|exact Hin'|reflexivity].
  Qed.

  Lemma IX_IZ_wf : IxsOK G IX /\ IxsOK G IZ.
  Proof.
    destruct W0 as [Hix _ _ _]. destruct ixs_split as (Eix & _). unfold IxsOK in *.
    rewrite Eix in Hix. apply Forall_app in Hix. destruct Hix as (H1 & H2).
    inversion H2; subst. split; assumption.
  Qed.

  Lemma UB_WF : WF G R (replace_with_seq ixs axis subs) q0 UB.
  Proof.
    destruct IX_IZ_wf as (HIX & HIZ). pose proof subs_wf as Hsw.
    constructor.
    - rewrite ixs'_eq. unfold IxsOK in *. apply Forall_app. split; [exact HIX|]. apply Forall_app. now split.
    - destruct W0 as [_ Hq _ _]. exact Hq.
    - exact UB_NoDup.
    - intros k t Hin. unfold UB in Hin. apply in_flat_map in Hin. destruct Hin as ([s b] & Hin & Hk).
      destruct (block_facts s b Hin) as (X & c & Z & e & -> & LX & TX & TZ & Hc & He & Hn & Hnde & Hents & Hsh & Hws & Hq).
      rewrite (upieces_eq X c Z e b LX He) in Hk. apply in_map_iff in Hk.
      destruct Hk as ([ss [st len]] & Ek & Hr). apply ranges_bounds in Hr. destruct Hr as (_ & _ & Hr).
      rewrite Forall_forall in Hents. destruct (Hents _ Hr) as (Tss & Hlen & Css). cbn [fst snd] in Tss, Hlen, Css.
      unfold upiece in Ek. cbn [fst snd] in Ek.
      rewrite (replace_with_seq_middle X Z c ss axis LX) in Ek.
      assert (LbX : length (block_shape G IX X) = axis).
      { rewrite block_shape_length; [apply ixs_split|apply TX]. }
      rewrite Hsh in Ek. rewrite (replace_with_seq_middle _ _ _ (subshape_of ss) axis LbX) in Ek.
      inversion Ek. subst k t. clear Ek.
      pose proof (wf_index_charges_valid G fi c fi_wf Hc) as Vc.
      pose proof (TabOK_VA IX X HIX TX) as VX. pose proof (TabOK_VA IZ Z HIZ TZ) as VZ.
      pose proof (TabOK_VA subs ss Hsw Tss) as Vss.
      pose proof (proj1 TX) as LX'. pose proof (proj1 TZ) as LZ'. pose proof (proj1 Tss) as Lss.
      split; [|split].
      + apply (SecOK_of G).
        * rewrite ixs'_eq. apply (TabOK_app G); [exact TX|]. apply (TabOK_app G); [exact Tss|exact TZ].
        * rewrite ixs'_eq, !map_app.
          rewrite (signed_sector_app G) by (rewrite map_length; exact LX').
          rewrite (signed_sector_app G) by (rewrite map_length; exact Lss).
          rewrite <- Hq.
          set (A := signed_sector G false X (map (idual G) IX)).
          set (B := signed_sector G false ss (map (idual G) subs)) in *.
          set (Cc := signed_sector G false Z (map (idual G) IZ)).
          assert (VA_A : VA A) by (apply (signed_sector_valid G GL); exact VX).
          assert (VA_B : VA B) by (apply (signed_sector_valid G GL); exact Vss).
          assert (VA_C : VA Cc) by (apply (signed_sector_valid G GL); exact VZ).
          assert (Vs : V (sign G c (idual G fi))) by (apply (sign_valid G GL); exact Vc).
          rewrite (combine_app_gadd G GL A (B ++ Cc)) by (try assumption; apply (valid_all_app_iff G GL); now split).
          rewrite (combine_app_gadd G GL B Cc) by assumption.
          rewrite (combine_app_gadd G GL A (sign G c (idual G fi) :: Cc))
            by (try assumption; apply (valid_all_cons_iff G GL); now split).
          rewrite (combine_cons G GL _ Cc Vs VA_C). now rewrite Css.
      + cbn [treshape tshape]. rewrite ixs'_eq.
        rewrite (block_shape_app G) by exact LX'. rewrite (block_shape_app G) by exact Lss. reflexivity.
      + cbn [treshape tshape tdata]. unfold tslice. rewrite length_tdata_build, Hsh.
        rewrite (set_nth_middle _ _ _ len axis LbX).
        rewrite !shape_size_app. change (shape_size (len :: block_shape G IZ Z)) with (len * shape_size (block_shape G IZ Z)).
        now rewrite Hlen.
  Qed.

  Lemma UB_content : Permutation (dict_entries R UB) (dict_entries R (blocks G R x)).
  Proof.
    unfold UB, dict_entries at 1. rewrite flat_map_flat_map. unfold dict_entries.
    apply perm_flat_map_ext. intros [s b] Hin. cbn [snd].
    destruct (block_facts s b Hin) as (X & c & Z & e & -> & LX & TX & _ & _ & He & Hn & _ & _ & Hsh & Hws & _).
    rewrite (upieces_eq X c Z e b LX He).
    rewrite flat_map_map'. unfold upiece. cbn [snd treshape tdata].
    rewrite <- (nz_flat_map R (fun q => tdata (tslice R b axis (fst (snd q)) (snd (snd q))))).
    apply nz_perm.
    rewrite <- (flat_map_map' snd (fun p => tdata (tslice R b axis (fst p) (snd p)))).
    unfold ranges_from. rewrite map_snd_combine.
    2:{ rewrite combine_length, length_starts_from, !map_length. lia. }
    assert (LbX : length (block_shape G IX X) = axis).
    { rewrite block_shape_length; [apply ixs_split|apply TX]. }
    assert (Hax : axis < length (tshape b)).
    { rewrite Hsh, app_length. cbn [length]. lia. }
    apply Permutation_sym. rewrite (tdata_full_slice R b axis Hws Hax).
    replace (nth axis (tshape b) 0) with (nsum (map snd e)).
    2:{ rewrite Hn, Hsh. symmetry. apply nth_middle_len. exact LbX. }
    apply (tslice_ranges R b axis Hax).
  Qed.

  (* the step, as a whole *)
  Theorem unfuse_step_spec : exists y,
    a_unfuse G R x axis = Some y /\
    indices G R y = replace_with_seq ixs axis subs /\
    wf_array G R y = true /\
    Permutation (dict_entries R (blocks G R y)) (dict_entries R (blocks G R x)).
  Proof.
    exists (mkA G R (replace_with_seq ixs axis subs) q0 UB).
    split; [exact (unfuse_as_pieces UB_NoDup)|]. split; [reflexivity|].
    split; [apply (wf_mk G GL R); exact UB_WF|exact UB_content].
  Qed.
End UnfuseStep.

(* ------------------------------------------------------------------ *)
(* Part 7: the three loops of reshape, and reshape itself *)
Section ReshapeContent.
  Context (G : Symmetry) (R : Ring) (GL : GroupLaws G) (OL : OrderLaws G) (ZT : ZeroTest R) (RL : RingLaws R).
  Notation arr := (aarray G R).
  Notation dflt := (dflt_index G).

  (* what "the content is unchanged" means *)
  Definition same_content (y x : arr) : Prop :=
    a_norm2 G R y = a_norm2 G R x /\ Permutation (stored_entries G R y) (stored_entries G R x).

  Lemma same_content_of_perm y x :
    Permutation (stored_entries G R y) (stored_entries G R x) -> same_content y x.
  Proof. intros H. split; [|exact H]. unfold a_norm2. now apply (dict_norm2_perm R ZT RL). Qed.

  Lemma same_content_refl x : same_content x x.
  Proof. apply same_content_of_perm. apply Permutation_refl. Qed.

  Lemma same_content_trans z y x : same_content z y -> same_content y x -> same_content z x.
  Proof. intros (N1 & P1) (N2 & P2). split; [now rewrite N1|eapply perm_trans; eassumption]. Qed.

  (* ---- unfuse ---- *)
  Theorem unfuse_content (x y : arr) (ax : nat) :
    wf_array G R x = true -> a_unfuse G R x ax = Some y ->
    wf_array G R y = true /\ same_content y x /\
    exists subs ext, isub G (nth ax (indices G R x) dflt) = Some (subs, ext) /\
                     indices G R y = replace_with_seq (indices G R x) ax subs.
  Proof.
    intros Hwf Hu.
    destruct (isub G (nth ax (indices G R x) dflt)) as [[subs ext]|] eqn:Hsub.
    2:{ unfold a_unfuse in Hu. rewrite Hsub in Hu. discriminate Hu. }
    destruct (unfuse_step_spec G R GL OL x ax subs ext Hwf Hsub) as (y' & Hy' & Hix & Hw & Hp).
    rewrite Hu in Hy'. inversion Hy'. subst y'.
    split; [exact Hw|]. split; [now apply same_content_of_perm|]. exists subs, ext. now split.
  Qed.

  Lemma unfuse_seq_content us : forall x y,
    wf_array G R x = true -> unfuse_seq G R us x = Some y -> wf_array G R y = true /\ same_content y x.
  Proof.
    induction us as [|ax us IH]; intros x y Hwf H; cbn [unfuse_seq] in H.
    - inversion H. subst y. split; [exact Hwf|apply same_content_refl].
    - destruct (a_unfuse G R x ax) as [x1|] eqn:E; [|discriminate].
      destruct (unfuse_content x x1 ax Hwf E) as (Hw1 & Hc1 & _).
      destruct (IH x1 y Hw1 H) as (Hw & Hc). split; [exact Hw|]. eapply same_content_trans; eassumption.
  Qed.

  (* ---- fuse: every call fuses ONE group of >= 2 axes (what C05 covers) ---- *)
  Definition single_group (grouping : list (list nat)) : bool :=
    match grouping with [g] => Nat.leb 2 (length g) | _ => false end.
  Definition plan_single_groups (p : ReshapeArgs.plan) : bool := forallb single_group (snd (fst p)).

  Lemma nodupb_NoDup_nat l : ReshapeArgs.nodupb l = true -> NoDup l.
  Proof.
    induction l as [|a l IH]; cbn [ReshapeArgs.nodupb]; intros H; [constructor|].
    apply andb_true_iff in H. destruct H as (H1 & H2). constructor; [|now apply IH].
    intros Hin. apply (memN_iff a l) in Hin. rewrite Hin in H1. discriminate H1.
  Qed.

  Theorem fuse_step_content (x y : arr) (g : list nat) :
    wf_array G R x = true -> 2 <= length g -> fuse_step G R x [g] = Some y ->
    wf_array G R y = true /\ same_content y x /\ y = fuse_core G R x [g] /\
    NoDup g /\ Forall (fun ax => ax < ndim G R x) g.
  Proof.
    intros Hwf Hlen H. unfold fuse_step, fuse_axes_ok in H. cbn [concat] in H. rewrite app_nil_r in H.
    destruct (ReshapeArgs.nodupb g) eqn:Hnd; [|discriminate]. cbn [andb] in H.
    destruct (forallb (fun ax => Nat.ltb ax (ndim G R x)) g) eqn:Hrng; [|discriminate].
    inversion H. subst y. clear H.
    apply nodupb_NoDup_nat in Hnd.
    assert (Hr : Forall (fun ax => ax < ndim G R x) g).
    { apply Forall_forall. intros ax Hax. rewrite forallb_forall in Hrng. apply Nat.ltb_lt. now apply Hrng. }
    rewrite a_fuse_single by (intros ->; cbn [length] in Hlen; lia).
    split; [now apply (fuse_single_group_wf G GL R OL)|].
    split; [apply same_content_of_perm; now apply (fuse_core_content G R GL OL ZT)|]. now repeat split.
  Qed.

  Lemma fuse_seq_content fs : forall x y,
    wf_array G R x = true -> forallb single_group fs = true -> fuse_seq G R fs x = Some y ->
    wf_array G R y = true /\ same_content y x.
  Proof.
    induction fs as [|gr fs IH]; intros x y Hwf Hs H; cbn [fuse_seq] in H.
    - inversion H. subst y. split; [exact Hwf|apply same_content_refl].
    - cbn [forallb] in Hs. apply andb_true_iff in Hs. destruct Hs as (Hg & Hs).
      destruct gr as [|g [|g' gr]]; try discriminate Hg. cbn [single_group] in Hg. apply Nat.leb_le in Hg.
      destruct (fuse_step G R x [g]) as [x1|] eqn:E; [|discriminate].
      destruct (fuse_step_content x x1 g Hwf Hg E) as (Hw1 & Hc1 & _).
      destruct (IH x1 y Hw1 Hs H) as (Hw & Hc). split; [exact Hw|]. eapply same_content_trans; eassumption.
  Qed.

  (* ---- expand_dims ---- *)
  Theorem expand_step_content (x y : arr) (ax : nat) :
    wf_array G R x = true -> expand_step G R x ax = Some y ->
    wf_array G R y = true /\ same_content y x.
  Proof.
    intros Hwf H. unfold expand_step in H. destruct (Nat.leb ax (ndim G R x)); [|discriminate].
    inversion H. subst y. split; [now apply (expand_dims_wf G GL R)|].
    apply same_content_of_perm. rewrite expand_dims_content. apply Permutation_refl.
  Qed.

  Lemma expand_seq_content es : forall x y,
    wf_array G R x = true -> expand_seq G R es x = Some y -> wf_array G R y = true /\ same_content y x.
  Proof.
    induction es as [|ax es IH]; intros x y Hwf H; cbn [expand_seq] in H.
    - inversion H. subst y. split; [exact Hwf|apply same_content_refl].
    - destruct (expand_step G R x ax) as [x1|] eqn:E; [|discriminate].
      destruct (expand_step_content x x1 ax Hwf E) as (Hw1 & Hc1).
      destruct (IH x1 y Hw1 H) as (Hw & Hc). split; [exact Hw|]. eapply same_content_trans; eassumption.
  Qed.

  (* ---- any plan that executes ---- *)
  Theorem exec_plan_content (p : ReshapeArgs.plan) (x y : arr) :
    wf_array G R x = true -> plan_single_groups p = true -> a_exec_plan G R p x = Some y ->
    wf_array G R y = true /\ same_content y x.
  Proof.
    destruct p as [[us fs] es]. unfold plan_single_groups, a_exec_plan. cbn [fst snd]. intros Hwf Hs H.
    destruct (unfuse_seq G R us x) as [x1|] eqn:E1; [|discriminate].
    destruct (fuse_seq G R fs x1) as [x2|] eqn:E2; [|discriminate].
    destruct (unfuse_seq_content us x x1 Hwf E1) as (W1 & C1).
    destruct (fuse_seq_content fs x1 x2 W1 Hs E2) as (W2 & C2).
    destruct (expand_seq_content es x2 y W2 H) as (W3 & C3).
    split; [exact W3|]. eapply same_content_trans; [exact C3|]. eapply same_content_trans; eassumption.
  Qed.

  (* the plan reshape executes *)
  Definition reshape_plan (x : arr) (shp : list Z) : ReshapeArgs.res ReshapeArgs.plan :=
    ReshapeArgs.calc_reshape_args (a_shape G R x) shp (a_subsizes G R x).

  Lemma reshape_some x shp y : a_reshape G R x shp = Some y ->
    exists p, reshape_plan x shp = ReshapeArgs.Ok p /\ a_exec_plan G R p x = Some y.
  Proof.
    unfold a_reshape, reshape_plan.
    destruct (ReshapeArgs.calc_reshape_args (a_shape G R x) shp (a_subsizes G R x)) as [p| | | |]; try discriminate.
    intros H. exists p. now split.
  Qed.

  (* reshaping never changes an array's content: the same norm and the same
     multiset of stored non-zero entries; the result is again well formed.
     PARTIAL only in that every fuse call of the executed plan has one group. *)
  Theorem reshape_content_partial (x y : arr) (shp : list Z) :
    wf_array G R x = true -> a_reshape G R x shp = Some y ->
    (forall p, reshape_plan x shp = ReshapeArgs.Ok p -> plan_single_groups p = true) ->
    wf_array G R y = true /\
    a_norm2 G R y = a_norm2 G R x /\ Permutation (stored_entries G R y) (stored_entries G R x).
  Proof.
    intros Hwf H Hs. destruct (reshape_some x shp y H) as (p & Hp & He).
    exact (exec_plan_content p x y Hwf (Hs p Hp) He).
  Qed.

  (* ---- reshape to the current shape ---- *)
  Theorem reshape_identity_no_match (x : arr) :
    ReshapeArgsProofs.no_match (a_shape G R x) (a_subsizes G R x) ->
    a_reshape G R x (a_shape G R x) = Some x.
  Proof.
    intros H. unfold a_reshape. rewrite (ReshapeArgsProofs.reshape_same_shape _ _ H). reflexivity.
  Qed.

  Theorem reshape_identity_no_fused (x : arr) :
    Forall (fun ix => isub G ix = None) (indices G R x) -> a_reshape G R x (a_shape G R x) = Some x.
  Proof.
    intros H. apply reshape_identity_no_match.
    replace (a_subsizes G R x) with (map (fun _ : Z => @None (list Z)) (a_shape G R x)).
    - apply ReshapeArgsProofs.no_match_none.
    - unfold a_subsizes, a_shape. rewrite map_map. apply map_ext_in. intros ix Hix.
      rewrite Forall_forall in H. unfold index_subsizes. now rewrite (H ix Hix).
  Qed.
End ReshapeContent.

(* the full statements (NOT proved): a fuse call with several groups at once
   (adjacent groups are fused simultaneously by the plan computation) is not
   covered by the C05 single-group theorems the proof rests on *)
Definition reshape_content_full : Prop :=
  forall (G : Symmetry) (R : Ring), GroupLaws G -> OrderLaws G -> ZeroTest R -> RingLaws R ->
  forall (x y : aarray G R) (shp : list Z),
    wf_array G R x = true -> a_reshape G R x shp = Some y ->
    a_norm2 G R y = a_norm2 G R x /\ Permutation (stored_entries G R y) (stored_entries G R x).

(* ------------------------------------------------------------------ *)
(* Part 8: the array executor is simulated by the plan executor on index trees
   (Model/ReshapeArgs.v): running the tree executor on the trees of the indices
   yields the trees of the result's indices *)
Lemma firstn_skipn_exact {A} (a b : list A) k : length a = k -> firstn k (a ++ b) = a /\ skipn k (a ++ b) = b.
Proof.
  intros <-. split.
  - rewrite firstn_app, Nat.sub_diag, firstn_all. cbn [firstn]. apply app_nil_r.
  - rewrite skipn_app, Nat.sub_diag, skipn_all. reflexivity.
Qed.

Lemma drop_axes_spec {A} (d : A) (axes : list nat) : forall (l : list A) from,
  ReshapeArgs.drop_axes from l axes =
  map (fun ax => nth (ax - from) l d) (filter (fun ax => negb (mem Nat.eqb ax axes)) (seq from (length l))).
Proof.
  induction l as [|a l IH]; intros from; [reflexivity|].
  cbn [ReshapeArgs.drop_axes length seq filter].
  assert (E : map (fun ax => nth (ax - from) (a :: l) d)
                  (filter (fun ax => negb (mem Nat.eqb ax axes)) (seq (S from) (length l)))
              = ReshapeArgs.drop_axes (S from) l axes).
  { rewrite IH. apply map_ext_in. intros ax Hax. apply filter_In in Hax. destruct Hax as (Hax & _).
    apply in_seq in Hax. replace (ax - from) with (S (ax - S from)) by lia. reflexivity. }
  destruct (mem Nat.eqb from axes); cbn [negb map].
  - symmetry. exact E.
  - rewrite Nat.sub_diag. cbn [nth]. f_equal. symmetry. exact E.
Qed.

Lemma nth_all_in_range {A} (d : A) (l : list A) : forall axes, Forall (fun ax => ax < length l) axes ->
  ReshapeArgs.nth_all l axes = Some (map (fun ax => nth ax l d) axes).
Proof.
  induction axes as [|a axes IH]; intros H; [reflexivity|].
  inversion H as [|? ? Ha Hr]; subst. cbn [ReshapeArgs.nth_all map].
  rewrite (nth_error_nth' l d Ha), (IH Hr). reflexivity.
Qed.

Lemma NoDup_nodupb_nat l : NoDup l -> ReshapeArgs.nodupb l = true.
Proof.
  induction 1 as [|a l Ha _ IH]; [reflexivity|]. cbn [ReshapeArgs.nodupb]. rewrite IH, andb_true_r.
  apply negb_true_iff. destruct (mem Nat.eqb a l) eqn:E; [|reflexivity]. apply (memN_iff a l) in E. contradiction.
Qed.

Section Simulation.
  Context (G : Symmetry) (R : Ring).
  Notation arr := (aarray G R).
  Notation dflt := (dflt_index G).
  Notation tree := ReshapeArgs.tree.
  Notation Leaf := ReshapeArgs.Leaf.
  Notation Fused := ReshapeArgs.Fused.
  Notation New := ReshapeArgs.New.

  (* the tree of an index: its total size if it is plain, its sub-indices if fused *)
  Fixpoint skel (ix : index G) : tree :=
    match ix with
    | Index _ cm _ None => Leaf 0 (Z.of_nat (nsum (map snd cm)))
    | Index _ _ _ (Some (subs, _)) => Fused (map skel subs)
    end.

  (* original-axis identities are forgotten, a fresh axis is a size-one leaf
     (an array cannot tell them apart) *)
  Fixpoint strip (t : tree) : tree :=
    match t with
    | ReshapeArgs.Leaf _ d => Leaf 0 d
    | ReshapeArgs.New => Leaf 0 1%Z
    | ReshapeArgs.Fused cs => Fused (map strip cs)
    end.

  Definition sim (ts : list tree) (ixs : list (index G)) : Prop := map strip ts = map skel ixs.

  Lemma skel_isub ix :
    skel ix = match isub G ix with
              | None => Leaf 0 (Z.of_nat (size_total G ix))
              | Some (subs, _) => Fused (map skel subs)
              end.
  Proof. destruct ix as [cm d [[subs ext]|]]; reflexivity. Qed.

  Lemma sim_length ts ixs : sim ts ixs -> length ts = length ixs.
  Proof. intros H. apply (f_equal (@length _)) in H. now rewrite !map_length in H. Qed.

  Definition t0 : tree := Leaf 0 0%Z.

  Lemma sim_nth ts ixs ax : sim ts ixs -> ax < length ixs -> strip (nth ax ts t0) = skel (nth ax ixs dflt).
  Proof.
    intros H Hax. rewrite <- (map_nth strip ts t0 ax), <- (map_nth skel ixs dflt ax), H.
    apply nth_indep. now rewrite map_length.
  Qed.

  Lemma sim_take ts ixs axes : sim ts ixs -> Forall (fun ax => ax < length ixs) axes ->
    map strip (map (fun ax => nth ax ts t0) axes) = map skel (map (fun ax => nth ax ixs dflt) axes).
  Proof.
    intros H Hr. rewrite !map_map. apply map_ext_in. intros ax Hax. rewrite Forall_forall in Hr.
    apply sim_nth; [exact H|now apply Hr].
  Qed.

  Lemma sim_unfuse ts ixs ax subs ext : sim ts ixs -> isub G (nth ax ixs dflt) = Some (subs, ext) ->
    exists ts', ReshapeArgs.exec_unfuse ax ts = Some ts' /\ sim ts' (replace_with_seq ixs ax subs).
  Proof.
    intros H Hsub.
    assert (Hax : ax < length ixs).
    { destruct (Nat.lt_ge_cases ax (length ixs)) as [Hl|Hl]; [exact Hl|].
      rewrite nth_overflow in Hsub by exact Hl. discriminate Hsub. }
    pose proof (sim_nth ts ixs ax H Hax) as Hn. rewrite skel_isub, Hsub in Hn.
    assert (Hlt : ax < length ts) by (rewrite (sim_length ts ixs H); exact Hax).
    destruct (nth ax ts t0) as [i d|cs|] eqn:Et; cbn [strip] in Hn; try discriminate Hn.
    inversion Hn as [Hcs]. clear Hn.
    exists (firstn ax ts ++ cs ++ skipn (S ax) ts). split.
    - unfold ReshapeArgs.exec_unfuse. now rewrite (nth_error_nth' ts t0 Hlt), Et.
    - unfold sim, replace_with_seq. rewrite !map_app, Hcs.
      rewrite <- !firstn_map, <- !skipn_map. now rewrite H.
  Qed.

  Lemma sim_expand ts ixs ax d : sim ts ixs -> ax <= length ixs ->
    exists ts', ReshapeArgs.exec_expand ax ts = Some ts' /\
                sim ts' (insert_nth ixs ax (Index G [(ident G, 1)] d None)).
  Proof.
    intros H Hax. exists (firstn ax ts ++ New :: skipn ax ts). split.
    - unfold ReshapeArgs.exec_expand. rewrite (sim_length ts ixs H).
      now rewrite (proj2 (Nat.leb_le ax (length ixs)) Hax).
    - unfold sim, insert_nth. rewrite !map_app. cbn [map strip skel nsum fold_right].
      rewrite <- !firstn_map, <- !skipn_map. now rewrite H.
  Qed.

  Lemma sim_fuse ts (x : arr) (g : list nat) : sim ts (indices G R x) ->
    NoDup g -> Forall (fun ax => ax < ndim G R x) g -> 2 <= length g ->
    exists ts', ReshapeArgs.exec_fuse [g] ts = Some ts' /\ sim ts' (indices G R (fuse_core G R x [g])).
  Proof.
    intros H Hnd Hrng Hlen. unfold ndim in Hrng.
    set (ixs := indices G R x) in *. set (n := length ixs).
    assert (Hne : g <> []) by (intros ->; cbn [length] in Hlen; lia).
    assert (Hlts : length ts = n) by (apply (sim_length ts ixs H)).
    assert (Hrts : Forall (fun ax => ax < length ts) g) by (now rewrite Hlts).
    set (nt := fun ax => nth ax ts t0).
    set (before := axes_before n [g]). set (after := axes_after n [g]).
    assert (Hrest : ReshapeArgs.drop_axes 0 ts g = map nt before ++ map nt after).
    { rewrite (drop_axes_spec t0 g ts 0). rewrite Hlts.
      assert (Hpos : fuse_position [g] <= n).
      { apply Nat.lt_le_incl. apply (pos_lt_n n g Hrng Hne). }
      replace n with (fuse_position [g] + (n - fuse_position [g])) at 1 by lia.
      rewrite seq_app, filter_app, map_app. cbn [Nat.add].
      unfold before, after, axes_before, axes_after, nt.
      f_equal; (erewrite filter_ext; [apply map_ext; intros ax; now rewrite Nat.sub_0_r|]).
      all: intros ax; cbv beta; rewrite group_of_single; now destruct (mem Nat.eqb ax g). }
    exists (map nt before ++ Fused (map nt g) :: map nt after). split.
    - unfold ReshapeArgs.exec_fuse. cbn [concat]. rewrite app_nil_r.
      destruct g as [|a g']; [contradiction|]. cbn [is_nil].
      rewrite (NoDup_nodupb_nat _ Hnd). cbn [negb map ReshapeArgs.all_some].
      rewrite (nth_all_in_range t0 ts (a :: g') Hrts). rewrite Hrest.
      assert (Lb : length (map nt before) = ReshapeArgs.list_min (a :: g')).
      { rewrite map_length. unfold before. rewrite (length_before n (a :: g') Hne). apply pos_eq. }
      destruct (firstn_skipn_exact (map nt before) (map nt after) _ Lb) as (-> & ->). reflexivity.
    - unfold sim. change (indices G R (fuse_core G R x [g])) with (fused_indices G ixs (sectors G R x) [g]).
      unfold ixs. rewrite (nixs_eq G R x g). fold ixs. fold n. fold before. fold after.
      rewrite !map_app. cbn [map strip].
      rewrite skel_isub, (fused_isub G ixs (sectors G R x) g (Hsing' G R x g Hlen)).
      unfold subs_of, nt.
      rewrite (sim_take ts ixs g H Hrng).
      rewrite (sim_take ts ixs before H), (sim_take ts ixs after H); [reflexivity| |].
      + apply Forall_forall. intros ax Hax. unfold after, axes_after in Hax. apply filter_In in Hax.
        destruct Hax as (Hax & _). apply in_seq in Hax.
        pose proof (pos_lt_n n g Hrng Hne). fold n. lia.
      + apply Forall_forall. intros ax Hax. unfold before, axes_before in Hax. apply filter_In in Hax.
        destruct Hax as (Hax & _). apply in_seq in Hax.
        pose proof (pos_lt_n n g Hrng Hne). fold n. lia.
  Qed.
End Simulation.

Section SimPlan.
  Context (G : Symmetry) (R : Ring) (GL : GroupLaws G) (OL : OrderLaws G) (ZT : ZeroTest R) (RL : RingLaws R).
  Notation arr := (aarray G R).
  Notation tree := ReshapeArgs.tree.

  Lemma strip_skel : forall ix : index G, strip (skel G ix) = skel G ix.
  Proof.
    fix IH 1. intros [cm d [[subs ext]|]]; [|reflexivity]. cbn [skel strip]. f_equal.
    induction subs as [|s subs IHs]; [reflexivity|]. cbn [map]. rewrite (IH s). f_equal. exact IHs.
  Qed.

  Lemma sim_skel ixs : sim G (map (skel G) ixs) ixs.
  Proof. unfold sim. rewrite map_map. apply map_ext. apply strip_skel. Qed.

  Lemma unfuse_seq_sim us : forall (x y : arr) ts,
    wf_array G R x = true -> unfuse_seq G R us x = Some y -> sim G ts (indices G R x) ->
    exists ts', ReshapeArgs.exec_seq ReshapeArgs.exec_unfuse us ts = Some ts' /\ sim G ts' (indices G R y).
  Proof.
    induction us as [|ax us IH]; intros x y ts Hwf H Hs; cbn [unfuse_seq] in H.
    - inversion H. subst y. exists ts. now split.
    - destruct (a_unfuse G R x ax) as [x1|] eqn:E; [|discriminate].
      destruct (unfuse_content G R GL OL ZT RL x x1 ax Hwf E) as (W1 & _ & subs & ext & Hsub & Hix).
      destruct (sim_unfuse G ts _ ax subs ext Hs Hsub) as (t1 & E1 & S1). rewrite <- Hix in S1.
      destruct (IH x1 y t1 W1 H S1) as (ts' & E' & S'). exists ts'. split; [|exact S'].
      cbn [ReshapeArgs.exec_seq]. now rewrite E1.
  Qed.

  Lemma fuse_seq_sim fs : forall (x y : arr) ts,
    wf_array G R x = true -> forallb single_group fs = true -> fuse_seq G R fs x = Some y ->
    sim G ts (indices G R x) ->
    exists ts', ReshapeArgs.exec_seq ReshapeArgs.exec_fuse fs ts = Some ts' /\ sim G ts' (indices G R y).
  Proof.
    induction fs as [|gr fs IH]; intros x y ts Hwf Hsg H Hs; cbn [fuse_seq] in H.
    - inversion H. subst y. exists ts. now split.
    - cbn [forallb] in Hsg. apply andb_true_iff in Hsg. destruct Hsg as (Hg & Hsg).
      destruct gr as [|g [|g' gr]]; try discriminate Hg. cbn [single_group] in Hg. apply Nat.leb_le in Hg.
      destruct (fuse_step G R x [g]) as [x1|] eqn:E; [|discriminate].
      destruct (fuse_step_content G R GL OL ZT RL x x1 g Hwf Hg E) as (W1 & _ & -> & Hnd & Hrng).
      destruct (sim_fuse G R ts x g Hs Hnd Hrng Hg) as (t1 & E1 & S1).
      destruct (IH _ y t1 W1 Hsg H S1) as (ts' & E' & S'). exists ts'. split; [|exact S'].
      cbn [ReshapeArgs.exec_seq]. now rewrite E1.
  Qed.

  Lemma expand_seq_sim es : forall (x y : arr) ts,
    expand_seq G R es x = Some y -> sim G ts (indices G R x) ->
    exists ts', ReshapeArgs.exec_seq ReshapeArgs.exec_expand es ts = Some ts' /\ sim G ts' (indices G R y).
  Proof.
    induction es as [|ax es IH]; intros x y ts H Hs; cbn [expand_seq] in H.
    - inversion H. subst y. exists ts. now split.
    - unfold expand_step in H. destruct (Nat.leb ax (ndim G R x)) eqn:El; [|discriminate].
      apply Nat.leb_le in El.
      set (d := if Nat.ltb 0 ax then idual G (nth (ax - 1) (indices G R x) (dflt_index G))
                else if Nat.ltb ax (ndim G R x) then idual G (nth ax (indices G R x) (dflt_index G)) else false).
      destruct (sim_expand G ts _ ax d Hs El) as (t1 & E1 & S1).
      destruct (IH (a_expand_dims G R x ax) y t1 H S1) as (ts' & E' & S'). exists ts'. split; [|exact S'].
      cbn [ReshapeArgs.exec_seq]. now rewrite E1.
  Qed.

  (* the simulation: whatever plan is executed on the array, the tree executor of
     Model/ReshapeArgs.v runs the same plan on the trees of the indices and ends
     in the trees of the result's indices *)
  Theorem exec_plan_sim (p : ReshapeArgs.plan) (x y : arr) ts :
    wf_array G R x = true -> plan_single_groups p = true -> a_exec_plan G R p x = Some y ->
    sim G ts (indices G R x) ->
    exists ts', ReshapeArgs.exec_plan p ts = Some ts' /\ sim G ts' (indices G R y).
  Proof.
    destruct p as [[us fs] es]. unfold plan_single_groups, a_exec_plan, ReshapeArgs.exec_plan. cbn [fst snd].
    intros Hwf Hsg H Hs.
    destruct (unfuse_seq G R us x) as [x1|] eqn:E1; [|discriminate].
    destruct (fuse_seq G R fs x1) as [x2|] eqn:E2; [|discriminate].
    destruct (unfuse_seq_content G R GL OL ZT RL us x x1 Hwf E1) as (W1 & _).
    destruct (unfuse_seq_sim us x x1 ts Hwf E1 Hs) as (t1 & T1 & S1).
    destruct (fuse_seq_sim fs x1 x2 t1 W1 Hsg E2 S1) as (t2 & T2 & S2).
    destruct (expand_seq_sim es x2 y t2 H S2) as (t3 & T3 & S3).
    exists t3. rewrite T1, T2. now split.
  Qed.

  (* rank and axis structure of the result of reshape, read off the tree run *)
  Theorem reshape_simulation_partial (x y : arr) (shp : list Z) :
    wf_array G R x = true -> a_reshape G R x shp = Some y ->
    (forall p, reshape_plan G R x shp = ReshapeArgs.Ok p -> plan_single_groups p = true) ->
    exists p ts', reshape_plan G R x shp = ReshapeArgs.Ok p /\
      ReshapeArgs.exec_plan p (map (skel G) (indices G R x)) = Some ts' /\
      sim G ts' (indices G R y) /\ ndim G R y = length ts' /\
      ReshapePlanProofs.size_prod ts' = ReshapePlanProofs.size_prod (map (skel G) (indices G R x)).
  Proof.
    intros Hwf H Hsg. destruct (reshape_some G R x shp y H) as (p & Hp & He).
    destruct (exec_plan_sim p x y _ Hwf (Hsg p Hp) He (sim_skel (indices G R x))) as (ts' & Et & St).
    exists p, ts'. split; [exact Hp|]. split; [exact Et|]. split; [exact St|].
    split; [symmetry; apply (sim_length G ts' _ St)|].
    apply (ReshapePlanProofs.exec_plan_keeps p _ _ Et).
  Qed.
End SimPlan.

(* ------------------------------------------------------------------ *)
(* Part 9: a fused index is never larger than the product of its sub-indices
   (equal only when every combination of sub-charges is realised) *)
Lemma nsum_filter_split {A} (f : A -> bool) (w : A -> nat) l :
  nsum (map w l) = nsum (map w (filter f l)) + nsum (map w (filter (fun a => negb (f a)) l)).
Proof.
  induction l as [|a l IH]; [reflexivity|]. cbn [map filter nsum fold_right]. fold (nsum (map w l)).
  destruct (f a); cbn [negb map nsum fold_right]; rewrite IH; unfold nsum; lia.
Qed.

Section SizeBound.
  Context (G : Symmetry) (GL : GroupLaws G) (OL : OrderLaws G).
  Notation sector := (list (C G)).
  Notation dflt := (dflt_index G).
  Notation idc := (ident G).

  (* the dense size of an index: the product of the dense sizes of its sub-indices *)
  Fixpoint dsize (ix : index G) : nat :=
    match ix with
    | Index _ cm _ None => nsum (map snd cm)
    | Index _ _ _ (Some (subs, _)) => nprod (map dsize subs)
    end.

  Lemma tsize_skel : forall ix, ReshapeArgs.tsize (skel G ix) = Z.of_nat (dsize ix).
  Proof.
    fix IH 1. intros [cm d [[subs ext]|]]; [|reflexivity]. cbn [skel dsize].
    rewrite ReshapePlanProofs.tsize_fused. unfold ReshapePlanProofs.size_prod, ReshapeArgs.shape_of.
    induction subs as [|s subs IHs]; [reflexivity|].
    cbn [map ReshapeArgs.zprod fold_right nprod]. rewrite Nat2Z.inj_mul, <- (IH s). f_equal. exact IHs.
  Qed.

  Definition wprod (subs : list (index G)) (ss : sector) : nat :=
    nprod (map (fun q => size_of G (fst q) (snd q)) (List.combine subs ss)).
  Definition EOK (subs : list (index G)) (p : sector * nat) : Prop :=
    TabOK G subs (fst p) /\ snd p = wprod subs (fst p).

  (* distinct tuples of charges: the sum of the products is at most the product of the sums *)
  Lemma sum_prod_le : forall (subs : list (index G)) (L : list (sector * nat)),
    Forall (fun ix => cm_ok G (chargemap G ix) = true) subs ->
    NoDup (map fst L) -> Forall (EOK subs) L ->
    nsum (map snd L) <= nprod (map (size_total G) subs).
  Proof.
    induction subs as [|sub subs IH]; intros L Hcm Hnd Hok.
    - destruct L as [|p [|p' L]]; cbn [map nsum nprod fold_right]; [lia| |].
      + inversion Hok as [|? ? (_ & Hs) _]; subst. rewrite Hs. unfold wprod. cbn. lia.
      + exfalso. inversion Hok as [|? ? ((Hl & _) & _) Hok']; subst.
        inversion Hok' as [|? ? ((Hl' & _) & _) _]; subst.
        cbn [length] in Hl, Hl'. apply length_zero_iff_nil in Hl, Hl'.
        cbn [map] in Hnd. rewrite Hl, Hl' in Hnd. inversion Hnd as [|? ? Hn _]. apply Hn. now left.
    - inversion Hcm as [|? ? Hc Hcm']; subst.
      set (P' := nprod (map (size_total G) subs)).
      cbn [map nprod fold_right]. fold P'. unfold size_total at 1.
      pose proof (cm_keys_NoDup G OL _ Hc) as Hkeys.
      (* inner induction over a part of the charge map of the first sub-index *)
      assert (Inner : forall part, incl part (chargemap G sub) -> NoDup (map fst part) ->
                forall L, NoDup (map fst L) -> Forall (EOK (sub :: subs)) L ->
                  (forall p, In p L -> In (hd idc (fst p)) (map fst part)) ->
                  nsum (map snd L) <= nsum (map snd part) * P').
      { induction part as [|[c d] part IHp]; intros Hinc Hndp L0 Hnd0 Hok0 Hhd.
        - destruct L0 as [|p L0]; [cbn; lia|]. exfalso. apply (Hhd p). now left.
        - set (isc := fun p : sector * nat => ceqb G (hd idc (fst p)) c).
          rewrite (nsum_filter_split isc snd L0).
          cbn [map nsum fold_right]. fold (nsum (map snd part)). rewrite Nat.mul_add_distr_r.
          inversion Hndp as [|? ? Hnc Hndp']; subst.
          apply Nat.add_le_mono.
          + (* the tuples starting with c *)
            set (L1 := filter isc L0).
            set (L1' := map (fun p => (tl (fst p), wprod subs (tl (fst p)))) L1).
            assert (H1 : forall p, In p L1 -> exists ss', fst p = c :: ss' /\ TabOK G subs ss' /\ snd p = d * wprod subs ss').
            { intros p Hp. apply filter_In in Hp. destruct Hp as (Hp & Hisc).
              rewrite Forall_forall in Hok0. destruct (Hok0 p Hp) as (Ht & Hs).
              apply (TabOK_F2 G) in Ht. inversion Ht as [|? c' ? ss' Hc' Hss' E1 E2]; subst.
              unfold isc in Hisc. rewrite <- E2 in Hisc. cbn [hd] in Hisc. apply (ceqb_eq G GL) in Hisc. subst c'.
              exists ss'. split; [now symmetry|]. split; [now apply (TabOK_F2 G)|].
              assert (Hd : size_of G sub c = d).
              { unfold size_of. rewrite (In_lookup (ceqb G) (Hce G GL) c d _ Hkeys); [reflexivity|].
                apply Hinc. now left. }
              rewrite Hs, <- E2. unfold wprod. cbn [List.combine map nprod fold_right fst snd]. now rewrite Hd. }
            assert (Hsum : nsum (map snd L1) = d * nsum (map snd L1')).
            { unfold L1'. clearbody L1. induction L1 as [|p L1 IHl]; [cbn; lia|].
              cbn [map nsum fold_right]. fold (nsum (map snd L1)).
              rewrite IHl by (intros p' Hp'; apply H1; now right).
              destruct (H1 p) as (ss' & E & _ & Hs); [now left|]. rewrite Hs, E. cbn [tl fst snd].
              unfold nsum. lia. }
            rewrite Hsum. apply Nat.mul_le_mono_l. apply IH; [exact Hcm'| |].
            * unfold L1'. rewrite map_map. cbn [fst].
              replace (map (fun p => tl (fst p)) L1) with (map (@tl _) (map fst L1)) by (now rewrite map_map).
              apply NoDup_map_inj_in; [|unfold L1; apply NoDup_map_filter; exact Hnd0].
              intros a b Ha Hb E. apply in_map_iff in Ha, Hb.
              destruct Ha as (pa & <- & Hpa). destruct Hb as (pb & <- & Hpb).
              destruct (H1 pa Hpa) as (sa & Ea & _). destruct (H1 pb Hpb) as (sb & Eb & _).
              rewrite Ea, Eb in *. cbn [tl] in E. now rewrite E.
            * unfold L1'. apply Forall_forall. intros p' Hp'. apply in_map_iff in Hp'.
              destruct Hp' as (p & <- & Hp). destruct (H1 p Hp) as (ss' & E & Ht & _).
              unfold EOK. cbn [fst snd]. rewrite E. cbn [tl]. now split.
          + (* the others start with a charge of the rest *)
            apply IHp.
            * intros a Ha. apply Hinc. now right.
            * exact Hndp'.
            * apply NoDup_map_filter. exact Hnd0.
            * apply Forall_forall. intros p Hp. apply filter_In in Hp. rewrite Forall_forall in Hok0. now apply Hok0.
            * intros p Hp. apply filter_In in Hp. destruct Hp as (Hp & Hn).
              destruct (Hhd p Hp) as [E|Hr]; [|exact Hr]. cbn [fst] in E.
              unfold isc in Hn. rewrite <- E in Hn. rewrite (proj2 (ceqb_eq G GL _ _) eq_refl) in Hn. discriminate Hn. }
      apply (Inner (chargemap G sub) (incl_refl _) Hkeys L Hnd Hok).
      intros p Hp. rewrite Forall_forall in Hok. destruct (Hok p Hp) as (Ht & _).
      apply (TabOK_F2 G) in Ht. inversion Ht as [|? c' ? ss' Hc' _ E1 E2]; subst. cbn [hd]. exact Hc'.
  Qed.
End SizeBound.

Section SizeBound2.
  Context (G : Symmetry) (GL : GroupLaws G) (OL : OrderLaws G).
  Notation sector := (list (C G)).
  Notation sec_ltb := (list_ltb (cltb G) (ceqb G)).
  Notation dflt := (dflt_index G).
  Notation idc := (ident G).

  Lemma nprod_le_mono {A} (f h : A -> nat) l : (forall a, In a l -> f a <= h a) -> nprod (map f l) <= nprod (map h l).
  Proof.
    induction l as [|a l IH]; intros H; [cbn; lia|]. cbn [map nprod fold_right].
    apply Nat.mul_le_mono; [apply H; now left|apply IH; intros b Hb; apply H; now right].
  Qed.

  (* the sizes recorded in a well-formed fused index never exceed the dense product *)
  Theorem size_total_le_dsize : forall ix : index G, wf_index G ix = true -> size_total G ix <= dsize G ix.
  Proof.
    fix IH 1. intros [cm d [[subs ext]|]] Hwf; [|apply Nat.le_refl].
    rewrite WfProofs.wf_index_unfold in Hwf. rewrite !andb_true_iff in Hwf.
    destruct Hwf as (Hcm & (((((_ & _) & Hsubs) & _) & _) & Hall)).
    rewrite forallb_forall in Hall, Hsubs.
    cbn [dsize]. unfold size_total. cbn [chargemap].
    set (F := fun p : C G * nat => match lookup (ceqb G) (fst p) ext with Some e => e | None => [] end).
    set (L := flat_map F cm).
    assert (Hp : forall p, In p cm -> nsum (map snd (F p)) = snd p /\ NoDup (map fst (F p)) /\
              Forall (fun q => EOK G subs q /\
                combine G (map (fun r => sign G (snd r) (negb (Bool.eqb d (idual G (fst r))))) (List.combine subs (fst q))) = fst p) (F p)).
    { intros p Hin. specialize (Hall p Hin). unfold F. destruct (lookup (ceqb G) (fst p) ext) as [e|]; [|discriminate].
      unfold extent_ok in Hall. rewrite !andb_true_iff in Hall. destruct Hall as ((Hs & Hsort) & Hents).
      apply Nat.eqb_eq in Hs. split; [exact Hs|]. split.
      { apply (SS_NoDup sec_ltb _ (Hso G GL OL)). apply (SS_of_sorted_by sec_ltb _ (Hso G GL OL)). exact Hsort. }
      apply Forall_forall. intros [ss sz] Hq. rewrite forallb_forall in Hents. specialize (Hents _ Hq).
      cbn [fst snd] in *. rewrite !andb_true_iff in Hents. destruct Hents as (((Hl & Hm) & Hsz) & Hcomb).
      apply Nat.eqb_eq in Hl. apply Nat.eqb_eq in Hsz. apply (ceqb_eq G GL) in Hcomb.
      split; [|exact Hcomb]. split; [|exact Hsz]. split; [exact Hl|]. intros i Hi.
      apply (proj1 (StructProofs.forallb_combine_nth (fun p => mem (ceqb G) (snd p) (icharges G (fst p))) dflt idc subs ss (eq_sym Hl))) with (i := i) in Hm; [|exact Hi].
      cbn [fst snd] in Hm. now apply (mem_ceqb_In G GL). }
    assert (Hsum : nsum (map snd L) = nsum (map snd cm)).
    { unfold L. clear Hall. induction cm as [|p cm IHc]; [reflexivity|].
      cbn [flat_map map nsum fold_right]. rewrite map_app, nsum_app.
      rewrite (proj1 (Hp p (or_introl eq_refl))). fold (nsum (map snd cm)). f_equal.
      apply IHc; [|intros p' Hp'; apply Hp; now right].
      unfold cm_ok in *. rewrite andb_true_iff in *. destruct Hcm as (Hs & Hf). split.
      - cbn [map] in Hs. destruct (map fst cm) eqn:E; [reflexivity|]. cbn [sorted_by] in Hs.
        apply andb_true_iff in Hs. apply Hs.
      - cbn [forallb] in Hf. apply andb_true_iff in Hf. apply Hf. }
    rewrite <- Hsum.
    eapply Nat.le_trans; [apply (sum_prod_le G GL OL subs L)|].
    - apply Forall_forall. intros s Hs. apply (wf_index_cm G). now apply Hsubs.
    - unfold L. rewrite map_flat_map. apply NoDup_flat_map.
      + apply NoDup_map_fst_NoDup. apply (cm_keys_NoDup G OL cm Hcm).
      + intros p Hin. apply (Hp p Hin).
      + intros p p' ss Hin Hin' Hss Hss'. apply in_map_iff in Hss, Hss'.
        destruct Hss as (q & <- & Hq). destruct Hss' as (q' & Eq & Hq').
        destruct (Hp p Hin) as (_ & _ & Ha). destruct (Hp p' Hin') as (_ & _ & Ha').
        rewrite Forall_forall in Ha, Ha'. destruct (Ha q Hq) as (_ & Cq). destruct (Ha' q' Hq') as (_ & Cq').
        rewrite Eq in Cq'. apply (NoDup_map_fst_inj cm); [apply (cm_keys_NoDup G OL cm Hcm)|exact Hin|exact Hin'|].
        now rewrite <- Cq, <- Cq'.
    - unfold L. apply Forall_forall. intros q Hq. apply in_flat_map in Hq. destruct Hq as (p & Hin & Hq).
      destruct (Hp p Hin) as (_ & _ & Ha). rewrite Forall_forall in Ha. apply (Ha q Hq).
    - clear Hall Hp Hsum L F. induction subs as [|s subs IHs]; [cbn; lia|].
      cbn [map nprod fold_right]. apply Nat.mul_le_mono.
      + apply (IH s). apply Hsubs. now left.
      + apply IHs. intros s' Hs'. apply Hsubs. now right.
  Qed.

  Corollary size_total_le_tsize ix : wf_index G ix = true ->
    (Z.of_nat (size_total G ix) <= ReshapeArgs.tsize (skel G ix))%Z.
  Proof. intros H. rewrite (tsize_skel G). apply Nat2Z.inj_le. now apply size_total_le_dsize. Qed.
End SizeBound2.

(* ------------------------------------------------------------------ *)
(* Part 10: rank and axis sizes of the result of reshape *)
Section RankSizes.
  Context (G : Symmetry) (R : Ring) (GL : GroupLaws G) (OL : OrderLaws G) (ZT : ZeroTest R) (RL : RingLaws R).
  Notation arr := (aarray G R).

  Lemma tsize_strip : forall t, ReshapeArgs.tsize (strip t) = ReshapeArgs.tsize t.
  Proof.
    fix IH 1. intros [i d|cs|]; try reflexivity. cbn [strip].
    rewrite !ReshapePlanProofs.tsize_fused. unfold ReshapePlanProofs.size_prod, ReshapeArgs.shape_of.
    induction cs as [|c cs IHc]; [reflexivity|]. cbn [map ReshapeArgs.zprod fold_right]. rewrite (IH c). f_equal. exact IHc.
  Qed.

  (* whenever reshape returns (every fuse call of its plan having one group): the
     tree executor runs the same plan on the trees of the indices; the result has
     as many axes as that run, and no axis is larger than the tree run says — a
     fused axis of a block-sparse array can be smaller.  In particular, when the
     tree run has the requested shape, the array has exactly `length shp` axes
     and axis k has size <= nth k shp. *)
  Theorem reshape_rank_and_sizes_partial (x y : arr) (shp : list Z) :
    wf_array G R x = true -> a_reshape G R x shp = Some y ->
    (forall p, reshape_plan G R x shp = ReshapeArgs.Ok p -> plan_single_groups p = true) ->
    exists p ts', reshape_plan G R x shp = ReshapeArgs.Ok p /\
      ReshapeArgs.exec_plan p (map (skel G) (indices G R x)) = Some ts' /\
      ndim G R y = length ts' /\
      (forall k, k < ndim G R y ->
         (Z.of_nat (size_total G (nth k (indices G R y) (dflt_index G))) <= nth k (ReshapeArgs.shape_of ts') 0)%Z) /\
      (ReshapeArgs.shape_of ts' = shp ->
         ndim G R y = length shp /\
         forall k, k < length shp ->
           (Z.of_nat (size_total G (nth k (indices G R y) (dflt_index G))) <= nth k shp 0)%Z).
  Proof.
    intros Hwf H Hsg.
    destruct (reshape_simulation_partial G R GL OL ZT RL x y shp Hwf H Hsg) as (p & ts' & Hp & Et & St & Hn & _).
    destruct (reshape_content_partial G R GL OL ZT RL x y shp Hwf H Hsg) as (Wy & _).
    exists p, ts'. split; [exact Hp|]. split; [exact Et|]. split; [exact Hn|].
    assert (B : forall k, k < ndim G R y ->
      (Z.of_nat (size_total G (nth k (indices G R y) (dflt_index G))) <= nth k (ReshapeArgs.shape_of ts') 0)%Z).
    { intros k Hk. unfold ndim in Hk.
      assert (Hw : wf_index G (nth k (indices G R y) (dflt_index G)) = true).
      { apply (wf_array_iff G GL R) in Wy. destruct Wy as [Hix _ _ _]. unfold IxsOK in Hix.
        rewrite Forall_forall in Hix. apply Hix. now apply nth_In. }
      eapply Z.le_trans; [apply (size_total_le_tsize G GL OL _ Hw)|].
      rewrite <- (sim_nth G ts' _ k St Hk), tsize_strip.
      unfold ReshapeArgs.shape_of. change 0%Z with (ReshapeArgs.tsize (t0)).
      rewrite map_nth. apply Z.le_refl. }
    split; [exact B|]. intros Es. rewrite <- Es. unfold ReshapeArgs.shape_of at 1 2. rewrite map_length.
    split; [exact Hn|]. intros k Hk. apply B. now rewrite Hn.
  Qed.
End RankSizes.

(* the full statement.  It would need (1) fuse calls with several groups and
   (2) that the plan of `calc_reshape_args` always produces the requested shape on
   the trees — proved in Props/C07.v only over the property's finite domain and
   for sub-sizes that are the dense products.  On the pinned code it is in fact
   FALSE (known finding F12b): see reshape_rank_and_sizes_full_refuted below *)
Definition reshape_rank_and_sizes_full : Prop :=
  forall (G : Symmetry) (R : Ring), GroupLaws G -> OrderLaws G ->
  forall (x y : aarray G R) (shp : list Z),
    wf_array G R x = true -> a_reshape G R x shp = Some y ->
    ndim G R y = length shp /\
    forall k, k < length shp ->
      (Z.of_nat (size_total G (nth k (indices G R y) (dflt_index G))) <= nth k shp 0)%Z.

Lemma norm_of_entries (G : Symmetry) (R : Ring) : ZeroTest R -> RingLaws R ->
  forall y x : aarray G R,
  Permutation (stored_entries G R y) (stored_entries G R x) -> a_norm2 G R y = a_norm2 G R x.
Proof. intros ZT RL y x H. exact (proj1 (same_content_of_perm G R ZT RL y x H)). Qed.

(* known finding F12b on the array level refutes the full statement on the pinned
   code: a well-formed array of shape (2,2) whose first axis is a block-sparse
   fusion of two size-two axes (sub-sizes (2,2)); reshape((2,2)) unfuses it and
   fuses the last two axes: the result has shape (2,4), an axis LARGER than requested *)
Definition b2 : index Z2 := Index Z2 [(0%Z, 1); (1%Z, 1)] false None.
Definition f12b_base : aarray Z2 ZRing :=
  mkA Z2 ZRing [b2; b2; Index Z2 [(0%Z, 2)] false None] 0%Z
    [([0; 0; 0]%Z, zt [1; 1; 2] [1; 2]%Z); ([1; 1; 0]%Z, zt [1; 1; 2] [3; 4]%Z)].
Definition f12b : aarray Z2 ZRing := fuse_core Z2 ZRing f12b_base [[0; 1]].

Lemma f12b_facts :
  wf_array Z2 ZRing f12b = true /\ a_shape Z2 ZRing f12b = [2; 2]%Z /\
  a_subsizes Z2 ZRing f12b = [Some [2; 2]%Z; None] /\
  reshape_plan Z2 ZRing f12b [2; 2]%Z = ReshapeArgs.Ok ([0], [[[1; 2]]], []) /\
  exists y, a_reshape Z2 ZRing f12b [2; 2]%Z = Some y /\ a_shape Z2 ZRing y = [2; 4]%Z /\
            stored_entries Z2 ZRing y = stored_entries Z2 ZRing f12b.
Proof.
  split; [vm_compute; reflexivity|]. split; [vm_compute; reflexivity|]. split; [vm_compute; reflexivity|].
  split; [vm_compute; reflexivity|]. eexists. split; [vm_compute; reflexivity|]. split; vm_compute; reflexivity.
Qed.

Lemma reshape_rank_and_sizes_full_refuted : ~ reshape_rank_and_sizes_full.
Proof.
  intros H. destruct f12b_facts as (Hw & _ & _ & _ & y & Hy & Hs & _).
  destruct (H Z2 ZRing Z2_laws Z2_order f12b y [2; 2]%Z Hw Hy) as (_ & Hk).
  specialize (Hk 1). cbn [length] in Hk. specialize (Hk (le_n 2)).
  unfold a_shape in Hs.
  assert (E : Z.of_nat (size_total Z2 (nth 1 (indices Z2 ZRing y) (dflt_index Z2))) = 4%Z).
  { change 4%Z with (nth 1 [2; 4]%Z (Z.of_nat (size_total Z2 (dflt_index Z2)))). rewrite <- Hs.
    now rewrite (map_nth (fun ix => Z.of_nat (size_total Z2 ix))). }
  rewrite E in Hk. cbn [nth] in Hk. lia.
Qed.

(* ------------------------------------------------------------------ *)
(* Examples: the hypotheses hold on concrete, non-trivial instances *)
Section ContentExamples.
  Local Open Scope Z_scope.

  (* U1, rank 3, first axis already fused (2 x 3 -> 6, sparse), reshaped to
     (2, 3, 12): the plan unfuses axis 0 and then fuses the last two axes —
     a fuse after an unfuse, on a block-sparse array; the fused axis gets size 9 < 12 *)
  Example reshape_content_example :
    wf_array U1 ZRing ex_u = true /\
    reshape_plan U1 ZRing ex_u [2; 3; 12] = ReshapeArgs.Ok ([0%nat], [[[2%nat; 3%nat]]], []) /\
    plan_single_groups ([0%nat], [[[2%nat; 3%nat]]], []) = true /\
    (exists y, a_reshape U1 ZRing ex_u [2; 3; 12] = Some y /\ a_shape U1 ZRing y = [2; 3; 9] /\
       stored_entries U1 ZRing y = [1; 2; 3; 4; 1; -1; 1; 2; -2; 1; 3; -3; 2; 2; 5; 7] /\
       a_norm2 U1 ZRing y = 142) /\
    stored_entries U1 ZRing ex_u = [1; 2; 3; 4; 1; -1; 2; -2; 3; -3; 5; 7; 1; 1; 2; 2] /\
    a_norm2 U1 ZRing ex_u = 142.
  Proof.
    split; [vm_compute; reflexivity|]. split; [vm_compute; reflexivity|]. split; [reflexivity|].
    split; [|split; vm_compute; reflexivity].
    eexists. split; [vm_compute; reflexivity|]. split; [|split]; vm_compute; reflexivity.
  Qed.

  (* the theorem applied to it *)
  Example reshape_content_applies y :
    a_reshape U1 ZRing ex_u [2; 3; 12] = Some y ->
    wf_array U1 ZRing y = true /\ a_norm2 U1 ZRing y = a_norm2 U1 ZRing ex_u /\
    Permutation (stored_entries U1 ZRing y) (stored_entries U1 ZRing ex_u).
  Proof.
    intros H.
    apply (reshape_content_partial U1 ZRing U1_laws U1_order ZRing_zero_test ZRing_laws ex_u y [2; 3; 12]);
      [vm_compute; reflexivity|exact H|].
    intros p Hp. vm_compute in Hp. inversion Hp. reflexivity.
  Qed.

  (* the three step theorems on concrete steps *)
  Example unfuse_content_example :
    wf_array U1 ZRing ex_u = true /\ is_none (a_unfuse U1 ZRing ex_u 0) = false.
  Proof. split; vm_compute; reflexivity. Qed.

  Example fuse_content_example :
    wf_array Z2 ZRing ex4 = true /\ NoDup [0; 2]%nat /\ Forall (fun ax => (ax < ndim Z2 ZRing ex4)%nat) [0; 2]%nat /\
    (2 <= length [0; 2]%nat)%nat /\
    stored_entries Z2 ZRing (a_fuse Z2 ZRing ex4 [[0; 2]%nat]) = [7; 5; 6; 8; 9; 1; 2; 3; 4; 10; 12; 11; 13] /\
    stored_entries Z2 ZRing ex4 = [7; 1; 2; 3; 4; 5; 6; 8; 9; 10; 11; 12; 13].
  Proof.
    destruct ex4_hyps as (H1 & H2 & H3 & H4). repeat split; try assumption; vm_compute; reflexivity.
  Qed.

  (* reshape to the current shape, no fused axis: identity *)
  Example reshape_identity_example :
    Forall (fun ix => isub Z2 ix = None) (indices Z2 ZRing ex4) /\
    a_reshape Z2 ZRing ex4 (a_shape Z2 ZRing ex4) = Some ex4.
  Proof. split; [repeat constructor|vm_compute; reflexivity]. Qed.

  (* a fused axis not spelled out by the shape: still the identity (no_match) *)
  Example reshape_identity_fused_example :
    ReshapeArgsProofs.no_match (a_shape U1 ZRing ex_u) (a_subsizes U1 ZRing ex_u) /\
    a_reshape U1 ZRing ex_u (a_shape U1 ZRing ex_u) = Some ex_u.
  Proof. split; [vm_compute; tauto|vm_compute; reflexivity]. Qed.

  (* known finding F12 on the array level: a fused (2,1) axis followed by a
     size-one axis has shape (2,1) = its own sub-sizes; reshape(x.shape) unfuses
     it and fuses the two size-one axes instead — same shape, different tables *)
  Definition f12_base : aarray Z2 ZRing :=
    mkA Z2 ZRing [Index Z2 [(0, 2%nat)] false None; Index Z2 [(1, 1%nat)] false None; Index Z2 [(0, 1%nat)] false None] 1
      [([0; 1; 0], zt [2; 1; 1]%nat [3; 4])].
  Definition f12 : aarray Z2 ZRing := fuse_core Z2 ZRing f12_base [[0; 1]%nat].

  Example reshape_identity_fused_refuted :
    wf_array Z2 ZRing f12 = true /\ a_shape Z2 ZRing f12 = [2; 1] /\
    a_subsizes Z2 ZRing f12 = [Some [2; 1]; None] /\
    reshape_plan Z2 ZRing f12 [2; 1] = ReshapeArgs.Ok ([0%nat], [[[1%nat; 2%nat]]], []) /\
    (exists y, a_reshape Z2 ZRing f12 (a_shape Z2 ZRing f12) = Some y /\ a_shape Z2 ZRing y = [2; 1] /\
               a_subsizes Z2 ZRing y = [None; Some [1; 1]] /\
               stored_entries Z2 ZRing y = stored_entries Z2 ZRing f12) /\
    a_reshape Z2 ZRing f12 (a_shape Z2 ZRing f12) <> Some f12.
  Proof.
    split; [vm_compute; reflexivity|]. split; [vm_compute; reflexivity|]. split; [vm_compute; reflexivity|].
    split; [vm_compute; reflexivity|]. split.
    - eexists. split; [vm_compute; reflexivity|]. repeat split; vm_compute; reflexivity.
    - vm_compute. intros H. inversion H.
  Qed.

  (* a plan outside the proved part: adjacent groups fused in ONE call *)
  Example reshape_multi_group_plan :
    reshape_plan Z2 ZRing ex4 [9; 9] = ReshapeArgs.Ok ([], [[[0%nat; 1%nat]; [2%nat; 3%nat]]], []) /\
    plan_single_groups ([], [[[0%nat; 1%nat]; [2%nat; 3%nat]]], []) = false.
  Proof. split; vm_compute; reflexivity. Qed.

  (* rank and sizes: the tree run of the plan has exactly the requested shape
     (2,3,12); the array gets 3 axes of sizes (2,3,9) <= (2,3,12) *)
  Example reshape_rank_and_sizes_example :
    ReshapeArgs.exec_plan ([0%nat], [[[2%nat; 3%nat]]], []) (map (skel U1) (indices U1 ZRing ex_u))
      = Some [ReshapeArgs.Leaf 0 2; ReshapeArgs.Leaf 0 3;
              ReshapeArgs.Fused [ReshapeArgs.Leaf 0 3; ReshapeArgs.Leaf 0 4]] /\
    ReshapeArgs.shape_of [ReshapeArgs.Leaf 0 2; ReshapeArgs.Leaf 0 3;
              ReshapeArgs.Fused [ReshapeArgs.Leaf 0 3; ReshapeArgs.Leaf 0 4]] = [2; 3; 12] /\
    (exists y, a_reshape U1 ZRing ex_u [2; 3; 12] = Some y /\ ndim U1 ZRing y = 3%nat /\ a_shape U1 ZRing y = [2; 3; 9]).
  Proof.
    split; [vm_compute; reflexivity|]. split; [vm_compute; reflexivity|].
    eexists. split; [vm_compute; reflexivity|]. split; vm_compute; reflexivity.
  Qed.

  (* a fused index smaller than the dense product of its sub-indices *)
  Example size_total_le_dsize_example :
    wf_index U1 exF = true /\ size_total U1 exF = 6%nat /\ dsize U1 exF = 6%nat /\
    (exists y, a_reshape U1 ZRing ex_u [2; 3; 12] = Some y /\
       size_total U1 (nth 2 (indices U1 ZRing y) (dflt_index U1)) = 9%nat /\
       dsize U1 (nth 2 (indices U1 ZRing y) (dflt_index U1)) = 12%nat).
  Proof.
    split; [vm_compute; reflexivity|]. split; [reflexivity|]. split; [reflexivity|].
    eexists. split; [vm_compute; reflexivity|]. split; vm_compute; reflexivity.
  Qed.
End ContentExamples.
