(* Proofs/CtorFinal.v — property C16: assembly of the constructor / dense-conversion theorems
   (the round trips of Proofs/CtorRound.v are stated there relative to the bridge
   `to_dense_sem`; here they are composed with its proof), and the fermionic corollary. *)
From SV Require Import Base.Prelude Base.Sym Base.Tensor Model.Sectors Model.Array Model.Arith
  Model.Wf Model.Fermi Model.Ctor Model.SymInst Proofs.SymLaws Proofs.StructProofs Proofs.OrderProofs Proofs.CtorSpec Proofs.CtorDense Proofs.CtorRound.
Local Open Scope nat_scope.

(* FermionicArray.to_dense: the dense entry is the value WITH the pending signs applied
   (f_value = the blocks after phase_sync) *)
Theorem f_to_dense_sem (G : Symmetry) (R : Ring) :
  GroupLaws G -> OrderLaws G ->
  forall (x : farray G R),
    wf_array G R (f_value G R x) = true ->
    Forall (fun ix => chargemap G ix <> []) (indices G R (f_value G R x)) ->
    exists t, f_to_dense G R x = Some t
      /\ tshape t = map (size_total G) (indices G R (f_value G R x))
      /\ (forall pos, inb (map (size_total G) (indices G R (f_value G R x))) pos = true ->
            get R t pos = sem G R (f_value G R x) (coords_of G (indices G R (f_value G R x)) pos))
      /\ (forall cs, coords_ok G (indices G R (f_value G R x)) cs = true ->
            get R t (pos_of G (indices G R (f_value G R x)) cs) = sem G R (f_value G R x) cs).
Proof.
  intros HG HO x Hwf Hne.
  destruct (to_dense_sem G R HG HO (f_value G R x) Hwf Hne) as [t [Ht [Hsh [_ [Hf Hb]]]]].
  exists t. unfold f_to_dense. split; [exact Ht|]. split; [exact Hsh|]. split.
  - intros pos Hp. destruct (Hf pos Hp) as [_ [_ Hg]]. exact Hg.
  - intros cs Hc. destruct (Hb cs Hc) as [_ [_ Hg]]. exact Hg.
Qed.

(* the two round trips, composed with the bridge *)
Theorem to_dense_from_dense (G : Symmetry) (R : Ring) : to_dense_from_dense_stmt G R.
Proof. exact (to_dense_from_dense_of G R (to_dense_sem G R)). Qed.

Theorem from_dense_to_dense (G : Symmetry) (R : Ring) : from_dense_to_dense_stmt G R.
Proof. exact (from_dense_to_dense_of G R (to_dense_sem G R)). Qed.

(* the hypotheses `GroupLaws G` and `OrderLaws G` hold for the five built-in symmetries
   (generated definitions, C17), so every theorem above applies to all ten array classes *)
Theorem builtin_symmetries_have_laws :
  (GroupLaws Z2 /\ OrderLaws Z2) /\ (GroupLaws Z4 /\ OrderLaws Z4) /\ (GroupLaws U1 /\ OrderLaws U1)
  /\ (GroupLaws Z2Z2 /\ OrderLaws Z2Z2) /\ (GroupLaws U1U1 /\ OrderLaws U1U1).
Proof.
  exact (conj (conj Z2_laws Z2_order) (conj (conj Z4_laws Z4_order) (conj (conj U1_laws U1_order)
        (conj (conj Z2Z2_laws Z2Z2_order) (conj U1U1_laws U1U1_order))))).
Qed.
