(* Proofs/LocalOpsProofs.v — property C18: the model of
   build_local_fermionic_elements computes vacuum expectation values. *)
From SV Require Import Base.Prelude Model.LocalOps.
From Coq Require Import Sorting.Sorted Arith.PeanoNat.
Open Scope Z_scope.

(* ================================================================ signed results *)
Lemma scale_false r : scale_res false r = r.
Proof. destruct r as [[[|] s]|]; reflexivity. Qed.

Lemma scale_scale f g r : scale_res f (scale_res g r) = scale_res (xorb f g) r.
Proof. destruct r as [[sg s]|]; cbn [scale_res]; [rewrite xorb_assoc|]; reflexivity. Qed.

Lemma bind_scale f r k : bind_res (scale_res f r) k = scale_res f (bind_res r k).
Proof.
  destruct r as [[sg s]|]; cbn [scale_res bind_res]; [|reflexivity].
  rewrite scale_scale. reflexivity.
Qed.

(* ================================================================ anticommutation *)
(* first (m2,d2), then (m1,d1) *)
Definition comp (m1 : nat) (d1 : bool) (m2 : nat) (d2 : bool) (s : state) : option (bool * state) :=
  bind_res (apply_at m2 d2 s) (apply_at m1 d1).

Lemma comp_SS m1 d1 m2 d2 s :
  comp (S m1) d1 (S m2) d2 s =
  match comp m1 d1 m2 d2 (tl s) with
  | None => None
  | Some (sg, t) => Some (sg, hd false s :: t)
  end.
Proof.
  unfold comp. cbn [apply_at].
  destruct (apply_at m2 d2 (tl s)) as [[sg2 t2]|]; cbn [bind_res scale_res apply_at hd tl]; [|reflexivity].
  destruct (apply_at m1 d1 t2) as [[sg1 t1]|]; cbn [scale_res]; [|reflexivity].
  destruct (hd false s), sg1, sg2; reflexivity.
Qed.

Lemma comp_anticommute : forall m1 m2 d1 d2 s, m1 <> m2 ->
  comp m1 d1 m2 d2 s = scale_res true (comp m2 d2 m1 d1 s).
Proof.
  induction m1 as [|m1 IH]; intros [|m2] d1 d2 s Hne.
  - contradiction.
  - unfold comp. cbn [apply_at].
    destruct (apply_at m2 d2 (tl s)) as [[sg t']|] eqn:EA; destruct (hd false s) eqn:Eh; destruct d1;
      cbn; rewrite ?EA; cbn; try reflexivity; destruct sg; reflexivity.
  - unfold comp. cbn [apply_at].
    destruct (apply_at m1 d1 (tl s)) as [[sg t']|] eqn:EA; destruct (hd false s) eqn:Eh; destruct d2;
      cbn; rewrite ?EA; cbn; try reflexivity; destruct sg; reflexivity.
  - rewrite !comp_SS. rewrite (IH m2 d1 d2 (tl s)) by (intro; apply Hne; congruence).
    destruct (comp m2 d2 m1 d1 (tl s)) as [[sg t]|]; reflexivity.
Qed.

(* Two operators with different labels anticommute in the Fock action:
   (a b)|s> = - (b a)|s>, as signed option-states, on every state. *)
Lemma swap_anticommute (a b : op) (s : state) :
  label a <> label b ->
  apply_ops [a; b] s = scale_res true (apply_ops [b; a] s).
Proof.
  intro Hne. cbn [apply_ops bind_res]. rewrite !scale_false.
  exact (comp_anticommute (label a) (label b) (dag a) (dag b) s Hne).
Qed.

Lemma swap_anticommute_tail (a b : op) (rest : list op) (s : state) :
  label a <> label b ->
  apply_ops (a :: b :: rest) s = scale_res true (apply_ops (b :: a :: rest) s).
Proof.
  intro Hne. cbn [apply_ops].
  destruct (apply_ops rest s) as [[sg s']|]; cbn [bind_res]; [|reflexivity].
  rewrite !bind_scale.
  change (bind_res (apply_op b s') (apply_op a)) with (comp (label a) (dag a) (label b) (dag b) s').
  change (bind_res (apply_op a s') (apply_op b)) with (comp (label b) (dag b) (label a) (dag a) s').
  rewrite (comp_anticommute _ _ _ _ s' Hne), !scale_scale.
  rewrite xorb_comm. reflexivity.
Qed.

Lemma apply_ops_prefix (pre l1 l2 : list op) (f : bool) (s : state) :
  apply_ops l1 s = scale_res f (apply_ops l2 s) ->
  apply_ops (pre ++ l1) s = scale_res f (apply_ops (pre ++ l2) s).
Proof.
  intro H. induction pre as [|o pre IH]; cbn [app apply_ops]; [exact H|].
  rewrite IH, bind_scale. reflexivity.
Qed.

Lemma swap_in_context (pre : list op) (a b : op) (post : list op) (s : state) :
  label a <> label b ->
  apply_ops (pre ++ a :: b :: post) s = scale_res true (apply_ops (pre ++ b :: a :: post) s).
Proof. intro Hne. apply apply_ops_prefix, swap_anticommute_tail, Hne. Qed.

(* ================================================================ the phased sort *)
Lemma bubble_action : forall (l : list op) (x : op) (f mv : bool) (r pre : list op) (s : state),
  bubble x l = (f, mv, r) ->
  apply_ops (pre ++ x :: l) s = scale_res f (apply_ops (pre ++ r) s).
Proof.
  induction l as [|y t IH]; intros x f mv r pre s H; cbn [bubble] in H.
  - inversion H; subst. rewrite scale_false. reflexivity.
  - destruct (label y <? label x)%nat eqn:E.
    + destruct (bubble x t) as [[f' mv'] r'] eqn:B. inversion H; subst.
      apply Nat.ltb_lt in E.
      rewrite swap_in_context by (intro Heq; rewrite Heq in E; exact (Nat.lt_irrefl _ E)).
      replace (pre ++ y :: x :: t) with ((pre ++ [y]) ++ x :: t) by (rewrite <- app_assoc; reflexivity).
      rewrite (IH x f' mv' r' (pre ++ [y]) s B), scale_scale.
      rewrite <- app_assoc. cbn [app]. destruct f'; reflexivity.
    + destruct (bubble y t) as [[f' mv'] r'] eqn:B. inversion H; subst.
      replace (pre ++ x :: y :: t) with ((pre ++ [x]) ++ y :: t) by (rewrite <- app_assoc; reflexivity).
      rewrite (IH y f mv r' (pre ++ [x]) s B). rewrite <- app_assoc. reflexivity.
Qed.

Lemma pass_action (l : list op) (f mv : bool) (r : list op) (s : state) :
  pass l = (f, mv, r) -> apply_ops l s = scale_res f (apply_ops r s).
Proof.
  destruct l as [|x t]; cbn [pass]; intro H.
  - inversion H; subst. reflexivity.
  - exact (bubble_action t x f mv r [] s H).
Qed.

Lemma sort_loop_action : forall (fuel : nat) (sg sg' : bool) (l r : list op) (s : state),
  sort_loop fuel sg l = Some (sg', r) ->
  scale_res sg (apply_ops l s) = scale_res sg' (apply_ops r s).
Proof.
  induction fuel as [|fuel IH]; intros sg sg' l r s H; cbn [sort_loop] in H; [discriminate|].
  destruct (pass l) as [[fl mv] r1] eqn:P.
  rewrite (pass_action l fl mv r1 s P), scale_scale.
  destruct mv.
  - exact (IH _ _ _ _ s H).
  - inversion H; subst. reflexivity.
Qed.

(* The signed action is invariant under the library's phased sort. *)
Lemma phased_sort_action (fuel : nat) (l r : list op) (sg : bool) (s : state) :
  phased_sort fuel l = Some (sg, r) -> apply_ops l s = scale_res sg (apply_ops r s).
Proof.
  intro H. pose proof (sort_loop_action fuel false sg l r s H) as E.
  rewrite scale_false in E. exact E.
Qed.

Lemma vev_scale (f : bool) (l r : list op) :
  apply_ops l vac = scale_res f (apply_ops r vac) -> vev l = phase_z f * vev r.
Proof.
  unfold vev. intro H. rewrite H.
  destruct (apply_ops r vac) as [[sg s]|]; cbn [scale_res]; [|destruct f; reflexivity].
  destruct (is_vac s); destruct f, sg; reflexivity.
Qed.

Theorem vev_pass_invariant (l r : list op) (f mv : bool) :
  pass l = (f, mv, r) -> vev l = phase_z f * vev r.
Proof. intro H. apply vev_scale, (pass_action l f mv r vac H). Qed.

Theorem vev_sort_invariant (fuel : nat) (l r : list op) (sg : bool) :
  phased_sort fuel l = Some (sg, r) -> vev l = phase_z sg * vev r.
Proof. intro H. apply vev_scale, (phased_sort_action fuel l r sg vac H). Qed.

(* ---------------------------------------------------------------- the result is sorted *)
Definition le_label (a b : op) : Prop := (label a <= label b)%nat.

Lemma bubble_nomove : forall (l : list op) (x : op) (f : bool) (r : list op),
  bubble x l = (f, false, r) -> f = false /\ r = x :: l /\ Sorted le_label (x :: l).
Proof.
  induction l as [|y t IH]; intros x f r H; cbn [bubble] in H.
  - inversion H; subst. repeat split. constructor; constructor.
  - destruct (label y <? label x)%nat eqn:E.
    + destruct (bubble x t) as [[f' mv'] r']. discriminate.
    + destruct (bubble y t) as [[f' mv'] r'] eqn:B. inversion H; subst.
      destruct (IH y f r' B) as (Hf & Hr & Hs). subst.
      repeat split. constructor; [exact Hs|]. constructor.
      apply Nat.ltb_ge in E. exact E.
Qed.

Lemma sort_loop_sorted : forall (fuel : nat) (sg sg' : bool) (l r : list op),
  sort_loop fuel sg l = Some (sg', r) -> label_sorted r.
Proof.
  induction fuel as [|fuel IH]; intros sg sg' l r H; cbn [sort_loop] in H; [discriminate|].
  destruct (pass l) as [[fl mv] r1] eqn:P. destruct mv.
  - exact (IH _ _ _ _ H).
  - inversion H; subst. destruct l as [|x t]; cbn [pass] in P.
    + inversion P; subst. constructor.
    + destruct (bubble_nomove t x fl r P) as (_ & Hr & Hs). subst. exact Hs.
Qed.

Lemma phased_sort_sorted (fuel : nat) (l r : list op) (sg : bool) :
  phased_sort fuel l = Some (sg, r) -> label_sorted r.
Proof. apply sort_loop_sorted. Qed.

(* ================================================================ occupations *)
Lemma occ_0 (s : state) : occ s 0 = hd false s.
Proof. destruct s; reflexivity. Qed.

Lemma occ_S (s : state) (k : nat) : occ s (S k) = occ (tl s) k.
Proof. destruct s; [destruct k|]; reflexivity. Qed.

Lemma occ_vac (m : nat) : occ vac m = false.
Proof. destruct m; reflexivity. Qed.

Lemma is_vac_occ (s : state) : is_vac s = true <-> forall m, occ s m = false.
Proof.
  unfold is_vac. induction s as [|b s IH]; cbn [forallb].
  - split; [intros _ m; apply occ_vac | reflexivity].
  - rewrite andb_true_iff, IH. split.
    + intros [Hb Hs] [|m]; [destruct b; [discriminate|reflexivity] | exact (Hs m)].
    + intro H. split; [specialize (H O); cbn in H; subst; reflexivity | intro m; exact (H (S m))].
Qed.

(* what a single operator does to the occupations *)
Lemma apply_at_occ : forall (m : nat) (d : bool) (s s' : state) (sg : bool),
  apply_at m d s = Some (sg, s') ->
  occ s m = negb d /\ occ s' m = d /\ (forall k, k <> m -> occ s' k = occ s k).
Proof.
  induction m as [|m IH]; intros d s s' sg H; cbn [apply_at] in H.
  - destruct (Bool.eqb (hd false s) d) eqn:E; [discriminate|]. inversion H; subst.
    rewrite occ_0. apply eqb_false_iff in E. repeat split.
    + destruct (hd false s), d; try reflexivity; exfalso; apply E; reflexivity.
    + intros [|k] Hk; [contradiction|]. rewrite !occ_S. reflexivity.
  - destruct (apply_at m d (tl s)) as [[sg0 t']|] eqn:A; [|discriminate]. inversion H; subst.
    destruct (IH d (tl s) t' sg0 A) as (H1 & H2 & H3).
    rewrite !occ_S. cbn [tl]. repeat split; [exact H1 | exact H2 |].
    intros [|k] Hk.
    + rewrite !occ_0. reflexivity.
    + rewrite !occ_S. cbn [tl]. apply H3. intro; apply Hk; congruence.
Qed.

Lemma apply_at_defined : forall (m : nat) (d : bool) (s : state),
  occ s m = negb d -> exists sg s', apply_at m d s = Some (sg, s').
Proof.
  induction m as [|m IH]; intros d s H; cbn [apply_at].
  - rewrite occ_0 in H. rewrite H. destruct d; cbn; eauto.
  - rewrite occ_S in H. destruct (IH d (tl s) H) as (sg & s' & E). rewrite E. eauto.
Qed.

(* Jordan-Wigner sign is + when every lower mode is empty *)
Lemma apply_at_sign_low : forall (m : nat) (d : bool) (s s' : state) (sg : bool),
  (forall k, (k < m)%nat -> occ s k = false) ->
  apply_at m d s = Some (sg, s') -> sg = false.
Proof.
  induction m as [|m IH]; intros d s s' sg Hlow H; cbn [apply_at] in H.
  - destruct (Bool.eqb (hd false s) d); [discriminate|]. inversion H; reflexivity.
  - destruct (apply_at m d (tl s)) as [[sg0 t']|] eqn:A; [|discriminate]. inversion H; subst.
    rewrite <- occ_0, (Hlow O) by apply Nat.lt_0_succ.
    rewrite (IH d (tl s) t' sg0); [reflexivity | | exact A].
    intros k Hk. rewrite <- occ_S. apply Hlow. apply -> Nat.succ_lt_mono. exact Hk.
Qed.

(* ================================================================ per-mode evolution *)
Definition flags (m : nat) (ops : list op) : list bool := map dag (group m ops).

Lemma flags_cons (m : nat) (o : op) (ops : list op) :
  flags m (o :: ops) = if Nat.eqb (label o) m then dag o :: flags m ops else flags m ops.
Proof. unfold flags, group. cbn [filter]. destruct (Nat.eqb (label o) m); reflexivity. Qed.

Lemma apply_ops_occ : forall (ops : list op) (s s' : state) (sg : bool),
  apply_ops ops s = Some (sg, s') ->
  forall m, run_mode (flags m ops) (occ s m) = Some (occ s' m).
Proof.
  induction ops as [|o rest IH]; intros s s' sg H m; cbn [apply_ops] in H.
  - inversion H; subst. reflexivity.
  - destruct (apply_ops rest s) as [[sg1 s1]|] eqn:A; cbn [bind_res] in H; [|discriminate].
    unfold apply_op in H.
    destruct (apply_at (label o) (dag o) s1) as [[sg2 s2]|] eqn:B; cbn [scale_res] in H; [|discriminate].
    inversion H; subst.
    destruct (apply_at_occ _ _ _ _ _ B) as (H1 & H2 & H3).
    rewrite flags_cons. destruct (Nat.eqb (label o) m) eqn:E.
    + apply Nat.eqb_eq in E. subst m. cbn [run_mode]. rewrite (IH s s1 sg1 A (label o)), H1, H2.
      destruct (dag o); reflexivity.
    + apply Nat.eqb_neq in E. rewrite (IH s s1 sg1 A m), H3 by (intro; apply E; congruence). reflexivity.
Qed.

Lemma apply_ops_defined : forall (ops : list op) (s : state),
  (forall m, run_mode (flags m ops) (occ s m) <> None) ->
  exists sg s', apply_ops ops s = Some (sg, s').
Proof.
  induction ops as [|o rest IH]; intros s H; cbn [apply_ops]; [eauto|].
  assert (Hrest : forall m, run_mode (flags m rest) (occ s m) <> None).
  { intros m Hn. apply (H m). rewrite flags_cons.
    destruct (Nat.eqb (label o) m); [cbn [run_mode]; rewrite Hn; reflexivity | exact Hn]. }
  destruct (IH s Hrest) as (sg1 & s1 & A). rewrite A. cbn [bind_res].
  pose proof (apply_ops_occ rest s s1 sg1 A (label o)) as Ho.
  specialize (H (label o)). rewrite flags_cons, Nat.eqb_refl in H. cbn [run_mode] in H. rewrite Ho in H.
  assert (Hocc : occ s1 (label o) = negb (dag o)).
  { destruct (occ s1 (label o)), (dag o); try reflexivity; exfalso; apply H; reflexivity. }
  destruct (apply_at_defined (label o) (dag o) s1 Hocc) as (sg2 & s2 & B).
  unfold apply_op. rewrite B. cbn [scale_res]. eauto.
Qed.

(* ---------------------------------------------------------------- the pattern test *)
Lemma pattern_nil : pattern [] = true.
Proof. reflexivity. Qed.

Lemma pattern_one (a : op) : pattern [a] = false.
Proof. reflexivity. Qed.

Lemma pattern_two (a b : op) (g : list op) :
  pattern (a :: b :: g) = negb (dag a) && dag b && pattern g.
Proof.
  unfold pattern, odds.
  change (Nat.even (length (a :: b :: g))) with (Nat.even (length g)).
  generalize (Nat.even (length g)); intro e.
  destruct g as [|c g]; cbn [evens tl forallb];
    repeat match goal with |- context [forallb ?f ?l] => generalize (forallb f l); intro end;
    repeat match goal with |- context [dag ?o] => destruct (dag o) end;
    repeat match goal with b : bool |- _ => destruct b end; reflexivity.
Qed.

Lemma run_mode_two (da db : bool) (ds : list bool) :
  run_mode (da :: db :: ds) false = Some false <->
  da = false /\ db = true /\ run_mode ds false = Some false.
Proof.
  cbn [run_mode]. destruct (run_mode ds false) as [[|]|]; destruct da, db; cbn; split;
    try (intros (? & ? & ?)); try intro; try discriminate; repeat split; reflexivity.
Qed.

(* a single-mode string has VEV 1 exactly when it is (- + - + ... - +) *)
Lemma pattern_run_mode_len : forall (n : nat) (g : list op), (length g <= n)%nat ->
  (pattern g = true <-> run_mode (map dag g) false = Some false).
Proof.
  induction n as [|n IH]; intros g Hlen.
  - destruct g; [|cbn in Hlen; exfalso; exact (Nat.nle_succ_0 _ Hlen)]. split; reflexivity.
  - destruct g as [|a [|b g]].
    + split; reflexivity.
    + rewrite pattern_one. cbn. destruct (dag a); split; discriminate.
    + rewrite pattern_two. cbn [map]. rewrite run_mode_two.
      cbn [length] in Hlen.
      assert (Hl : (length g <= n)%nat) by (apply Nat.succ_le_mono in Hlen; apply Nat.le_trans with (S (length g)); [apply Nat.le_succ_diag_r | exact Hlen]).
      rewrite !andb_true_iff, negb_true_iff, (IH g Hl). tauto.
Qed.

Lemma pattern_run_mode (g : list op) :
  pattern g = true <-> run_mode (map dag g) false = Some false.
Proof. exact (pattern_run_mode_len (length g) g (Nat.le_refl _)). Qed.

Lemma group_not_in (m : nat) (ops : list op) : ~ In m (map label ops) -> group m ops = [].
Proof.
  induction ops as [|o ops IH]; cbn [map In group filter]; intro H; [reflexivity|].
  destruct (Nat.eqb (label o) m) eqn:E.
  - apply Nat.eqb_eq in E. exfalso. apply H. left. exact E.
  - apply IH. intro Hin. apply H. right. exact Hin.
Qed.

Lemma nonvanishing_all (ops : list op) :
  nonvanishing ops = true <-> forall m, pattern (group m ops) = true.
Proof.
  unfold nonvanishing. rewrite forallb_forall. split.
  - intros H m. destruct (in_dec Nat.eq_dec m (map label ops)) as [Hin|Hout].
    + exact (H m Hin).
    + rewrite (group_not_in m ops Hout). reflexivity.
  - intros H m _. exact (H m).
Qed.

(* |<0|ops|0>| is 1 exactly when every label group passes the pattern test —
   for ANY string, sorted or not. *)
Lemma vev_nonzero_iff (ops : list op) :
  (exists sg s, apply_ops ops vac = Some (sg, s) /\ is_vac s = true) <-> nonvanishing ops = true.
Proof.
  rewrite nonvanishing_all. split.
  - intros (sg & s & A & V) m. apply pattern_run_mode. fold (flags m ops).
    pose proof (apply_ops_occ ops vac s sg A m) as E.
    rewrite occ_vac in E. rewrite E. f_equal. apply is_vac_occ. exact V.
  - intro H.
    assert (Hm : forall m, run_mode (flags m ops) (occ vac m) = Some false).
    { intro m. rewrite occ_vac. apply pattern_run_mode. exact (H m). }
    destruct (apply_ops_defined ops vac) as (sg & s & A).
    { intros m. rewrite Hm. discriminate. }
    exists sg, s. split; [exact A|]. apply is_vac_occ. intro m.
    pose proof (apply_ops_occ ops vac s sg A m) as E. rewrite Hm in E. inversion E. reflexivity.
Qed.

(* ---------------------------------------------------------------- sorted strings carry no sign *)
Lemma group_below (k : nat) (o : op) (rest : list op) :
  Forall (le_label o) rest -> (k < label o)%nat -> group k rest = [].
Proof.
  intros HF Hk. apply group_not_in. intro Hin. apply in_map_iff in Hin. destruct Hin as (x & Hx & Hin).
  rewrite Forall_forall in HF. specialize (HF x Hin). unfold le_label in HF. subst k.
  exact (Nat.lt_irrefl _ (Nat.lt_le_trans _ _ _ Hk HF)).
Qed.

Lemma le_label_trans : Relations_1.Transitive le_label.
Proof. intros a b c Hab Hbc. unfold le_label in *. exact (Nat.le_trans _ _ _ Hab Hbc). Qed.

Lemma sorted_sign_plus : forall (ops : list op) (sg : bool) (s : state),
  label_sorted ops -> apply_ops ops vac = Some (sg, s) -> sg = false.
Proof.
  intros ops sg s Hs. apply (Sorted_StronglySorted le_label_trans) in Hs. revert sg s.
  induction Hs as [|o rest Hrest IH HF]; intros sg s H; cbn [apply_ops] in H.
  - inversion H; reflexivity.
  - destruct (apply_ops rest vac) as [[sg1 s1]|] eqn:A; cbn [bind_res] in H; [|discriminate].
    unfold apply_op in H.
    destruct (apply_at (label o) (dag o) s1) as [[sg2 s2]|] eqn:B; cbn [scale_res] in H; [|discriminate].
    inversion H; subst.
    rewrite (IH sg1 s1 eq_refl).
    rewrite (apply_at_sign_low (label o) (dag o) s1 s sg2); [reflexivity | | exact B].
    intros k Hk. pose proof (apply_ops_occ rest vac s1 sg1 A k) as E.
    unfold flags in E. rewrite (group_below k o rest HF Hk), occ_vac in E. cbn in E. inversion E. reflexivity.
Qed.

(* The VEV of a label-sorted string is the indicator of the pattern test. *)
Theorem sorted_vev_pattern (ops : list op) :
  label_sorted ops -> vev ops = if nonvanishing ops then 1 else 0.
Proof.
  intro Hs. unfold vev.
  destruct (nonvanishing ops) eqn:N.
  - apply vev_nonzero_iff in N. destruct N as (sg & s & A & V). rewrite A, V.
    rewrite (sorted_sign_plus ops sg s Hs A). reflexivity.
  - destruct (apply_ops ops vac) as [[sg s]|] eqn:A; [|reflexivity].
    destruct (is_vac s) eqn:V; [|reflexivity].
    assert (N' : nonvanishing ops = true) by (apply vev_nonzero_iff; eauto).
    rewrite N' in N. discriminate.
Qed.

(* without sortedness: the magnitude is still the indicator *)
Theorem vev_abs_pattern (ops : list op) :
  Z.abs (vev ops) = if nonvanishing ops then 1 else 0.
Proof.
  unfold vev. destruct (nonvanishing ops) eqn:N.
  - apply vev_nonzero_iff in N. destruct N as (sg & s & A & V). rewrite A, V. destruct sg; reflexivity.
  - destruct (apply_ops ops vac) as [[sg s]|] eqn:A; [|reflexivity].
    destruct (is_vac s) eqn:V; [|reflexivity].
    assert (N' : nonvanishing ops = true) by (apply vev_nonzero_iff; eauto).
    rewrite N' in N. discriminate.
Qed.

(* ================================================================ factorisation over labels *)
Lemma single_label_sorted (m : nat) (g : list op) :
  (forall o, In o g -> label o = m) -> label_sorted g.
Proof.
  induction g as [|a g IH]; intro H; [constructor|].
  constructor.
  - apply IH. intros o Ho. apply H. right. exact Ho.
  - destruct g as [|b g]; constructor. unfold le_label.
    rewrite (H a), (H b); [apply Nat.le_refl | right; left; reflexivity | left; reflexivity].
Qed.

Lemma group_all (m : nat) (g : list op) : (forall o, In o g -> label o = m) -> group m g = g.
Proof.
  induction g as [|a g IH]; intro H; [reflexivity|]. unfold group in *. cbn [filter].
  rewrite (H a) by (left; reflexivity). rewrite Nat.eqb_refl. f_equal. apply IH.
  intros o Ho. apply H. right. exact Ho.
Qed.

Lemma group_other (m m' : nat) (g : list op) :
  (forall o, In o g -> label o = m) -> m' <> m -> group m' g = [].
Proof.
  intros H Hne. apply group_not_in. intro Hin. apply in_map_iff in Hin.
  destruct Hin as (x & Hx & Hin). apply Hne. rewrite <- Hx. apply H. exact Hin.
Qed.

Lemma group_labels (m : nat) (ops : list op) : forall o, In o (group m ops) -> label o = m.
Proof. intros o Ho. unfold group in Ho. apply filter_In in Ho. apply Nat.eqb_eq. exact (proj2 Ho). Qed.

(* the per-label VEV is 1 iff the pattern test holds, else 0 *)
Theorem group_vev_pattern (m : nat) (g : list op) :
  (forall o, In o g -> label o = m) -> vev g = if pattern g then 1 else 0.
Proof.
  intro H. rewrite (sorted_vev_pattern g (single_label_sorted m g H)).
  assert (E : nonvanishing g = pattern g).
  { destruct (pattern g) eqn:P.
    - apply nonvanishing_all. intro m'. destruct (Nat.eq_dec m' m) as [->|Hne].
      + rewrite (group_all m g H). exact P.
      + rewrite (group_other m m' g H Hne). reflexivity.
    - destruct (nonvanishing g) eqn:N; [|reflexivity].
      rewrite nonvanishing_all in N. specialize (N m). rewrite (group_all m g H) in N. congruence. }
  rewrite E. reflexivity.
Qed.

Lemma zprod_indicator (f : nat -> bool) (l : list nat) :
  zprod (map (fun m => if f m then 1 else 0) l) = if forallb f l then 1 else 0.
Proof.
  induction l as [|m l IH]; [reflexivity|]. cbn [map zprod fold_right forallb].
  fold (zprod (map (fun m => if f m then 1 else 0) l)). rewrite IH.
  destruct (f m), (forallb f l); reflexivity.
Qed.

Lemma forallb_nodup (f : nat -> bool) (l : list nat) :
  forallb f (nodup Nat.eq_dec l) = forallb f l.
Proof.
  destruct (forallb f l) eqn:E.
  - rewrite forallb_forall in *. intros x Hx. apply E. apply nodup_In in Hx. exact Hx.
  - destruct (forallb f (nodup Nat.eq_dec l)) eqn:E'; [|reflexivity].
    rewrite forallb_forall in E'.
    assert (forallb f l = true) by (apply forallb_forall; intros x Hx; apply E'; apply nodup_In; exact Hx).
    congruence.
Qed.

(* The VEV of a label-sorted string is the product of the per-label VEVs. *)
Theorem sorted_groups_factor (ops : list op) :
  label_sorted ops ->
  vev ops = zprod (map (fun m => vev (group m ops)) (distinct_labels ops)).
Proof.
  intro Hs. rewrite (sorted_vev_pattern ops Hs).
  rewrite (map_ext (fun m => vev (group m ops)) (fun m => if pattern (group m ops) then 1 else 0)).
  - rewrite (zprod_indicator (fun m => pattern (group m ops))). unfold distinct_labels.
    rewrite forallb_nodup. reflexivity.
  - intro m. apply (group_vev_pattern m). apply group_labels.
Qed.

(* ================================================================ elements *)
Lemma term_contrib_spec (fuel : nat) (bra ket : list op) (t : term) (v : option Z) :
  term_contrib fuel bra ket t = Some v ->
  entry_value v = fst t * vev (bra ++ snd t ++ ket).
Proof.
  unfold term_contrib. destruct (fst t =? 0) eqn:E0.
  - intro H. inversion H; subst. apply Z.eqb_eq in E0. rewrite E0. reflexivity.
  - destruct (phased_sort fuel (bra ++ snd t ++ ket)) as [[sg r]|] eqn:PS; [|discriminate].
    intro H. inversion H; subst. clear H.
    rewrite (vev_sort_invariant fuel _ r sg PS).
    rewrite (sorted_vev_pattern r (phased_sort_sorted fuel _ r sg PS)).
    generalize (fst t). intro c.
    destruct (nonvanishing r); cbn [entry_value]; destruct sg; cbn [phase_z]; lia.
Qed.

Lemma add_entry_value (acc v : option Z) :
  entry_value (add_entry acc v) = entry_value acc + entry_value v.
Proof. destruct acc, v; cbn [add_entry entry_value]; lia. Qed.

Lemma accumulate_spec (fuel : nat) (bra ket : list op) :
  forall (terms : list term) (acc r : option Z),
  accumulate fuel bra ket terms acc = Some r ->
  entry_value r = entry_value acc + zsum (map (fun t : term => fst t * vev (bra ++ snd t ++ ket)) terms).
Proof.
  induction terms as [|t ts IH]; intros acc r H; cbn [accumulate] in H.
  - inversion H; subst. cbn [map zsum fold_right]. lia.
  - destruct (term_contrib fuel bra ket t) as [v|] eqn:TC; [|discriminate].
    rewrite (IH _ _ H), add_entry_value, (term_contrib_spec fuel bra ket t v TC).
    cbn [map]. rewrite zsum_cons.
    generalize (zsum (map (fun t0 : term => fst t0 * vev (bra ++ snd t0 ++ ket)) ts)).
    generalize (fst t * vev (bra ++ snd t ++ ket)). generalize (entry_value acc). intros; lia.
Qed.

Lemma entry_spec (fuel : nat) (terms : list term) (bases : list site_basis) (il ir : list nat) (e : option Z) :
  entry fuel terms bases il ir = Some e -> entry_value e = ref_element terms bases il ir.
Proof.
  unfold entry, ref_element. intro H. rewrite (accumulate_spec _ _ _ _ _ _ H). cbn [entry_value]. lia.
Qed.

(* MAIN: whatever the library's algorithm returns for an index is the
   second-quantised matrix element  sum_t coeff_t <vac| bra(il) t ket(ir) |vac>,
   for ANY terms and bases (any labels, any operator order, repeated operators). *)
Theorem elements_spec (fuel : nat) (terms : list term) (bases : list site_basis) (il ir : list nat) (v : Z) :
  element fuel terms bases il ir = Some v -> v = ref_element terms bases il ir.
Proof.
  unfold element. destruct (entry fuel terms bases il ir) as [e|] eqn:E; [|discriminate].
  pose proof (entry_spec _ _ _ _ _ _ E) as S. destruct e; intro H; inversion H; subst; exact S.
Qed.

(* the same for the dict as a whole: every stored entry is right, and every
   absent key of the index grid is a zero matrix element *)
Lemma collect_sound (fuel : nat) (terms : list term) (bases : list site_basis) :
  forall (locs : list (list nat * list nat)) (d : list (list nat * Z)),
  collect fuel terms bases locs = Some d ->
  forall k v, In (k, v) d ->
  exists il ir, In (il, ir) locs /\ k = il ++ ir /\ v = ref_element terms bases il ir.
Proof.
  induction locs as [|[il ir] rest IH]; intros d H k v Hin; cbn [collect] in H.
  - inversion H; subst. contradiction.
  - destruct (entry fuel terms bases il ir) as [e|] eqn:E; [|discriminate].
    destruct (collect fuel terms bases rest) as [tl_|] eqn:C; [|discriminate].
    inversion H; subst. clear H.
    assert (Hrest : In (k, v) tl_ -> exists il0 ir0, In (il0, ir0) ((il, ir) :: rest) /\ k = il0 ++ ir0 /\ v = ref_element terms bases il0 ir0).
    { intro Ht. destruct (IH tl_ eq_refl k v Ht) as (a & b & Hab & Hk & Hv). exists a, b. split; [right; exact Hab | split; assumption]. }
    destruct e as [x|]; [|exact (Hrest Hin)].
    destruct Hin as [Hhd|Ht]; [|exact (Hrest Ht)].
    inversion Hhd; subst. exists il, ir. split; [left; reflexivity | split; [reflexivity|]].
    exact (entry_spec _ _ _ _ _ _ E).
Qed.

Lemma collect_complete (fuel : nat) (terms : list term) (bases : list site_basis) :
  forall (locs : list (list nat * list nat)) (d : list (list nat * Z)),
  collect fuel terms bases locs = Some d ->
  forall il ir, In (il, ir) locs ->
  (exists v, In (il ++ ir, v) d /\ v = ref_element terms bases il ir) \/ ref_element terms bases il ir = 0.
Proof.
  induction locs as [|[il0 ir0] rest IH]; intros d H il ir Hin; cbn [collect] in H; [contradiction|].
  destruct (entry fuel terms bases il0 ir0) as [e|] eqn:E; [|discriminate].
  destruct (collect fuel terms bases rest) as [tl_|] eqn:C; [|discriminate].
  inversion H; subst. clear H. destruct Hin as [Hhd|Ht].
  - inversion Hhd; subst. pose proof (entry_spec _ _ _ _ _ _ E) as S. destruct e as [x|].
    + left. exists x. split; [left; reflexivity | exact S].
    + right. symmetry. exact S.
  - destruct (IH tl_ eq_refl il ir Ht) as [(v & Hv & Hr)|Hz]; [|right; exact Hz].
    left. exists v. split; [|exact Hr]. destruct e; [right|]; exact Hv.
Qed.

Theorem elements_dict_spec (fuel : nat) (terms : list term) (bases : list site_basis) (d : list (list nat * Z)) :
  elements fuel terms bases = Some d ->
  let grid := cart (map (@length _) bases) in
  (forall k v, In (k, v) d ->
     exists il ir, In il grid /\ In ir grid /\ k = il ++ ir /\ v = ref_element terms bases il ir) /\
  (forall il ir, In il grid -> In ir grid ->
     (exists v, In (il ++ ir, v) d /\ v = ref_element terms bases il ir) \/ ref_element terms bases il ir = 0).
Proof.
  unfold elements. intro H. cbn zeta. split.
  - intros k v Hin. destruct (collect_sound _ _ _ _ _ H k v Hin) as (il & ir & Hloc & Hk & Hv).
    apply in_prod_iff in Hloc. exists il, ir. tauto.
  - intros il ir Hl Hr. apply (collect_complete _ _ _ _ _ H). apply in_prod_iff. tauto.
Qed.

(* ================================================================ the fuel suffices *)
Lemma bubble_count : forall (l : list op) (x : op) (f mv : bool) (r : list op),
  bubble x l = (f, mv, r) ->
  forall p : op -> bool, length (filter p r) = length (filter p (x :: l)).
Proof.
  induction l as [|y t IH]; intros x f mv r H p; cbn [bubble] in H.
  - inversion H; subst. reflexivity.
  - destruct (label y <? label x)%nat.
    + destruct (bubble x t) as [[f' mv'] r'] eqn:B. inversion H; subst.
      pose proof (IH x f' mv' r' B p) as E. cbn [filter] in *.
      destruct (p y), (p x); cbn [length] in *; lia.
    + destruct (bubble y t) as [[f' mv'] r'] eqn:B. inversion H; subst.
      pose proof (IH y f mv r' B p) as E. cbn [filter] in *.
      destruct (p y), (p x); cbn [length] in *; lia.
Qed.

Lemma bubble_inversions : forall (l : list op) (x : op) (f mv : bool) (r : list op),
  bubble x l = (f, mv, r) ->
  (inversions r + (if mv then 1 else 0) <= inversions (x :: l))%nat.
Proof.
  induction l as [|y t IH]; intros x f mv r H; cbn [bubble] in H.
  - inversion H; subst. cbn. lia.
  - destruct (label y <? label x)%nat eqn:E.
    + destruct (bubble x t) as [[f' mv'] r'] eqn:B. inversion H; subst.
      pose proof (IH x f' mv' r' B) as I.
      pose proof (bubble_count t x f' mv' r' B (fun z => (label z <? label y)%nat)) as Cn.
      cbn [inversions] in *. unfold count_lt in *. cbn [filter] in *. rewrite E.
      apply Nat.ltb_lt in E.
      assert (E2 : (label x <? label y)%nat = false) by (apply Nat.ltb_ge; lia).
      rewrite E2 in Cn. cbn [length]. rewrite Cn. clear IH Cn.
      repeat match goal with |- context [length (filter ?p ?l)] =>
        let n := fresh "n" in set (n := length (filter p l)) in *; clearbody n end.
      destruct mv'; cbv iota in I; lia.
    + destruct (bubble y t) as [[f' mv'] r'] eqn:B. inversion H; subst.
      pose proof (IH y f mv r' B) as I.
      pose proof (bubble_count t y f mv r' B (fun z => (label z <? label x)%nat)) as Cn.
      cbn [inversions] in *. unfold count_lt in *. rewrite Cn. clear IH Cn.
      repeat match goal with |- context [length (filter ?p ?l)] =>
        let n := fresh "n" in set (n := length (filter p l)) in *; clearbody n end.
      lia.
Qed.

Lemma sort_loop_total : forall (fuel : nat) (sg : bool) (l : list op),
  (inversions l < fuel)%nat -> exists sg' r, sort_loop fuel sg l = Some (sg', r).
Proof.
  induction fuel as [|fuel IH]; intros sg l Hlt; [lia|]. cbn [sort_loop].
  destruct (pass l) as [[fl mv] r1] eqn:P. destruct mv; [|eauto].
  apply IH. destruct l as [|x t]; cbn [pass] in P; [inversion P|].
  pose proof (bubble_inversions t x fl true r1 P) as I. cbv iota in I. lia.
Qed.

Lemma filter_len_le {A} (p : A -> bool) (l : list A) : (length (filter p l) <= length l)%nat.
Proof. induction l as [|a l IH]; cbn [filter length]; [lia|]. destruct (p a); cbn [length]; lia. Qed.

Lemma inversions_bound (l : list op) : (inversions l <= length l * length l)%nat.
Proof.
  induction l as [|x t IH]; [cbn; lia|]. cbn [inversions length].
  assert (count_lt x t <= length t)%nat by (unfold count_lt; apply filter_len_le).
  nia.
Qed.

Theorem fuel_sufficient (fuel : nat) (l : list op) :
  (enough_fuel l <= fuel)%nat -> exists sg r, phased_sort fuel l = Some (sg, r).
Proof.
  intro H. apply sort_loop_total. pose proof (inversions_bound l). unfold enough_fuel in H. lia.
Qed.

Lemma accumulate_total (fuel : nat) (bra ket : list op) :
  forall (terms : list term) (acc : option Z),
  (forall t, In t terms -> (enough_fuel (bra ++ snd t ++ ket) <= fuel)%nat) ->
  exists r, accumulate fuel bra ket terms acc = Some r.
Proof.
  induction terms as [|t ts IH]; intros acc H; cbn [accumulate]; [eauto|].
  assert (exists v, term_contrib fuel bra ket t = Some v) as (v & TC).
  { unfold term_contrib. destruct (fst t =? 0); [eauto|].
    destruct (fuel_sufficient fuel (bra ++ snd t ++ ket)) as (sg & r & PS); [apply H; left; reflexivity|].
    rewrite PS. eauto. }
  rewrite TC. apply IH. intros t' Ht'. apply H. right. exact Ht'.
Qed.

(* unconditional form: with enough passes allowed the algorithm returns the
   second-quantised matrix element *)
Theorem elements_total (fuel : nat) (terms : list term) (bases : list site_basis) (il ir : list nat) :
  (forall t, In t terms -> (enough_fuel (bra_ops bases il ++ snd t ++ ket_ops bases ir) <= fuel)%nat) ->
  element fuel terms bases il ir = Some (ref_element terms bases il ir).
Proof.
  intro H. destruct (accumulate_total fuel _ _ terms None H) as (r & A).
  assert (E : entry fuel terms bases il ir = Some r) by exact A.
  unfold element. rewrite E. pose proof (entry_spec _ _ _ _ _ _ E) as S.
  destruct r; cbn [entry_value] in S; rewrite S; reflexivity.
Qed.

(* ================================================================ examples: the hypotheses are satisfiable *)
Module Examples.
  Definition a := mkop 0 false.  Definition ad := mkop 0 true.
  Definition b := mkop 1 false.  Definition bd := mkop 1 true.
  Definition c := mkop 2 false.  Definition cd := mkop 2 true.

  (* <0| a b a+ b+ |0> = -1, found as: one swap (sign -) then a a+ b b+ *)
  Example sort_ex : phased_sort 5 [a; b; ad; bd] = Some (true, [a; ad; b; bd]).
  Proof. reflexivity. Qed.
  Example vev_ex : vev [a; b; ad; bd] = -1.
  Proof. reflexivity. Qed.
  Example anticommute_ex : apply_ops [ad; b] [false; true; true] = Some (false, [true; false; true])
                           /\ apply_ops [b; ad] [false; true; true] = Some (true, [true; false; true]).
  Proof. split; reflexivity. Qed.
  (* repeated operator: vanishes, and the pattern test says so *)
  Example vanish_ex : vev [a; ad; ad; a; b; bd] = 0 /\ nonvanishing [a; ad; ad; a; b; bd] = false.
  Proof. split; reflexivity. Qed.
  Example factor_ex : label_sorted [a; ad; a; ad; c; cd] /\ vev [a; ad; a; ad; c; cd] = 1.
  Proof. split; [repeat constructor | reflexivity]. Qed.

  (* the docstring example of build_local_fermionic_elements (t = 1, U = 8) *)
  Definition bases2 : list site_basis := [[[]; [ad]]; [[]; [bd]]].
  Definition hub : list term := [(-1, [ad; b]); (-1, [bd; a]); (8, [ad; a; bd; b])].
  Example elements_ex :
    elements 30 hub bases2 =
    Some [([0; 1; 1; 0]%nat, -1); ([1; 0; 0; 1]%nat, -1); ([1; 1; 1; 1]%nat, -8)].
  Proof. vm_compute. reflexivity. Qed.
  Example element_ex : element 30 hub bases2 [1; 1]%nat [1; 1]%nat = Some (-8)
                       /\ ref_element hub bases2 [1; 1]%nat [1; 1]%nat = -8.
  Proof. split; vm_compute; reflexivity. Qed.
  Example complete_ex : complete_bases bases2 = true /\ terms_within hub bases2 = true.
  Proof. split; reflexivity. Qed.
End Examples.
