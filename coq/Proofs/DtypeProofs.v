(* Proofs/DtypeProofs.v — C20: homogeneous dtype tags are preserved by every
   modelled operation, no implicit cast is lossy, lifted to programs; and the
   witnesses showing where the unrestricted statement is false. *)
From SV Require Import Base.Prelude Model.Dtype.

Definition Homog (d : dtype) (x : tarr) : Prop := Forall (fun b => snd b = d) x.
Definition ok (r : reg) : Prop := Homog (fst r) (snd r).
Definition Lossless (ev : list event) : Prop := Forall (fun e => lossless e = true) ev.

(* ---------------------------------------------------------------- table *)
Lemma dtype_eqb_refl d : dtype_eqb d d = true.
Proof. destruct d; reflexivity. Qed.
Lemma dtype_eqb_eq a b : dtype_eqb a b = true <-> a = b.
Proof. destruct a, b; cbn; split; intro H; try reflexivity; discriminate. Qed.
Lemma promote_idem d : promote d d = d.
Proof. destruct d; reflexivity. Qed.
Lemma promote_comm a b : promote a b = promote b a.
Proof. destruct a, b; reflexivity. Qed.
Lemma promote_assoc a b c : promote a (promote b c) = promote (promote a b) c.
Proof. destruct a, b, c; reflexivity. Qed.
Lemma promote_real d : promote d (real_of d) = d.
Proof. destruct d; reflexivity. Qed.
Lemma real_of_idem d : real_of (real_of d) = real_of d.
Proof. destruct d; reflexivity. Qed.
Lemma real_of_promote a b : real_of (promote a b) = promote (real_of a) (real_of b).
Proof. destruct a, b; reflexivity. Qed.
Lemma weak_int d : weak d PyInt = d.       Proof. reflexivity. Qed.
Lemma weak_float d : weak d PyFloat = d.   Proof. reflexivity. Qed.
Lemma weak_complex_prec d : is_double (weak d PyComplex) = is_double d.
Proof. destruct d; reflexivity. Qed.
Lemma lossless_not_discards e : lossless e = true -> discards_imag e = false /\ narrows e = false.
Proof. destruct e as [t s|d l]; cbn; [|auto]. destruct t, s; cbn; intro H; try discriminate; auto. Qed.

Lemma fold_promote_same d l : Forall (fun t => t = d) l -> fold_left promote l d = d.
Proof.
  induction l as [|t l IH]; intro H; cbn [fold_left]; [reflexivity|].
  inversion H as [|? ? Ht Hl]; subst. rewrite promote_idem. apply IH; assumption.
Qed.
Lemma forallb_same d l : Forall (fun t => t = d) l -> forallb (dtype_eqb d) l = true.
Proof.
  induction l as [|t l IH]; intro H; cbn [forallb]; [reflexivity|].
  inversion H as [|? ? Ht Hl]; subst. rewrite dtype_eqb_refl. cbn. apply IH; assumption.
Qed.

(* ---------------------------------------------------------------- list helpers *)
Lemma fold_left_inv {A B} (P : A -> Prop) (f : A -> B -> A) (Q : B -> Prop) l a :
  P a -> Forall Q l -> (forall a b, P a -> Q b -> P (f a b)) -> P (fold_left f l a).
Proof.
  revert a. induction l as [|b l IH]; intros a Ha Hl Hf; cbn [fold_left]; [assumption|].
  inversion Hl as [|? ? Hb Hl']; subst. apply IH; auto.
Qed.
Lemma combine_nil_r {A B} (l : list A) : combine l (@nil B) = [].
Proof. destruct l; reflexivity. Qed.
Lemma Forall_combine_r {A B} (Q : B -> Prop) (l1 : list A) (l2 : list B) :
  Forall Q l2 -> Forall (fun p => Q (snd p)) (combine l1 l2).
Proof.
  revert l2. induction l1 as [|a l1 IH]; intros l2 H; cbn [combine]; [constructor|].
  destruct l2 as [|b l2]; [constructor|]. inversion H; subst. constructor; [assumption|apply IH; assumption].
Qed.
Lemma Forall_concat {A} (P : A -> Prop) (ll : list (list A)) : Forall (Forall P) ll -> Forall P (concat ll).
Proof.
  induction ll as [|l ll IH]; intro H; cbn [concat]; [constructor|].
  inversion H; subst. apply Forall_app; split; [assumption|apply IH; assumption].
Qed.
Lemma mapM_Forall2 {A B} (f : A -> option B) l r :
  mapM f l = Some r -> Forall2 (fun a b => f a = Some b) l r.
Proof.
  revert r. induction l as [|a l IH]; intros r H; cbn [mapM] in H.
  - inversion H; constructor.
  - destruct (f a) as [b|] eqn:Ea; cbn [bind] in H; [|discriminate].
    destruct (mapM f l) as [r'|] eqn:El; cbn [bind] in H; [|discriminate].
    inversion H; subst. constructor; [assumption|apply IH; reflexivity].
Qed.
Lemma Forall2_out {A B} (R : A -> B -> Prop) (Q : B -> Prop) l r :
  Forall2 R l r -> (forall a b, In a l -> R a b -> Q b) -> Forall Q r.
Proof.
  induction 1 as [|a b l r Hab Hlr IH]; intro H; constructor.
  - apply (H a b); [left; reflexivity|assumption].
  - apply IH. intros a' b' Hin. apply H. right; assumption.
Qed.
Lemma Forall_filter_sel {A} (P : A -> Prop) sel (x : list A) : Forall P x -> Forall P (filter_sel sel x).
Proof.
  unfold filter_sel. revert x. induction sel as [|s sel IH]; intros x H; cbn [combine filter map]; [constructor|].
  destruct x as [|a x]; cbn [combine filter map]; [constructor|]. inversion H; subst.
  destruct s; cbn [fst filter map snd]; [constructor; [assumption|]|]; apply IH; assumption.
Qed.

(* ---------------------------------------------------------------- Homog basics *)
Lemma Homog_tags d x : Homog d x -> Forall (fun t => t = d) (tags x).
Proof. unfold Homog, tags. intro H. apply Forall_map. exact H. Qed.
Lemma Homog_lookup d k x t : Homog d x -> alookup k x = Some t -> t = d.
Proof.
  unfold alookup. induction x as [|[k' v] x IH]; intros H E; cbn [lookup] in E; [discriminate|].
  pose proof (Forall_inv H) as Hv; pose proof (Forall_inv_tail H) as Hx; cbn [snd] in Hv. destruct (seqb k k'); [inversion E; subst t; exact Hv|apply IH; assumption].
Qed.
Lemma Homog_aset d k x : Homog d x -> Homog d (aset k d x).
Proof.
  unfold aset. induction x as [|[k' v] x IH]; intro H; cbn [dset].
  - constructor; [reflexivity|constructor].
  - pose proof (Forall_inv H) as Hv; pose proof (Forall_inv_tail H) as Hx; cbn [snd] in Hv. destruct (seqb k k'); constructor; [reflexivity|exact Hx|exact Hv|apply IH; exact Hx].
Qed.
Lemma Homog_apop d k x : Homog d x -> Homog d (apop k x).
Proof.
  unfold apop. induction x as [|[k' v] x IH]; intro H; cbn [dpop]; [constructor|].
  pose proof (Forall_inv H) as Hv; pose proof (Forall_inv_tail H) as Hx; cbn [snd] in Hv. destruct (seqb k k'); [exact Hx|constructor; [exact Hv|apply IH; exact Hx]].
Qed.
Lemma Homog_from_items d l : Forall (fun b => snd b = d) l -> Homog d (from_items l).
Proof.
  intro H. unfold from_items.
  apply (fold_left_inv (Homog d) _ (fun b : sector * dtype => snd b = d)); [constructor|assumption|].
  intros a b Ha Hb. rewrite Hb. apply Homog_aset; assumption.
Qed.
Lemma Homog_nth d x i t : Homog d x -> tag_at x i = Some t -> t = d.
Proof.
  unfold tag_at. intros H E. destruct (nth_error x i) as [b|] eqn:En; cbn [option_map] in E; [|discriminate].
  inversion E; subst. apply nth_error_In in En. unfold Homog in H. rewrite Forall_forall in H. apply H; assumption.
Qed.

(* ---------------------------------------------------------------- unary *)
Lemma map_blocks_homog u keys d x : Homog d x -> Homog (kern u d) (map_blocks u keys x).
Proof.
  intro H. unfold map_blocks. apply Homog_from_items.
  apply (Forall_combine_r (fun t => t = kern u d)). apply Forall_map.
  apply Homog_tags in H. revert H. apply Forall_impl. intros t Ht; subst; reflexivity.
Qed.
Lemma phase_sync_homog sel d x : Homog d x -> Homog d (phase_sync sel x).
Proof.
  intro H. unfold phase_sync, Homog. apply Forall_map.
  assert (Hc : Forall (fun p : bool * (sector * dtype) => snd (snd p) = d) (combine sel x))
    by (apply (Forall_combine_r (fun b : sector * dtype => snd b = d)); exact H).
  revert Hc. apply Forall_impl. intros [s [k t]] Ht; cbn in *. destruct s; exact Ht.
Qed.

(* ---------------------------------------------------------------- fuse (insert) *)
Definition InsInv (d : dtype) (st : tarr * list event) : Prop := Homog d (fst st) /\ Lossless (snd st).
Lemma insert_step_inv d zk st it :
  k_zeros zk = d -> snd it = d -> InsInv d st -> InsInv d (insert_step zk st it).
Proof.
  intros Hz Hit [Hh Hl]. unfold insert_step.
  destruct (alookup (fst it) (fst st)) as [t|] eqn:E.
  - assert (t = d) by (eapply Homog_lookup; eassumption). subst t. unfold k_setitem. split; cbn [fst snd].
    + apply Homog_aset; assumption.
    + apply Forall_app; split; [assumption|]. constructor; [|constructor]. cbn. rewrite Hit. apply dtype_eqb_refl.
  - cbv zeta. unfold k_setitem. rewrite Hz. split; cbn [fst snd].
    + apply Homog_aset; assumption.
    + apply Forall_app; split; [assumption|]. constructor; [|constructor]. cbn. rewrite Hit. apply dtype_eqb_refl.
Qed.
Lemma fuse_insert_spec d plan x :
  Homog d x -> Homog d (fst (fuse_insert plan x)) /\ Lossless (snd (fuse_insert plan x)).
Proof.
  intro H. unfold fuse_insert. destruct x as [|b x].
  - cbn [tags map]. rewrite combine_nil_r. cbn. split; constructor.
  - assert (Hb : snd b = d) by (inversion H; assumption).
    apply (fold_left_inv (InsInv d) _ (fun it : sector * dtype => snd it = d)).
    + split; constructor.
    + apply (Forall_combine_r (fun t => t = d)). apply Homog_tags; assumption.
    + intros a it Ha Hit. apply insert_step_inv; [cbn; exact Hb|exact Hit|exact Ha].
Qed.

(* ---------------------------------------------------------------- concatenation trees *)
Section ctree_induction.
  Context (P : ctree -> Prop)
          (Hleaf : forall k, P (CLeaf k))
          (Hnode : forall t ts, P t -> Forall P ts -> P (CNode t ts)).
  Fixpoint ctree_ind' (t : ctree) : P t :=
    match t with
    | CLeaf k => Hleaf k
    | CNode t0 ts =>
        Hnode t0 ts (ctree_ind' t0)
              ((fix go (l : list ctree) : Forall P l :=
                  match l with
                  | [] => Forall_nil P
                  | x :: l' => Forall_cons x (ctree_ind' x) (go l')
                  end) ts)
    end.
End ctree_induction.

Lemma eval_tree_spec d x t :
  Homog d x -> fst (eval_tree d x t) = d /\ Lossless (snd (eval_tree d x t)).
Proof.
  intro H. induction t as [k|t0 ts IH0 IHs] using ctree_ind'.
  - cbn [eval_tree fst snd]. split; [|constructor].
    destruct (alookup k x) as [t|] eqn:E; [eapply Homog_lookup; eassumption|reflexivity].
  - cbn [eval_tree fst snd]. destruct IH0 as [IH0a IH0b].
    assert (Hfs : Forall (fun t => t = d) (map fst (map (eval_tree d x) ts))).
    { apply Forall_map. apply Forall_map. revert IHs. apply Forall_impl. intros a [Ha _]; exact Ha. }
    assert (Hev : Forall Lossless (map snd (map (eval_tree d x) ts))).
    { apply Forall_map. apply Forall_map. revert IHs. apply Forall_impl. intros a [_ Ha]; exact Ha. }
    split.
    + unfold k_concat. rewrite IH0a. apply fold_promote_same; assumption.
    + apply Forall_app; split; [assumption|]. apply Forall_app; split.
      * apply Forall_concat; assumption.
      * constructor; [|constructor]. cbn [lossless]. rewrite IH0a. apply forallb_same; assumption.
Qed.

Lemma fuse_concat_spec d plan x :
  Homog d x -> Homog d (fst (fuse_concat plan x)) /\ Lossless (snd (fuse_concat plan x)).
Proof.
  intro H. unfold fuse_concat. destruct x as [|b x]; [split; constructor|].
  assert (Hb : snd b = d) by (inversion H; assumption).
  cbn [zeros_kwargs k_zeros]. rewrite Hb. cbn [fst snd]. split.
  - unfold Homog. rewrite map_map. apply Forall_map. apply Forall_forall. intros p _. cbn [fst snd].
    apply eval_tree_spec; assumption.
  - apply Forall_concat. rewrite map_map. apply Forall_map. apply Forall_forall. intros p _. cbn [fst snd].
    apply eval_tree_spec; assumption.
Qed.

Lemma to_dense_spec d t x :
  Homog d x -> x <> [] -> fst (to_dense t x) = d /\ Lossless (snd (to_dense t x)).
Proof.
  intros H Hne. unfold to_dense. destruct x as [|b x]; [congruence|].
  assert (Hb : snd b = d) by (inversion H; assumption).
  cbn [any_src k_zeros_like]. rewrite Hb. apply eval_tree_spec; assumption.
Qed.
(* an array without stored blocks densifies to float64 whatever it was meant to hold *)
Lemma to_dense_empty t : fst (to_dense t []) = F64.
Proof. unfold to_dense. cbn [any_src k_zeros_like]. apply (eval_tree_spec F64 [] t). constructor. Qed.

Lemma fill_missing_spec d valid x : Homog d x -> x <> [] -> Homog d (fill_missing valid x).
Proof.
  intros H Hne. unfold fill_missing. destruct x as [|b x]; [congruence|].
  assert (Hb : snd b = d) by (inversion H; assumption).
  cbn [any_src k_zeros_like]. rewrite Hb.
  apply (fold_left_inv (Homog d) _ (fun _ : sector => True)); [assumption|apply Forall_forall; auto|].
  intros a s Ha _. destruct (alookup s a); [assumption|apply Homog_aset; assumption].
Qed.
Lemma fill_missing_empty valid : Homog F64 (fill_missing valid []).
Proof.
  unfold fill_missing. cbn [any_src k_zeros_like].
  apply (fold_left_inv (Homog F64) _ (fun _ : sector => True)); [constructor|apply Forall_forall; auto|].
  intros a s Ha _. destruct (alookup s a); [assumption|apply Homog_aset; assumption].
Qed.

(* ---------------------------------------------------------------- unfuse *)
Lemma unfuse_homog d plan x : Homog d x -> Homog d (unfuse plan x).
Proof.
  intro H. unfold unfuse. apply Homog_from_items. apply Forall_concat. apply Forall_map.
  assert (Hc : Forall (fun p : list sector * (sector * dtype) => snd (snd p) = d) (combine plan x))
    by (apply (Forall_combine_r (fun b : sector * dtype => snd b = d)); exact H).
  revert Hc. apply Forall_impl. intros [ks [k t]] Ht; cbn in *. apply Forall_map. apply Forall_forall.
  intros k' _. cbn. exact Ht.
Qed.
Lemma unfuse_all_homog d unf x : Homog d x -> Homog d (fold_left (fun c u => unfuse u c) unf x).
Proof.
  intro H. apply (fold_left_inv (Homog d) _ (fun _ : list (list sector) => True)); [assumption|apply Forall_forall; auto|].
  intros a u Ha _. apply unfuse_homog; assumption.
Qed.

(* ---------------------------------------------------------------- binary blockwise *)
Lemma bin_walk_spec lm dx dy x : forall y r o,
  Homog dx x -> Homog dy y -> bin_walk lm x y = Some (r, o) ->
  Forall (fun b => snd b = promote dx dy \/ (lm = LKeep /\ snd b = dx)) r /\ Homog dy o.
Proof.
  induction x as [|b x IH]; intros y r o Hx Hy E; cbn [bin_walk] in E.
  - inversion E; subst r o. split; [constructor|assumption].
  - pose proof (Forall_inv Hx) as Hb; pose proof (Forall_inv_tail Hx) as Hx'; cbn beta in Hb.
    destruct (alookup (fst b) y) as [d'|] eqn:El.
    + assert (Hd : d' = dy) by (eapply Homog_lookup; eassumption).
      destruct (bin_walk lm x (apop (fst b) y)) as [[r' o']|] eqn:Ew; cbn [bind] in E; [|discriminate].
      cbn [fst snd] in E. inversion E; subst r o. destruct (IH _ _ _ Hx' (Homog_apop _ _ _ Hy) Ew) as [Hr Ho].
      split; [constructor; [left; cbn [snd]; unfold k_binop; rewrite Hb, Hd; reflexivity|exact Hr]|exact Ho].
    + destruct lm; [discriminate| |].
      * destruct (bin_walk LKeep x y) as [[r' o']|] eqn:Ew; cbn [bind] in E; [|discriminate].
        cbn [fst snd] in E. inversion E; subst r o. destruct (IH _ _ _ Hx' Hy Ew) as [Hr Ho].
        split; [constructor; [right; split; [reflexivity|exact Hb]|exact Hr]|exact Ho].
      * exact (IH _ _ _ Hx' Hy E).
Qed.
Lemma bin_strict_homog dx dy x y z :
  Homog dx x -> Homog dy y -> bin_strict x y = Some z -> Homog (promote dx dy) z.
Proof.
  intros Hx Hy E. unfold bin_strict in E.
  destruct (bin_walk LRaise x y) as [[r o]|] eqn:Ew; cbn [bind] in E; [|discriminate].
  cbn [fst snd] in E. destruct (is_nil o); [|discriminate]. inversion E; subst.
  destruct (bin_walk_spec _ _ _ _ _ _ _ Hx Hy Ew) as [Hr _]. revert Hr. apply Forall_impl.
  intros b [Hb|[Hk _]]; [exact Hb|discriminate].
Qed.
Lemma bin_outer_homog d x y z : Homog d x -> Homog d y -> bin_outer x y = Some z -> Homog d z.
Proof.
  intros Hx Hy E. unfold bin_outer in E.
  destruct (bin_walk LKeep x y) as [[r o]|] eqn:Ew; cbn [bind] in E; [|discriminate].
  inversion E; subst. destruct (bin_walk_spec _ _ _ _ _ _ _ Hx Hy Ew) as [Hr Ho]. cbn [fst snd].
  apply Forall_app; split; [|exact Ho]. revert Hr. apply Forall_impl. rewrite promote_idem.
  intros b [Hb|[_ Hb]]; exact Hb.
Qed.
Lemma bin_inner_homog dx dy x y z :
  Homog dx x -> Homog dy y -> bin_inner x y = Some z -> Homog (promote dx dy) z.
Proof.
  intros Hx Hy E. unfold bin_inner in E.
  destruct (bin_walk LDrop x y) as [[r o]|] eqn:Ew; cbn [bind] in E; [|discriminate].
  inversion E; subst. destruct (bin_walk_spec _ _ _ _ _ _ _ Hx Hy Ew) as [Hr _]. cbn [fst].
  revert Hr. apply Forall_impl. intros b [Hb|[Hk _]]; [exact Hb|discriminate].
Qed.

(* ---------------------------------------------------------------- contraction *)
Lemma pair_tag_spec dx dy a b p t :
  Homog dx a -> Homog dy b -> pair_tag a b p = Some t -> t = promote dx dy.
Proof.
  intros Ha Hb E. unfold pair_tag in E.
  destruct (tag_at a (fst p)) as [da|] eqn:E1; cbn [bind] in E; [|discriminate].
  destruct (tag_at b (snd p)) as [db|] eqn:E2; cbn [bind] in E; [|discriminate].
  inversion E; subst. rewrite (Homog_nth _ _ _ _ Ha E1), (Homog_nth _ _ _ _ Hb E2). reflexivity.
Qed.
Lemma bw_block_spec dx dy a b p0 ps t :
  Homog dx a -> Homog dy b -> bw_block a b p0 ps = Some t -> t = promote dx dy.
Proof.
  intros Ha Hb E. unfold bw_block in E.
  destruct (pair_tag a b p0) as [t0|] eqn:E0; cbn [bind] in E; [|discriminate].
  destruct (mapM (pair_tag a b) ps) as [ts|] eqn:Es; cbn [bind] in E; [|discriminate].
  inversion E; subst. rewrite (pair_tag_spec _ _ _ _ _ _ Ha Hb E0). unfold k_binop.
  apply fold_promote_same. apply mapM_Forall2 in Es.
  apply (Forall2_out _ _ _ _ Es). intros p t _ Hp. eapply pair_tag_spec; eassumption.
Qed.
Lemma tdot_blockwise_homog dx dy plan a b c :
  Homog dx a -> Homog dy b -> tdot_blockwise plan a b = Some c -> Homog (promote dx dy) c.
Proof.
  intros Ha Hb E. unfold tdot_blockwise in E. apply mapM_Forall2 in E.
  apply (Forall2_out _ _ _ _ E). intros e kb _ He.
  destruct (bw_block a b (fst (snd e)) (snd (snd e))) as [t|] eqn:Eb; cbn [bind] in He; [|discriminate].
  inversion He; subst. cbn [snd]. eapply bw_block_spec; eassumption.
Qed.
Lemma opt_fuse_spec d p x : Homog d x -> Homog d (fst (opt_fuse p x)) /\ Lossless (snd (opt_fuse p x)).
Proof. intro H. destruct p as [pl|]; cbn [opt_fuse]; [apply fuse_insert_spec; assumption|split; [assumption|constructor]]. Qed.
Lemma tdot_fused_spec dx dy ka kb pa pb pc unf a b c ev :
  Homog dx a -> Homog dy b -> tdot_fused ka kb pa pb pc unf a b = Some (c, ev) ->
  Homog (promote dx dy) c /\ Lossless ev.
Proof.
  intros Ha Hb E. unfold tdot_fused in E.
  destruct (is_nil (filter_sel ka a) || is_nil (filter_sel kb b)).
  - inversion E; subst. split; constructor.
  - pose proof (opt_fuse_spec dx pa _ (Forall_filter_sel _ ka a Ha)) as [Hfa Hea].
    pose proof (opt_fuse_spec dy pb _ (Forall_filter_sel _ kb b Hb)) as [Hfb Heb].
    cbv zeta in E.
    destruct (tdot_blockwise pc (fst (opt_fuse pa (filter_sel ka a))) (fst (opt_fuse pb (filter_sel kb b))))
      as [cf|] eqn:Ec; cbn [bind] in E; [|discriminate].
    inversion E; subst. split.
    + apply unfuse_all_homog. exact (tdot_blockwise_homog _ _ _ _ _ _ Hfa Hfb Ec).
    + apply Forall_app; split; assumption.
Qed.

Lemma mul_diag_homog dx dv vkeys x v : Homog dx x -> Homog dv v -> Homog (promote dx dv) (mul_diag vkeys x v).
Proof.
  intros Hx Hv. unfold mul_diag. apply Forall_concat. apply Forall_map.
  assert (Hc : Forall (fun p : sector * (sector * dtype) => snd (snd p) = dx) (combine vkeys x))
    by (apply (Forall_combine_r (fun b : sector * dtype => snd b = dx)); exact Hx).
  revert Hc. apply Forall_impl. intros [k [s t]] Ht; cbn in *.
  destruct (alookup k v) as [t'|] eqn:E; [|constructor].
  rewrite (Homog_lookup _ _ _ _ Hv E), Ht. constructor; [reflexivity|constructor].
Qed.
Lemma einsum_homog d plan x : Homog d x -> Homog d (einsum plan x).
Proof.
  intro H. unfold einsum.
  apply (fold_left_inv (Homog d) _ (fun p : option sector * (sector * dtype) => snd (snd p) = d)).
  - constructor.
  - apply (Forall_combine_r (fun b : sector * dtype => snd b = d)); exact H.
  - intros a [[ns|] [k t]] Ha Ht; cbn in *; [|assumption]. subst t.
    destruct (alookup ns a) as [t'|] eqn:E.
    + rewrite (Homog_lookup _ _ _ _ Ha E). unfold k_binop. rewrite promote_idem. apply Homog_aset; assumption.
    + apply Homog_aset; assumption.
Qed.

(* ---------------------------------------------------------------- scalars *)
Lemma trace_spec d diag x : Homog d x -> trace diag x = SPy PyInt \/ trace diag x = SNp d.
Proof.
  intro H. unfold trace.
  assert (Ht : Forall (fun t => t = d) (tags (filter_sel diag x))).
  { apply Homog_tags. apply Forall_filter_sel. exact H. }
  destruct (tags (filter_sel diag x)) as [|t l]; [left; reflexivity|right].
  inversion Ht as [|? ? H1 Hl]; subst. cbn [fold_left sadd weak].
  revert Hl. clear. induction l as [|t l IH]; intro Hl; cbn [fold_left]; [reflexivity|].
  inversion Hl; subst. cbn [sadd]. rewrite promote_idem. apply IH; assumption.
Qed.
Lemma sres_arr_homog d s : s = SPy PyInt \/ s = SNp d -> Homog d (sres_arr s).
Proof. intros [->| ->]; cbn; [constructor|constructor; [reflexivity|constructor]]. Qed.
Lemma reduce_all_spec d x s : Homog d x -> reduce_all x = Some s -> s = SNp d.
Proof.
  intros H E. unfold reduce_all in E. apply Homog_tags in H. destruct (tags x) as [|t l]; [discriminate|].
  inversion H; subst. inversion E; subst. unfold k_binop. rewrite fold_promote_same; [reflexivity|assumption].
Qed.
Lemma norm_spec d x s : Homog d x -> norm x = Some s -> s = SNp (real_of d).
Proof.
  intros H E. unfold norm in E. apply Homog_tags in H.
  assert (Hr : Forall (fun t => t = real_of d) (map k_abs (tags x))).
  { apply Forall_map. revert H. apply Forall_impl. intros t ->. reflexivity. }
  destruct (map k_abs (tags x)) as [|t l]; [discriminate|].
  inversion Hr as [|? ? Ht Hl]; subst. inversion E; subst. cbn [weak]. unfold k_binop.
  rewrite fold_promote_same; [reflexivity|]. apply Forall_map. revert Hl. apply Forall_impl. intros t ->. reflexivity.
Qed.

(* ---------------------------------------------------------------- factorisations *)
Lemma map_snd_homog (f : dtype -> dtype) d x :
  Homog d x -> Homog (f d) (map (fun b : sector * dtype => (fst b, f (snd b))) x).
Proof. intro H. unfold Homog. apply Forall_map. revert H. apply Forall_impl. intros b Hb; cbn. rewrite Hb; reflexivity. Qed.
Lemma keyed_homog (f : dtype -> dtype) keys d x :
  Homog d x -> Homog (f d) (from_items (combine keys (map f (tags x)))).
Proof.
  intro H. apply Homog_from_items. apply (Forall_combine_r (fun t => t = f d)). apply Forall_map.
  apply Homog_tags in H. revert H. apply Forall_impl. intros t ->. reflexivity.
Qed.
Lemma qr_homog d rkeys x : Homog d x -> Homog d (qr_q x) /\ Homog d (qr_r rkeys x).
Proof.
  intro H. split.
  - exact (map_snd_homog (fun t => fst (k_qr t)) d x H).
  - exact (keyed_homog (fun t => snd (k_qr t)) rkeys d x H).
Qed.
Lemma svd_homog d skeys vkeys x :
  Homog d x -> Homog d (svd_u x) /\ Homog (real_of d) (svd_s skeys x) /\ Homog d (svd_v vkeys x).
Proof.
  intro H. split; [|split].
  - exact (map_snd_homog (fun t => fst (fst (k_svd t))) d x H).
  - exact (keyed_homog (fun t => snd (fst (k_svd t))) skeys d x H).
  - exact (keyed_homog (fun t => snd (k_svd t)) vkeys d x H).
Qed.
Lemma eigh_homog d wkeys x : Homog d x -> Homog (real_of d) (eigh_w wkeys x) /\ Homog d (eigh_v x).
Proof.
  intro H. split.
  - exact (keyed_homog (fun t => fst (k_eigh t)) wkeys d x H).
  - exact (map_snd_homog (fun t => snd (k_eigh t)) d x H).
Qed.
Lemma solve_homog da db plan a b x :
  Homog da a -> Homog db b -> solve plan a b = Some x -> Homog (promote da db) x.
Proof.
  intros Ha Hb E. unfold solve in E.
  match type of E with bind (mapM ?f ?l) _ = _ => destruct (mapM f l) as [ll|] eqn:Em end; cbn [bind] in E; [|discriminate].
  inversion E; subst. apply Homog_from_items. apply Forall_concat. apply mapM_Forall2 in Em.
  assert (Hc : Forall (fun p : option (sector * sector) * (sector * dtype) => snd (snd p) = da) (combine plan a))
    by (apply (Forall_combine_r (fun b : sector * dtype => snd b = da)); exact Ha).
  rewrite Forall_forall in Hc.
  apply (Forall2_out _ _ _ _ Em). intros [[kk|] [k t]] l Hin Hl; cbn in Hl.
  - destruct (alookup (fst kk) b) as [t'|] eqn:El; cbn [bind] in Hl; [|discriminate]. inversion Hl; subst.
    rewrite (Homog_lookup _ _ _ _ Hb El). specialize (Hc _ Hin). cbn in Hc. subst t.
    constructor; [reflexivity|constructor].
  - inversion Hl; subst. constructor.
Qed.
Lemma scale_by_homog d x s : Homog d x -> Homog (real_of d) s -> Homog d (scale_by x s).
Proof.
  intros Hx Hs. unfold scale_by, Homog. apply Forall_map. apply Forall_forall. intros [[k t] [k' t']] Hin.
  cbn. pose proof (in_combine_l _ _ _ _ Hin) as H1. pose proof (in_combine_r _ _ _ _ Hin) as H2.
  unfold Homog in Hx, Hs. rewrite Forall_forall in Hx, Hs. specialize (Hx _ H1). specialize (Hs _ H2). cbn in Hx, Hs.
  subst. unfold k_binop, k_keep. apply promote_real.
Qed.
Lemma svd_trunc_homog d ab keep skeys vkeys x :
  Homog d x ->
  Homog d (fst (fst (svd_trunc ab keep skeys vkeys x))) /\
  Homog (real_of d) (snd (fst (svd_trunc ab keep skeys vkeys x))) /\
  Homog d (snd (svd_trunc ab keep skeys vkeys x)).
Proof.
  intro H. destruct (svd_homog d skeys vkeys x H) as [Hu [Hs Hv]].
  pose proof (Forall_filter_sel _ keep _ Hu) as Hu'. pose proof (Forall_filter_sel _ keep _ Hs) as Hs'.
  pose proof (Forall_filter_sel _ keep _ Hv) as Hv'.
  unfold svd_trunc. destruct ab; cbn [fst snd]; repeat split;
    try assumption; try constructor; try (apply scale_by_homog; assumption).
Qed.

(* ---------------------------------------------------------------- constructors *)
Lemma ctor_fill_homog keys d : Homog d (ctor_fill keys d).
Proof. unfold ctor_fill, Homog. apply Forall_map. apply Forall_forall. intros; reflexivity. Qed.
Lemma ctor_random_homog keys d : Homog d (ctor_random keys d).
Proof. unfold ctor_random, Homog. apply Forall_map. apply Forall_forall. intros; reflexivity. Qed.

(* ---------------------------------------------------------------- programs *)
Lemma getr_ok rs i x : Forall ok rs -> getr rs i = Some x -> ok x.
Proof. intros H E. unfold getr in E. apply nth_error_In in E. rewrite Forall_forall in H. apply H; assumption. Qed.

Ltac get_reg H rs r x Hx :=
  destruct (getr rs r) as [x|] eqn:Hx; cbn [bind] in H; [|discriminate].
Ltac push_done H Hrs :=
  unfold push1 in H; inversion H; subst; clear H; split;
  [apply Forall_app; split; [exact Hrs|]|try constructor].

Lemma step_ok i rs rs' ev :
  Forall ok rs -> safe i rs = true -> step i rs = Some (rs', ev) -> Forall ok rs' /\ Lossless ev.
Proof.
  intros Hrs Hsafe E. destruct i; cbn [step] in E.
  - (* ICtorFill *) push_done E Hrs. constructor; [apply ctor_fill_homog|constructor].
  - (* ICtorRandom *) push_done E Hrs. constructor; [apply ctor_random_homog|constructor].
  - (* IMap *) get_reg E rs r x Hx. pose proof (getr_ok _ _ _ Hrs Hx) as Ho. push_done E Hrs.
    constructor; [apply map_blocks_homog; exact Ho|constructor].
  - (* IPhaseSync *) get_reg E rs r x Hx. pose proof (getr_ok _ _ _ Hrs Hx) as Ho. push_done E Hrs.
    constructor; [apply phase_sync_homog; exact Ho|constructor].
  - (* IAdd *) get_reg E rs a x Hx. get_reg E rs b y Hy.
    pose proof (getr_ok _ _ _ Hrs Hx) as Hox. pose proof (getr_ok _ _ _ Hrs Hy) as Hoy.
    cbn [safe] in Hsafe. unfold same_decl in Hsafe. rewrite Hx, Hy in Hsafe. apply dtype_eqb_eq in Hsafe.
    destruct (bin_outer (snd x) (snd y)) as [z|] eqn:Ez; cbn [bind] in E; [|discriminate]. push_done E Hrs.
    constructor; [|constructor]. unfold ok in *. cbn [fst snd]. rewrite <- Hsafe in *. rewrite promote_idem.
    exact (bin_outer_homog _ _ _ _ Hox Hoy Ez).
  - (* ISub *) get_reg E rs a x Hx. get_reg E rs b y Hy.
    pose proof (getr_ok _ _ _ Hrs Hx) as Hox. pose proof (getr_ok _ _ _ Hrs Hy) as Hoy.
    destruct (bin_strict (snd x) (snd y)) as [z|] eqn:Ez; cbn [bind] in E; [|discriminate]. push_done E Hrs.
    constructor; [|constructor]. unfold ok in *. cbn [fst snd]. exact (bin_strict_homog _ _ _ _ _ Hox Hoy Ez).
  - (* IMul *) get_reg E rs a x Hx. get_reg E rs b y Hy.
    pose proof (getr_ok _ _ _ Hrs Hx) as Hox. pose proof (getr_ok _ _ _ Hrs Hy) as Hoy.
    destruct (bin_inner (snd x) (snd y)) as [z|] eqn:Ez; cbn [bind] in E; [|discriminate]. push_done E Hrs.
    constructor; [|constructor]. unfold ok in *. cbn [fst snd]. exact (bin_inner_homog _ _ _ _ _ Hox Hoy Ez).
  - (* IDiv *) get_reg E rs a x Hx. get_reg E rs b y Hy.
    pose proof (getr_ok _ _ _ Hrs Hx) as Hox. pose proof (getr_ok _ _ _ Hrs Hy) as Hoy.
    destruct (bin_strict (snd x) (snd y)) as [z|] eqn:Ez; cbn [bind] in E; [|discriminate]. push_done E Hrs.
    constructor; [|constructor]. unfold ok in *. cbn [fst snd]. exact (bin_strict_homog _ _ _ _ _ Hox Hoy Ez).
  - (* IFuseInsert *) get_reg E rs r x Hx. pose proof (getr_ok _ _ _ Hrs Hx) as Ho.
    destruct (fuse_insert_spec _ plan _ Ho) as [Hh Hl]. cbv zeta in E. push_done E Hrs; [|exact Hl].
    constructor; [exact Hh|constructor].
  - (* IFuseConcat *) get_reg E rs r x Hx. pose proof (getr_ok _ _ _ Hrs Hx) as Ho.
    destruct (fuse_concat_spec _ plan _ Ho) as [Hh Hl]. cbv zeta in E. push_done E Hrs; [|exact Hl].
    constructor; [exact Hh|constructor].
  - (* IUnfuse *) get_reg E rs r x Hx. pose proof (getr_ok _ _ _ Hrs Hx) as Ho. push_done E Hrs.
    constructor; [apply unfuse_homog; exact Ho|constructor].
  - (* IToDense *) get_reg E rs r x Hx. pose proof (getr_ok _ _ _ Hrs Hx) as Ho.
    cbn [safe] in Hsafe. unfold reg_nonempty in Hsafe. rewrite Hx in Hsafe.
    assert (Hne : snd x <> []) by (intro Hn; rewrite Hn in Hsafe; discriminate).
    destruct (to_dense_spec _ t _ Ho Hne) as [Hh Hl]. cbv zeta in E. push_done E Hrs; [|exact Hl].
    constructor; [|constructor]. unfold ok. cbn [fst snd]. constructor; [exact Hh|constructor].
  - (* IFill *) get_reg E rs r x Hx. pose proof (getr_ok _ _ _ Hrs Hx) as Ho.
    cbn [safe] in Hsafe. unfold reg_nonempty in Hsafe. rewrite Hx in Hsafe.
    assert (Hne : snd x <> []) by (intro Hn; rewrite Hn in Hsafe; discriminate).
    push_done E Hrs. constructor; [apply fill_missing_spec; assumption|constructor].
  - (* ITdotBW *) get_reg E rs a x Hx. get_reg E rs b y Hy.
    pose proof (getr_ok _ _ _ Hrs Hx) as Hox. pose proof (getr_ok _ _ _ Hrs Hy) as Hoy.
    destruct (tdot_blockwise plan (snd x) (snd y)) as [z|] eqn:Ez; cbn [bind] in E; [|discriminate]. push_done E Hrs.
    constructor; [|constructor]. unfold ok in *. cbn [fst snd]. exact (tdot_blockwise_homog _ _ _ _ _ _ Hox Hoy Ez).
  - (* ITdotFused *) get_reg E rs a x Hx. get_reg E rs b y Hy.
    pose proof (getr_ok _ _ _ Hrs Hx) as Hox. pose proof (getr_ok _ _ _ Hrs Hy) as Hoy.
    destruct (tdot_fused ka kb pa pb pc unf (snd x) (snd y)) as [[z ez]|] eqn:Ez; cbn [bind] in E; [|discriminate].
    destruct (tdot_fused_spec _ _ _ _ _ _ _ _ _ _ _ _ Hox Hoy Ez) as [Hh Hl]. cbn [fst snd] in E.
    push_done E Hrs; [|exact Hl]. constructor; [exact Hh|constructor].
  - (* IMulDiag *) get_reg E rs x a Hx. get_reg E rs v b Hy.
    pose proof (getr_ok _ _ _ Hrs Hx) as Hox. pose proof (getr_ok _ _ _ Hrs Hy) as Hoy. push_done E Hrs.
    constructor; [|constructor]. unfold ok in *. cbn [fst snd]. apply mul_diag_homog; assumption.
  - (* IEinsum *) get_reg E rs r x Hx. pose proof (getr_ok _ _ _ Hrs Hx) as Ho. push_done E Hrs.
    constructor; [apply einsum_homog; exact Ho|constructor].
  - (* ITrace *) get_reg E rs r x Hx. pose proof (getr_ok _ _ _ Hrs Hx) as Ho. push_done E Hrs.
    constructor; [|constructor]. unfold ok. cbn [fst snd]. apply sres_arr_homog. apply trace_spec. exact Ho.
  - (* IReduce *) get_reg E rs r x Hx. pose proof (getr_ok _ _ _ Hrs Hx) as Ho.
    destruct (reduce_all (snd x)) as [s|] eqn:Es; cbn [bind] in E; [|discriminate]. push_done E Hrs.
    constructor; [|constructor]. unfold ok. cbn [fst snd]. apply sres_arr_homog. right. eapply reduce_all_spec; eassumption.
  - (* INorm *) get_reg E rs r x Hx. pose proof (getr_ok _ _ _ Hrs Hx) as Ho.
    destruct (norm (snd x)) as [s|] eqn:Es; cbn [bind] in E; [|discriminate]. push_done E Hrs.
    constructor; [|constructor]. unfold ok. cbn [fst snd]. apply sres_arr_homog. right. eapply norm_spec; eassumption.
  - (* IQr *) get_reg E rs r x Hx. pose proof (getr_ok _ _ _ Hrs Hx) as Ho.
    destruct (qr_homog _ rkeys _ Ho) as [Hq Hr]. inversion E; subst; clear E. split; [|constructor].
    apply Forall_app; split; [exact Hrs|]. constructor; [exact Hq|constructor; [exact Hr|constructor]].
  - (* ISvd *) get_reg E rs r x Hx. pose proof (getr_ok _ _ _ Hrs Hx) as Ho.
    destruct (svd_homog _ skeys vkeys _ Ho) as [Hu [Hs Hv]]. inversion E; subst; clear E. split; [|constructor].
    apply Forall_app; split; [exact Hrs|]. constructor; [exact Hu|constructor; [exact Hs|constructor; [exact Hv|constructor]]].
  - (* IEigh *) get_reg E rs r x Hx. pose proof (getr_ok _ _ _ Hrs Hx) as Ho.
    destruct (eigh_homog _ wkeys _ Ho) as [Hw Hv]. inversion E; subst; clear E. split; [|constructor].
    apply Forall_app; split; [exact Hrs|]. constructor; [exact Hw|constructor; [exact Hv|constructor]].
  - (* ISolve *) get_reg E rs a x Hx. get_reg E rs b y Hy.
    pose proof (getr_ok _ _ _ Hrs Hx) as Hox. pose proof (getr_ok _ _ _ Hrs Hy) as Hoy.
    destruct (solve plan (snd x) (snd y)) as [z|] eqn:Ez; cbn [bind] in E; [|discriminate]. push_done E Hrs.
    constructor; [|constructor]. unfold ok in *. cbn [fst snd]. exact (solve_homog _ _ _ _ _ _ Hox Hoy Ez).
  - (* ISvdTrunc *) get_reg E rs r x Hx. pose proof (getr_ok _ _ _ Hrs Hx) as Ho.
    destruct (svd_trunc_homog _ ab keep skeys vkeys _ Ho) as [Hu [Hs Hv]]. cbv zeta in E.
    inversion E; subst; clear E. split; [|constructor].
    apply Forall_app; split; [exact Hrs|]. constructor; [exact Hu|constructor; [exact Hs|constructor; [exact Hv|constructor]]].
Qed.

Lemma programs_ok p : forall rs rs' ev,
  Forall ok rs -> all_safe p rs = true -> run p rs = Some (rs', ev) -> Forall ok rs' /\ Lossless ev.
Proof.
  induction p as [|i p IH]; intros rs rs' ev Hrs Hsafe E; cbn [run] in E.
  - inversion E; subst. split; [assumption|constructor].
  - cbn [all_safe] in Hsafe. apply andb_prop in Hsafe. destruct Hsafe as [Hs1 Hs2].
    destruct (step i rs) as [[rs1 ev1]|] eqn:Es; cbn [bind] in E; [|discriminate]. cbn [fst snd] in *.
    destruct (run p rs1) as [[rs2 ev2]|] eqn:Er; cbn [bind] in E; [|discriminate]. inversion E; subst.
    destruct (step_ok _ _ _ _ Hrs Hs1 Es) as [Hrs1 Hl1].
    destruct (IH _ _ _ Hrs1 Hs2 Er) as [Hrs2 Hl2]. split; [assumption|apply Forall_app; split; assumption].
Qed.

(* single-dtype corollary in the words of the property: real inputs of one
   precision stay at it through every program that uses no complex scalar *)
Lemma lossless_events_keep ev : Lossless ev ->
  Forall (fun e => discards_imag e = false /\ narrows e = false) ev.
Proof. apply Forall_impl. intros e He. apply lossless_not_discards; exact He. Qed.

Lemma okb_ok r : okb r = true <-> ok r.
Proof.
  unfold okb, ok, homogb, Homog. rewrite forallb_forall, Forall_forall.
  split; intros H b Hb; specialize (H b Hb); apply dtype_eqb_eq; assumption.
Qed.

(* ---------------------------------------------------------------- where the full statement fails *)
Definition full_statement : Prop :=
  forall p rs rs' ev, Forall ok rs -> run p rs = Some (rs', ev) -> Forall ok rs' /\ Lossless ev.

(* witness A (float32 silently becomes float64): a.multiply_diagonal(v, 1) with no
   matching charge leaves an array without blocks; fill_missing_blocks then takes
   the dtype of the Python float 0.0; adding `a` back upcasts its data. *)
Definition witA_regs : list reg := [(F32, [([0;0], F32)]); (F32, [([1], F32)])].
Definition witA_prog : list instr :=
  [IMulDiag 0 1 [[0]]; IFill 2 [[0;0];[1;1]]; IAdd 3 0].
Lemma witA_runs : run witA_prog witA_regs =
  Some (witA_regs ++ [(F32, []); (F32, [([0;0], F64); ([1;1], F64)]); (F32, [([0;0], F64); ([1;1], F64)])], []).
Proof. vm_compute. reflexivity. Qed.

(* witness B (imaginary part discarded): z = y.abs() + x has a float32 block first and
   a complex64 block; insert-fuse creates the zeros with the FIRST block's dtype and
   the slice assignment casts the complex block to it.  concat-fuse promotes instead. *)
Definition witB_regs : list reg := [(C64, [([1;1], C64)]); (C64, [([0;0], C64); ([1;1], C64)])].
Definition witB_prog (concat_mode : bool) : list instr :=
  [IMap UAbs 1 [[0;0];[1;1]]; IAdd 2 0;
   if concat_mode then IFuseConcat 3 [([0], CNode (CLeaf [0;0]) [CLeaf [1;1]])]
   else IFuseInsert 3 [[0];[0]]].
Lemma witB_insert : run (witB_prog false) witB_regs =
  Some (witB_regs ++ [(F32, [([0;0], F32); ([1;1], F32)]); (C64, [([0;0], F32); ([1;1], C64)]); (C64, [([0], F32)])],
        [ESet F32 F32; ESet F32 C64]).
Proof. vm_compute. reflexivity. Qed.
Lemma witB_concat : run (witB_prog true) witB_regs =
  Some (witB_regs ++ [(F32, [([0;0], F32); ([1;1], F32)]); (C64, [([0;0], F32); ([1;1], C64)]); (C64, [([0], C64)])],
        [ECat F32 [C64]]).
Proof. vm_compute. reflexivity. Qed.

Lemma full_statement_refuted : ~ full_statement.
Proof.
  intro H. destruct (H witA_prog witA_regs _ _ ltac:(repeat constructor) witA_runs) as [Hok _].
  rewrite Forall_forall in Hok. specialize (Hok (F32, [([0;0], F64); ([1;1], F64)])).
  assert (Hin : In (F32, [([0;0], F64); ([1;1], F64)])
                   (witA_regs ++ [(F32, []); (F32, [([0;0], F64); ([1;1], F64)]); (F32, [([0;0], F64); ([1;1], F64)])]))
    by (cbn; auto 10).
  specialize (Hok Hin). inversion Hok as [|? ? Hd _]. discriminate.
Qed.
Lemma imag_discard_refuted :
  exists p rs rs' ev, Forall ok rs /\ run p rs = Some (rs', ev) /\ existsb discards_imag ev = true.
Proof.
  exists (witB_prog false), witB_regs. eexists. eexists. split; [repeat constructor|]. split; [exact witB_insert|reflexivity].
Qed.
(* the two side conditions are exactly what these witnesses violate *)
Lemma witA_unsafe : all_safe witA_prog witA_regs = false.   Proof. vm_compute. reflexivity. Qed.
Lemma witB_unsafe : all_safe (witB_prog false) witB_regs = false.   Proof. vm_compute. reflexivity. Qed.

(* ---------------------------------------------------------------- hypotheses are satisfiable *)
(* a sparse complex64 matrix pair: fuse with a missing sub-block in both strategies,
   densify, fill, contract through the fused path with different present sectors, factorise *)
Definition ex_regs : list reg :=
  [(C64, [([0;0], C64); ([1;1], C64)]); (C64, [([0;0], C64); ([0;1], C64)])].
Definition ex_prog : list instr :=
  [IFuseInsert 0 [[0];[0]];
   IFuseConcat 0 [([0], CNode (CLeaf [0;0]) [CLeaf [1;1]]); ([1], CNode (CLeaf [0;1]) [CLeaf [1;0]])];
   IToDense 0 (CNode (CNode (CLeaf [0;0]) [CLeaf [0;1]]) [CNode (CLeaf [1;0]) [CLeaf [1;1]]]);
   IFill 0 [[0;0];[1;1]];
   ITdotFused 0 1 [true;false] [true;true] None None [([0;0], ((0%nat,0%nat), [])); ([0;1], ((0%nat,1%nat), []))] [];
   ISvd 0 [[0];[1]] [[0;0];[1;1]];
   INorm 0;
   IMap (UWeak PyFloat) 0 [[0;0];[1;1]];
   IMulDiag 0 8 [[0];[1]]].
Example ex_runs_ok :
  Forall ok ex_regs /\ all_safe ex_prog ex_regs = true /\
  exists rs' ev, run ex_prog ex_regs = Some (rs', ev) /\ length rs' = 13%nat /\ forallb okb rs' = true.
Proof.
  split; [repeat constructor|]. split; [vm_compute; reflexivity|].
  eexists. eexists. split; [vm_compute; reflexivity|]. split; reflexivity.
Qed.

(* ---------------------------------------------------------------- statements used by Props/C20.v *)
Lemma programs_homog p rs rs' ev :
  Forall ok rs -> all_safe p rs = true -> run p rs = Some (rs', ev) -> Forall ok rs'.
Proof. intros H1 H2 H3. exact (proj1 (programs_ok p rs rs' ev H1 H2 H3)). Qed.
Lemma programs_no_lossy_cast p rs rs' ev :
  Forall ok rs -> all_safe p rs = true -> run p rs = Some (rs', ev) ->
  Forall (fun e => lossless e = true /\ discards_imag e = false /\ narrows e = false) ev.
Proof.
  intros H1 H2 H3. pose proof (proj2 (programs_ok p rs rs' ev H1 H2 H3)) as Hl.
  revert Hl. apply Forall_impl. intros e He. split; [exact He|apply lossless_not_discards; exact He].
Qed.
(* zero-fill sites, one statement: the zero blocks have the tag of the data they join *)
Lemma zero_fill_sites d x :
  Homog d x ->
  (forall plan, Homog d (fst (fuse_insert plan x)) /\ Lossless (snd (fuse_insert plan x))) /\
  (forall plan, Homog d (fst (fuse_concat plan x)) /\ Lossless (snd (fuse_concat plan x))) /\
  (x <> [] -> forall t, fst (to_dense t x) = d /\ Lossless (snd (to_dense t x))) /\
  (x <> [] -> forall valid, Homog d (fill_missing valid x)).
Proof.
  intro H. split; [|split; [|split]].
  - intro plan. apply fuse_insert_spec; exact H.
  - intro plan. apply fuse_concat_spec; exact H.
  - intros Hne t. apply to_dense_spec; assumption.
  - intros Hne valid. apply fill_missing_spec; assumption.
Qed.
Lemma contraction_homog dx dy a b :
  Homog dx a -> Homog dy b ->
  (forall plan c, tdot_blockwise plan a b = Some c -> Homog (promote dx dy) c) /\
  (forall ka kb pa pb pc unf c ev, tdot_fused ka kb pa pb pc unf a b = Some (c, ev) ->
                                   Homog (promote dx dy) c /\ Lossless ev).
Proof.
  intros Ha Hb. split.
  - intros plan c E. exact (tdot_blockwise_homog _ _ _ _ _ _ Ha Hb E).
  - intros ka kb pa pb pc unf c ev E. exact (tdot_fused_spec _ _ _ _ _ _ _ _ _ _ _ _ Ha Hb E).
Qed.
Lemma real_parts d x :
  Homog d x ->
  (forall sk, Homog (real_of d) (svd_s sk x)) /\ (forall wk, Homog (real_of d) (eigh_w wk x)) /\
  (forall s, norm x = Some s -> s = SNp (real_of d)) /\
  (forall keys, Homog (real_of d) (map_blocks UAbs keys x)).
Proof.
  intro H. split; [|split; [|split]].
  - intro sk. exact (proj1 (proj2 (svd_homog d sk [] x H))).
  - intro wk. exact (proj1 (eigh_homog d wk x H)).
  - intros s E. exact (norm_spec d x s H E).
  - intro keys. exact (map_blocks_homog UAbs keys d x H).
Qed.
Lemma weak_scalars_keep_precision d s : is_double (weak d s) = is_double d /\ (s <> PyComplex -> weak d s = d).
Proof. split; [destruct d, s; reflexivity|destruct s; intro H; try reflexivity; congruence]. Qed.
