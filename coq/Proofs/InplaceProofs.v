(* Proofs/InplaceProofs.v — C14, inplace_eq: a store-isomorphism simulation for
   the heap language of Model/Heap.v.

   Two runs of the SAME command are related by `Sim`: a renaming `rd` of dict
   references and `ro` of object references (injective; above the sizes nd/no
   of the stores at the point where the two runs were forked it is the shift
   by the number cd/co of extra allocations of the second run, so a fresh
   allocation in both runs extends it automatically), equal buffers, equal key
   and buffer locals, equal contents (hence key order) of related dicts,
   related fields of related objects, and related values of the LIVE dict /
   object locals.  `live` is a syntactic "defined before used" analysis;
   `sim_exec`: every command accepted by `live` maps Sim-related states to
   Sim-related states (induction on the command; loops by induction on the
   snapshot they iterate over).  `Sim` implies equal `obs` of related objects. *)
From SV Require Import Base.Prelude Model.Heap Model.HeapOps Proofs.HeapProofs Proofs.HeapOpsProofs.
From Coq Require Import Arith PeanoNat Lia.
Open Scope nat_scope.

Lemma nth_upd_nth {A} i j (x d : A) l :
  nth j (upd_nth i x l) d = if Nat.eqb j i && Nat.ltb i (length l) then x else nth j l d.
Proof.
  destruct (Nat.eqb_spec j i) as [->|Hn]; cbn [andb].
  - destruct (Nat.ltb_spec i (length l)) as [L|L].
    + apply nth_upd_nth_eq; exact L.
    + revert i L. induction l as [|y l IH]; intros [|i] L; cbn in *; try reflexivity; try lia.
      apply IH. lia.
  - apply nth_upd_nth_neq; exact Hn.
Qed.

Lemma nth_push {A} (l : list A) x d r :
  nth r (l ++ [x]) d = if Nat.ltb r (length l) then nth r l d else if Nat.eqb r (length l) then x else d.
Proof.
  destruct (Nat.ltb_spec r (length l)) as [L|L].
  - apply app_nth1; exact L.
  - destruct (Nat.eqb_spec r (length l)) as [->|Hn].
    + apply nth_app_last.
    + apply nth_overflow. rewrite app_length. cbn [length]. lia.
Qed.

Section Sim.
  Context {K : Type} (keqb : K -> K -> bool).
  Notation st := (@st K). Notation cmd := (@cmd K). Notation heap := (heap K).

  (* the renaming *)
  Context (rd ro : nat -> nat) (nd no cd co : nat).
  Context (rd_inj : forall a b, rd a = rd b -> a = b) (ro_inj : forall a b, ro a = ro b -> a = b).
  Context (rd_hi : forall r, nd <= r -> rd r = r + cd) (rd_lo : forall r, r < nd -> rd r < nd + cd).
  Context (ro_hi : forall x, no <= x -> ro x = x + co) (ro_lo : forall x, x < no -> ro x < no + co).

  Definition orn (ob : obj) : obj := mkO (rd (oblocks ob)) (rd (ophases ob)).
  Lemma oget_orn ob f : oget (orn ob) f = rd (oget ob f).
  Proof. destruct f; reflexivity. Qed.
  Lemma oset_orn ob f r : oset (orn ob) f (rd r) = orn (oset ob f r).
  Proof. destruct f; reflexivity. Qed.

  (* live locals: dict locals / object locals whose values are related *)
  Record lv := mkL { ld : list nat; lo : list nat }.
  Definition has (l : list nat) (v : nat) : bool := mem Nat.eqb v l.
  Definition addd (v : nat) (A : lv) : lv := mkL (v :: ld A) (lo A).
  Definition addo (v : nat) (A : lv) : lv := mkL (ld A) (v :: lo A).
  Definition need (b : bool) (A : lv) : option lv := if b then Some A else None.

  (* every dict / object local is written before it is read (given the live
     locals A at entry); the result lists the locals live afterwards *)
  Fixpoint live (c : cmd) (A : lv) : option lv :=
    match c with
    | Skip => Some A
    | Seq c1 c2 => match live c1 A with Some A1 => live c2 A1 | None => None end
    | NewDict v => Some (addd v A)
    | CopyDict v w => need (has (ld A) w) (addd v A)
    | GetField v o f => need (has (lo A) o) (addd v A)
    | SetItem d _ _ => need (has (ld A) d) A
    | SetTok d _ _ => need (has (ld A) d) A
    | DelItem d _ => need (has (ld A) d) A
    | GetItem _ d _ => need (has (ld A) d) A
    | PopItem d _ _ => need (has (ld A) d) A
    | Update d w => need (has (ld A) d && has (ld A) w) A
    | Rebind o f d => need (has (lo A) o && has (ld A) d) A
    | NewObj o d p => need (has (ld A) d && has (ld A) p) (addo o A)
    | OAssign o o' => need (has (lo A) o') (addo o A)
    | NewBuf _ => Some A
    | WriteBuf _ => Some A
    | Alias _ _ => Some A
    | ForEach d _ _ body => match live body A with Some _ => need (has (ld A) d) A | None => None end
    | ForKeys _ _ _ body => match live body A with Some _ => Some A | None => None end
    | IfHas d _ c1 c2 =>
        match live c1 A, live c2 A with Some _, Some _ => need (has (ld A) d) A | _, _ => None end
    | IfKey _ _ c1 c2 =>
        match live c1 A, live c2 A with Some _, Some _ => Some A | _, _ => None end
    end.

  Definition sub (A A' : lv) : Prop :=
    (forall v, has (ld A) v = true -> has (ld A') v = true) /\
    (forall v, has (lo A) v = true -> has (lo A') v = true).

  Lemma sub_refl A : sub A A. Proof. split; auto. Qed.
  Lemma sub_trans A B C : sub A B -> sub B C -> sub A C.
  Proof. intros [a b] [c d]. split; auto. Qed.
  Lemma has_cons l v w : has (w :: l) v = Nat.eqb v w || has l v.
  Proof. reflexivity. Qed.
  Lemma sub_addd v A : sub A (addd v A).
  Proof. split; cbn [addd ld lo]; auto. intros w H. rewrite has_cons, H. apply orb_true_r. Qed.
  Lemma sub_addo v A : sub A (addo v A).
  Proof. split; cbn [addo ld lo]; auto. intros w H. rewrite has_cons, H. apply orb_true_r. Qed.

  Lemma need_some b A A' : need b A = Some A' -> b = true /\ A' = A.
  Proof. destruct b; cbn; [intros [= <-]; auto | discriminate]. Qed.

  (* ---------------------------------------------------------- the relation *)
  Record Sim (A : lv) (s1 s2 : st) : Prop := {
    sim_hb : hb (sh s1) = hb (sh s2);
    sim_bv : forall v, bv s1 v = bv s2 v;
    sim_kv : forall v, kv s1 v = kv s2 v;
    sim_nd : nd <= length (hd (sh s1));
    sim_no : no <= length (ho (sh s1));
    sim_ld : length (hd (sh s2)) = length (hd (sh s1)) + cd;
    sim_lo : length (ho (sh s2)) = length (ho (sh s1)) + co;
    sim_dict : forall r, dict_at (sh s2) (rd r) = dict_at (sh s1) r;
    sim_obj : forall x, x < length (ho (sh s1)) -> obj_at (sh s2) (ro x) = orn (obj_at (sh s1) x);
    sim_dv : forall v, has (ld A) v = true -> dv s2 v = rd (dv s1 v);
    sim_ov : forall v, has (lo A) v = true -> ov s2 v = ro (ov s1 v) /\ ov s1 v < length (ho (sh s1)) }.

  Lemma Sim_weaken A A' s1 s2 : sub A A' -> Sim A' s1 s2 -> Sim A s1 s2.
  Proof. intros [Sd So] [H1 H2 H3 H4 H5 H6 H7 H8 H9 H10 H11]. split; auto. Qed.

  (* in-range-ness is preserved by the renaming *)
  Lemma rd_lt n r : nd <= n -> (r < n <-> rd r < n + cd).
  Proof.
    intros Hn. destruct (Nat.lt_ge_cases r nd) as [L|L].
    - pose proof (rd_lo r L). lia.
    - rewrite (rd_hi r L). lia.
  Qed.
  Lemma ro_lt n x : no <= n -> (x < n <-> ro x < n + co).
  Proof.
    intros Hn. destruct (Nat.lt_ge_cases x no) as [L|L].
    - pose proof (ro_lo x L). lia.
    - rewrite (ro_hi x L). lia.
  Qed.
  Lemma rd_eqb a b : Nat.eqb (rd a) (rd b) = Nat.eqb a b.
  Proof.
    destruct (Nat.eqb_spec a b) as [->|Hn]; [apply Nat.eqb_refl|].
    apply Nat.eqb_neq. intros H. apply Hn, rd_inj, H.
  Qed.
  Lemma ro_eqb a b : Nat.eqb (ro a) (ro b) = Nat.eqb a b.
  Proof.
    destruct (Nat.eqb_spec a b) as [->|Hn]; [apply Nat.eqb_refl|].
    apply Nat.eqb_neq. intros H. apply Hn, ro_inj, H.
  Qed.
  Lemma rd_ltb n r : nd <= n -> Nat.ltb (rd r) (n + cd) = Nat.ltb r n.
  Proof.
    intros Hn. pose proof (rd_lt n r Hn) as H.
    destruct (Nat.ltb_spec r n), (Nat.ltb_spec (rd r) (n + cd)); try reflexivity; lia.
  Qed.
  Lemma ro_ltb n x : no <= n -> Nat.ltb (ro x) (n + co) = Nat.ltb x n.
  Proof.
    intros Hn. pose proof (ro_lt n x Hn) as H.
    destruct (Nat.ltb_spec x n), (Nat.ltb_spec (ro x) (n + co)); try reflexivity; lia.
  Qed.

  Lemma keval_sim (s1 s2 : st) e : (forall v, kv s1 v = kv s2 v) -> keval s1 e = keval s2 e.
  Proof. intros H. induction e as [x|f e IH]; cbn [keval]; [apply H | f_equal; exact IH]. Qed.

  (* ------------------------------------------------- updates of the locals *)
  Lemma Sim_with_k A s1 s2 v k : Sim A s1 s2 -> Sim A (with_k s1 v k) (with_k s2 v k).
  Proof.
    intros [H1 H2 H3 H4 H5 H6 H7 H8 H9 H10 H11]. split; cbn [with_k sh dv ov bv kv]; auto.
    intros w. unfold upd. rewrite H3. reflexivity.
  Qed.

  Lemma Sim_with_b A s1 s2 v r : Sim A s1 s2 -> Sim A (with_b s1 v r) (with_b s2 v r).
  Proof.
    intros [H1 H2 H3 H4 H5 H6 H7 H8 H9 H10 H11]. split; cbn [with_b sh dv ov bv kv]; auto.
    intros w. unfold upd. rewrite H2. reflexivity.
  Qed.

  Lemma Sim_with_d A s1 s2 v r : Sim A s1 s2 -> Sim (addd v A) (with_d s1 v r) (with_d s2 v (rd r)).
  Proof.
    intros [H1 H2 H3 H4 H5 H6 H7 H8 H9 H10 H11]. split; cbn [with_d sh dv ov bv kv addd ld lo]; auto.
    intros w. rewrite has_cons. unfold upd. destruct (Nat.eqb w v); cbn [orb]; auto.
  Qed.

  Lemma Sim_with_o A s1 s2 v x :
    Sim A s1 s2 -> x < length (ho (sh s1)) -> Sim (addo v A) (with_o s1 v x) (with_o s2 v (ro x)).
  Proof.
    intros [H1 H2 H3 H4 H5 H6 H7 H8 H9 H10 H11] Hx. split; cbn [with_o sh dv ov bv kv addo ld lo]; auto.
    intros w. rewrite has_cons. unfold upd. destruct (Nat.eqb w v); cbn [orb]; auto.
  Qed.

  (* --------------------------------------------------- updates of the store *)
  Lemma dict_at_set (h : heap) r x r' :
    dict_at (set_dict h r x) r' = if Nat.eqb r' r && Nat.ltb r (length (hd h)) then x else dict_at h r'.
  Proof. unfold dict_at, set_dict. cbn [hd]. apply nth_upd_nth. Qed.

  Lemma Sim_set_dict A s1 s2 r x :
    Sim A s1 s2 ->
    Sim A (with_h s1 (set_dict (sh s1) r x)) (with_h s2 (set_dict (sh s2) (rd r) x)).
  Proof.
    intros [H1 H2 H3 H4 H5 H6 H7 H8 H9 H10 H11].
    split; cbn [with_h sh dv ov bv kv set_dict hd hb ho]; auto.
    - rewrite length_upd_nth. exact H4.
    - rewrite !length_upd_nth. exact H6.
    - intros r'. fold (set_dict (sh s2) (rd r) x). fold (set_dict (sh s1) r x).
      rewrite !dict_at_set. rewrite H6, rd_eqb, (rd_ltb _ _ H4), H8. reflexivity.
  Qed.

  Lemma dict_at_push (h : heap) x r :
    dict_at (push_dict h x) r =
    if Nat.ltb r (length (hd h)) then dict_at h r else if Nat.eqb r (length (hd h)) then x else [].
  Proof. unfold dict_at, push_dict. cbn [hd]. apply nth_push. Qed.

  Lemma Sim_push_dict A s1 s2 x :
    Sim A s1 s2 ->
    Sim A (with_h s1 (push_dict (sh s1) x)) (with_h s2 (push_dict (sh s2) x)) /\
    length (hd (sh s2)) = rd (length (hd (sh s1))).
  Proof.
    intros [H1 H2 H3 H4 H5 H6 H7 H8 H9 H10 H11].
    assert (Hnew : length (hd (sh s2)) = rd (length (hd (sh s1)))) by (rewrite (rd_hi _ H4); exact H6).
    split; [|exact Hnew].
    split; cbn [with_h sh dv ov bv kv push_dict hd hb ho]; auto.
    - rewrite app_length. lia.
    - rewrite !app_length. cbn [length]. lia.
    - intros r. fold (push_dict (sh s2) x). fold (push_dict (sh s1) x).
      rewrite !dict_at_push. rewrite H6, (rd_ltb _ _ H4). rewrite <- H6, Hnew, rd_eqb, H8.
      reflexivity.
  Qed.

  Lemma Sim_bufs A s1 s2 hb' :
    Sim A s1 s2 ->
    Sim A (with_h s1 (mkH (hd (sh s1)) hb' (ho (sh s1)))) (with_h s2 (mkH (hd (sh s2)) hb' (ho (sh s2)))).
  Proof. intros [H1 H2 H3 H4 H5 H6 H7 H8 H9 H10 H11]. split; cbn [with_h sh dv ov bv kv hd hb ho]; auto. Qed.

  Lemma obj_at_upd (h : heap) i x o :
    obj_at (mkH (hd h) (hb h) (upd_nth i x (ho h))) o =
    if Nat.eqb o i && Nat.ltb i (length (ho h)) then x else obj_at h o.
  Proof. unfold obj_at. cbn [ho]. apply nth_upd_nth. Qed.

  Lemma Sim_rebind A s1 s2 o f r :
    Sim A s1 s2 -> o < length (ho (sh s1)) ->
    Sim A (with_h s1 (mkH (hd (sh s1)) (hb (sh s1)) (upd_nth o (oset (obj_at (sh s1) o) f r) (ho (sh s1)))))
          (with_h s2 (mkH (hd (sh s2)) (hb (sh s2))
                          (upd_nth (ro o) (oset (obj_at (sh s2) (ro o)) f (rd r)) (ho (sh s2))))).
  Proof.
    intros [H1 H2 H3 H4 H5 H6 H7 H8 H9 H10 H11] Ho.
    split; cbn [with_h sh dv ov bv kv hd hb ho]; auto.
    - rewrite length_upd_nth. exact H5.
    - rewrite !length_upd_nth. exact H7.
    - intros x. rewrite length_upd_nth. intros Hx.
      rewrite !obj_at_upd. rewrite H7, ro_eqb, (ro_ltb _ _ H5).
      destruct (Nat.eqb x o && Nat.ltb o (length (ho (sh s1)))).
      + rewrite (H9 o Ho). apply oset_orn.
      + apply H9. exact Hx.
    - intros v Hv. rewrite length_upd_nth. apply H11. exact Hv.
  Qed.

  Lemma obj_at_push (h : heap) x o :
    obj_at (mkH (hd h) (hb h) (ho h ++ [x])) o =
    if Nat.ltb o (length (ho h)) then obj_at h o else if Nat.eqb o (length (ho h)) then x else obj0.
  Proof. unfold obj_at. cbn [ho]. apply nth_push. Qed.

  Lemma Sim_new_obj A s1 s2 d p :
    Sim A s1 s2 ->
    Sim A (with_h s1 (mkH (hd (sh s1)) (hb (sh s1)) (ho (sh s1) ++ [mkO d p])))
          (with_h s2 (mkH (hd (sh s2)) (hb (sh s2)) (ho (sh s2) ++ [mkO (rd d) (rd p)]))) /\
    length (ho (sh s2)) = ro (length (ho (sh s1))).
  Proof.
    intros [H1 H2 H3 H4 H5 H6 H7 H8 H9 H10 H11].
    assert (Hnew : length (ho (sh s2)) = ro (length (ho (sh s1)))) by (rewrite (ro_hi _ H5); exact H7).
    split; [|exact Hnew].
    split; cbn [with_h sh dv ov bv kv hd hb ho]; auto.
    - rewrite app_length. lia.
    - rewrite !app_length. cbn [length]. lia.
    - intros x. rewrite app_length. cbn [length]. intros Hx.
      rewrite !obj_at_push. rewrite H7, (ro_ltb _ _ H5). rewrite <- H7, Hnew, ro_eqb.
      destruct (Nat.ltb_spec x (length (ho (sh s1)))) as [L|L].
      + apply H9. exact L.
      + assert (x = length (ho (sh s1))) by lia. subst x. rewrite Nat.eqb_refl. reflexivity.
    - intros v Hv. rewrite app_length. destruct (H11 v Hv) as [E L]. split; [exact E | lia].
  Qed.

  (* ------------------------------------------------------------ simulation *)
  Theorem sim_exec (c : cmd) : forall A A' s1 s2,
    live c A = Some A' -> Sim A s1 s2 ->
    Sim A' (exec keqb c s1) (exec keqb c s2) /\ sub A A'.
  Proof.
    induction c as [|c1 IH1 c2 IH2|v|v w|v o f|d k b|d k t|d k|b d k|d kx bx|d w|o f d|o d p|o o'|b|b|b b'
                   |d kx bx body IH|g k ky body IH|d k c1 IH1 c2 IH2|p k c1 IH1 c2 IH2];
      intros A A' s1 s2 HL HS; cbn [live] in HL; cbn [exec].
    - (* Skip *) injection HL as <-. split; [exact HS | apply sub_refl].
    - (* Seq *)
      destruct (live c1 A) as [A1|] eqn:E1; [|discriminate].
      destruct (IH1 _ _ _ _ E1 HS) as [HS1 Hs1].
      destruct (IH2 _ _ _ _ HL HS1) as [HS2 Hs2].
      split; [exact HS2 | eapply sub_trans; eassumption].
    - (* NewDict *)
      injection HL as <-. split; [|apply sub_addd].
      destruct (Sim_push_dict A s1 s2 [] HS) as [HS' Hn]. rewrite Hn.
      apply (Sim_with_d A _ _ v (length (hd (sh s1))) HS').
    - (* CopyDict *)
      apply need_some in HL as [Hw ->]. split; [|apply sub_addd].
      rewrite (sim_dv _ _ _ HS w Hw), (sim_dict _ _ _ HS).
      destruct (Sim_push_dict A s1 s2 (dict_at (sh s1) (dv s1 w)) HS) as [HS' Hn]. rewrite Hn.
      apply (Sim_with_d A _ _ v (length (hd (sh s1))) HS').
    - (* GetField *)
      apply need_some in HL as [Ho ->]. split; [|apply sub_addd].
      destruct (sim_ov _ _ _ HS o Ho) as [Eo Lo]. rewrite Eo, (sim_obj _ _ _ HS _ Lo), oget_orn.
      apply (Sim_with_d A _ _ v _ HS).
    - (* SetItem *)
      apply need_some in HL as [Hd ->]. split; [|apply sub_refl].
      rewrite (sim_dv _ _ _ HS d Hd), (sim_dict _ _ _ HS), <- (sim_bv _ _ _ HS b),
              <- (keval_sim s1 s2 k (sim_kv _ _ _ HS)).
      apply Sim_set_dict, HS.
    - (* SetTok *)
      apply need_some in HL as [Hd ->]. split; [|apply sub_refl].
      rewrite (sim_dv _ _ _ HS d Hd), (sim_dict _ _ _ HS), <- (keval_sim s1 s2 k (sim_kv _ _ _ HS)).
      apply Sim_set_dict, HS.
    - (* DelItem *)
      apply need_some in HL as [Hd ->]. split; [|apply sub_refl].
      rewrite (sim_dv _ _ _ HS d Hd), (sim_dict _ _ _ HS), <- (keval_sim s1 s2 k (sim_kv _ _ _ HS)).
      apply Sim_set_dict, HS.
    - (* GetItem *)
      apply need_some in HL as [Hd ->]. split; [|apply sub_refl].
      rewrite (sim_dv _ _ _ HS d Hd), (sim_dict _ _ _ HS), <- (keval_sim s1 s2 k (sim_kv _ _ _ HS)),
              <- (sim_hb _ _ _ HS).
      destruct (d_get keqb (keval s1 k) (dict_at (sh s1) (dv s1 d))); apply Sim_with_b, HS.
    - (* PopItem *)
      apply need_some in HL as [Hd ->]. split; [|apply sub_refl].
      rewrite (sim_dv _ _ _ HS d Hd), (sim_dict _ _ _ HS), <- (sim_hb _ _ _ HS).
      destruct (last_item (dict_at (sh s1) (dv s1 d))) as [[k' r']|].
      + apply Sim_with_b, Sim_with_k, Sim_set_dict, HS.
      + apply Sim_with_b, HS.
    - (* Update *)
      apply need_some in HL as [Hdw ->]. apply andb_true_iff in Hdw as [Hd Hw]. split; [|apply sub_refl].
      rewrite (sim_dv _ _ _ HS d Hd), (sim_dv _ _ _ HS w Hw), !(sim_dict _ _ _ HS).
      apply Sim_set_dict, HS.
    - (* Rebind *)
      apply need_some in HL as [Hod ->]. apply andb_true_iff in Hod as [Ho Hd]. split; [|apply sub_refl].
      destruct (sim_ov _ _ _ HS o Ho) as [Eo Lo]. rewrite Eo, (sim_dv _ _ _ HS d Hd).
      apply Sim_rebind; [exact HS | exact Lo].
    - (* NewObj *)
      apply need_some in HL as [Hdp ->]. apply andb_true_iff in Hdp as [Hd Hp]. split; [|apply sub_addo].
      rewrite (sim_dv _ _ _ HS d Hd), (sim_dv _ _ _ HS p Hp).
      destruct (Sim_new_obj A s1 s2 (dv s1 d) (dv s1 p) HS) as [HS' Hn]. rewrite Hn.
      apply (Sim_with_o A _ _ o (length (ho (sh s1))) HS').
      cbn [with_h sh ho]. rewrite app_length. cbn [length]. lia.
    - (* OAssign *)
      apply need_some in HL as [Ho ->]. split; [|apply sub_addo].
      destruct (sim_ov _ _ _ HS o' Ho) as [Eo Lo]. rewrite Eo.
      apply Sim_with_o; [exact HS | exact Lo].
    - (* NewBuf *)
      injection HL as <-. split; [|apply sub_refl].
      rewrite <- (sim_hb _ _ _ HS). apply Sim_with_b, Sim_bufs, HS.
    - (* WriteBuf *)
      injection HL as <-. split; [|apply sub_refl].
      unfold buf_at. rewrite <- (sim_hb _ _ _ HS), <- (sim_bv _ _ _ HS). apply Sim_bufs, HS.
    - (* Alias *)
      injection HL as <-. split; [|apply sub_refl].
      rewrite <- (sim_bv _ _ _ HS). apply Sim_with_b, HS.
    - (* ForEach *)
      destruct (live body A) as [A1|] eqn:E1; [|discriminate].
      apply need_some in HL as [Hd ->]. split; [|apply sub_refl].
      rewrite (sim_dv _ _ _ HS d Hd), (sim_dict _ _ _ HS).
      generalize (dict_at (sh s1) (dv s1 d)). intros l. revert s1 s2 HS.
      induction l as [|it l IHl]; intros s1 s2 HS; cbn [fold_left]; [exact HS|].
      apply IHl.
      destruct (IH A A1 _ _ E1 (Sim_with_b _ _ _ bx (snd it) (Sim_with_k _ _ _ kx (fst it) HS))) as [H Hs].
      exact (Sim_weaken _ _ _ _ Hs H).
    - (* ForKeys *)
      destruct (live body A) as [A1|] eqn:E1; [|discriminate].
      injection HL as <-. split; [|apply sub_refl].
      rewrite <- (keval_sim s1 s2 k (sim_kv _ _ _ HS)).
      generalize (g (keval s1 k)). intros l. revert s1 s2 HS.
      induction l as [|it l IHl]; intros s1 s2 HS; cbn [fold_left]; [exact HS|].
      apply IHl.
      destruct (IH A A1 _ _ E1 (Sim_with_k _ _ _ ky it HS)) as [H Hs].
      exact (Sim_weaken _ _ _ _ Hs H).
    - (* IfHas *)
      destruct (live c1 A) as [A1|] eqn:E1; [|discriminate].
      destruct (live c2 A) as [A2|] eqn:E2; [|discriminate].
      apply need_some in HL as [Hd ->]. split; [|apply sub_refl].
      rewrite (sim_dv _ _ _ HS d Hd), (sim_dict _ _ _ HS), <- (keval_sim s1 s2 k (sim_kv _ _ _ HS)).
      destruct (d_get keqb (keval s1 k) (dict_at (sh s1) (dv s1 d))).
      + destruct (IH1 _ _ _ _ E1 HS) as [H Hs]. exact (Sim_weaken _ _ _ _ Hs H).
      + destruct (IH2 _ _ _ _ E2 HS) as [H Hs]. exact (Sim_weaken _ _ _ _ Hs H).
    - (* IfKey *)
      destruct (live c1 A) as [A1|] eqn:E1; [|discriminate].
      destruct (live c2 A) as [A2|] eqn:E2; [|discriminate].
      injection HL as <-. split; [|apply sub_refl].
      rewrite <- (keval_sim s1 s2 k (sim_kv _ _ _ HS)).
      destruct (p (keval s1 k)).
      + destruct (IH1 _ _ _ _ E1 HS) as [H Hs]. exact (Sim_weaken _ _ _ _ Hs H).
      + destruct (IH2 _ _ _ _ E2 HS) as [H Hs]. exact (Sim_weaken _ _ _ _ Hs H).
  Qed.

  (* related objects are observably equal *)
  Theorem sim_obs A s1 s2 v :
    Sim A s1 s2 -> has (lo A) v = true -> obs (sh s2) (ov s2 v) = obs (sh s1) (ov s1 v).
  Proof.
    intros HS Hv. destruct (sim_ov _ _ _ HS v Hv) as [Eo Lo].
    unfold obs. rewrite Eo, (sim_obj _ _ _ HS _ Lo). cbn [orn oblocks ophases].
    rewrite !(sim_dict _ _ _ HS). unfold buf_at. rewrite (sim_hb _ _ _ HS). reflexivity.
  Qed.
End Sim.

(* ================================================================== *)
(* `new = self`  versus  `new = self.copy()` *)
Section CopyStart.
  Context {K : Type} (keqb : K -> K -> bool).
  Notation st := (@st K). Notation cmd := (@cmd K).

  (* the renaming: self's two dicts go to the two copies (allocated at n, n+1),
     self goes to the new object (allocated at m); everything older is kept,
     everything newer is shifted *)
  Definition rd_copy (db dp n r : nat) : nat :=
    if Nat.eqb r db then n else if Nat.eqb r dp then n + 1 else if Nat.ltb r n then r else r + 2.
  Definition ro_copy (self m x : nat) : nat :=
    if Nat.eqb x self then m else if Nat.ltb x m then x else x + 1.

  Lemma rd_copy_props db dp n : db <> dp -> db < n -> dp < n ->
    (forall a b, rd_copy db dp n a = rd_copy db dp n b -> a = b) /\
    (forall r, n <= r -> rd_copy db dp n r = r + 2) /\
    (forall r, r < n -> rd_copy db dp n r < n + 2).
  Proof.
    intros H1 H2 H3. unfold rd_copy. repeat split.
    - intros a b.
      destruct (Nat.eqb_spec a db), (Nat.eqb_spec a dp), (Nat.eqb_spec b db), (Nat.eqb_spec b dp),
               (Nat.ltb_spec a n), (Nat.ltb_spec b n); lia.
    - intros r Hr. destruct (Nat.eqb_spec r db), (Nat.eqb_spec r dp), (Nat.ltb_spec r n); lia.
    - intros r Hr. destruct (Nat.eqb_spec r db), (Nat.eqb_spec r dp), (Nat.ltb_spec r n); lia.
  Qed.

  Lemma ro_copy_props self m : self < m ->
    (forall a b, ro_copy self m a = ro_copy self m b -> a = b) /\
    (forall x, m <= x -> ro_copy self m x = x + 1) /\
    (forall x, x < m -> ro_copy self m x < m + 1).
  Proof.
    intros H1. unfold ro_copy. repeat split.
    - intros a b.
      destruct (Nat.eqb_spec a self), (Nat.eqb_spec b self), (Nat.ltb_spec a m), (Nat.ltb_spec b m); lia.
    - intros x Hx. destruct (Nat.eqb_spec x self), (Nat.ltb_spec x m); lia.
    - intros x Hx. destruct (Nat.eqb_spec x self), (Nat.ltb_spec x m); lia.
  Qed.

  Definition start_live (two : bool) : lv := mkL [] (if two then [1; 2] else [2]).

  Lemma sim_copy_start (s : st) (two : bool) :
    Own (sh s) -> ov s 0 < length (ho (sh s)) ->
    (two = true -> ov s 1 < length (ho (sh s)) /\ ov s 1 <> ov s 0) ->
    let self := ov s 0 in
    let db := oblocks (obj_at (sh s) self) in
    let dp := ophases (obj_at (sh s) self) in
    let n := length (hd (sh s)) in
    let m := length (ho (sh s)) in
    Sim (rd_copy db dp n) (ro_copy self m) n m 2 1 (start_live two)
        (exec keqb (OAssign 2 0) s) (exec keqb (B_copy 2 0) s).
  Proof.
    intros [O1 O2] Hself Hother self db dp n m.
    assert (Hdb : db < n) by (apply (O2 self false Hself)).
    assert (Hdp : dp < n) by (apply (O2 self true Hself)).
    assert (Hne : db <> dp).
    { intros E. destruct (O1 self false self true Hself Hself E) as [_ F]. discriminate. }
    destruct s as [[hd0 hb0 ho0] dv0 ov0 bv0 kv0]. cbn [sh hd hb ho ov] in *.
    cbn -[nth]. unfold upd; cbn -[nth].
    unfold push_dict, obj_at, dict_at in *; cbn [hd hb ho] in *.
    fold self. fold db. fold dp.
    assert (El : forall x, length (hd0 ++ [x]) = S n) by (intros; rewrite app_length; cbn; lia).
    rewrite !El.
    rewrite (nth_app_l dp) by exact Hdp.
    unfold with_o, with_h, with_d. cbn [sh hd hb ho dv ov bv kv].
    split; cbn [sh hd hb ho dv ov bv kv start_live ld lo]; unfold dict_at, obj_at; cbn [hd hb ho];
      try reflexivity; try lia.
    - rewrite !app_length. cbn [length]. fold n. lia.
    - rewrite app_length. cbn [length]. fold m. lia.
    - intros r. unfold rd_copy.
      destruct (Nat.eqb_spec r db) as [->|N1].
      { rewrite (nth_app_l n) by (rewrite El; lia). apply nth_app_last. }
      destruct (Nat.eqb_spec r dp) as [->|N2].
      { replace (n + 1) with (length (hd0 ++ [nth db hd0 []])) by (rewrite El; lia). apply nth_app_last. }
      destruct (Nat.ltb_spec r n) as [L|L].
      { rewrite (nth_app_l r) by (rewrite El; lia). apply nth_app_l. exact L. }
      rewrite !nth_overflow; [reflexivity | fold n; lia | rewrite app_length, El; cbn [length]; lia].
    - intros x Hx. fold m in Hx. unfold ro_copy.
      destruct (Nat.eqb_spec x self) as [->|N1].
      { unfold m. rewrite nth_app_last. unfold orn. cbn [oblocks ophases]. fold db. fold dp.
        unfold rd_copy. rewrite Nat.eqb_refl.
        destruct (Nat.eqb_spec dp db) as [E|_]; [congruence|]. rewrite Nat.eqb_refl.
        f_equal; lia. }
      destruct (Nat.ltb_spec x m) as [L|L]; [|lia].
      rewrite (nth_app_l x) by exact L.
      set (ob := nth x ho0 obj0).
      assert (Hf : forall f, rd_copy db dp n (oget ob f) = oget ob f).
      { intros f. unfold rd_copy.
        destruct (Nat.eqb_spec (oget ob f) db) as [E|_].
        { destruct (O1 x f self false Hx Hself E) as [E' _]. contradiction. }
        destruct (Nat.eqb_spec (oget ob f) dp) as [E|_].
        { destruct (O1 x f self true Hx Hself E) as [E' _]. contradiction. }
        pose proof (O2 x f Hx) as L'. fold ob in L'.
        destruct (Nat.ltb_spec (oget ob f) n); [reflexivity | lia]. }
      unfold orn. pose proof (Hf false) as Hb. pose proof (Hf true) as Hp. cbn [oget] in Hb, Hp.
      rewrite Hb, Hp. destruct ob; reflexivity.
    - intros v Hv. discriminate Hv.
    - intros v Hv. unfold has in Hv. unfold ro_copy, upd.
      assert (Hc : (two = true /\ v = 1) \/ v = 2).
      { destruct two; cbn [mem] in Hv.
        - destruct (Nat.eqb_spec v 1); [left; tauto|]. destruct (Nat.eqb_spec v 2); [right; assumption|].
          discriminate Hv.
        - destruct (Nat.eqb_spec v 2); [right; assumption|]. discriminate Hv. }
      destruct Hc as [ [Ht ->] | -> ]; cbn [Nat.eqb].
      + destruct (Hother Ht) as [L1 N1].
        destruct (Nat.eqb_spec (ov0 1) self) as [E|_]; [contradiction|].
        fold m in L1. destruct (Nat.ltb_spec (ov0 1) m); [split; [reflexivity | exact L1] | lia].
      + rewrite Nat.eqb_refl. split; [reflexivity | exact Hself].
  Qed.

  (* a common body that reads only `new` (local 2) [and `other`, local 1]:
     the value it leaves in `new` is observably the same in both runs *)
  Theorem inplace_eq_body (body : cmd) (two : bool) (A' : lv) (s : st) :
    live body (start_live two) = Some A' ->
    Own (sh s) -> ov s 0 < length (ho (sh s)) ->
    (two = true -> ov s 1 < length (ho (sh s)) /\ ov s 1 <> ov s 0) ->
    obs (sh (exec keqb (Seq (B_new true) body) s)) (ov (exec keqb (Seq (B_new true) body) s) 2) =
    obs (sh (exec keqb (Seq (B_new false) body) s)) (ov (exec keqb (Seq (B_new false) body) s) 2).
  Proof.
    intros HL HO Hself Hother.
    pose proof HO as [O1 O2].
    set (self := ov s 0). set (db := oblocks (obj_at (sh s) self)). set (dp := ophases (obj_at (sh s) self)).
    set (n := length (hd (sh s))). set (m := length (ho (sh s))).
    assert (Hdb : db < n) by (apply (O2 self false Hself)).
    assert (Hdp : dp < n) by (apply (O2 self true Hself)).
    assert (Hne : db <> dp).
    { intros E. destruct (O1 self false self true Hself Hself E) as [_ F]. discriminate. }
    destruct (rd_copy_props db dp n Hne Hdb Hdp) as [P1 [P2 P3]].
    destruct (ro_copy_props self m Hself) as [Q1 [Q2 Q3]].
    pose proof (sim_copy_start s two HO Hself Hother) as HS. cbv zeta in HS.
    fold self db dp n m in HS.
    destruct (sim_exec keqb _ _ n m 2 1 P1 Q1 P2 P3 Q2 Q3 body _ _ _ _ HL HS) as [HS' Hsub].
    cbn [exec B_new]. symmetry.
    eapply sim_obs; [exact HS'|].
    apply (proj2 Hsub). destruct two; reflexivity.
  Qed.
End CopyStart.

(* ================================================================== *)
(* all flag-offering operations of Model/HeapOps.v *)
Section OpsInplace.
  Context {K : Type} (keqb : K -> K -> bool).
  Notation st := (@st K).

  Definition two_args (o : op) : bool := Nat.eqb (nargs o) 2.
  Definition accepted (c : @cmd K) (A : lv) : bool := match live c A with Some _ => true | None => false end.

  (* the common body of every copy-shaped operation reads only `new` (and
     `other` for the two-argument operations) before writing: computation *)
  Lemma body_live (P : @params K) (o : op) :
    copy_shaped o = true ->
    exists body, (forall ip o', with_flag o ip = Some o' -> script P o' = Seq (B_new ip) body) /\
                 accepted body (start_live (two_args o)) = true.
  Proof.
    destruct o; cbn [copy_shaped with_flag]; try discriminate;
      repeat match goal with b : bool |- _ => destruct b end; try discriminate;
      try match goal with m : missing |- _ => destruct m end;
      intros _; eexists;
      (split; [intros ip o' [= <-]; cbn [script]; unfold nw; reflexivity | vm_compute; reflexivity]).
  Qed.

  (* inplace_eq for every copy-shaped operation: the receiver after the in-place
     script is observably equal to the array returned by the out-of-place script *)
  Theorem inplace_eq_copy_shaped (P : @params K) (o ot of_ : op) (s : st) :
    copy_shaped o = true ->
    with_flag o true = Some ot -> with_flag o false = Some of_ ->
    Own (sh s) -> ov s 0 < length (ho (sh s)) ->
    (nargs o = 2 -> ov s 1 < length (ho (sh s)) /\ ov s 1 <> ov s 0) ->
    obs (sh (exec keqb (script P ot) s)) (ov (exec keqb (script P ot) s) 2) =
    obs (sh (exec keqb (script P of_) s)) (ov (exec keqb (script P of_) s) 2).
  Proof.
    intros Hc Ht Hf HO Hself Hother.
    destruct (body_live P o Hc) as [body [Hshape Hacc]].
    rewrite (Hshape true ot Ht), (Hshape false of_ Hf).
    unfold accepted in Hacc. destruct (live body (start_live (two_args o))) as [A'|] eqn:HL; [|discriminate].
    apply (inplace_eq_body keqb body (two_args o) A' s HL HO Hself).
    intros H2. apply Hother. unfold two_args in H2. apply Nat.eqb_eq. exact H2.
  Qed.
End OpsInplace.

(* ================================================================== *)
(* The three operations that REBIND instead of copying (abelian fuse core,
   abelian unfuse, drop_misaligned_sectors): both scripts run one common
   prefix from the same state (it builds the new block dict in dict local 1
   [and 5]), then either `self._blocks = d` or `copy_with(blocks=d)`. *)
Section Rebind.
  Context {K : Type} (keqb : K -> K -> bool).
  Notation st := (@st K). Notation cmd := (@cmd K).

  (* commands that never assign an object local *)
  Fixpoint keeps_ov (c : cmd) : bool :=
    match c with
    | NewObj _ _ _ => false
    | OAssign _ _ => false
    | Seq c1 c2 => keeps_ov c1 && keeps_ov c2
    | ForEach _ _ _ b => keeps_ov b
    | ForKeys _ _ _ b => keeps_ov b
    | IfHas _ _ c1 c2 => keeps_ov c1 && keeps_ov c2
    | IfKey _ _ c1 c2 => keeps_ov c1 && keeps_ov c2
    | _ => true
    end.

  Lemma keeps_ov_sound (c : cmd) : keeps_ov c = true -> forall s v, ov (exec keqb c s) v = ov s v.
  Proof.
    induction c as [|c1 IH1 c2 IH2|v|v w|v o f|d k b|d k t|d k|b d k|d kx bx|d w|o f d|o d p|o o'|b|b|b b'
                   |d kx bx body IH|g k ky body IH|d k c1 IH1 c2 IH2|p k c1 IH1 c2 IH2];
      intros Hk s x; cbn [keeps_ov] in Hk; cbn [exec]; try discriminate; try reflexivity.
    - apply andb_true_iff in Hk as [H1 H2]. rewrite (IH2 H2), (IH1 H1). reflexivity.
    - destruct (d_get keqb (keval s k) (dict_at (sh s) (dv s d))); reflexivity.
    - destruct (last_item (dict_at (sh s) (dv s d))) as [[k' r']|]; reflexivity.
    - generalize (dict_at (sh s) (dv s d)). intros l. revert s.
      induction l as [|it l IHl]; intros s; cbn [fold_left]; [reflexivity|].
      rewrite IHl, (IH Hk). reflexivity.
    - generalize (g (keval s k)). intros l. revert s.
      induction l as [|it l IHl]; intros s; cbn [fold_left]; [reflexivity|].
      rewrite IHl, (IH Hk). reflexivity.
    - apply andb_true_iff in Hk as [H1 H2].
      destruct (d_get keqb (keval s k) (dict_at (sh s) (dv s d))); [apply (IH1 H1) | apply (IH2 H2)].
    - apply andb_true_iff in Hk as [H1 H2].
      destruct (p (keval s k)); [apply (IH1 H1) | apply (IH2 H2)].
  Qed.

  (* what the ownership analysis tells about the state after the prefix *)
  Lemma prefix_facts (prefix : cmd) (s : st) n a' :
    safe prefix (init_aenv n []) = Some a' -> keeps_ov prefix = true -> Own (sh s) ->
    let s' := exec keqb prefix s in
    Own (sh s') /\ (forall v, ov s' v = ov s v) /\ length (ho (sh s)) <= length (ho (sh s')) /\
    (forall v af, gd a' v = DFree af ->
       dv s' v < length (hd (sh s')) /\
       forall o f, o < length (ho (sh s')) -> oget (obj_at (sh s') o) f <> dv s' v).
  Proof.
    intros Hs Hk HO s'.
    assert (Hv : forall v, In v [] -> ov s v < length (ho (sh s))) by (intros v []).
    pose proof (Inv_init (sh s) s n [] eq_refl HO Hv) as HI.
    pose proof (safe_sound keqb _ _ _ _ _ _ prefix _ _ _ Hs HI) as [[S1 S2 S3 O E FD FB FO] DI _ _].
    fold s' in S1, S2, S3, O, E, FD, FB, FO, DI.
    split; [exact O|]. split; [intros v; apply keeps_ov_sound; exact Hk|]. split; [exact S3|].
    intros v af Hg. specialize (DI v). unfold DInv in DI. rewrite Hg in DI.
    destruct DI as (_ & L & NR & _). split; [exact L|].
    intros o f Lo E'. apply NR. exists o, f. split; [exact Lo | exact E'].
  Qed.

  Definition rd_rebind (dp n r : nat) : nat :=
    if Nat.eqb r dp then n else if Nat.ltb r n then r else r + 1.

  Lemma rd_rebind_props dp n : dp < n ->
    (forall a b, rd_rebind dp n a = rd_rebind dp n b -> a = b) /\
    (forall r, n <= r -> rd_rebind dp n r = r + 1) /\
    (forall r, r < n -> rd_rebind dp n r < n + 1).
  Proof.
    intros H1. unfold rd_rebind. repeat split.
    - intros a b.
      destruct (Nat.eqb_spec a dp), (Nat.eqb_spec b dp), (Nat.ltb_spec a n), (Nat.ltb_spec b n); lia.
    - intros r Hr. destruct (Nat.eqb_spec r dp), (Nat.ltb_spec r n); lia.
    - intros r Hr. destruct (Nat.eqb_spec r dp), (Nat.ltb_spec r n); lia.
  Qed.

  (* `self._blocks = d; new = self`  versus  `new = self.copy_with(blocks=d)` *)
  Lemma sim_rebind_start (s : st) :
    Own (sh s) -> ov s 0 < length (ho (sh s)) -> dv s 1 < length (hd (sh s)) ->
    (forall o f, o < length (ho (sh s)) -> oget (obj_at (sh s) o) f <> dv s 1) ->
    let self := ov s 0 in
    let dp := ophases (obj_at (sh s) self) in
    let n := length (hd (sh s)) in
    let m := length (ho (sh s)) in
    Sim (rd_rebind dp n) (ro_copy self m) n m 1 1 (mkL [] [2])
        (exec keqb (Seq (Rebind 0 false 1) (OAssign 2 0)) s) (exec keqb (B_copy_with 2 0 1) s).
  Proof.
    intros [O1 O2] Hself Hr1 Hnr self dp n m.
    assert (Hdp : dp < n) by (apply (O2 self true Hself)).
    destruct s as [[hd0 hb0 ho0] dv0 ov0 bv0 kv0]. cbn [sh hd hb ho ov dv] in *.
    cbn -[nth]. unfold upd; cbn -[nth].
    unfold push_dict, obj_at, dict_at in *; cbn [hd hb ho] in *.
    fold self. fold dp. set (r1 := dv0 1) in *.
    unfold with_o, with_h, with_d. cbn [sh hd hb ho dv ov bv kv].
    split; cbn [sh hd hb ho dv ov bv kv ld lo]; unfold dict_at, obj_at; cbn [hd hb ho];
      try reflexivity; try lia.
    - rewrite length_upd_nth. fold m. lia.
    - rewrite app_length. cbn [length]. fold n. lia.
    - rewrite app_length, length_upd_nth. cbn [length]. fold m. lia.
    - intros r. unfold rd_rebind.
      destruct (Nat.eqb_spec r dp) as [->|N1]; [apply nth_app_last|].
      destruct (Nat.ltb_spec r n) as [L|L]; [apply nth_app_l; exact L|].
      rewrite !nth_overflow; [reflexivity | fold n; lia | rewrite app_length; cbn [length]; fold n; lia].
    - intros x. rewrite length_upd_nth. intros Hx. fold m in Hx. unfold ro_copy.
      assert (Hf : forall x' f, x' < m -> rd_rebind dp n (oget (nth x' ho0 obj0) f) =
                                          if Nat.eqb x' self && f then n else oget (nth x' ho0 obj0) f).
      { intros x' f Hx'. unfold rd_rebind.
        destruct (Nat.eqb_spec (oget (nth x' ho0 obj0) f) dp) as [E|NE].
        - destruct (O1 x' f self true Hx' Hself E) as [-> ->]. rewrite Nat.eqb_refl. reflexivity.
        - destruct (Nat.eqb_spec x' self) as [->|NS]; cbn [andb].
          + destruct f; [contradiction NE; reflexivity|].
            pose proof (O2 self false Hself) as L'. destruct (Nat.ltb_spec (oget (nth self ho0 obj0) false) n); [reflexivity|lia].
          + pose proof (O2 x' f Hx') as L'. destruct (Nat.ltb_spec (oget (nth x' ho0 obj0) f) n); [reflexivity|lia]. }
      assert (Hr : rd_rebind dp n r1 = r1).
      { unfold rd_rebind. destruct (Nat.eqb_spec r1 dp) as [E|_].
        - exfalso. apply (Hnr self true Hself). symmetry. exact E.
        - destruct (Nat.ltb_spec r1 n); [reflexivity | lia]. }
      rewrite nth_upd_nth.
      destruct (Nat.eqb_spec x self) as [->|N1].
      { unfold m. rewrite nth_app_last. fold m.
        assert (Hl : Nat.ltb self m = true) by (apply Nat.ltb_lt; exact Hself).
        rewrite Hl. cbn [andb oset]. unfold orn. cbn [oblocks ophases]. rewrite Hr.
        pose proof (Hf self true Hself) as Hp. rewrite Nat.eqb_refl in Hp. cbn [andb oget] in Hp.
        fold dp in Hp. rewrite Hp. reflexivity. }
      cbn [andb]. destruct (Nat.ltb_spec x m) as [L|L]; [|lia].
      rewrite (nth_app_l x) by exact L.
      apply Nat.eqb_neq in N1.
      pose proof (Hf x false Hx) as Hb. pose proof (Hf x true Hx) as Hp.
      rewrite N1 in Hb, Hp. cbn [andb oget] in Hb, Hp.
      unfold orn. rewrite Hb, Hp. destruct (nth x ho0 obj0); reflexivity.
    - intros v Hv. discriminate Hv.
    - intros v Hv. unfold has in Hv. cbn [mem] in Hv. rewrite length_upd_nth.
      destruct (Nat.eqb_spec v 2) as [E|]; [subst v|discriminate Hv].
      cbn [Nat.eqb]. unfold ro_copy. rewrite Nat.eqb_refl. fold m. split; [reflexivity | exact Hself].
  Qed.

  Theorem inplace_eq_rebind (tail : cmd) (A' : lv) (s : st) :
    live tail (mkL [] [2]) = Some A' ->
    Own (sh s) -> ov s 0 < length (ho (sh s)) -> dv s 1 < length (hd (sh s)) ->
    (forall o f, o < length (ho (sh s)) -> oget (obj_at (sh s) o) f <> dv s 1) ->
    let s1 := exec keqb tail (exec keqb (OAssign 2 0) (exec keqb (Rebind 0 false 1) s)) in
    let s2 := exec keqb tail (exec keqb (B_copy_with 2 0 1) s) in
    obs (sh s1) (ov s1 2) = obs (sh s2) (ov s2 2).
  Proof.
    intros HL HO Hself Hr1 Hnr s1 s2.
    pose proof HO as [O1 O2].
    set (self := ov s 0). set (dp := ophases (obj_at (sh s) self)).
    set (n := length (hd (sh s))). set (m := length (ho (sh s))).
    assert (Hdp : dp < n) by (apply (O2 self true Hself)).
    destruct (rd_rebind_props dp n Hdp) as [P1 [P2 P3]].
    destruct (ro_copy_props self m Hself) as [Q1 [Q2 Q3]].
    pose proof (sim_rebind_start s HO Hself Hr1 Hnr) as HS. cbv zeta in HS.
    fold self dp n m in HS.
    destruct (sim_exec keqb _ _ n m 1 1 P1 Q1 P2 P3 Q2 Q3 tail _ _ _ _ HL HS) as [HS' Hsub].
    symmetry. eapply sim_obs; [exact HS'|].
    apply (proj2 Hsub). reflexivity.
  Qed.

  (* drop_misaligned_sectors: no tail; the results are the arguments themselves
     (in place) or two new objects (out of place) *)
  Theorem inplace_eq_drop_fin (s : st) :
    Own (sh s) -> ov s 0 < length (ho (sh s)) -> ov s 1 < length (ho (sh s)) -> ov s 1 <> ov s 0 ->
    dv s 1 < length (hd (sh s)) -> dv s 5 < length (hd (sh s)) ->
    let s1 := exec keqb (Seq (Rebind 0 false 1) (Rebind 1 false 5)) s in
    let s2 := exec keqb (Seq (B_copy_with 2 0 1) (B_copy_with 3 1 5)) s in
    obs (sh s1) (ov s1 0) = obs (sh s2) (ov s2 2) /\ obs (sh s1) (ov s1 1) = obs (sh s2) (ov s2 3).
  Proof.
    intros [O1 O2] Ha Hb Hab Hr1 Hr5.
    pose proof (O2 (ov s 0) true Ha) as Hpa. pose proof (O2 (ov s 1) true Hb) as Hpb.
    destruct s as [[hd0 hb0 ho0] dv0 ov0 bv0 kv0]. cbn [sh hd hb ho ov dv] in *.
    cbn -[nth]. unfold upd; cbn -[nth].
    unfold obs, push_dict, obj_at, dict_at, buf_at in *; cbn [hd hb ho] in *.
    set (a := ov0 0) in *. set (b := ov0 1) in *. set (r1 := dv0 1) in *. set (r5 := dv0 5) in *.
    assert (El : forall x, length (hd0 ++ [x]) = S (length hd0)) by (intros; rewrite app_length; cbn; lia).
    assert (Em : forall x, length (ho0 ++ [x]) = S (length ho0)) by (intros; rewrite app_length; cbn; lia).
    rewrite !El, !Em.
    rewrite !nth_upd_nth, !length_upd_nth.
    assert (La : Nat.ltb a (length ho0) = true) by (apply Nat.ltb_lt; exact Ha).
    assert (Lb : Nat.ltb b (length ho0) = true) by (apply Nat.ltb_lt; exact Hb).
    assert (Nab : Nat.eqb a b = false) by (apply Nat.eqb_neq; congruence).
    assert (Nba : Nat.eqb b a = false) by (apply Nat.eqb_neq; congruence).
    rewrite !Nat.eqb_refl, La, Lb, Nab, Nba. cbn [andb oset oblocks ophases].
    assert (Ho1 : forall x y, nth (length ho0) ((ho0 ++ [x]) ++ [y]) obj0 = x).
    { intros x y. rewrite (nth_app_l (length ho0)) by (rewrite Em; lia). apply nth_app_last. }
    assert (Ho2 : forall x y, nth (S (length ho0)) ((ho0 ++ [x]) ++ [y]) obj0 = y).
    { intros x y. rewrite <- (Em x). apply nth_app_last. }
    assert (Ho3 : forall x, nth b (ho0 ++ [x]) obj0 = nth b ho0 obj0).
    { intros x. apply nth_app_l. exact Hb. }
    assert (Hd1 : forall r x y, r < length hd0 -> nth r ((hd0 ++ [x]) ++ [y]) [] = nth r hd0 []).
    { intros r x y Hr. rewrite (nth_app_l r) by (rewrite El; lia). apply nth_app_l. exact Hr. }
    assert (Hd2 : forall x y, nth (length hd0) ((hd0 ++ [x]) ++ [y]) [] = x).
    { intros x y. rewrite (nth_app_l (length hd0)) by (rewrite El; lia). apply nth_app_last. }
    assert (Hd3 : forall x y, nth (S (length hd0)) ((hd0 ++ [x]) ++ [y]) [] = y).
    { intros x y. rewrite <- (El x). apply nth_app_last. }
    assert (Hd4 : forall r x, r < length hd0 -> nth r (hd0 ++ [x]) [] = nth r hd0 []).
    { intros r x Hr. apply nth_app_l. exact Hr. }
    rewrite Ho1, Ho2, !Ho3. cbn [oblocks ophases].
    rewrite (Hd1 r1) by exact Hr1. rewrite (Hd1 r5) by exact Hr5. rewrite Hd2, Hd3.
    rewrite (Hd4 _ _ Hpb). split; reflexivity.
  Qed.
End Rebind.

(* ================================================================== *)
Section AllOps.
  Context {K : Type} (keqb : K -> K -> bool).
  Notation st := (@st K). Notation cmd := (@cmd K).

  (* the common prefixes of the three rebinding operations (the part of
     B_fuse_core / B_unfuse / B_drop_misaligned before the `if inplace`) *)
  Definition fuse_loop (f : K -> K) (insert : bool) : cmd :=
    ForEach 0 0 0 (Seq (Alias 1 0)
      (if insert
       then Seq (IfHas 1 (KF f k_0) (GetItem 2 1 (KF f k_0)) (Seq (NewBuf 2) (SetItem 1 (KF f k_0) 2))) (WriteBuf 2)
       else IfHas 1 (KF f k_0) Skip (SetItem 1 (KF f k_0) 1))).
  Definition fuse_prefix (f : K -> K) (insert : bool) : cmd :=
    Seq (GetField 0 0 false) (Seq (NewDict 1) (fuse_loop f insert)).
  Definition unfuse_loop (g : K -> list K) : cmd :=
    ForEach 0 0 0 (ForKeys g k_0 2 (Seq (Alias 1 0) (SetItem 1 (KV 2) 1))).
  Definition unfuse_prefix (g : K -> list K) : cmd :=
    Seq (GetField 0 0 false) (Seq (NewDict 1) (unfuse_loop g)).
  Definition drop_loop1 (P : @params K) : cmd := ForEach 0 0 0 (IfKey (p1 P) k_0 (SetItem 1 k_0 0) Skip).
  Definition drop_loop2 (P : @params K) : cmd := ForEach 4 0 0 (IfKey (p2 P) k_0 (SetItem 5 k_0 0) Skip).
  Definition drop_prefix (P : @params K) : cmd :=
    Seq (GetField 0 0 false) (Seq (NewDict 1) (Seq (drop_loop1 P)
    (Seq (GetField 4 1 false) (Seq (NewDict 5) (drop_loop2 P))))).

  Definition free_after (n : nat) (c : cmd) (v : nat) : bool :=
    match safe c (init_aenv n []) with Some a' => d_isfree (gd a' v) | None => false end.

  Lemma free_after_facts (n : nat) (c : cmd) (v : nat) (s : st) :
    free_after n c v = true -> keeps_ov c = true -> Own (sh s) ->
    let s' := exec keqb c s in
    Own (sh s') /\ (forall x, ov s' x = ov s x) /\ length (ho (sh s)) <= length (ho (sh s')) /\
    dv s' v < length (hd (sh s')) /\
    (forall o f, o < length (ho (sh s')) -> oget (obj_at (sh s') o) f <> dv s' v).
  Proof.
    intros Hf Hk HO s'. unfold free_after in Hf.
    destruct (safe c (init_aenv n [])) as [a'|] eqn:Hs; [|discriminate].
    destruct (prefix_facts keqb c s n a' Hs Hk HO) as [H1 [H2 [H3 H4]]]. fold s' in H1, H2, H3, H4.
    destruct (gd a' v) as [| |af] eqn:Hg; try discriminate.
    destruct (H4 v af Hg) as [H5 H6].
    split; [exact H1|]. split; [exact H2|]. split; [exact H3|]. split; [exact H5 | exact H6].
  Qed.

  Lemma exec_seq (c1 c2 : cmd) (s : st) : exec keqb (Seq c1 c2) s = exec keqb c2 (exec keqb c1 s).
  Proof. reflexivity. Qed.
  Lemma exec_skip (s : st) : exec keqb Skip s = s.
  Proof. reflexivity. Qed.

  Definition fuse_tail (P : @params K) : cmd := ForKeys (kc (l1 P)) (@k_0 K) 3 (B_map 2 (f3 P) true false).

  Lemma fuse_script (P : @params K) (insert ip : bool) :
    script P (OFuse ip false true insert) =
    Seq (Seq (Seq (GetField 0 0 false) (Seq (NewDict 1) (Seq (fuse_loop (f2 P) insert)
                   (if ip then Rebind 0 false 1 else B_copy_with 2 0 1))))
             (if ip then OAssign 2 0 else Skip))
        (fuse_tail P).
  Proof. destruct ip; reflexivity. Qed.

  Lemma unfuse_script (P : @params K) (ip : bool) :
    script P (OUnfuse ip false) =
    Seq (Seq (GetField 0 0 false) (Seq (NewDict 1) (Seq (unfuse_loop (g1 P))
              (if ip then Rebind 0 false 1 else B_copy_with 2 0 1))))
        (if ip then OAssign 2 0 else Skip).
  Proof. destruct ip; reflexivity. Qed.

  Lemma drop_script (P : @params K) (ip : bool) :
    script P (ODropMisaligned ip) =
    Seq (GetField 0 0 false) (Seq (NewDict 1) (Seq (drop_loop1 P)
    (Seq (GetField 4 1 false) (Seq (NewDict 5) (Seq (drop_loop2 P)
      (if ip then Seq (Rebind 0 false 1) (Rebind 1 false 5)
       else Seq (B_copy_with 2 0 1) (B_copy_with 3 1 5))))))).
  Proof. destruct ip; reflexivity. Qed.

  (* abelian fuse (with groups) *)
  Theorem inplace_eq_fuse (P : @params K) (insert : bool) (s : st) :
    Own (sh s) -> ov s 0 < length (ho (sh s)) ->
    let s1 := exec keqb (script P (OFuse true false true insert)) s in
    let s2 := exec keqb (script P (OFuse false false true insert)) s in
    obs (sh s1) (ov s1 2) = obs (sh s2) (ov s2 2).
  Proof.
    intros HO Hself. cbv zeta.
    set (pre := fuse_prefix (f2 P) insert).
    assert (Hfa : free_after 1 pre 1 = true) by (unfold pre; destruct insert; vm_compute; reflexivity).
    assert (Hk : keeps_ov pre = true) by (unfold pre; destruct insert; reflexivity).
    assert (Hacc : accepted (fuse_tail P) (mkL [] [2]) = true) by (vm_compute; reflexivity).
    unfold accepted in Hacc. destruct (live (fuse_tail P) (mkL [] [2])) as [A'|] eqn:HL; [|discriminate].
    destruct (free_after_facts 1 pre 1 s Hfa Hk HO) as [H1 [H2 [H3 [H4 H5]]]].
    assert (Hs' : ov (exec keqb pre s) 0 < length (ho (sh (exec keqb pre s)))) by (rewrite H2; lia).
    pose proof (inplace_eq_rebind keqb (fuse_tail P) A' (exec keqb pre s) HL H1 Hs' H4 H5) as HH.
    cbv zeta in HH. unfold pre, fuse_prefix in HH. rewrite !exec_seq in HH.
    rewrite !fuse_script, !exec_seq, exec_skip. exact HH.
  Qed.

  (* abelian unfuse *)
  Theorem inplace_eq_unfuse (P : @params K) (s : st) :
    Own (sh s) -> ov s 0 < length (ho (sh s)) ->
    let s1 := exec keqb (script P (OUnfuse true false)) s in
    let s2 := exec keqb (script P (OUnfuse false false)) s in
    obs (sh s1) (ov s1 2) = obs (sh s2) (ov s2 2).
  Proof.
    intros HO Hself. cbv zeta.
    set (pre := unfuse_prefix (g1 P)).
    assert (Hfa : free_after 1 pre 1 = true) by (vm_compute; reflexivity).
    assert (Hk : keeps_ov pre = true) by reflexivity.
    destruct (free_after_facts 1 pre 1 s Hfa Hk HO) as [H1 [H2 [H3 [H4 H5]]]].
    assert (Hs' : ov (exec keqb pre s) 0 < length (ho (sh (exec keqb pre s)))) by (rewrite H2; lia).
    pose proof (inplace_eq_rebind keqb Skip (mkL [] [2]) (exec keqb pre s) eq_refl H1 Hs' H4 H5) as HH.
    cbv zeta in HH. unfold pre, unfuse_prefix in HH. rewrite !exec_seq, !exec_skip in HH.
    rewrite !unfuse_script, !exec_seq, exec_skip. exact HH.
  Qed.

  (* drop_misaligned_sectors: the in-place results are the two arguments *)
  Theorem inplace_eq_drop (P : @params K) (s : st) :
    Own (sh s) -> ov s 0 < length (ho (sh s)) -> ov s 1 < length (ho (sh s)) -> ov s 1 <> ov s 0 ->
    let s1 := exec keqb (script P (ODropMisaligned true)) s in
    let s2 := exec keqb (script P (ODropMisaligned false)) s in
    obs (sh s1) (ov s1 0) = obs (sh s2) (ov s2 2) /\ obs (sh s1) (ov s1 1) = obs (sh s2) (ov s2 3).
  Proof.
    intros HO Ha Hb Hab. cbv zeta.
    set (pre := drop_prefix P).
    assert (Hf1 : free_after 2 pre 1 = true) by (vm_compute; reflexivity).
    assert (Hf5 : free_after 2 pre 5 = true) by (vm_compute; reflexivity).
    assert (Hk : keeps_ov pre = true) by reflexivity.
    destruct (free_after_facts 2 pre 1 s Hf1 Hk HO) as [H1 [H2 [H3 [H4 _]]]].
    destruct (free_after_facts 2 pre 5 s Hf5 Hk HO) as [_ [_ [_ [H6 _]]]].
    assert (Ha' : ov (exec keqb pre s) 0 < length (ho (sh (exec keqb pre s)))) by (rewrite H2; lia).
    assert (Hb' : ov (exec keqb pre s) 1 < length (ho (sh (exec keqb pre s)))) by (rewrite H2; lia).
    assert (Hab' : ov (exec keqb pre s) 1 <> ov (exec keqb pre s) 0) by (rewrite !H2; exact Hab).
    pose proof (inplace_eq_drop_fin keqb (exec keqb pre s) H1 Ha' Hb' Hab' H4 H6) as HH.
    cbv zeta in HH. unfold pre, drop_prefix in HH. rewrite !exec_seq in HH.
    rewrite !drop_script, !exec_seq. exact HH.
  Qed.

  (* ---------------- every operation offering the flag ---------------- *)
  Lemma copy_shaped_rets (o o' : op) (ip : bool) :
    copy_shaped o = true -> with_flag o ip = Some o' -> rets o' = [2].
  Proof.
    destruct o; cbn [copy_shaped with_flag]; try discriminate; intros _ [= <-]; reflexivity.
  Qed.

  (* inplace_eq, FULL: for every operation offering an in-place flag, every
     returned array of the in-place call is observably equal to the
     corresponding array returned by the out-of-place call *)
  Theorem inplace_eq_all (P : @params K) (o ot of_ : op) (s : st) :
    with_flag o true = Some ot -> with_flag o false = Some of_ ->
    Own (sh s) -> ov s 0 < length (ho (sh s)) ->
    (nargs o = 2 -> ov s 1 < length (ho (sh s)) /\ ov s 1 <> ov s 0) ->
    let s1 := exec keqb (script P ot) s in
    let s2 := exec keqb (script P of_) s in
    length (rets ot) = length (rets of_) /\
    forall j, j < length (rets ot) ->
      obs (sh s1) (ov s1 (nth j (rets ot) 0)) = obs (sh s2) (ov s2 (nth j (rets of_) 0)).
  Proof.
    intros Ht Hf HO Hself Hother s1 s2.
    destruct (copy_shaped o) eqn:Hc.
    - rewrite (copy_shaped_rets o ot true Hc Ht), (copy_shaped_rets o of_ false Hc Hf).
      split; [reflexivity|]. intros j Hj. cbn [length] in Hj.
      assert (j = 0) by lia. subst j. cbn [nth].
      exact (inplace_eq_copy_shaped keqb P o ot of_ s Hc Ht Hf HO Hself Hother).
    - destruct o; cbn [copy_shaped with_flag] in Hc, Ht, Hf; try discriminate Hc; try discriminate Ht.
      + (* OFuse *) destruct ferm; [discriminate Hc|]. destruct groups; [|discriminate Hc].
        injection Ht as <-. injection Hf as <-. cbn [rets nw]. split; [reflexivity|].
        intros j Hj. cbn [length] in Hj. assert (j = 0) by lia. subst j. cbn [nth].
        exact (inplace_eq_fuse P insert s HO Hself).
      + (* OUnfuse *) destruct ferm; [discriminate Hc|].
        injection Ht as <-. injection Hf as <-. cbn [rets nw]. split; [reflexivity|].
        intros j Hj. cbn [length] in Hj. assert (j = 0) by lia. subst j. cbn [nth].
        exact (inplace_eq_unfuse P s HO Hself).
      + (* ODropMisaligned *)
        injection Ht as <-. injection Hf as <-. cbn [rets]. split; [reflexivity|].
        destruct (Hother eq_refl) as [Hb Hab].
        destruct (inplace_eq_drop P s HO Hself Hb Hab) as [E0 E1].
        intros j Hj. cbn [length] in Hj.
        destruct j as [|[|j]]; cbn [nth]; [exact E0 | exact E1 | lia].
  Qed.
End AllOps.

(* ================================================================== *)
(* Examples: the hypotheses hold on a concrete store (the fermionic array and
   its view of Proofs/HeapOpsProofs.Example), and both sides compute to the
   same observable state for a fermionic `+=` with pending signs on both sides *)
Module InplaceExample.
  Import HeapOpsProofs.Example.
  Definition s_ex : @st nat :=
    mkS h_ex (fun _ => 0) (fun v => match v with 1 => 1 | _ => 0 end) (fun _ => 0) (fun _ => 0).

  Example hyps_ex :
    Own (sh s_ex) /\ ov s_ex 0 < length (ho (sh s_ex)) /\
    ov s_ex 1 < length (ho (sh s_ex)) /\ ov s_ex 1 <> ov s_ex 0.
  Proof. split; [exact own_ex|]. cbn. repeat split; try lia. Qed.

  Example binary_ex :
    let s1 := exec Nat.eqb (script Pex (OBinary true MOuter true true)) s_ex in
    let s2 := exec Nat.eqb (script Pex (OBinary false MOuter true true)) s_ex in
    obs (sh s1) (ov s1 2) = obs (sh s2) (ov s2 2) /\ ov s1 2 = 0 /\ ov s2 2 = 2 /\
    obs (sh s1) (ov s1 2) <> obs h_ex 0.
  Proof. vm_compute. repeat split; try reflexivity. intros E. inversion E. Qed.

  Example fuse_ex :
    let s1 := exec Nat.eqb (script Pex (OFuse true false true true)) s_ex in
    let s2 := exec Nat.eqb (script Pex (OFuse false false true true)) s_ex in
    obs (sh s1) (ov s1 2) = obs (sh s2) (ov s2 2).
  Proof. vm_compute. reflexivity. Qed.
End InplaceExample.

(* ================================================================== *)
(* The statement kept as `Definition C14_inplace_eq_full` in Props/C14.v
   (verbatim copy below, the Section variable keqb made explicit) is FALSE:
   (1) it does not require the second argument to be an existing object: with
       `ov s 1 = length (ho (sh s))` the out-of-place run finds the COPY of self
       at that index while the in-place run finds nothing (refutation below:
       `x += y` with such a y);
   (2) it reads result local 2 also for drop_misaligned_sectors, whose in-place
       results are the arguments (locals 0, 1).
   `inplace_eq_all` is the corrected full statement. *)
Definition inplace_eq_full_v1 {K : Type} (keqb : K -> K -> bool) : Prop :=
  forall (P : @params K) (o ot of_ : op) (s : @st K),
    with_flag o true = Some ot -> with_flag o false = Some of_ ->
    Own (sh s) -> ov s 0 < length (ho (sh s)) -> ov s 1 <> ov s 0 ->
    bufs_valid (sh s) (ov s 0) ->
    obs (sh (exec keqb (script P ot) s)) (ov (exec keqb (script P ot) s) 2) =
    obs (sh (exec keqb (script P of_) s)) (ov (exec keqb (script P of_) s) 2).

Module Refute.
  Import HeapOpsProofs.Example.
  (* self = object 1 of h_ex, `other` = index 2 = no object yet *)
  Definition s_bad : @st nat :=
    mkS h_ex (fun _ => 0) (fun v => match v with 0 => 1 | 1 => 2 | _ => 0 end) (fun _ => 0) (fun _ => 0).

  Lemma bufs_bad : bufs_valid (sh s_bad) (ov s_bad 0).
  Proof. intros k b; cbn. intros [[= _ <-]|[]]; lia. Qed.

  Theorem inplace_eq_full_v1_refuted : ~ inplace_eq_full_v1 Nat.eqb.
  Proof.
    intros H.
    specialize (H Pex (OBinary true MOuter false false) (OBinary true MOuter false false)
                  (OBinary false MOuter false false) s_bad eq_refl eq_refl own_ex).
    assert (H1 : ov s_bad 0 < length (ho (sh s_bad))) by (cbn; lia).
    assert (H2 : ov s_bad 1 <> ov s_bad 0) by (cbn; lia).
    specialize (H H1 H2 bufs_bad). vm_compute in H. discriminate H.
  Qed.

  (* (2): in-place drop_misaligned_sectors leaves local 2 alone *)
  Example drop_local2_untouched :
    forall s : @st nat, ov (exec Nat.eqb (script Pex (ODropMisaligned true)) s) 2 = ov s 2.
  Proof.
    intros s. apply (keeps_ov_sound Nat.eqb). reflexivity.
  Qed.
End Refute.
