(* Proofs/BlockwiseGenProofs.v — the functions that tr/gen_blockwise.py translates from the
   CURRENT source of `_tensordot_blockwise` and `drop_misaligned_sectors`
   (Gen/BlockwiseGen.v) are EQUAL (Leibniz equality of the result records: same index
   tables, same charge, same association list of blocks in the same order) to the hand model
   `tdot_blockwise` / `drop_misaligned` of Model/Array.v, which Props/C02*.v and C06*.v
   speak about.  Needed well-formedness (nothing else):
     - `ceqb` decides equality of charges;
     - the stored sectors of each operand are pairwise distinct (a Python dict has
       distinct keys; `nodupb` in `wf_array`);
     - drop_misaligned: every stored sector is at least as long as the array has indices;
       tdot: #left_axes + #right_axes = number of free legs
       (both follow from `wf_array` and `axes_ok`; where they fail Python raises
       IndexError, which the total translation does not model). *)
From SV Require Import Base.Prelude Base.Sym Base.Tensor Model.Sectors Model.Array Model.Wf
  Model.SymInst Proofs.Tdot Gen.BlockwiseGen.
From SV Require Proofs.TdotInst.
Local Open Scope nat_scope.

Lemma filter_true_id {A} (l : list A) : filter (fun _ => true) l = l.
Proof. induction l as [|x l IH]; cbn [filter]; [reflexivity | now rewrite IH]. Qed.

(* ------------------------------------------------------------------ *)
(* insertion-ordered dicts *)
Section GDict.
  Context {K V : Type} (e : K -> K -> bool) (e_spec : forall a b, e a b = true <-> a = b).

  Lemma g_lookup_dset_same k (v : V) d : lookup e k (dset e k v d) = Some v.
  Proof.
    induction d as [|[k' v'] d IH]; cbn [dset lookup].
    - now rewrite (eqb_refl e e_spec).
    - destruct (e k k') eqn:E; cbn [lookup]; rewrite E; [reflexivity | exact IH].
  Qed.

  Lemma g_lookup_dset_other k k' (v : V) d : k <> k' -> lookup e k (dset e k' v d) = lookup e k d.
  Proof.
    intros Hne. induction d as [|[k2 v2] d IH]; cbn [dset lookup].
    - destruct (e k k') eqn:E; [apply e_spec in E; contradiction | reflexivity].
    - destruct (e k' k2) eqn:E2; cbn [lookup].
      + apply e_spec in E2. subst k2. destruct (e k k') eqn:E; [apply e_spec in E; contradiction | reflexivity].
      + destruct (e k k2); [reflexivity | exact IH].
  Qed.

  Lemma g_dset_absent k (v : V) d : lookup e k d = None -> dset e k v d = d ++ [(k, v)].
  Proof.
    induction d as [|[k' v'] d IH]; cbn [dset lookup app]; [reflexivity|].
    destruct (e k k'); [discriminate|]. intros H. now rewrite IH.
  Qed.

  Lemma g_lookup_app k (d1 d2 : list (K * V)) :
    lookup e k (d1 ++ d2) = match lookup e k d1 with Some v => Some v | None => lookup e k d2 end.
  Proof.
    induction d1 as [|[k' v'] d1 IH]; cbn [app lookup]; [reflexivity|]. destruct (e k k'); [reflexivity | exact IH].
  Qed.

  Lemma g_lookup_none_notin k (d : list (K * V)) : lookup e k d = None <-> ~ In k (map fst d).
  Proof.
    induction d as [|[k' v'] d IH]; cbn [lookup map fst In]; [tauto|].
    destruct (e k k') eqn:E.
    - apply e_spec in E. subst. split; [discriminate | intros H; exfalso; apply H; now left].
    - rewrite IH. split; [intros H [H1|H1]; [subst; rewrite (eqb_refl e e_spec) in E; discriminate | auto] | tauto].
  Qed.

  Lemma g_dset_app_present k (v v0 : V) d1 d2 :
    lookup e k d1 = None -> dset e k v (d1 ++ (k, v0) :: d2) = d1 ++ (k, v) :: d2.
  Proof.
    induction d1 as [|[k' v'] d1 IH]; cbn [app dset lookup].
    - intros _. now rewrite (eqb_refl e e_spec).
    - destruct (e k k'); [discriminate|]. intros H. now rewrite IH.
  Qed.

  (* map over the values commutes with lookup / dset *)
  Lemma g_lookup_mapv {W} (f : K -> V -> W) k d :
    lookup e k (map (fun p => (fst p, f (fst p) (snd p))) d) =
    match lookup e k d with Some v => Some (f k v) | None => None end.
  Proof.
    induction d as [|[k' v'] d IH]; cbn [map lookup fst snd]; [reflexivity|].
    destruct (e k k') eqn:E; [apply e_spec in E; now subst | exact IH].
  Qed.

  Lemma g_dset_mapv {W} (f : K -> V -> W) k v d :
    map (fun p => (fst p, f (fst p) (snd p))) (dset e k v d) =
    dset e k (f k v) (map (fun p => (fst p, f (fst p) (snd p))) d).
  Proof.
    induction d as [|[k' v'] d IH]; cbn [map dset fst snd]; [reflexivity|].
    destruct (e k k') eqn:E; cbn [map fst snd]; [apply e_spec in E; now subst | now rewrite IH].
  Qed.

  (* d[k] = v for every kept item of a list with distinct keys: the kept items, in order *)
  Lemma fold_dset_filter (P : K * V -> bool) l : forall acc,
    NoDup (map fst l) -> (forall p, In p l -> lookup e (fst p) acc = None) ->
    fold_left (fun nb x => if P x then dset e (fst x) (snd x) nb else nb) l acc = acc ++ filter P l.
  Proof.
    induction l as [|x l IH]; intros acc Hnd Hacc; cbn [fold_left filter]; [now rewrite app_nil_r|].
    inversion Hnd as [|? ? Hx Hnd']; subst.
    destruct (P x) eqn:HP.
    - rewrite g_dset_absent by (apply Hacc; now left).
      rewrite IH; [| exact Hnd' |].
      + rewrite <- app_assoc. cbn [app]. now destruct x.
      + intros p Hp. rewrite g_lookup_app, (Hacc p) by (now right). cbn [lookup].
        destruct (e (fst p) (fst x)) eqn:E; [|reflexivity].
        apply e_spec in E. exfalso. apply Hx. rewrite <- E. now apply in_map.
    - apply IH; [exact Hnd' | intros p Hp; apply Hacc; now right].
  Qed.

  (* {k: f k for k in l} on distinct keys *)
  Lemma g_dict_of_nodup (f : K -> V) l : NoDup l ->
    g_dict_of e (map (fun k => (k, f k)) l) = map (fun k => (k, f k)) l.
  Proof.
    intros Hnd. unfold g_dict_of.
    pose proof (fold_dset_filter (fun _ => true) (map (fun k => (k, f k)) l) []) as H.
    cbn [app] in H. rewrite filter_true_id in H.
    apply H; [| intros; reflexivity].
    rewrite map_map. cbn [fst]. now rewrite map_id.
  Qed.

  Lemma g_dget_map_self (f : K -> V) dv l k : In k l ->
    g_dget e dv (map (fun k => (k, f k)) l) k = f k.
  Proof.
    unfold g_dget. induction l as [|k' l IH]; cbn [In map lookup]; [tauto|].
    intros H. destruct (e k k') eqn:E; [apply e_spec in E; now subst|].
    destruct H as [H|H]; [subst; rewrite (eqb_refl e e_spec) in E; discriminate | now apply IH].
  Qed.
End GDict.


(* ------------------------------------------------------------------ *)
(* sets as duplicate-free lists: only membership is ever observed *)
Section GSet.
  Context {A : Type} (e : A -> A -> bool) (e_spec : forall a b, e a b = true <-> a = b).

  Lemma g_mem_app x (l1 l2 : list A) : mem e x (l1 ++ l2) = mem e x l1 || mem e x l2.
  Proof. induction l1 as [|y l1 IH]; cbn [app mem]; [reflexivity | now rewrite IH, orb_assoc]. Qed.

  Lemma g_mem_filter (P : A -> bool) x l : mem e x (filter P l) = mem e x l && P x.
  Proof.
    induction l as [|y l IH]; cbn [filter mem]; [reflexivity|].
    destruct (P y) eqn:HP; cbn [mem]; rewrite IH.
    - destruct (e x y) eqn:E; cbn [orb]; [|reflexivity]. apply e_spec in E. subst. now rewrite HP.
    - destruct (e x y) eqn:E; cbn [orb]; [|reflexivity]. apply e_spec in E. subst. rewrite HP.
      now rewrite andb_false_r.
  Qed.

  Lemma g_mem_set_of_go x l : forall acc,
    mem e x (fold_left (fun s y => if mem e y s then s else s ++ [y]) l acc) = mem e x acc || mem e x l.
  Proof.
    induction l as [|y l IH]; intros acc; cbn [fold_left mem]; [now rewrite orb_false_r|].
    rewrite IH. destruct (mem e y acc) eqn:Hy.
    - destruct (e x y) eqn:E; cbn [orb]; [|reflexivity]. apply e_spec in E. subst. now rewrite Hy.
    - rewrite g_mem_app. cbn [mem]. rewrite orb_false_r. now rewrite orb_assoc.
  Qed.

  Lemma g_mem_set_of x l : mem e x (g_set_of e l) = mem e x l.
  Proof. unfold g_set_of. now rewrite g_mem_set_of_go. Qed.

  Lemma g_mem_inter x s o : mem e x (g_inter e s o) = mem e x s && mem e x o.
  Proof. unfold g_inter. apply g_mem_filter. Qed.

  Lemma g_mem_discard_all x cs : forall s,
    mem e x (fold_left (fun s c => g_discard e c s) cs s) = mem e x s && negb (mem e x cs).
  Proof.
    induction cs as [|c cs IH]; intros s; cbn [fold_left mem]; [now rewrite andb_true_r|].
    rewrite IH. unfold g_discard at 1. rewrite g_mem_filter.
    rewrite (eqb_sym e e_spec c x). rewrite negb_orb. now rewrite andb_assoc.
  Qed.

  Lemma g_mem_map_In {B} (f : B -> A) x l : mem e x (map f l) = true <-> exists y, In y l /\ f y = x.
  Proof.
    rewrite (mem_In e e_spec), in_map_iff. split; intros [y [H1 H2]]; exists y; auto.
  Qed.
End GSet.

(* ------------------------------------------------------------------ *)
(* charges_drop: a list of sets, one per index; `charges_drop[i].discard(c)` for every
   position of every kept sector; then `drop_charges` where something is left *)
Section GPrune.
  Context (G : Symmetry).
  Notation Ch := (C G).
  Notation sector := (list (C G)).
  Notation keq := (list_eqb (ceqb G)).

  Definition disc_sector (cd : list (list Ch)) (s : sector) : list (list Ch) :=
    fold_left (fun cd ic => g_upd_nth cd (fst ic) (g_discard (ceqb G) (snd ic))) (enumerate s) cd.

  Fixpoint zipd (cd : list (list Ch)) (s : sector) : list (list Ch) :=
    match cd, s with
    | S0 :: cd', c :: s' => g_discard (ceqb G) c S0 :: zipd cd' s'
    | _, _ => cd
    end.

  Lemma zipd_nil_l s : zipd [] s = [].
  Proof. now destruct s. Qed.
  Lemma zipd_nil_r cd : zipd cd [] = cd.
  Proof. now destruct cd. Qed.

  Lemma g_upd_nth_app {A} (pre cd : list A) f : g_upd_nth (pre ++ cd) (length pre) f = pre ++ g_upd_nth cd 0 f.
  Proof. induction pre as [|x pre IH]; cbn [app length g_upd_nth]; [reflexivity | now rewrite IH]. Qed.

  Lemma g_upd_nth_out {A} (l : list A) : forall i f, length l <= i -> g_upd_nth l i f = l.
  Proof.
    induction l as [|x l IH]; intros i f Hi; cbn [g_upd_nth]; [reflexivity|].
    destruct i; cbn [length] in Hi; [lia|]. now rewrite IH by lia.
  Qed.

  Lemma disc_sector_out s : forall k (l : list (list Ch)), length l <= k ->
    fold_left (fun cd ic => g_upd_nth cd (fst ic) (g_discard (ceqb G) (snd ic))) (List.combine (seq k (length s)) s) l = l.
  Proof.
    induction s as [|c s IH]; intros k l Hk; cbn [length seq List.combine fold_left fst snd]; [reflexivity|].
    rewrite g_upd_nth_out by exact Hk. apply IH. lia.
  Qed.

  Lemma disc_sector_go s : forall k pre cd, length pre = k ->
    fold_left (fun cd ic => g_upd_nth cd (fst ic) (g_discard (ceqb G) (snd ic))) (List.combine (seq k (length s)) s) (pre ++ cd)
    = pre ++ zipd cd s.
  Proof.
    induction s as [|c s IH]; intros k pre cd Hk; cbn [length seq List.combine fold_left fst snd].
    - now rewrite zipd_nil_r.
    - subst k. rewrite g_upd_nth_app. destruct cd as [|S0 cd]; cbn [g_upd_nth zipd].
      + rewrite app_nil_r. apply disc_sector_out. lia.
      + replace (pre ++ g_discard (ceqb G) c S0 :: cd) with ((pre ++ [g_discard (ceqb G) c S0]) ++ cd)
          by (now rewrite <- app_assoc).
        rewrite IH by (rewrite app_length; cbn [length]; lia). now rewrite <- app_assoc.
  Qed.

  Lemma disc_sector_zipd cd s : disc_sector cd s = zipd cd s.
  Proof. unfold disc_sector, enumerate. exact (disc_sector_go s 0 [] cd eq_refl). Qed.

  Lemma fold_zipd_cons secs : forall S0 cd, (forall s, In s secs -> s <> []) ->
    fold_left zipd secs (S0 :: cd) =
    fold_left (fun S1 c => g_discard (ceqb G) c S1) (map (hd (ident G)) secs) S0 :: fold_left zipd (map (@tl _) secs) cd.
  Proof.
    induction secs as [|s secs IH]; intros S0 cd Hne; cbn [fold_left map]; [reflexivity|].
    destruct s as [|c s]; [exfalso; apply (Hne []); [now left | reflexivity]|].
    cbn [zipd hd tl]. apply IH. intros s' Hs'. apply Hne. now right.
  Qed.

  Definition prune_from (k : nat) (ixs : list (index G)) (secs : list sector) : list (index G) :=
    map (fun p =>
           let present := map (fun s => nth (fst p) s (ident G)) secs in
           drop_charges G (snd p) (filter (fun c => negb (mem (ceqb G) c present)) (icharges G (snd p))))
        (List.combine (seq k (length ixs)) ixs).

  Lemma prune_from_0 ixs secs : prune_indices G ixs secs = prune_from 0 ixs secs.
  Proof. reflexivity. Qed.

  Lemma combine_map_S {B} (l1 : list nat) (l2 : list B) :
    List.combine (map S l1) l2 = map (fun p => (S (fst p), snd p)) (List.combine l1 l2).
  Proof.
    revert l2. induction l1 as [|x l1 IH]; intros [|y l2]; cbn [map List.combine fst snd]; try reflexivity.
    now rewrite IH.
  Qed.

  Lemma prune_from_S k ixs secs : prune_from (S k) ixs secs = prune_from k ixs (map (@tl _) secs).
  Proof.
    unfold prune_from. rewrite <- seq_shift, combine_map_S, map_map. apply map_ext. intros p. cbn [fst snd].
    rewrite map_map. f_equal. apply filter_ext. intros c. f_equal. f_equal.
    apply map_ext. intros s. destruct s; cbn [tl nth]; [now destruct (fst p) | reflexivity].
  Qed.

  Lemma drop_charges_ext ix cs cs' : (forall c, mem (ceqb G) c cs = mem (ceqb G) c cs') ->
    drop_charges G ix cs = drop_charges G ix cs'.
  Proof.
    intros H. destruct ix as [cm d sub]. cbn [drop_charges]. f_equal.
    - apply filter_ext. intros p. now rewrite H.
    - destruct sub as [[subs ext]|]; [|reflexivity]. f_equal. f_equal. apply filter_ext. intros p. now rewrite H.
  Qed.

  Lemma drop_charges_nil ix : drop_charges G ix [] = ix.
  Proof.
    destruct ix as [cm d sub]. cbn [drop_charges mem negb]. rewrite filter_true_id.
    destruct sub as [[subs ext]|]; [now rewrite filter_true_id | reflexivity].
  Qed.

  Context (ceq : forall x y : C G, ceqb G x y = true <-> x = y).

  Lemma mem_nil_all (l : list Ch) : (forall c, mem (ceqb G) c l = false) -> l = [].
  Proof.
    destruct l as [|x l]; [reflexivity|]. intros H. specialize (H x). cbn [mem] in H.
    now rewrite (eqb_refl (ceqb G) ceq) in H.
  Qed.

  (* one index: the set that is left, handed to drop_charges only when non-empty *)
  Lemma prune_one ix (present : list Ch) :
    let FS := fold_left (fun S1 c => g_discard (ceqb G) c S1) present (g_set_of (ceqb G) (icharges G ix)) in
    (if negb (is_nil FS) then drop_charges G ix FS else ix) =
    drop_charges G ix (filter (fun c => negb (mem (ceqb G) c present)) (icharges G ix)).
  Proof.
    intros FS.
    assert (Hm : forall c, mem (ceqb G) c FS = mem (ceqb G) c (filter (fun c => negb (mem (ceqb G) c present)) (icharges G ix))).
    { intros c. unfold FS. rewrite (g_mem_discard_all (ceqb G) ceq), (g_mem_set_of (ceqb G) ceq), (g_mem_filter (ceqb G) ceq).
      reflexivity. }
    destruct FS as [|x FS'] eqn:EFS; cbn [is_nil negb].
    - rewrite <- (drop_charges_ext ix [] _ Hm). symmetry. apply drop_charges_nil.
    - now apply drop_charges_ext.
  Qed.

  Definition finish_indices (ixs : list (index G)) (cd : list (list Ch)) : list (index G) :=
    map (fun v => if negb (is_nil (snd v)) then drop_charges G (fst v) (snd v) else fst v) (List.combine ixs cd).

  Lemma prune_eq ixs : forall secs, (forall s, In s secs -> length ixs <= length s) ->
    finish_indices ixs (fold_left zipd secs (map (fun ix => g_set_of (ceqb G) (icharges G ix)) ixs)) = prune_indices G ixs secs.
  Proof.
    induction ixs as [|ix ixs IH]; intros secs Hlen; [reflexivity|].
    cbn [map]. rewrite fold_zipd_cons.
    2:{ intros s Hs Hn. specialize (Hlen s Hs). subst s. cbn [length] in Hlen. lia. }
    unfold finish_indices. cbn [List.combine map fst snd]. fold (finish_indices ixs (fold_left zipd (map (@tl _) secs) (map (fun ix0 => g_set_of (ceqb G) (icharges G ix0)) ixs))).
    rewrite IH.
    2:{ intros s Hs. apply in_map_iff in Hs. destruct Hs as [s0 [<- Hs0]]. specialize (Hlen s0 Hs0).
        destruct s0; cbn [length tl] in *; lia. }
    rewrite !prune_from_0. rewrite <- prune_from_S.
    unfold prune_from at 2. cbn [length seq List.combine map fst snd]. f_equal.
    rewrite prune_one. f_equal. apply filter_ext. intros c. f_equal. f_equal.
    apply map_ext. intros s. now destruct s.
  Qed.
End GPrune.

(* ------------------------------------------------------------------ *)
(* drop_misaligned_sectors *)
Section GDrop.
  Context (G : Symmetry) (R : Ring) (ceq : forall x y : C G, ceqb G x y = true <-> x = y).
  Notation Ch := (C G).
  Notation sector := (list (C G)).
  Notation keq := (list_eqb (ceqb G)).
  Notation arr := (aarray G R).
  Let keqs : forall a b : sector, keq a b = true <-> a = b := list_eqb_spec (ceqb G) ceq.

  (* the loop `for sector, array in x.blocks.items(): if P: new_blocks[sector] = array; discard ...` *)
  Lemma side_fold (step : list (sector * tensor R) * list (list Ch) -> sector * tensor R -> list (sector * tensor R) * list (list Ch))
        (P : sector * tensor R -> bool) :
    (forall st y, step st y = if P y then (dset keq (fst y) (snd y) (fst st), disc_sector G (snd st) (fst y)) else st) ->
    forall l nb cd,
    fold_left step l (nb, cd) =
    (fold_left (fun nb y => if P y then dset keq (fst y) (snd y) nb else nb) l nb,
     fold_left (zipd G) (map fst (filter P l)) cd).
  Proof.
    intros Hstep. induction l as [|y l IH]; intros nb cd; cbn [fold_left filter map]; [reflexivity|].
    rewrite Hstep. destruct (P y); cbn [fst snd map fold_left]; [rewrite disc_sector_zipd|]; apply IH.
  Qed.

  Lemma side_main (x : arr)
        (step : list (sector * tensor R) * list (list Ch) -> sector * tensor R -> list (sector * tensor R) * list (list Ch))
        (P : sector * tensor R -> bool) (cd0 : list (list Ch)) :
    (forall st y, step st y = if P y then (dset keq (fst y) (snd y) (fst st), disc_sector G (snd st) (fst y)) else st) ->
    nodupb keq (sectors G R x) = true ->
    fold_left step (blocks G R x) ([], cd0) =
    (filter P (blocks G R x), fold_left (zipd G) (map fst (filter P (blocks G R x))) cd0).
  Proof.
    intros Hstep Hnd. rewrite (side_fold step P Hstep). f_equal.
    rewrite (fold_dset_filter keq keqs P (blocks G R x) []); [reflexivity | | intros; reflexivity].
    apply (nodupb_NoDup keq keqs). exact Hnd.
  Qed.

  Lemma prune_eq' ixs secs : (forall s, In s secs -> length ixs <= length s) ->
    map (fun v => if negb (is_nil (snd v)) then drop_charges G (fst v) (snd v) else fst v)
        (List.combine ixs (fold_left (zipd G) secs (map (fun ix => g_set_of (ceqb G) (icharges G ix)) ixs)))
    = prune_indices G ixs secs.
  Proof. exact (prune_eq G ceq ixs secs). Qed.

  (* which blocks are kept: the translated test is the hand model's *)
  Lemma allowed_eq (x y : arr) ax ay (s : sector) :
    nodupb keq (sectors G R x) = true -> nodupb keq (sectors G R y) = true -> In s (sectors G R x) ->
    let subx := g_dict_of keq (map (fun s => (s, map (fun i => nth i s (ident G)) ax)) (sectors G R x)) in
    let suby := g_dict_of keq (map (fun s => (s, map (fun i => nth i s (ident G)) ay)) (sectors G R y)) in
    forall alw, (forall k, mem keq k alw = mem keq k (map snd subx) && mem keq k (map snd suby)
                           \/ mem keq k alw = mem keq k (map snd suby) && mem keq k (map snd subx)) ->
    mem keq (g_dget keq [] subx s) alw =
    mem keq (take_axes (ident G) s ax) (map (fun s => take_axes (ident G) s ax) (sectors G R x)) &&
    mem keq (take_axes (ident G) s ax) (map (fun s => take_axes (ident G) s ay) (sectors G R y)).
  Proof.
    intros Hx Hy Hs subx suby alw Halw.
    assert (Ex : subx = map (fun s => (s, take_axes (ident G) s ax)) (sectors G R x)).
    { unfold subx. apply (g_dict_of_nodup keq keqs). apply (nodupb_NoDup keq keqs). exact Hx. }
    assert (Ey : suby = map (fun s => (s, take_axes (ident G) s ay)) (sectors G R y)).
    { unfold suby. apply (g_dict_of_nodup keq keqs). apply (nodupb_NoDup keq keqs). exact Hy. }
    rewrite Ex. rewrite (g_dget_map_self keq keqs) by exact Hs.
    assert (Mx : map snd subx = map (fun s => take_axes (ident G) s ax) (sectors G R x)) by (rewrite Ex, map_map; reflexivity).
    assert (My : map snd suby = map (fun s => take_axes (ident G) s ay) (sectors G R y)) by (rewrite Ey, map_map; reflexivity).
    destruct (Halw (take_axes (ident G) s ax)) as [H|H]; rewrite H, Mx, My; [reflexivity | apply andb_comm].
  Qed.

  Theorem gen_drop_misaligned_eq (a b : arr) (aa ab : list nat) :
    nodupb keq (sectors G R a) = true -> nodupb keq (sectors G R b) = true ->
    (forall s, In s (sectors G R a) -> length (indices G R a) <= length s) ->
    (forall s, In s (sectors G R b) -> length (indices G R b) <= length s) ->
    gen_drop_misaligned_sectors G R a b aa ab = drop_misaligned G R a b aa ab.
  Proof.
    intros Hna Hnb Hla Hlb.
    unfold gen_drop_misaligned_sectors. cbv zeta.
    set (subx := g_dict_of keq (map (fun v1 => (v1, map (fun v2 => nth v2 v1 (ident G)) aa)) (sectors G R a))).
    set (suby := g_dict_of keq (map (fun v4 => (v4, map (fun v5 => nth v5 v4 (ident G)) ab)) (sectors G R b))).
    set (alw := g_inter keq (g_set_of keq (map snd subx)) (map snd suby)).
    assert (Halw : forall k, mem keq k alw = mem keq k (map snd subx) && mem keq k (map snd suby)).
    { intros k. unfold alw. now rewrite (g_mem_inter keq keqs), (g_mem_set_of keq keqs). }
    set (Pa := fun y : sector * tensor R => mem keq (g_dget keq [] subx (fst y)) alw).
    set (Pb := fun y : sector * tensor R => mem keq (g_dget keq [] suby (fst y)) alw).
    rewrite (side_main a _ Pa) by
      (try exact Hna; intros [nb cd] y; unfold Pa; cbn [fst snd]; destruct (mem keq _ alw); reflexivity).
    rewrite (side_main b _ Pb) by
      (try exact Hnb; intros [nb cd] y; unfold Pb; cbn [fst snd]; destruct (mem keq _ alw); reflexivity).
    cbn [fst snd].
    assert (Fa : filter Pa (blocks G R a) =
                 filter (fun p => mem keq (take_axes (ident G) (fst p) aa) (map (fun s => take_axes (ident G) s aa) (sectors G R a)) &&
                                  mem keq (take_axes (ident G) (fst p) aa) (map (fun s => take_axes (ident G) s ab) (sectors G R b)))
                        (blocks G R a)).
    { apply filter_ext_in. intros p Hp. unfold Pa.
      apply (allowed_eq a b aa ab (fst p) Hna Hnb); [now apply in_map | intros k; left; apply Halw]. }
    assert (Fb : filter Pb (blocks G R b) =
                 filter (fun p => mem keq (take_axes (ident G) (fst p) ab) (map (fun s => take_axes (ident G) s aa) (sectors G R a)) &&
                                  mem keq (take_axes (ident G) (fst p) ab) (map (fun s => take_axes (ident G) s ab) (sectors G R b)))
                        (blocks G R b)).
    { apply filter_ext_in. intros p Hp. unfold Pb. rewrite andb_comm.
      apply (allowed_eq b a ab aa (fst p) Hnb Hna); [now apply in_map | intros k; right; apply Halw]. }
    rewrite !prune_eq'.
    - rewrite Fa, Fb. reflexivity.
    - intros s Hs. apply Hlb. apply in_map_iff in Hs. destruct Hs as [p [<- Hp]]. apply filter_In in Hp. apply in_map. tauto.
    - intros s Hs. apply Hla. apply in_map_iff in Hs. destruct Hs as [p [<- Hp]]. apply filter_In in Hp. apply in_map. tauto.
  Qed.
End GDrop.

(* ------------------------------------------------------------------ *)
(* generic loop shapes *)
Lemma fold_left_ext_all {S X} (f g : S -> X -> S) l : (forall s x, f s x = g s x) -> forall s, fold_left f l s = fold_left g l s.
Proof. intros H. induction l as [|x l IH]; intros s; cbn [fold_left]; [reflexivity | now rewrite H, IH]. Qed.

Lemma nested_fold {X Y S} (ostep : S -> X -> S) (g : X -> list Y) (istep : X -> S -> Y -> S) l :
  (forall s x, ostep s x = fold_left (istep x) (g x) s) ->
  forall s, fold_left ostep l s =
            fold_left (fun s xy => istep (fst xy) s (snd xy)) (flat_map (fun x => map (fun y => (x, y)) (g x)) l) s.
Proof.
  intros H. induction l as [|x l IH]; intros s; cbn [fold_left flat_map]; [reflexivity|].
  rewrite fold_left_app, <- IH, H. f_equal.
  generalize (g x) s. intros ys. induction ys as [|y ys IHy]; intros s0; cbn [map fold_left fst snd]; [reflexivity | apply IHy].
Qed.

Lemma flat_map_if {X Y} (P : X -> bool) (h : X -> Y) l :
  flat_map (fun x => if P x then [h x] else []) l = map h (filter P l).
Proof.
  induction l as [|x l IH]; cbn [flat_map filter]; [reflexivity|]. destruct (P x); cbn [map app]; now rewrite IH.
Qed.

Lemma map_flat_map_g {X Y Z} (f : Y -> Z) (g : X -> list Y) l : map f (flat_map g l) = flat_map (fun x => map f (g x)) l.
Proof. induction l as [|x l IH]; cbn [flat_map map]; [reflexivity | now rewrite map_app, IH]. Qed.

Lemma combine_snoc {A B} (la : list A) : forall (lb : list B) x y, length la = length lb ->
  List.combine (la ++ [x]) (lb ++ [y]) = List.combine la lb ++ [(x, y)].
Proof.
  induction la as [|a la IH]; intros [|b lb] x y H; cbn [length] in H; try discriminate; cbn [app List.combine]; [reflexivity|].
  now rewrite IH by (injection H; auto).
Qed.

Section GDict2.
  Context {K V : Type} (e : K -> K -> bool) (e_spec : forall a b, e a b = true <-> a = b).

  Lemma g_dset_dset k (v1 v2 : V) d : dset e k v2 (dset e k v1 d) = dset e k v2 d.
  Proof.
    induction d as [|[k' v'] d IH]; cbn [dset].
    - now rewrite (eqb_refl e e_spec).
    - destruct (e k k') eqn:E; cbn [dset]; rewrite E; [reflexivity | now rewrite IH].
  Qed.

  Lemma g_dupd_some k (f : V -> V) d v : lookup e k d = Some v -> g_dupd e k f d = dset e k (f v) d.
  Proof. unfold g_dupd. now intros ->. Qed.

  Lemma g_dupd_dset k (f : V -> V) d v : g_dupd e k f (dset e k v d) = dset e k (f v) d.
  Proof. unfold g_dupd. now rewrite (g_lookup_dset_same e e_spec), g_dset_dset. Qed.

  Lemma g_lookup_In k (v : V) d : lookup e k d = Some v -> In (k, v) d.
  Proof.
    induction d as [|[k' v'] d IH]; cbn [lookup In]; [discriminate|].
    destruct (e k k') eqn:E; [apply e_spec in E; subst; intros H; injection H as ->; now left | auto].
  Qed.

  Lemma Forall_dset (Q : K * V -> Prop) k v d : Forall Q d -> Q (k, v) -> Forall Q (dset e k v d).
  Proof.
    intros Hd Hq. induction d as [|[k' v'] d IH]; cbn [dset]; [now constructor|].
    inversion Hd; subst. destruct (e k k') eqn:E; constructor; auto. apply e_spec in E. now subst.
  Qed.

  Lemma map_fst_dset_some k (v v0 : V) d : lookup e k d = Some v0 -> map fst (dset e k v d) = map fst d.
  Proof.
    induction d as [|[k' v'] d IH]; cbn [lookup dset map fst]; [discriminate|].
    destruct (e k k'); cbn [map fst]; [reflexivity | intros H; now rewrite IH].
  Qed.

  (* defaultdict(list) grouping: d[key x].append(val x) for x in l, then d[key] *)
  Lemma g_dget_dd_append {W} (d : list (K * list W)) k w key :
    g_dget e [] (g_dd_append e d k w) key = if e key k then g_dget e [] d key ++ [w] else g_dget e [] d key.
  Proof.
    unfold g_dd_append. unfold g_dget at 1. destruct (e key k) eqn:E.
    - apply e_spec in E. subst. now rewrite (g_lookup_dset_same e e_spec).
    - rewrite (g_lookup_dset_other e e_spec); [reflexivity|]. intros ->. now rewrite (eqb_refl e e_spec) in E.
  Qed.

  Lemma group_lookup {X W} (step : list (K * list W) -> X -> list (K * list W)) (kf : X -> K) (vf : X -> W) l key :
    (forall d x, step d x = g_dd_append e d (kf x) (vf x)) ->
    forall d, g_dget e [] (fold_left step l d) key = g_dget e [] d key ++ map vf (filter (fun x => e key (kf x)) l).
  Proof.
    intros H. induction l as [|x l IH]; intros d; cbn [fold_left filter map]; [now rewrite app_nil_r|].
    rewrite IH, H, g_dget_dd_append. destruct (e key (kf x)); cbn [map]; [now rewrite <- app_assoc | reflexivity].
  Qed.
End GDict2.

(* ------------------------------------------------------------------ *)
(* _tensordot_blockwise: loop shapes that need nothing about `ceqb` *)
Section GTdot0.
  Context (G : Symmetry) (R : Ring).
  Notation Ch := (C G).
  Notation sector := (list (C G)).
  Notation keq := (list_eqb (ceqb G)).

  (* keys of the accumulated dict come from the accumulated pairs *)
  Lemma acc_add_keys ps : forall acc k,
    In k (map fst (fold_left (acc_add G R) ps acc)) -> In k (map fst acc) \/ In k (map fst ps).
  Proof.
    induction ps as [|p ps IH]; intros acc k H; cbn [fold_left map] in *; [now left|].
    apply IH in H. destruct H as [H|H]; [|right; now right].
    unfold acc_add in H. destruct (lookup keq (fst p) acc) eqn:E.
    - rewrite (map_fst_dset_some keq _ _ _ _ E) in H. now left.
    - rewrite map_app in H. apply in_app_or in H. destruct H as [H|[H|[]]]; [now left | right; left; exact H].
  Qed.

  Lemma length_zipd cd s : length (zipd G cd s) = length cd.
  Proof. revert s. induction cd as [|S0 cd IH]; intros [|c s]; cbn [zipd length]; try reflexivity. now rewrite IH. Qed.

  Lemma length_fold_zipd secs : forall cd, length (fold_left (zipd G) secs cd) = length cd.
  Proof. induction secs as [|s secs IH]; intros cd; cbn [fold_left]; [reflexivity | now rewrite IH, length_zipd]. Qed.

  (* for i, cs in enumerate(charges_drop): if cs: new_indices[i] = new_indices[i].drop_charges(cs) *)
  Lemma final_loop_go cd : forall k pre ni, length pre = k -> length cd = length ni ->
    fold_left (fun ni ic => if negb (is_nil (snd ic))
                            then g_upd_nth ni (fst ic) (fun _ => drop_charges G (nth (fst ic) ni (dflt_index G)) (snd ic))
                            else ni)
              (List.combine (seq k (length cd)) cd) (pre ++ ni)
    = pre ++ map (fun v => if negb (is_nil (snd v)) then drop_charges G (fst v) (snd v) else fst v) (List.combine ni cd).
  Proof.
    induction cd as [|S0 cd IH]; intros k pre ni Hk Hlen; destruct ni as [|ix ni]; cbn [length] in Hlen; try discriminate;
      cbn [length seq List.combine fold_left map fst snd]; [reflexivity|].
    subst k.
    assert (E : (if negb (is_nil S0)
                 then g_upd_nth (pre ++ ix :: ni) (length pre) (fun _ => drop_charges G (nth (length pre) (pre ++ ix :: ni) (dflt_index G)) S0)
                 else pre ++ ix :: ni)
                = (pre ++ [if negb (is_nil S0) then drop_charges G ix S0 else ix]) ++ ni).
    { destruct (negb (is_nil S0)).
      - rewrite g_upd_nth_app, nth_middle. cbn [g_upd_nth]. now rewrite <- app_assoc.
      - now rewrite <- app_assoc. }
    rewrite E. rewrite IH by (try (rewrite app_length; cbn [length]; lia); lia). now rewrite <- app_assoc.
  Qed.

  Lemma final_loop cd ni : length cd = length ni ->
    fold_left (fun ni ic => if negb (is_nil (snd ic))
                            then g_upd_nth ni (fst ic) (fun _ => drop_charges G (nth (fst ic) ni (dflt_index G)) (snd ic))
                            else ni) (enumerate cd) ni
    = map (fun v => if negb (is_nil (snd v)) then drop_charges G (fst v) (snd v) else fst v) (List.combine ni cd).
  Proof. intros H. exact (final_loop_go cd 0 [] ni eq_refl H). Qed.

  Lemma disc_fold {X} (step : list (list Ch) -> X -> list (list Ch)) (kf : X -> sector) l :
    (forall cd x, step cd x = disc_sector G cd (kf x)) ->
    forall cd, fold_left step l cd = fold_left (zipd G) (map kf l) cd.
  Proof.
    intros H. induction l as [|x l IH]; intros cd; cbn [fold_left map]; [reflexivity|].
    now rewrite H, disc_sector_zipd, IH.
  Qed.

End GTdot0.

(* ------------------------------------------------------------------ *)
(* _tensordot_blockwise *)
Section GTdot.
  Context (G : Symmetry) (R : Ring) (ceq : forall x y : C G, ceqb G x y = true <-> x = y).
  Notation Ch := (C G).
  Notation sector := (list (C G)).
  Notation keq := (list_eqb (ceqb G)).
  Notation arr := (aarray G R).
  Notation T := (tensor R).
  Let keqs : forall a b : sector, keq a b = true <-> a = b := list_eqb_spec (ceqb G) ceq.

  (* try: la, lb = nb[k]  except KeyError: la, lb = [], []; nb[k] = la, lb;  la.append(ta); lb.append(tb) *)
  Definition collect (nb : list (sector * (list T * list T))) (k : sector) (ta tb : T) :=
    match lookup keq k nb with
    | Some v => dset keq k (fst v ++ [ta], snd v ++ [tb]) nb
    | None => dset keq k ([ta], [tb]) nb
    end.

  Lemma gen_collect_eq nb k ta tb :
    g_dupd keq k (fun p => (fst p, snd p ++ [tb]))
      (g_dupd keq k (fun p => (fst p ++ [ta], snd p))
         (match lookup keq k nb with Some _ => nb | None => dset keq k ([], []) nb end))
    = collect nb k ta tb.
  Proof.
    unfold collect. destruct (lookup keq k nb) as [v|] eqn:E.
    - rewrite (g_dupd_some keq k _ nb v E). now rewrite (g_dupd_dset keq keqs).
    - now rewrite !(g_dupd_dset keq keqs).
  Qed.

  Section Red.
    Context (aa ab : list nat).
    Definition prod (ta tb : T) : T := ttensordot R ta tb aa ab.
    Definition red (v : list T * list T) : T :=
      g_reduce1 (tadd R) (tzeros R []) (map (fun p => ttensordot R (fst p) (snd p) aa ab) (List.combine (fst v) (snd v))).
    Definition redp (p : sector * (list T * list T)) : sector * T := (fst p, red (snd p)).
    Definition good (p : sector * (list T * list T)) : Prop := fst (snd p) <> [] /\ length (fst (snd p)) = length (snd (snd p)).

    Lemma red_snoc la lb ta tb : la <> [] -> length la = length lb ->
      red (la ++ [ta], lb ++ [tb]) = tadd R (red (la, lb)) (prod ta tb).
    Proof.
      intros Hne Hlen. unfold red. cbn [fst snd]. rewrite combine_snoc by exact Hlen. rewrite map_app. cbn [map fst snd].
      destruct la as [|a la]; [contradiction|]. destruct lb as [|b lb]; [discriminate|].
      cbn [List.combine map g_reduce1 app fst snd]. now rewrite fold_left_app.
    Qed.

    Lemma collect_red nb k ta tb : Forall good nb ->
      map redp (collect nb k ta tb) = acc_add G R (map redp nb) (k, prod ta tb) /\ Forall good (collect nb k ta tb).
    Proof.
      intros Hg. unfold collect, acc_add. cbn [fst snd].
      change (map redp nb) with (map (fun p => (fst p, (fun _ v => red v) (fst p) (snd p))) nb).
      rewrite (g_lookup_mapv keq keqs).
      destruct (lookup keq k nb) as [[la lb]|] eqn:E; cbn [fst snd].
      - assert (Hgood : good (k, (la, lb))).
        { rewrite Forall_forall in Hg. apply Hg. now apply (g_lookup_In keq keqs). }
        destruct Hgood as [Hne Hlen]. cbn [fst snd] in Hne, Hlen. split.
        + change (map redp (dset keq k (la ++ [ta], lb ++ [tb]) nb))
            with (map (fun p => (fst p, (fun _ v => red v) (fst p) (snd p))) (dset keq k (la ++ [ta], lb ++ [tb]) nb)).
          rewrite (g_dset_mapv keq keqs). cbv beta. now rewrite red_snoc.
        + apply (Forall_dset keq keqs); [exact Hg|]. split; cbn [fst snd].
          * destruct la; discriminate.
          * rewrite !app_length. cbn [length]. lia.
      - split.
        + rewrite (g_dset_absent keq) by exact E. now rewrite map_app.
        + apply (Forall_dset keq keqs); [exact Hg|]. split; cbn [fst snd]; [discriminate | reflexivity].
    Qed.

    Lemma collect_all_red {Q} (kf : Q -> sector) (af bf : Q -> T) qs : forall nb, Forall good nb ->
      map redp (fold_left (fun nb q => collect nb (kf q) (af q) (bf q)) qs nb) =
      fold_left (acc_add G R) (map (fun q => (kf q, prod (af q) (bf q))) qs) (map redp nb).
    Proof.
      induction qs as [|q qs IH]; intros nb Hg; cbn [fold_left map]; [reflexivity|].
      destruct (collect_red nb (kf q) (af q) (bf q) Hg) as [H1 H2]. now rewrite IH, H1.
    Qed.
  End Red.

  Theorem gen_tensordot_blockwise_eq (a b : arr) (la aa ab rb : list nat) :
    length (without_axes (indices G R a) aa ++ without_axes (indices G R b) ab) <= length la + length rb ->
    gen_tensordot_blockwise G R a b la aa ab rb = tdot_blockwise G R a b la aa ab rb.
  Proof.
    intros Hlen.
    unfold gen_tensordot_blockwise, tdot_blockwise. cbv zeta.
    set (grouped := fold_left _ (blocks G R b) (@nil (sector * list (sector * T)))).
    set (V27 := fold_left _ (blocks G R a) (@nil (sector * (list T * list T)))).
    set (ixs := without_axes (indices G R a) aa ++ without_axes (indices G R b) ab) in *.
    (* the second loop: one `collect` per aligned pair, a outer, b inner *)
    set (aligned := fun sa : sector * T =>
           map (fun sb : sector * T => (take_axes (ident G) (fst sb) rb, snd sb))
               (filter (fun sb => keq (take_axes (ident G) (fst sa) aa) (take_axes (ident G) (fst sb) ab)) (blocks G R b))).
    set (pairs := flat_map (fun sa => map (fun y => (sa, y)) (aligned sa)) (blocks G R a)).
    assert (H27 : V27 = fold_left (fun nb q => collect nb (take_axes (ident G) (fst (fst q)) la ++ fst (snd q)) (snd (fst q)) (snd (snd q)))
                                  pairs []).
    { subst V27 pairs.
      rewrite (nested_fold _ aligned (fun sa nb y => collect nb (take_axes (ident G) (fst sa) la ++ fst y) (snd sa) (snd y))); [reflexivity|].
      intros nb sa. cbv beta.
      replace (g_dget keq [] grouped (map (fun v13 => nth v13 (fst sa) (ident G)) aa)) with (aligned sa).
      - apply fold_left_ext_all. intros s y. apply gen_collect_eq.
      - subst grouped aligned. cbv beta.
        rewrite (group_lookup keq keqs _ (fun sb : sector * T => take_axes (ident G) (fst sb) ab)
                              (fun sb : sector * T => (take_axes (ident G) (fst sb) rb, snd sb))); [reflexivity|].
        intros d x. reflexivity. }
    (* the third loop, blocks: reduce each pair of lists *)
    assert (HB : map (redp aa ab) V27 = fold_left (acc_add G R) (tdot_pairs G R a b la aa ab rb) []).
    { rewrite H27.
      rewrite (collect_all_red aa ab (fun q : (sector * T) * (sector * T) => take_axes (ident G) (fst (fst q)) la ++ fst (snd q))
                               (fun q => snd (fst q)) (fun q => snd (snd q)) pairs [] (Forall_nil _)).
      cbn [map]. f_equal. subst pairs. unfold tdot_pairs. rewrite map_flat_map_g. apply flat_map_ext. intros sa.
      rewrite flat_map_if. subst aligned. cbv beta. rewrite !map_map. reflexivity. }
    change (map (fun v31 => (fst v31, g_reduce1 (tadd R) (tzeros R [])
                                        (map (fun v32 => ttensordot R (fst v32) (snd v32) aa ab)
                                             (List.combine (fst (snd v31)) (snd (snd v31)))))) V27)
      with (map (redp aa ab) V27).
    rewrite HB. f_equal.
    (* the index tables *)
    rewrite (disc_fold G _ fst V27) by (intros cd x; reflexivity).
    rewrite (final_loop G) by (now rewrite length_fold_zipd, map_length).
    replace (map fst V27) with (map fst (map (redp aa ab) V27)) by (rewrite map_map; reflexivity).
    rewrite HB. apply (prune_eq' G ceq).
    intros s Hs. apply (acc_add_keys G R) in Hs. destruct Hs as [[]|Hs].
    apply in_map_iff in Hs. destruct Hs as [p [<- Hp]]. unfold tdot_pairs in Hp.
    apply in_flat_map in Hp. destruct Hp as [sa [_ Hp]]. apply in_flat_map in Hp. destruct Hp as [sb [_ Hp]].
    destruct (keq _ _); [|destruct Hp]. destruct Hp as [<-|[]]. cbn [fst].
    rewrite app_length. unfold take_axes. rewrite !map_length. exact Hlen.
  Qed.
End GTdot.

(* ------------------------------------------------------------------ *)
(* corollaries in the vocabulary of Props/C02.v *)
Lemma g_length_without_axes {A} (l : list A) axes : length (without_axes l axes) = length (rest_axes (length l) axes).
Proof.
  destruct l as [|d l]; [reflexivity|].
  rewrite (without_axes_take d). apply length_take_axes.
Qed.

(* as `tensordot` calls it (left_axes / right_axes = the remaining axes): no hypothesis on the operands at all *)
Theorem gen_tensordot_blockwise_eq_rest (G : Symmetry) (R : Ring) :
  (forall x y : C G, ceqb G x y = true <-> x = y) ->
  forall (a b : aarray G R) (aa ab : list nat),
  gen_tensordot_blockwise G R a b (rest_axes (ndim G R a) aa) aa ab (rest_axes (ndim G R b) ab) =
  tdot_blockwise G R a b (rest_axes (ndim G R a) aa) aa ab (rest_axes (ndim G R b) ab).
Proof.
  intros ceq a b aa ab. apply (gen_tensordot_blockwise_eq G R ceq).
  rewrite app_length, !g_length_without_axes. unfold ndim. lia.
Qed.

Theorem gen_drop_misaligned_eq_wf (G : Symmetry) (R : Ring) :
  (forall x y : C G, ceqb G x y = true <-> x = y) ->
  forall (a b : aarray G R) (aa ab : list nat),
  wf_array G R a = true -> wf_array G R b = true ->
  gen_drop_misaligned_sectors G R a b aa ab = drop_misaligned G R a b aa ab.
Proof.
  intros ceq a b aa ab Ha Hb.
  assert (W : forall x : aarray G R, wf_array G R x = true ->
              nodupb (list_eqb (ceqb G)) (sectors G R x) = true /\
              forall s, In s (sectors G R x) -> length (indices G R x) <= length s).
  { intros x Hx. unfold wf_array in Hx. rewrite !andb_true_iff in Hx. destruct Hx as [[[_ _] Hnd] Hbl]. split; [exact Hnd|].
    intros s Hs. unfold sectors in Hs. apply in_map_iff in Hs. destruct Hs as [p [<- Hp]].
    rewrite forallb_forall in Hbl. specialize (Hbl p Hp). rewrite !andb_true_iff in Hbl.
    destruct Hbl as [[Hok _] _]. unfold sector_ok in Hok. rewrite !andb_true_iff in Hok.
    destruct Hok as [[Hl _] _]. apply Nat.eqb_eq in Hl. lia. }
  destruct (W a Ha) as [Hna Hla]. destruct (W b Hb) as [Hnb Hlb].
  now apply (gen_drop_misaligned_eq G R ceq).
Qed.

(* the main theorem of C02 (Proofs/Tdot.blockwise_sem) for the TRANSLATED function *)
Theorem gen_blockwise_sem (G : Symmetry) (R : Ring) : SumLaws R ->
  (forall x y : C G, ceqb G x y = true <-> x = y) ->
  forall (a b : aarray G R) (la aa ab rb : list nat) (cl cr : list (coord G)),
  wf_array G R a = true -> wf_array G R b = true ->
  axes_ok (ndim G R a) aa = true -> axes_ok (ndim G R b) ab = true -> length aa = length ab ->
  la = rest_axes (ndim G R a) aa -> rb = rest_axes (ndim G R b) ab ->
  charges_nodup G (take_axes (dflt_index G) (indices G R a) aa) = true ->
  coords_ok G (without_axes (indices G R a) aa) cl = true ->
  coords_ok G (without_axes (indices G R b) ab) cr = true ->
  sem G R (gen_tensordot_blockwise G R a b la aa ab rb) (cl ++ cr) =
  rsum R (map (fun kc => rmul R (sem G R a (merge G (ndim G R a) aa cl kc))
                                (sem G R b (merge G (ndim G R b) ab cr kc)))
              (all_coords G (take_axes (dflt_index G) (indices G R a) aa))).
Proof.
  intros RL ceq a b la aa ab rb cl cr Hwa Hwb Haa Hab Hlen Hla Hrb Hcn Hcl Hcr.
  subst la rb. rewrite (gen_tensordot_blockwise_eq_rest G R ceq).
  now apply (blockwise_sem G R RL ceq).
Qed.

(* charge and index tables of the translated function's result *)
Theorem gen_blockwise_charge_indices (G : Symmetry) (R : Ring) :
  (forall x y : C G, ceqb G x y = true <-> x = y) ->
  forall (a b : aarray G R) (aa ab : list nat),
  let res := gen_tensordot_blockwise G R a b (rest_axes (ndim G R a) aa) aa ab (rest_axes (ndim G R b) ab) in
  charge G R res = combine G [charge G R a; charge G R b] /\
  indices G R res = prune_indices G (without_axes (indices G R a) aa ++ without_axes (indices G R b) ab) (sectors G R res).
Proof.
  intros ceq a b aa ab res. unfold res. rewrite (gen_tensordot_blockwise_eq_rest G R ceq). split; reflexivity.
Qed.

(* the hypotheses hold, and the equalities compute, on the non-trivial instance of
   Proofs/TdotInst.v (U(1), rank 3 x rank 3, two contracted axes in permuted order, both
   operands sparse, two aligned block pairs accumulate into one result block) *)
Example gen_blockwise_instance :
  gen_tensordot_blockwise SymInst.U1 ZRing TdotInst.Ex.a TdotInst.Ex.b TdotInst.Ex.la TdotInst.Ex.aa TdotInst.Ex.ab TdotInst.Ex.rb
  = TdotInst.Ex.res /\
  length (blocks SymInst.U1 ZRing TdotInst.Ex.res) = 2 /\
  gen_drop_misaligned_sectors SymInst.U1 ZRing TdotInst.Ex.a TdotInst.Ex.b TdotInst.Ex.aa TdotInst.Ex.ab
  = drop_misaligned SymInst.U1 ZRing TdotInst.Ex.a TdotInst.Ex.b TdotInst.Ex.aa TdotInst.Ex.ab /\
  length (blocks SymInst.U1 ZRing (fst (gen_drop_misaligned_sectors SymInst.U1 ZRing TdotInst.Ex.a TdotInst.Ex.b TdotInst.Ex.aa TdotInst.Ex.ab))) = 3 /\
  length (blocks SymInst.U1 ZRing (snd (gen_drop_misaligned_sectors SymInst.U1 ZRing TdotInst.Ex.a TdotInst.Ex.b TdotInst.Ex.aa TdotInst.Ex.ab))) = 3.
Proof. vm_compute. repeat split; reflexivity. Qed.
