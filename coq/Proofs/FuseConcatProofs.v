(* Proofs/FuseConcatProofs.v -- property C05, "both fusing strategies produce
   identical results": Model/FuseConcat.fuse_concat (the model of
   _fuse_blocks_via_concat) returns literally the same array as Array.fuse_core
   (the model of _fuse_blocks_via_insert).

   Organisation:
   1. numpy.concatenate read back: locate_spec, tshape_tconcat, get_tconcat.
   2. a nest of concatenations over a list of levels (one level per group, one
      part per sub-sector): its shape, and reading it at an index = reading one
      leaf at the index moved back by the starts of the parts on the path.
   3. the two dictionaries are filled with the same keys in the same order; what
      the first loop of the concat strategy collects.
   4. the concat strategy as such a nest; its leaves; comparison with the
      box description of the insert strategy (FuseGroups.FBg_spec). *)
From SV Require Import Base.Prelude Base.Sym Base.Tensor Model.Sectors Model.Array Model.Wf Model.FuseConcat
  Model.SymInst Proofs.TensorProofs Proofs.SymLaws Proofs.OrderProofs Proofs.FuseTensor Proofs.FuseProofs
  Proofs.FuseGroups.
From Coq Require Import Permutation Sorting Lia.
Local Open Scope nat_scope.

(* ------------------------------------------------------------------ *)
(* Part 1: concatenation *)

Lemma locate_spec sizes : forall i, i < nsum sizes ->
  fst (locate sizes i) < length sizes /\
  snd (locate sizes i) < nth (fst (locate sizes i)) sizes 0 /\
  i = nsum (firstn (fst (locate sizes i)) sizes) + snd (locate sizes i).
Proof.
  induction sizes as [|s sizes IH]; intros i Hi; cbn [nsum fold_right] in Hi; [lia|].
  fold (nsum sizes) in Hi. cbn [locate].
  destruct (Nat.ltb i s) eqn:E.
  - apply Nat.ltb_lt in E. cbn [fst snd length nth firstn nsum fold_right]. lia.
  - apply Nat.ltb_ge in E. destruct (IH (i - s)) as (H1 & H2 & H3); [lia|].
    destruct (locate sizes (i - s)) as [k o]. cbn [fst snd] in *.
    cbn [length nth firstn nsum fold_right]. fold (nsum (firstn k sizes)). lia.
Qed.

Lemma inb_set_nth sh idx axis v o :
  inb sh idx = true -> axis < length sh -> o < v -> inb (set_nth sh axis v) (set_nth idx axis o) = true.
Proof.
  intros H Hax Ho. apply (proj1 (inb_nth _ _)) in H. destruct H as [Hl Hk].
  apply (proj2 (inb_nth _ _)). rewrite !length_set_nth by lia. split; [exact Hl|].
  intros k Hk'. rewrite !nth_set_nth by lia.
  destruct (Nat.eqb k axis); [exact Ho|now apply Hk].
Qed.

Section Concat.
  Context (R : Ring).

  Definition csizes (ts : list (tensor R)) (axis : nat) : list nat := map (fun t => nth axis (tshape t) 0) ts.

  Lemma tshape_tconcat t0 ts axis :
    tshape (tconcat R (t0 :: ts) axis) = set_nth (tshape t0) axis (nsum (csizes (t0 :: ts) axis)).
  Proof. reflexivity. Qed.

  Lemma length_tdata_tconcat t0 ts axis :
    length (tdata (tconcat R (t0 :: ts) axis)) = shape_size (tshape (tconcat R (t0 :: ts) axis)).
  Proof. unfold tconcat. now rewrite length_tdata_build. Qed.

  (* reading a concatenation: find the part, read it at the offset inside the part *)
  Lemma get_tconcat t0 ts axis idx :
    inb (tshape (tconcat R (t0 :: ts) axis)) idx = true ->
    get R (tconcat R (t0 :: ts) axis) idx =
    get R (nth (fst (locate (csizes (t0 :: ts) axis) (nth axis idx 0))) (t0 :: ts) t0)
          (set_nth idx axis (snd (locate (csizes (t0 :: ts) axis) (nth axis idx 0)))).
  Proof.
    intros H. rewrite tshape_tconcat in H. unfold tconcat. rewrite get_build by exact H.
    fold (csizes (t0 :: ts) axis).
    destruct (locate (csizes (t0 :: ts) axis) (nth axis idx 0)) as [k o]. reflexivity.
  Qed.
End Concat.

(* ------------------------------------------------------------------ *)
(* Part 2: a nest of concatenations.
   level j (concatenated along axis pos + j) = the list of (key, size) of its
   parts; a leaf is addressed by the list of keys chosen on the way down. *)
Section Nest.
  Context (R : Ring) {K : Type} (dK : K) (leaf : list K -> tensor R) (pos : nat).
  Notation level := (list (K * nat)).

  Fixpoint nest (levels : list level) (g : nat) (subkey : list K) : tensor R :=
    match levels with
    | [] => leaf subkey
    | E :: rest => tconcat R (map (fun p => nest rest (S g) (subkey ++ [fst p])) E) (pos + g)
    end.

  Definition tot (E : level) : nat := nsum (map snd E).
  Definition valid_path (L : list level) (P : list (K * nat)) : Prop := Forall2 (fun E p => In p E) L P.

  Context (SB SA : list nat) (HSB : length SB = pos).
  Context (L : list level) (HLne : Forall (fun E => E <> []) L).
  Context (Hleaf : forall P, valid_path L P ->
             tshape (leaf (map fst P)) = SB ++ map snd P ++ SA /\
             length (tdata (leaf (map fst P))) = shape_size (tshape (leaf (map fst P)))).

  Lemma valid_path_length L0 P : valid_path L0 P -> length P = length L0.
  Proof. intros H. symmetry. exact (Forall2_length' _ _ _ H). Qed.

  Lemma valid_path_snoc L0 P E p : valid_path L0 P -> In p E -> valid_path (L0 ++ [E]) (P ++ [p]).
  Proof. intros H Hp. apply Forall2_app'; [exact H|]. constructor; [exact Hp|constructor]. Qed.

  Lemma nest_shape : forall L2 L1 P1, L1 ++ L2 = L -> valid_path L1 P1 ->
    tshape (nest L2 (length L1) (map fst P1)) = SB ++ map snd P1 ++ map tot L2 ++ SA /\
    length (tdata (nest L2 (length L1) (map fst P1))) = shape_size (tshape (nest L2 (length L1) (map fst P1))).
  Proof.
    induction L2 as [|E rest IH]; intros L1 P1 HL HP.
    - rewrite app_nil_r in HL. subst L1. cbn [nest map app]. now apply Hleaf.
    - assert (Hsub : forall p, In p E ->
                tshape (nest rest (S (length L1)) (map fst P1 ++ [fst p])) =
                  (SB ++ map snd P1) ++ snd p :: map tot rest ++ SA /\
                length (tdata (nest rest (S (length L1)) (map fst P1 ++ [fst p]))) =
                  shape_size (tshape (nest rest (S (length L1)) (map fst P1 ++ [fst p])))).
      { intros p Hp. destruct (IH (L1 ++ [E]) (P1 ++ [p])) as [H1 H2].
        - rewrite <- app_assoc. exact HL.
        - now apply valid_path_snoc.
        - rewrite app_length in H1, H2. cbn [length] in H1, H2. rewrite Nat.add_1_r in H1, H2.
          rewrite (map_app fst), (map_app snd) in H1. rewrite (map_app fst) in H2. cbn [map] in H1, H2.
          rewrite <- !app_assoc in H1. cbn [app] in H1.
          split; [rewrite H1; now rewrite <- app_assoc|exact H2]. }
      assert (HE : E <> []).
      { rewrite Forall_forall in HLne. apply HLne. rewrite <- HL. apply in_or_app. right. now left. }
      destruct E as [|p0 E']; [congruence|]. clear HE.
      assert (Hlen : length (SB ++ map snd P1) = pos + length L1).
      { rewrite app_length, map_length, (valid_path_length _ _ HP). lia. }
      assert (Hsizes : csizes R (map (fun p => nest rest (S (length L1)) (map fst P1 ++ [fst p])) (p0 :: E')) (pos + length L1)
                       = map snd (p0 :: E')).
      { unfold csizes. rewrite map_map. apply map_ext_in. intros p Hp.
        destruct (Hsub p Hp) as [H1 _]. rewrite H1. now apply nth_middle_len. }
      cbn [nest]. set (F := fun p : K * nat => nest rest (S (length L1)) (map fst P1 ++ [fst p])) in *.
      cbn [map]. split; [|apply length_tdata_tconcat].
      rewrite tshape_tconcat. change (F p0 :: map F E') with (map F (p0 :: E')). rewrite Hsizes.
      destruct (Hsub p0 (or_introl eq_refl)) as [H1 _]. fold (F p0) in H1. rewrite H1.
      rewrite (set_nth_middle _ _ _ _ _ Hlen). cbn [map]. fold (tot (p0 :: E')).
      now rewrite <- app_assoc.
  Qed.

  (* reading the nest at idx: a path P2 through the remaining levels and a leaf
     index u; on level j the coordinate of idx is the start of the chosen part plus
     the coordinate of u, everywhere else idx and u agree *)
  Lemma nest_get : forall L2 L1 P1 idx, L1 ++ L2 = L -> valid_path L1 P1 ->
    inb (SB ++ map snd P1 ++ map tot L2 ++ SA) idx = true ->
    exists P2 u, valid_path L2 P2 /\
      get R (nest L2 (length L1) (map fst P1)) idx = get R (leaf (map fst (P1 ++ P2))) u /\
      inb (SB ++ map snd P1 ++ map snd P2 ++ SA) u = true /\
      (forall q, q < pos + length L1 \/ pos + length L1 + length L2 <= q -> nth q u 0 = nth q idx 0) /\
      (forall j, j < length L2 -> exists A B, nth j L2 [] = A ++ nth j P2 (dK, 0) :: B /\
         nth (pos + length L1 + j) idx 0 = nsum (map snd A) + nth (pos + length L1 + j) u 0).
  Proof.
    induction L2 as [|E rest IH]; intros L1 P1 idx HL HP Hinb.
    - exists [], idx. split; [constructor|]. rewrite app_nil_r. cbn [nest map app] in *.
      split; [reflexivity|]. split; [exact Hinb|]. split; [reflexivity|]. cbn [length]. intros j Hj. lia.
    - destruct (nest_shape (E :: rest) L1 P1 HL HP) as [Hshape _].
      assert (HE : E <> []).
      { rewrite Forall_forall in HLne. apply HLne. rewrite <- HL. apply in_or_app. right. now left. }
      assert (Hlen : length (SB ++ map snd P1) = pos + length L1).
      { rewrite app_length, map_length, (valid_path_length _ _ HP). lia. }
      set (axis := pos + length L1) in *.
      set (F := fun p : K * nat => nest rest (S (length L1)) (map fst P1 ++ [fst p])).
      assert (HFshape : forall p, In p E -> tshape (F p) = (SB ++ map snd P1) ++ snd p :: map tot rest ++ SA).
      { intros p Hp. destruct (nest_shape rest (L1 ++ [E]) (P1 ++ [p])) as [H1 _].
        - rewrite <- app_assoc. exact HL.
        - now apply valid_path_snoc.
        - rewrite app_length in H1. cbn [length] in H1. rewrite Nat.add_1_r in H1.
          rewrite (map_app fst), (map_app snd) in H1. cbn [map] in H1. rewrite <- !app_assoc in H1. cbn [app] in H1.
          unfold F. rewrite H1. now rewrite <- app_assoc. }
      destruct E as [|p0 E']; [congruence|]. clear HE.
      assert (Hsizes : csizes R (map F (p0 :: E')) axis = map snd (p0 :: E')).
      { unfold csizes. rewrite map_map. apply map_ext_in. intros p Hp. rewrite (HFshape p Hp).
        now apply nth_middle_len. }
      cbn [map tot] in Hinb. fold (tot (p0 :: E')) in Hinb.
      assert (Hinb0 : inb ((SB ++ map snd P1) ++ tot (p0 :: E') :: map tot rest ++ SA) idx = true)
        by (now rewrite <- app_assoc).
      pose proof (proj1 (inb_nth _ _) Hinb0) as [Hlidx Hnth].
      assert (Hax : axis < length ((SB ++ map snd P1) ++ tot (p0 :: E') :: map tot rest ++ SA)).
      { rewrite app_length, Hlen. cbn [length]. lia. }
      pose proof (Hnth axis Hax) as Hi. rewrite (nth_middle_len _ _ _ _ _ Hlen) in Hi.
      unfold tot in Hi.
      destruct (locate_spec (map snd (p0 :: E')) (nth axis idx 0) Hi) as (Hk & Ho & Hsplit).
      set (kk := fst (locate (map snd (p0 :: E')) (nth axis idx 0))) in *.
      set (o := snd (locate (map snd (p0 :: E')) (nth axis idx 0))) in *.
      rewrite map_length in Hk.
      set (p := nth kk (p0 :: E') (dK, 0)).
      assert (Hp : In p (p0 :: E')) by (apply nth_In; exact Hk).
      assert (Hsnd : nth kk (map snd (p0 :: E')) 0 = snd p).
      { change 0 with (snd (dK, 0)) at 1. apply map_nth. }
      rewrite Hsnd in Ho.
      (* the concatenation read at idx *)
      assert (Hget : get R (nest ((p0 :: E') :: rest) (length L1) (map fst P1)) idx =
                     get R (F p) (set_nth idx axis o)).
      { cbn [nest]. fold F. fold axis. cbn [map].
        rewrite get_tconcat.
        - change (F p0 :: map F E') with (map F (p0 :: E')). rewrite Hsizes. fold kk. fold o.
          f_equal. rewrite (nth_indep _ _ (F (dK, 0))) by (rewrite map_length; exact Hk).
          apply map_nth.
        - change (F p0 :: map F E') with (map F (p0 :: E')).
          change (tconcat R (map F (p0 :: E')) axis) with (nest ((p0 :: E') :: rest) (length L1) (map fst P1)).
          rewrite Hshape. cbn [map]. fold (tot (p0 :: E')). exact Hinb. }
      assert (Hinb' : inb (SB ++ map snd (P1 ++ [p]) ++ map tot rest ++ SA) (set_nth idx axis o) = true).
      { rewrite map_app. cbn [map]. rewrite <- !app_assoc. cbn [app].
        replace (SB ++ map snd P1 ++ snd p :: map tot rest ++ SA)
          with (set_nth ((SB ++ map snd P1) ++ tot (p0 :: E') :: map tot rest ++ SA) axis (snd p))
          by (rewrite (set_nth_middle _ _ _ _ _ Hlen); now rewrite <- app_assoc).
        apply inb_set_nth; assumption. }
      destruct (IH (L1 ++ [p0 :: E']) (P1 ++ [p]) (set_nth idx axis o)) as (P2 & u & HP2 & Hg & Hu & Hq & Hj).
      { rewrite <- app_assoc. exact HL. }
      { now apply valid_path_snoc. }
      { exact Hinb'. }
      rewrite app_length in Hg, Hq, Hj. cbn [length] in Hg, Hq, Hj. rewrite Nat.add_1_r in Hg.
      rewrite map_app in Hg at 1. cbn [map] in Hg.
      assert (Haxi : axis < length idx) by (rewrite Hlidx; exact Hax).
      exists (p :: P2), u. split; [constructor; assumption|]. split; [|split; [|split]].
      + rewrite Hget. unfold F. rewrite Hg. rewrite <- app_assoc. reflexivity.
      + rewrite map_app in Hu. cbn [map] in Hu. rewrite <- !app_assoc in Hu. cbn [app] in Hu. exact Hu.
      + intros q Hqq. cbn [length] in Hqq. rewrite Hq by (fold axis; lia).
        rewrite nth_set_nth by exact Haxi.
        destruct (Nat.eqb_spec q axis) as [->|_]; [unfold axis in Hqq; lia|reflexivity].
      + intros j Hjl. destruct j as [|j].
        * exists (firstn kk (p0 :: E')), (skipn (S kk) (p0 :: E')). cbn [nth]. split.
          -- apply split_at_nth. exact Hk.
          -- rewrite Nat.add_0_r. fold axis. rewrite (Hq axis) by (fold axis; lia).
             rewrite nth_set_nth_eq by exact Haxi. rewrite <- firstn_map. exact Hsplit.
        * cbn [length] in Hjl. destruct (Hj j) as (A & B & HAB & Hnj); [lia|].
          exists A, B. cbn [nth]. split; [exact HAB|].
          rewrite nth_set_nth in Hnj by exact Haxi.
          replace (pos + (length L1 + 1) + j) with (pos + length L1 + S j) in Hnj by lia.
          destruct (Nat.eqb_spec (pos + length L1 + S j) axis) as [E|_]; [unfold axis in E; lia|exact Hnj].
  Qed.
End Nest.

(* ------------------------------------------------------------------ *)
(* Part 3: dictionaries filled by a fold of dset *)
Section DictKeys.
  Context {K : Type} (keqb : K -> K -> bool).

  (* the keys after d[k] = v do not depend on v *)
  Lemma keys_dset_fun {V} k (v : V) d :
    map fst (dset keqb k v d) = if mem keqb k (map fst d) then map fst d else map fst d ++ [k].
  Proof.
    induction d as [|[k' v'] d IH]; [reflexivity|]. cbn [dset map fst mem].
    destruct (keqb k k'); cbn [orb map fst]; [reflexivity|]. rewrite IH.
    destruct (mem keqb k (map fst d)); reflexivity.
  Qed.

  (* two folds that set the same keys in the same order have the same key list *)
  Lemma fold_keys_same {I V1 V2} (key : I -> K) (f1 : list (K * V1) -> I -> V1) (f2 : list (K * V2) -> I -> V2) items :
    forall a1 a2, map fst a1 = map fst a2 ->
    map fst (fold_left (fun acc i => dset keqb (key i) (f1 acc i) acc) items a1) =
    map fst (fold_left (fun acc i => dset keqb (key i) (f2 acc i) acc) items a2).
  Proof.
    induction items as [|i items IH]; intros a1 a2 H; [exact H|]. cbn [fold_left].
    apply IH. now rewrite !keys_dset_fun, H.
  Qed.

  Lemma list_eq_by_keys {V} (l1 l2 : list (K * V)) :
    map fst l1 = map fst l2 -> NoDup (map fst l2) ->
    (forall k v1 v2, In (k, v1) l1 -> In (k, v2) l2 -> v1 = v2) -> l1 = l2.
  Proof.
    revert l2. induction l1 as [|[k1 v1] l1 IH]; intros [|[k2 v2] l2] Hk Hnd H; cbn [map fst] in Hk; try discriminate.
    - reflexivity.
    - inversion Hk as [[E Hk']]. subst k2. inversion Hnd as [|? ? Hnot Hnd']; subst.
      rewrite (H k1 v1 v2 (or_introl eq_refl) (or_introl eq_refl)). f_equal.
      apply IH; [exact Hk'|exact Hnd'|]. intros k w1 w2 H1 H2. apply (H k); now right.
  Qed.
End DictKeys.

(* the first loop of the concat strategy: a dictionary of dictionaries *)
Section Collect.
  Context {K K2 V I : Type} (keqb : K -> K -> bool) (Hk : eqb_spec_on keqb)
          (k2eqb : K2 -> K2 -> bool) (Hk2 : eqb_spec_on k2eqb).
  Context (key : I -> K) (sk : I -> K2) (val : I -> V).

  Definition collect_step (acc : list (K * list (K2 * V))) (i : I) : list (K * list (K2 * V)) :=
    dset keqb (key i)
      (dset k2eqb (sk i) (val i) (match lookup keqb (key i) acc with Some d => d | None => [] end)) acc.
  Definition collect (items : list I) : list (K * list (K2 * V)) := fold_left collect_step items [].

  Lemma collect_spec (items : list I) :
    NoDup (map fst (collect items)) /\
    (forall k inner s a, lookup keqb k (collect items) = Some inner -> lookup k2eqb s inner = Some a ->
       exists i, In i items /\ key i = k /\ sk i = s /\ a = val i) /\
    (forall i, In i items -> exists inner, lookup keqb (key i) (collect items) = Some inner /\
       lookup k2eqb (sk i) inner <> None).
  Proof.
    induction items as [|i0 P IH] using rev_ind.
    - cbn. split; [constructor|]. split; [discriminate|intros i []].
    - destruct IH as (IHnd & IH1 & IH2).
      unfold collect. rewrite fold_left_app. cbn [fold_left]. fold (collect P).
      set (acc := collect P) in *. unfold collect_step.
      set (k0 := key i0). set (inner0 := match lookup keqb k0 acc with Some d => d | None => [] end).
      set (inner' := dset k2eqb (sk i0) (val i0) inner0).
      assert (Hlk : forall k, lookup keqb k (dset keqb k0 inner' acc) = if keqb k k0 then Some inner' else lookup keqb k acc)
        by (intros k; apply (lookup_dset keqb Hk)).
      assert (Hlk2 : forall s, lookup k2eqb s inner' = if k2eqb s (sk i0) then Some (val i0) else lookup k2eqb s inner0)
        by (intros s; apply (lookup_dset k2eqb Hk2)).
      split; [now apply (dset_keys_NoDup keqb Hk)|]. split.
      + intros k inner s a. rewrite Hlk. destruct (keqb k k0) eqn:E.
        * apply Hk in E. subst k. intros H. inversion H. subst inner. clear H. rewrite Hlk2.
          destruct (k2eqb s (sk i0)) eqn:E2.
          -- apply Hk2 in E2. subst s. intros H. inversion H. subst a.
             exists i0. split; [apply in_or_app; right; now left|]. repeat split; reflexivity.
          -- unfold inner0. destruct (lookup keqb k0 acc) as [d|] eqn:E3; [|discriminate].
             intros H. destruct (IH1 k0 d s a E3 H) as (i & Hi & H1 & H2 & H3).
             exists i. split; [apply in_or_app; now left|]. now repeat split.
        * intros H1 H2. destruct (IH1 k inner s a H1 H2) as (i & Hi & H3).
          exists i. split; [apply in_or_app; now left|exact H3].
      + intros i Hi. apply in_app_or in Hi. destruct Hi as [Hi|[<-|[]]].
        * destruct (IH2 i Hi) as (inner & H1 & H2). rewrite Hlk. destruct (keqb (key i) k0) eqn:E.
          -- apply Hk in E. exists inner'. split; [reflexivity|]. rewrite Hlk2.
             destruct (k2eqb (sk i) (sk i0)); [discriminate|].
             unfold inner0. rewrite <- E, H1. exact H2.
          -- exists inner. now split.
        * fold k0. rewrite Hlk, (keqb_refl keqb Hk). exists inner'. split; [reflexivity|].
          rewrite Hlk2, (keqb_refl k2eqb Hk2). discriminate.
  Qed.
End Collect.

(* ------------------------------------------------------------------ *)
(* generic list facts used below *)
Lemma Forall2_nth {A B} (Q : A -> B -> Prop) l m dA dB : Forall2 Q l m ->
  forall k, k < length l -> Q (nth k l dA) (nth k m dB).
Proof.
  induction 1 as [|a b l m Hab _ IH]; intros k Hk; cbn [length] in Hk; [lia|].
  destruct k as [|k]; cbn [nth]; [exact Hab|apply IH; lia].
Qed.

Lemma in_range_nth sel : forall idx, length idx = length sel ->
  (in_range sel idx = true <->
   forall q, q < length sel -> fst (nth q sel (0, 0)) <= nth q idx 0 < fst (nth q sel (0, 0)) + snd (nth q sel (0, 0))).
Proof.
  induction sel as [|r sel IH]; intros [|i idx] Hl; cbn [length] in Hl; try discriminate.
  - split; [intros _ q Hq; cbn [length] in Hq; lia|reflexivity].
  - rewrite in_range_cons, andb_true_iff, andb_true_iff, Nat.leb_le, Nat.ltb_lt, (IH idx) by lia. split.
    + intros [Hr Hall] [|q] Hq; cbn [nth]; [exact Hr|apply Hall; cbn [length] in Hq; lia].
    + intros H. split; [apply (H 0); cbn [length]; lia|].
      intros q Hq. apply (H (S q)). cbn [length]. lia.
Qed.

Lemma shift_idx_nth sel : forall idx q, length idx = length sel -> q < length sel ->
  nth q (shift_idx sel idx) 0 = nth q idx 0 - fst (nth q sel (0, 0)).
Proof.
  unfold shift_idx.
  induction sel as [|r sel IH]; intros [|i idx] q Hl Hq; cbn [length] in Hl, Hq; try discriminate; try lia.
  rewrite shift_cons. destruct q as [|q]; cbn [nth]; [reflexivity|]. apply IH; lia.
Qed.

Lemma shift_idx_length sel : forall idx, length idx = length sel -> length (shift_idx sel idx) = length sel.
Proof.
  unfold shift_idx. intros idx Hl. rewrite map_length, combine_length. lia.
Qed.

Lemma ranges_from_split {K} (A B : list (K * nat)) p : forall s0,
  In (fst p, (s0 + nsum (map snd A), snd p)) (ranges_from s0 (A ++ p :: B)).
Proof.
  induction A as [|[k d] A IH]; intros s0.
  - destruct p as [k d]. cbn [app map nsum fold_right fst snd]. rewrite ranges_from_cons. left.
    now rewrite Nat.add_0_r.
  - cbn [app]. rewrite ranges_from_cons. right. cbn [map snd nsum fold_right]. fold (nsum (map snd A)).
    replace (s0 + (d + nsum (map snd A))) with (s0 + d + nsum (map snd A)) by lia. apply IH.
Qed.

Lemma singleton_split {A} (X Y : list A) (a b : A) : [a] = X ++ b :: Y -> X = [] /\ b = a /\ Y = [].
Proof.
  destruct X as [|x X]; cbn [app]; intros H.
  - inversion H. now repeat split.
  - inversion H as [[H1 H2]]. destruct X; discriminate.
Qed.

(* ------------------------------------------------------------------ *)
(* Part 4: the concat strategy against the insert strategy *)
Section ConcatInsert.
  Context (G : Symmetry) (R : Ring) (GL : GroupLaws G) (OL : OrderLaws G).
  Context (x : aarray G R) (groups : list (list nat)).
  Context (Hwf : wf_array G R x = true).
  Context (Hg_ne : Forall (fun g => g <> []) groups) (Hg_nd : NoDup (concat groups))
          (Hg_rng : Forall (fun ax => ax < length (indices G R x)) (concat groups)).

  Notation keq := (list_eqb (ceqb G)).
  Notation kkeq := (list_eqb (list_eqb (ceqb G))).
  Notation ixs := (indices G R x).
  Notation n := (length (indices G R x)).
  Notation secs := (sectors G R x).
  Notation dflt := (dflt_index G).
  Notation idc := (ident G).
  Notation SL := (slots (length (indices G R x)) groups).
  Notation perm := (fuse_perm (length (indices G R x)) groups).
  Notation FI := (fused_index G (indices G R x) (sectors G R x)).
  Notation nixs := (fused_indices G (indices G R x) (sectors G R x) groups).
  Notation NS := (fused_sector G (indices G R x) groups).
  Notation gc := (group_charge G (indices G R x)).
  Notation gsz := (group_size G (indices G R x)).
  Notation sub := (group_subsector G).
  Notation rng := (slot_range G (indices G R x) (sectors G R x)).
  Notation pos := (fuse_position groups).
  Notation before := (axes_before (length (indices G R x)) groups).
  Notation after := (axes_after (length (indices G R x)) groups).
  Notation ng := (length groups).
  Notation extg g := (extF G (SI G (indices G R x) (sectors G R x) g)).
  Notation Bs := (map (fun ax : nat => [ax]) (axes_before (length (indices G R x)) groups)).
  Notation As := (map (fun ax : nat => [ax]) (axes_after (length (indices G R x)) groups)).

  Lemma Hkk : eqb_spec_on kkeq.
  Proof. apply list_eqb_spec. apply (Hkq' G GL). Qed.

  (* ---- slots ---- *)
  Lemma before_seq : before = seq 0 pos.
  Proof.
    unfold axes_before. apply filter_all. intros ax Hax. apply in_seq in Hax.
    apply ungrouped_iff'. intros Hin. apply gpos_le in Hin. lia.
  Qed.

  Lemma SL_eq : SL = Bs ++ groups ++ As.
  Proof. reflexivity. Qed.

  Lemma length_Bs : length Bs = pos.
  Proof. rewrite map_length. apply (length_before_pos G R x groups). Qed.

  Lemma length_SL : length SL = pos + ng + length after.
  Proof. rewrite SL_eq, !app_length, length_Bs, map_length. lia. Qed.

  Lemma nth_SL_before k : k < pos -> nth k SL [] = [k].
  Proof.
    intros Hk. rewrite SL_eq, app_nth1 by (rewrite length_Bs; lia).
    rewrite (nth_map_lt _ _ _ 0) by (rewrite (length_before_pos G R x groups); lia).
    now rewrite before_seq, seq_nth by lia.
  Qed.

  Lemma nth_SL_group j : j < ng -> nth (pos + j) SL [] = nth j groups [].
  Proof.
    intros Hj. rewrite SL_eq, app_nth2 by (rewrite length_Bs; lia). rewrite length_Bs.
    replace (pos + j - pos) with j by lia. now rewrite app_nth1 by lia.
  Qed.

  Lemma nth_SL_after k : k < length after -> nth (pos + ng + k) SL [] = [nth k after 0].
  Proof.
    intros Hk. rewrite SL_eq, app_nth2 by (rewrite length_Bs; lia). rewrite length_Bs.
    rewrite app_nth2 by lia. replace (pos + ng + k - pos - ng) with k by lia.
    now rewrite (nth_map_lt _ _ _ 0) by lia.
  Qed.

  Lemma In_groups_SL g : In g groups -> In g SL.
  Proof. intros H. rewrite SL_eq. apply in_or_app. right. apply in_or_app. now left. Qed.

  Lemma nth_groups_In j : j < ng -> In (nth j groups []) groups.
  Proof. intros Hj. now apply nth_In. Qed.

  (* ---- single-axis slots ---- *)
  Lemma rng_singlet s g : is_singlet g = true -> rng s g = (0, size_of G (FI g) (gc s g)).
  Proof. intros H. unfold slot_range. now rewrite H. Qed.

  Lemma gsz_singlet s g : is_singlet g = true -> gsz s g = size_of G (FI g) (gc s g).
  Proof.
    intros H. apply singlet_inv in H. destruct H as (ax & ->).
    unfold group_size, fused_index, group_charge. cbn [is_singlet length Nat.eqb hd map nprod fold_right]. lia.
  Qed.

  Lemma sub_singlet s g : is_singlet g = true -> sub s g = [gc s g].
  Proof. intros H. apply singlet_inv in H. destruct H as (ax & ->). reflexivity. Qed.

  (* ---- what the extent table of a fused group holds at the charge of a stored sector ---- *)
  Lemma lev_facts s g : In s secs -> In g groups -> is_singlet g = false ->
    exists e, extent_of G (FI g) (gc s g) = e /\ lookup (ceqb G) (gc s g) (extg g) = Some e /\
      NoDup (map fst e) /\ nsum (map snd e) = size_of G (FI g) (gc s g) /\
      lookup keq (sub s g) e = Some (gsz s g).
  Proof.
    intros Hs Hg Es. destruct (slot_facts G R x groups Hg_ne Hg_nd Hg_rng g (In_groups_SL g Hg)) as (Hnd & Hlt & Hne).
    pose proof (nonsinglet_len G R x g Hne Es) as Hlen.
    destruct (ext_facts G R GL OL x g Hwf Hlt Hlen s Hs) as (e & He & Hnde & Hsum & Hsub & _).
    exists e. split; [|now repeat split].
    unfold extent_of. now rewrite (fused_isub G ixs secs g Es), He.
  Qed.

  Lemma rng_facts s g : In s secs -> In g groups -> is_singlet g = false ->
    exists e st, lookup (ceqb G) (gc s g) (extg g) = Some e /\
      lookup keq (sub s g) (ranges_from 0 e) = Some (st, gsz s g) /\ rng s g = (st, gsz s g).
  Proof.
    intros Hs Hg Es. destruct (slot_facts G R x groups Hg_ne Hg_nd Hg_rng g (In_groups_SL g Hg)) as (Hnd & Hlt & Hne).
    pose proof (nonsinglet_len G R x g Hne Es) as Hlen.
    destruct (rng_spec G R GL OL x g Hwf Hlt Hlen s Hs) as (e & st & He & Hlk & Hr & _).
    exists e, st. split; [exact He|]. split; [exact Hlk|]. unfold slot_range. now rewrite Es.
  Qed.

  (* ================================================================== *)
  (* one fused sector k = NS s0 of a stored sector s0 *)
  Section OneSector.
    Context (s0 : list (C G)) (Hs0 : In s0 secs).
    Context (inner : list (list (list (C G)) * tensor R)).

    Definition dimf (g : list nat) : nat := size_of G (FI g) (gc s0 g).
    Definition lev (g : list nat) : list (list (C G) * nat) :=
      if is_singlet g then [([gc s0 g], dimf g)] else extent_of G (FI g) (gc s0 g).
    Definition leafc (subkey : list (list (C G))) : tensor R :=
      match lookup kkeq subkey inner with
      | Some a => a
      | None => tzeros R (concat_zero_shape G ixs nixs groups (NS s0) subkey)
      end.

    Lemma nth_NS q : q < length SL -> nth q (NS s0) idc = gc s0 (nth q SL []).
    Proof. intros Hq. rewrite (NS_eq' G R x groups). now apply nth_map_lt. Qed.

    Lemma nth_nixs q : q < length SL -> nth q nixs dflt = FI (nth q SL []).
    Proof. intros Hq. rewrite fused_indices_slots. now apply nth_map_lt. Qed.

    Lemma lev_ne g : In g groups -> lev g <> [].
    Proof.
      intros Hg. unfold lev. destruct (is_singlet g) eqn:Es; [discriminate|].
      destruct (lev_facts s0 g Hs0 Hg Es) as (e & -> & _ & _ & _ & Hlk). intros ->. discriminate.
    Qed.

    Lemma lev_nd g : In g groups -> NoDup (map fst (lev g)).
    Proof.
      intros Hg. unfold lev. destruct (is_singlet g) eqn:Es; [repeat constructor; intros []|].
      now destruct (lev_facts s0 g Hs0 Hg Es) as (e & -> & _ & Hnd & _).
    Qed.

    Lemma lev_tot g : In g groups -> tot (lev g) = dimf g.
    Proof.
      intros Hg. unfold lev, tot. destruct (is_singlet g) eqn:Es; [cbn; lia|].
      now destruct (lev_facts s0 g Hs0 Hg Es) as (e & -> & _ & _ & Hsum & _).
    Qed.

    Lemma Fshape_eq : Fshape G R x groups (NS s0) = map dimf Bs ++ map dimf groups ++ map dimf As.
    Proof.
      unfold Fshape. rewrite (NS_eq' G R x groups), (block_shape_FI G R x), SL_eq, !map_app. reflexivity.
    Qed.

    (* the recursion of the concat strategy is a nest over the levels of the groups *)
    Lemma recurse_eq_nest : forall gs pre subkey, pre ++ gs = groups ->
      recurse_concat G R ixs nixs groups inner (NS s0) gs (length pre) subkey =
      nest R leafc pos (map lev gs) (length pre) subkey.
    Proof.
      induction gs as [|grp gs IH]; intros pre subkey Hpre; [reflexivity|].
      cbn [recurse_concat nest map].
      assert (Hj : length pre < ng) by (rewrite <- Hpre, app_length; cbn [length]; lia).
      assert (Hq : pos + length pre < length SL) by (rewrite length_SL; lia).
      assert (Hgrp : nth (length pre) groups [] = grp) by (rewrite <- Hpre; now apply nth_middle_len).
      rewrite (nth_NS _ Hq), (nth_nixs _ Hq), (nth_SL_group _ Hj), Hgrp.
      assert (Hnext : (if is_singlet grp then [[gc s0 grp]] else map fst (extent_of G (FI grp) (gc s0 grp)))
                      = map fst (lev grp)).
      { unfold lev. destruct (is_singlet grp); reflexivity. }
      rewrite Hnext, map_map. f_equal. apply map_ext. intros p.
      specialize (IH (pre ++ [grp]) (subkey ++ [fst p])).
      rewrite app_length in IH. cbn [length] in IH. rewrite Nat.add_1_r in IH.
      apply IH. rewrite <- app_assoc. exact Hpre.
    Qed.

    (* ---- the collected sub-blocks ---- *)
    Definition CC := concat_collect G R ixs groups (blocks G R x).

    Lemma CC_eq : CC = collect keq kkeq (Fkey G R x groups) (fun sb => subkey_of G groups (fst sb))
                               (fuse_piece G R ixs groups) (blocks G R x).
    Proof. reflexivity. Qed.

    Lemma piece_eq sb : fuse_piece G R ixs groups sb = Fsrc G R x groups sb.
    Proof. unfold fuse_piece, Fsrc. now rewrite fused_shape_slots. Qed.

    Context (Hinner : lookup keq (NS s0) CC = Some inner).

    Lemma inner_entry sk a : lookup kkeq sk inner = Some a ->
      exists s b, In (s, b) (blocks G R x) /\ NS s = NS s0 /\ subkey_of G groups s = sk /\
                  a = Fsrc G R x groups (s, b).
    Proof.
      intros H. destruct (collect_spec keq (Hkq' G GL) kkeq Hkk (Fkey G R x groups)
                            (fun sb => subkey_of G groups (fst sb)) (fuse_piece G R ixs groups) (blocks G R x))
        as (_ & C1 & _).
      rewrite <- CC_eq in C1. destruct (C1 _ _ _ _ Hinner H) as ([s b] & Hin & Hk & Hsk & Ha).
      exists s, b. split; [exact Hin|]. split; [exact Hk|]. split; [exact Hsk|]. now rewrite <- piece_eq.
    Qed.

    Lemma inner_stored s b : In (s, b) (blocks G R x) -> NS s = NS s0 ->
      lookup kkeq (subkey_of G groups s) inner <> None.
    Proof.
      intros Hin Hk. destruct (collect_spec keq (Hkq' G GL) kkeq Hkk (Fkey G R x groups)
                            (fun sb => subkey_of G groups (fst sb)) (fuse_piece G R ixs groups) (blocks G R x))
        as (_ & _ & C2).
      rewrite <- CC_eq in C2. destruct (C2 _ Hin) as (inner' & H1 & H2).
      unfold Fkey in H1. cbn [fst] in H1, H2. rewrite Hk, Hinner in H1. inversion H1. now subst inner'.
    Qed.

    (* ---- a stored sector with the same fused sector ---- *)
    Lemma same_gc s g : NS s = NS s0 -> In g SL -> gc s g = gc s0 g.
    Proof. intros H Hg. exact (NS_gc' G R x groups s s0 g H Hg). Qed.

    Lemma gsz_dimf_singlet s g : NS s = NS s0 -> In g SL -> is_singlet g = true -> gsz s g = dimf g.
    Proof. intros H Hg Es. rewrite (gsz_singlet s g Es), (same_gc s g H Hg). reflexivity. Qed.

    Lemma In_Bs_SL g : In g Bs -> In g SL /\ is_singlet g = true.
    Proof.
      intros H. split; [rewrite SL_eq; apply in_or_app; now left|].
      apply in_map_iff in H. destruct H as (ax & <- & _). reflexivity.
    Qed.

    Lemma In_As_SL g : In g As -> In g SL /\ is_singlet g = true.
    Proof.
      intros H. split; [rewrite SL_eq; apply in_or_app; right; apply in_or_app; now right|].
      apply in_map_iff in H. destruct H as (ax & <- & _). reflexivity.
    Qed.

    (* the size recorded on the path for the sub-sector of s is the size of its piece *)
    Lemma path_entry s g p : In s secs -> NS s = NS s0 -> In g groups -> In p (lev g) -> fst p = sub s g ->
      snd p = gsz s g.
    Proof.
      intros Hs Hk Hg Hp Hf. pose proof (same_gc s g Hk (In_groups_SL g Hg)) as Hc.
      unfold lev in Hp. destruct (is_singlet g) eqn:Es.
      - destruct Hp as [<-|[]]. cbn [snd]. symmetry. now apply gsz_dimf_singlet; [|apply In_groups_SL|].
      - destruct (lev_facts s g Hs Hg Es) as (e & He & _ & Hnd & _ & Hlk).
        rewrite <- Hc, He in Hp. destruct p as [ss d]. cbn [fst snd] in *. subst ss.
        rewrite (In_lookup keq (Hkq' G GL) _ _ _ Hnd Hp) in Hlk. now inversion Hlk.
    Qed.

    Lemma path_sizes s : In s secs -> NS s = NS s0 -> forall gs P, incl gs groups ->
      valid_path (map lev gs) P -> map fst P = map (sub s) gs -> map snd P = map (gsz s) gs.
    Proof.
      intros Hs Hk. induction gs as [|g gs IH]; intros P Hincl HF Hfst; inversion HF as [|E p L' P' Hp HF' HE]; subst.
      - reflexivity.
      - cbn [map] in Hfst |- *. inversion Hfst as [[Hf Hfst']]. f_equal.
        + apply (path_entry s g p Hs Hk); [apply Hincl; now left|exact Hp|exact Hf].
        + apply IH; [intros g' Hg'; apply Hincl; now right|exact HF'|exact Hfst'].
    Qed.

    Lemma leaf_shape P : valid_path (map lev groups) P ->
      tshape (leafc (map fst P)) = map dimf Bs ++ map snd P ++ map dimf As /\
      length (tdata (leafc (map fst P))) = shape_size (tshape (leafc (map fst P))).
    Proof.
      intros HP. unfold leafc. destruct (lookup kkeq (map fst P) inner) as [a|] eqn:E.
      - destruct (inner_entry _ _ E) as (s & b & Hin & Hk & Hsk & ->).
        pose proof (In_secs G R x s b Hin) as Hs. unfold Fsrc. cbn [fst snd treshape tshape tdata]. split.
        + rewrite SL_eq, !map_app. f_equal; [|f_equal].
          * apply map_ext_in. intros g Hg. destruct (In_Bs_SL g Hg). now apply gsz_dimf_singlet.
          * symmetry. apply (path_sizes s Hs Hk groups P (incl_refl _) HP). now rewrite <- Hsk.
          * apply map_ext_in. intros g Hg. destruct (In_As_SL g Hg). now apply gsz_dimf_singlet.
        + unfold ttranspose. rewrite length_tdata_build, (tshape_perm' G R GL x groups Hwf Hg_rng s b Hin).
          rewrite shape_size_concat, map_map. reflexivity.
      - change (tshape (tzeros R ?sh)) with sh. split; [|unfold tzeros; apply length_tdata_build].
        pose proof (valid_path_length _ _ HP) as HlP. rewrite map_length in HlP.
        unfold concat_zero_shape. f_equal; [|f_equal].
        + rewrite map_map. apply map_ext_in. intros ax Hax. rewrite before_seq in Hax. apply in_seq in Hax.
          rewrite nth_NS by (rewrite length_SL; lia). rewrite nth_SL_before by lia. reflexivity.
        + rewrite enumerate_map, map_map. apply (map_enumerate_nth _ snd P ([], 0)). intros k Hk. cbn [fst snd].
          assert (Hkg : k < ng) by lia.
          assert (Hq : pos + k < length SL) by (rewrite length_SL; lia).
          rewrite (nth_NS _ Hq), (nth_nixs _ Hq), (nth_SL_group _ Hkg).
          pose proof (Forall2_nth _ _ _ [] ([], 0) HP k) as Hp. rewrite map_length in Hp. specialize (Hp Hkg).
          rewrite (nth_map_lt lev groups k []) in Hp by exact Hkg.
          set (g := nth k groups []) in *. set (p := nth k P ([], 0)) in *.
          unfold lev in Hp. destruct (is_singlet g) eqn:Es.
          * destruct Hp as [<-|[]]. reflexivity.
          * destruct (lev_facts s0 g Hs0 (nth_groups_In k Hkg) Es) as (e & He & _ & Hnd & _).
            rewrite He in Hp |- *. destruct p as [ss d]. cbn [fst snd].
            now rewrite (In_lookup keq (Hkq' G GL) _ _ _ Hnd Hp).
        + rewrite map_map. apply (map_enumerate_nth _ (fun ax => dimf [ax]) after 0). intros k Hk. cbn [fst snd].
          rewrite nth_NS by (rewrite length_SL; lia). rewrite nth_SL_after by exact Hk. reflexivity.
    Qed.

    Lemma Fshape_slots : Fshape G R x groups (NS s0) = map dimf SL.
    Proof. unfold Fshape. now rewrite (NS_eq' G R x groups), (block_shape_FI G R x). Qed.

    (* ---- an index of the fused block, located by the nest: path P, leaf index u ---- *)
    Section Located.
      Context (idx u : list nat) (P : list (list (C G) * nat)).
      Context (Hidx : inb (Fshape G R x groups (NS s0)) idx = true).
      Context (HP : valid_path (map lev groups) P).
      Context (Hu : inb (map dimf Bs ++ map snd P ++ map dimf As) u = true).
      Context (Hq : forall q, q < pos \/ pos + ng <= q -> nth q u 0 = nth q idx 0).
      Context (Hj : forall j, j < ng -> exists A B, lev (nth j groups []) = A ++ nth j P ([], 0) :: B /\
                      nth (pos + j) idx 0 = nsum (map snd A) + nth (pos + j) u 0).

      Lemma len_idx : length idx = length SL.
      Proof. rewrite (inb_length _ _ Hidx), Fshape_slots. apply map_length. Qed.

      Lemma len_P : length P = ng.
      Proof. rewrite (valid_path_length _ _ HP). apply map_length. Qed.

      Lemma len_u : length u = length SL.
      Proof.
        rewrite (inb_length _ _ Hu), !app_length, !map_length, len_P, length_SL.
        rewrite (length_before_pos G R x groups). lia.
      Qed.

      Lemma idx_lt q : q < length SL -> nth q idx 0 < dimf (nth q SL []).
      Proof.
        intros Hql. rewrite Fshape_slots in Hidx. apply (proj1 (inb_nth _ _)) in Hidx. destruct Hidx as [_ H].
        specialize (H q). rewrite map_length in H. specialize (H Hql).
        now rewrite (nth_map_lt dimf SL q []) in H by exact Hql.
      Qed.

      Lemma u_lt j : j < ng -> nth (pos + j) u 0 < snd (nth j P ([], 0)).
      Proof.
        intros Hjl. pose proof (proj1 (inb_nth _ _) Hu) as [_ H]. specialize (H (pos + j)).
        rewrite !app_length, !map_length, len_P, (length_before_pos G R x groups) in H. specialize (H ltac:(lia)).
        rewrite app_nth2 in H by (rewrite map_length, length_Bs; lia). rewrite map_length, length_Bs in H.
        replace (pos + j - pos) with j in H by lia.
        rewrite app_nth1 in H by (rewrite map_length, len_P; exact Hjl).
        now rewrite (nth_map_lt snd P j ([], 0)) in H by (rewrite len_P; exact Hjl).
      Qed.

      (* a slot outside the group block: full range, idx and u agree *)
      Lemma outer_slot s q : NS s = NS s0 -> q < length SL -> q < pos \/ pos + ng <= q ->
        fst (rng s (nth q SL [])) <= nth q idx 0 < fst (rng s (nth q SL [])) + snd (rng s (nth q SL [])) /\
        nth q idx 0 - fst (rng s (nth q SL [])) = nth q u 0.
      Proof.
        intros Hk Hql Hout. pose proof (idx_lt q Hql) as Hlt.
        assert (Hin : In (nth q SL []) SL) by now apply nth_In.
        assert (Es : is_singlet (nth q SL []) = true).
        { destruct (slot_at n groups q Hql) as [[Hr _]|[_ Hs]]; [|exact Hs].
          rewrite (length_before_pos G R x groups) in Hr. lia. }
        rewrite (rng_singlet s _ Es), (same_gc s _ Hk Hin). cbn [fst snd]. fold (dimf (nth q SL [])).
        rewrite (Hq q Hout). lia.
      Qed.

      (* a slot of the group block *)
      Lemma group_slot s j : In s secs -> NS s = NS s0 -> j < ng ->
        let g := nth j groups [] in
        let r := rng s g in
        (sub s g = fst (nth j P ([], 0)) ->
           fst r <= nth (pos + j) idx 0 < fst r + snd r /\ nth (pos + j) idx 0 - fst r = nth (pos + j) u 0) /\
        (sub s g <> fst (nth j P ([], 0)) -> ~ (fst r <= nth (pos + j) idx 0 < fst r + snd r)).
      Proof.
        intros Hs Hk Hjl g r. subst r.
        assert (Hg : In g groups) by now apply nth_groups_In.
        pose proof (same_gc s g Hk (In_groups_SL g Hg)) as Hc.
        destruct (Hj j Hjl) as (A & B & HAB & Hi). fold g in HAB.
        pose proof (u_lt j Hjl) as Hul.
        assert (Hql : pos + j < length SL) by (rewrite length_SL; lia).
        pose proof (idx_lt _ Hql) as Hil. rewrite (nth_SL_group j Hjl) in Hil. fold g in Hil.
        set (p := nth j P ([], 0)) in *.
        unfold lev in HAB. destruct (is_singlet g) eqn:Es.
        - apply singleton_split in HAB. destruct HAB as (-> & Hp & _).
          cbn [map nsum fold_right] in Hi.
          rewrite (rng_singlet s g Es), Hc. cbn [fst snd]. fold (dimf g).
          assert (Hsub : sub s g = fst p) by (rewrite Hp, (sub_singlet s g Es), Hc; reflexivity).
          split; [intros _; lia|intros Hne; contradiction].
        - destruct (lev_facts s g Hs Hg Es) as (e & He & Hlke & Hnd & _ & _).
          rewrite <- Hc, He in HAB.
          destruct (rng_facts s g Hs Hg Es) as (e' & st & Hlke' & Hlk & Hr).
          rewrite Hlke in Hlke'. inversion Hlke'. subst e'. clear Hlke'.
          rewrite Hr. cbn [fst snd].
          pose proof (ranges_from_split A B p 0) as Hin. rewrite <- HAB in Hin. cbn [Nat.add] in Hin.
          split.
          + intros Hsub. rewrite Hsub in Hlk.
            rewrite (In_lookup keq (Hkq' G GL) _ _ _ (ranges_NoDup 0 e Hnd) Hin) in Hlk.
            inversion Hlk as [[H1 H2]]. lia.
          + intros Hne. apply (lookup_In keq (Hkq' G GL)) in Hlk.
            destruct (ranges_disjoint 0 e _ _ _ _ _ _ Hnd Hlk Hin Hne); lia.
      Qed.

      Lemma Fsel_nth s b q : q < length SL -> nth q (Fsel G R x groups (s, b)) (0, 0) = rng s (nth q SL []).
      Proof. intros Hql. unfold Fsel. cbn [fst]. now apply nth_map_lt. Qed.

      Lemma Fsel_len s b : length (Fsel G R x groups (s, b)) = length SL.
      Proof. unfold Fsel. apply map_length. Qed.

      Lemma sub_nth s j : j < ng -> nth j (subkey_of G groups s) [] = sub s (nth j groups []).
      Proof. intros Hjl. unfold subkey_of. now apply nth_map_lt. Qed.

      (* the sub-block of s sits exactly where the path leads: idx is in its box, moved back it is u *)
      Lemma box_hit s b : In (s, b) (blocks G R x) -> NS s = NS s0 -> subkey_of G groups s = map fst P ->
        in_range (Fsel G R x groups (s, b)) idx = true /\ shift_idx (Fsel G R x groups (s, b)) idx = u.
      Proof.
        intros Hin Hk Hsk. pose proof (In_secs G R x s b Hin) as Hs.
        assert (Hslot : forall q, q < length SL ->
                  fst (rng s (nth q SL [])) <= nth q idx 0 < fst (rng s (nth q SL [])) + snd (rng s (nth q SL [])) /\
                  nth q idx 0 - fst (rng s (nth q SL [])) = nth q u 0).
        { intros q Hql. destruct (Nat.lt_ge_cases q pos) as [H1|H1]; [apply (outer_slot s q Hk Hql); now left|].
          destruct (Nat.lt_ge_cases q (pos + ng)) as [H2|H2]; [|apply (outer_slot s q Hk Hql); now right].
          replace q with (pos + (q - pos)) by lia. assert (Hjl : q - pos < ng) by lia.
          rewrite (nth_SL_group _ Hjl). apply (group_slot s (q - pos) Hs Hk Hjl).
          rewrite <- (sub_nth s _ Hjl), Hsk. apply nth_map_lt. now rewrite len_P. }
        split.
        - apply (proj2 (in_range_nth _ idx (eq_trans len_idx (eq_sym (Fsel_len s b))))).
          intros q Hql. rewrite Fsel_len in Hql. rewrite (Fsel_nth s b q Hql). apply (Hslot q Hql).
        - apply (nth_ext _ _ 0 0).
          + rewrite shift_idx_length by (rewrite Fsel_len; exact len_idx). now rewrite Fsel_len, len_u.
          + intros q Hql. rewrite shift_idx_length in Hql by (rewrite Fsel_len; exact len_idx).
            rewrite Fsel_len in Hql.
            rewrite shift_idx_nth by (rewrite ?Fsel_len; first [exact len_idx|exact Hql]).
            rewrite (Fsel_nth s b q Hql). apply (Hslot q Hql).
      Qed.

      (* a stored sector with another sub-sector key: idx is outside its box *)
      Lemma box_miss s b : In (s, b) (blocks G R x) -> NS s = NS s0 -> subkey_of G groups s <> map fst P ->
        in_range (Fsel G R x groups (s, b)) idx = false.
      Proof.
        intros Hin Hk Hne. pose proof (In_secs G R x s b Hin) as Hs.
        destruct (forallb (fun j => keq (sub s (nth j groups [])) (fst (nth j P ([], 0)))) (seq 0 ng)) eqn:E.
        - exfalso. apply Hne. apply (nth_ext _ _ [] []).
          + unfold subkey_of. now rewrite !map_length, len_P.
          + unfold subkey_of at 1. rewrite map_length. intros j Hjl. rewrite (sub_nth s j Hjl).
            rewrite (nth_map_lt fst P j ([], 0)) by (rewrite len_P; exact Hjl).
            rewrite forallb_forall in E. apply (Hkq' G GL). apply E. apply in_seq. lia.
        - apply forallb_false_ex in E. destruct E as (j & Hjs & Ef). apply in_seq in Hjs.
          assert (Hjl : j < ng) by lia.
          assert (Hsub : sub s (nth j groups []) <> fst (nth j P ([], 0))).
          { intros Heq. apply (Hkq' G GL) in Heq. congruence. }
          destruct (in_range (Fsel G R x groups (s, b)) idx) eqn:Er; [exfalso|reflexivity].
          pose proof (proj1 (in_range_nth _ idx (eq_trans len_idx (eq_sym (Fsel_len s b)))) Er) as Er'.
          assert (Hql : pos + j < length SL) by (rewrite length_SL; lia).
          specialize (Er' (pos + j)). rewrite Fsel_len in Er'. specialize (Er' Hql).
          rewrite (Fsel_nth s b _ Hql), (nth_SL_group j Hjl) in Er'.
          exact (proj2 (group_slot s j Hs Hk Hjl) Hsub Er').
      Qed.
    End Located.

    (* ---- the fused block of the concat strategy is the fused block of the insert strategy ---- *)
    Lemma levels_ne : Forall (fun E : list (list (C G) * nat) => E <> []) (map lev groups).
    Proof. apply Forall_forall. intros E HE. apply in_map_iff in HE. destruct HE as (g & <- & Hg). now apply lev_ne. Qed.

    Lemma length_SBs : length (map dimf Bs) = pos.
    Proof. rewrite map_length. apply length_Bs. Qed.

    Lemma sector_eq T : lookup keq (NS s0) (FBg G R x groups) = Some T ->
      recurse_concat G R ixs nixs groups inner (NS s0) groups 0 [] = T.
    Proof.
      intros HT. pose proof (recurse_eq_nest groups [] [] eq_refl) as Hrec. cbn [length] in Hrec. rewrite Hrec. clear Hrec.
      destruct (FBg_spec G R GL OL x groups Hwf Hg_ne Hg_nd Hg_rng) as (_ & _ & Sshape & Sown & Szero).
      destruct (Sshape _ _ HT) as [HTs HTd].
      destruct (nest_shape R leafc pos (map dimf Bs) (map dimf As) length_SBs (map lev groups) levels_ne leaf_shape
                  (map lev groups) [] [] eq_refl (Forall2_nil _)) as [Hns Hnd].
      cbn [length map app] in Hns, Hnd.
      assert (Htot : map tot (map lev groups) = map dimf groups).
      { rewrite map_map. apply map_ext_in. intros g Hg. now apply lev_tot. }
      rewrite Htot in Hns.
      apply tensor_ext.
      - now rewrite Hns, HTs, Fshape_eq.
      - exact Hnd.
      - now rewrite HTd, HTs.
      - intros idx Hinb. rewrite Hns in Hinb.
        destruct (nest_get R ([] : list (C G)) leafc pos (map dimf Bs) (map dimf As) length_SBs (map lev groups) levels_ne
                    leaf_shape (map lev groups) [] [] idx eq_refl (Forall2_nil _)) as (P & u & HP & Hget & Hu & Hq & Hj).
        { cbn [map app]. now rewrite Htot. }
        cbn [length map app] in Hget, Hu, Hq, Hj. rewrite Nat.add_0_r in Hq.
        rewrite map_length in Hq, Hj.
        assert (Hidx : inb (Fshape G R x groups (NS s0)) idx = true) by now rewrite Fshape_eq.
        assert (Hj' : forall j, j < ng -> exists A B, lev (nth j groups []) = A ++ nth j P ([], 0) :: B /\
                        nth (pos + j) idx 0 = nsum (map snd A) + nth (pos + j) u 0).
        { intros j Hjl. destruct (Hj j Hjl) as (A & B & HAB & Hi). exists A, B.
          rewrite (nth_map_lt lev groups j []) in HAB by exact Hjl. rewrite Nat.add_0_r in Hi. now split. }
        rewrite Hget. unfold leafc at 1. destruct (lookup kkeq (map fst P) inner) as [a|] eqn:E.
        + destruct (inner_entry _ _ E) as (s & b & Hin & Hk & Hsk & ->).
          destruct (box_hit idx u P Hidx HP Hu Hq Hj' s b Hin Hk Hsk) as [Hr Hsh].
          destruct (Sown _ Hin) as (T' & HT' & Hown). unfold Fkey in HT', Hown. cbn [fst] in HT', Hown.
          rewrite Hk, HT in HT'. inversion HT'. subst T'. rewrite Hk in Hown.
          now rewrite (Hown idx Hidx Hr), Hsh.
        + destruct (leaf_shape P HP) as [Hls _]. unfold leafc in Hls. rewrite E in Hls.
          change (tshape (tzeros R ?sh)) with sh in Hls.
          rewrite get_tzeros by (rewrite Hls; exact Hu).
          symmetry. apply (Szero _ _ idx HT Hidx). intros [s b] Hin Hk. unfold Fkey in Hk. cbn [fst] in Hk.
          apply (box_miss idx u P Hidx HP Hu Hq Hj' s b Hin Hk). intros Hsk.
          apply (inner_stored s b Hin Hk). now rewrite Hsk.
    Qed.
  End OneSector.

  (* ---- both dictionaries: the same keys in the same order, the same tensors ---- *)
  Lemma concat_keys :
    map fst (fuse_concat_blocks G R ixs nixs groups (blocks G R x)) = map fst (FBg G R x groups).
  Proof.
    unfold fuse_concat_blocks. rewrite map_map. cbn [fst].
    change (map (fun kv : list (C G) * list (list (list (C G)) * tensor R) => fst kv)) with
           (@map (list (C G) * list (list (list (C G)) * tensor R)) _ fst).
    unfold FBg. rewrite fuse_core_box. unfold concat_collect, box_fold.
    exact (fold_keys_same keq (Fkey G R x groups)
             (fun acc sb => dset kkeq (subkey_of G groups (fst sb)) (fuse_piece G R ixs groups sb)
                              (match lookup keq (Fkey G R x groups sb) acc with Some d => d | None => [] end))
             (fun acc sb => tassign R (match lookup keq (Fkey G R x groups sb) acc with
                                       | Some t => t
                                       | None => tzeros R (Fshape G R x groups (Fkey G R x groups sb)) end)
                              (Fsel G R x groups sb) (Fsrc G R x groups sb))
             (blocks G R x) [] [] eq_refl).
  Qed.

  Theorem concat_eq_insert_blocks :
    blocks G R (fuse_concat G R x groups) = blocks G R (fuse_core G R x groups).
  Proof.
    change (blocks G R (fuse_concat G R x groups)) with (fuse_concat_blocks G R ixs nixs groups (blocks G R x)).
    fold (FBg G R x groups).
    destruct (FBg_spec G R GL OL x groups Hwf Hg_ne Hg_nd Hg_rng) as (Snd & Skeys & _).
    apply (list_eq_by_keys (K := list (C G))); [exact concat_keys|exact Snd|].
    intros k Cc T HC HT. unfold fuse_concat_blocks in HC. apply in_map_iff in HC.
    destruct HC as ([k' inner] & Heq & Hin). cbn [fst snd] in Heq. inversion Heq. subst k' Cc. clear Heq.
    assert (Hk : In k (map fst (FBg G R x groups))) by (apply in_map_iff; exists (k, T); now split).
    apply Skeys in Hk. destruct Hk as ([s0 b0] & Hsb & Hkey). unfold Fkey in Hkey. cbn [fst] in Hkey. subst k.
    pose proof (In_secs G R x s0 b0 Hsb) as Hs0.
    assert (Hinner : lookup keq (NS s0) CC = Some inner).
    { apply (In_lookup keq (Hkq' G GL)); [|exact Hin]. rewrite CC_eq.
      apply (collect_spec keq (Hkq' G GL) kkeq Hkk). }
    apply (sector_eq s0 Hs0 inner Hinner T). now apply (In_lookup keq (Hkq' G GL)).
  Qed.

  Theorem concat_eq_insert : fuse_concat G R x groups = fuse_core G R x groups.
  Proof.
    pose proof concat_eq_insert_blocks as H. unfold fuse_concat, fuse_core in *. cbn [blocks] in H.
    f_equal. exact H.
  Qed.
End ConcatInsert.

(* ------------------------------------------------------------------ *)
(* the public front end: fuse( *groups, mode="concat") with empty groups expanded *)
Theorem a_fuse_concat_eq (G : Symmetry) (R : Ring) (GL : GroupLaws G) (OL : OrderLaws G)
  (x : aarray G R) (groups : list (list nat)) :
  wf_array G R x = true -> NoDup (concat groups) -> Forall (fun ax => ax < ndim G R x) (concat groups) ->
  a_fuse_concat G R x groups = a_fuse G R x groups.
Proof.
  intros Hwf Hnd Hrng. unfold a_fuse_concat, a_fuse.
  set (ne := filter (fun g : list nat => negb (is_nil g)) groups).
  assert (H : fuse_concat G R x ne = fuse_core G R x ne).
  { apply (concat_eq_insert G R GL OL x ne Hwf (nonnil_ne groups)).
    - subst ne. now rewrite concat_nonnil.
    - subst ne. rewrite concat_nonnil. exact Hrng. }
  destruct ne; [reflexivity|]. now rewrite H.
Qed.

(* ------------------------------------------------------------------ *)
(* Examples: the hypotheses hold on concrete non-trivial arrays; both have a
   leaf of the recursion that is NOT stored and is filled with zeros. *)
From SV Require Import Proofs.FuseGroupsWf.
Section ExConcat.
  Local Open Scope Z_scope.

  (* Z2 rank 4 (FuseProofs.ex4), two two-axis groups [[3;1];[0;2]]: the fused sector
     [0;0] has 2 x 2 sub-sector pairs but only three stored sub-blocks *)
  Example exA_concat_applies : fuse_concat Z2 ZRing ex4 gA = fuse_core Z2 ZRing ex4 gA.
  Proof.
    destruct exA_hyps as (H1 & H2 & H3 & H4).
    exact (concat_eq_insert Z2 ZRing Z2_laws Z2_order ex4 gA H1 H2 H3 H4).
  Qed.

  Example exA_missing_leaf :
    map (fun kv => (fst kv, length (snd kv))) (concat_collect Z2 ZRing (indices Z2 ZRing ex4) gA (blocks Z2 ZRing ex4))
      = [([0; 0], 3%nat); ([1; 1], 1%nat)] /\
    map (fun g => length (extent_of Z2 (fused_index Z2 (indices Z2 ZRing ex4) (sectors Z2 ZRing ex4) g) 0)) gA = [2%nat; 2%nat] /\
    aarray_eqb Z2 ZRing (fuse_concat Z2 ZRing ex4 gA) (fuse_core Z2 ZRing ex4 gA) = true /\
    blocks_eqb_strict Z2 ZRing (blocks Z2 ZRing (fuse_concat Z2 ZRing ex4 gA)) (blocks Z2 ZRing (fuse_core Z2 ZRing ex4 gA)) = true.
  Proof. repeat split; vm_compute; reflexivity. Qed.

  (* U1 rank 4 (FuseGroupsWf.ex5), an untouched axis, a single-axis group and a two-axis
     group [[2];[3;1]]: the fused sector [0;1;1] has two sub-sectors of the fused charge 1,
     one of them not stored next to the single-axis group's charge *)
  Example exB_concat_applies : fuse_concat U1 ZRing ex5 gB = fuse_core U1 ZRing ex5 gB.
  Proof.
    destruct exB_hyps as (H1 & H2 & H3 & H4).
    exact (concat_eq_insert U1 ZRing U1_laws U1_order ex5 gB H1 H2 H3 H4).
  Qed.

  Example exB_missing_leaf :
    map (fun kv => (fst kv, map fst (snd kv))) (concat_collect U1 ZRing (indices U1 ZRing ex5) gB (blocks U1 ZRing ex5))
      = [([0; 0; 0], [[[0]; [0; 0]]]); ([1; 0; 1], [[[0]; [0; 1]]; [[0]; [1; 0]]]); ([0; 1; 1], [[[1]; [0; 1]]])] /\
    map fst (extent_of U1 (fused_index U1 (indices U1 ZRing ex5) (sectors U1 ZRing ex5) [3; 1]%nat) 1) = [[0; 1]; [1; 0]] /\
    aarray_eqb U1 ZRing (fuse_concat U1 ZRing ex5 gB) (fuse_core U1 ZRing ex5 gB) = true /\
    a_fuse_concat U1 ZRing ex5 [[]; [3; 1]%nat; []] = a_fuse U1 ZRing ex5 [[]; [3; 1]%nat; []].
  Proof. repeat split; vm_compute; reflexivity. Qed.
End ExConcat.

(* ------------------------------------------------------------------ *)
(* corollaries in observable form *)
Section Corollaries.
  Context (G : Symmetry) (R : Ring) (GL : GroupLaws G) (OL : OrderLaws G).
  Context (x : aarray G R) (groups : list (list nat)).
  Context (Hwf : wf_array G R x = true).
  Context (Hg_ne : Forall (fun g => g <> []) groups) (Hg_nd : NoDup (concat groups))
          (Hg_rng : Forall (fun ax => ax < length (indices G R x)) (concat groups)).

  (* same indices, same charge, the same sectors in the same (insertion) order, and
     under every sector tensors of the same shape with the same data *)
  Theorem concat_eq_insert_observable :
    indices G R (fuse_concat G R x groups) = indices G R (fuse_core G R x groups) /\
    charge G R (fuse_concat G R x groups) = charge G R (fuse_core G R x groups) /\
    sectors G R (fuse_concat G R x groups) = sectors G R (fuse_core G R x groups) /\
    (forall k, lookup (list_eqb (ceqb G)) k (blocks G R (fuse_concat G R x groups)) =
               lookup (list_eqb (ceqb G)) k (blocks G R (fuse_core G R x groups))) /\
    (forall k Tc Ti, In (k, Tc) (blocks G R (fuse_concat G R x groups)) ->
                     In (k, Ti) (blocks G R (fuse_core G R x groups)) ->
                     tshape Tc = tshape Ti /\ tdata Tc = tdata Ti).
  Proof.
    rewrite (concat_eq_insert G R GL OL x groups Hwf Hg_ne Hg_nd Hg_rng).
    split; [reflexivity|]. split; [reflexivity|]. split; [reflexivity|]. split; [reflexivity|].
    intros k Tc Ti H1 H2.
    destruct (fuse_layout_groups_thm G R GL OL x groups Hwf Hg_ne Hg_nd Hg_rng) as (_ & _ & Hnd & _).
    assert (E : Tc = Ti).
    { pose proof (In_lookup (list_eqb (ceqb G)) (Hkq' G GL) _ _ _ Hnd H1) as L1.
      pose proof (In_lookup (list_eqb (ceqb G)) (Hkq' G GL) _ _ _ Hnd H2) as L2. congruence. }
    now subst.
  Qed.

  (* the layout theorem of the insert strategy (FuseGroups.fuse_layout_groups_thm), word for
     word, for the concat strategy: cut at the box of a stored sector the fused block is the
     transposed + reshaped sub-block, and it is zero outside all boxes *)
  Theorem concat_layout_groups :
    let ixs := indices G R x in
    let xf := fuse_concat G R x groups in
    let nixs := fused_indices G ixs (sectors G R x) groups in
    let perm := fuse_perm (length ixs) groups in
    indices G R xf = nixs /\ charge G R xf = charge G R x /\
    NoDup (sectors G R xf) /\
    (forall k, In k (sectors G R xf) <-> exists s, In s (sectors G R x) /\ fused_sector G ixs groups s = k) /\
    (forall k T, lookup (list_eqb (ceqb G)) k (blocks G R xf) = Some T ->
       tshape T = block_shape G nixs k /\ length (tdata T) = shape_size (tshape T)) /\
    (forall s b, In (s, b) (blocks G R x) ->
       exists T, lookup (list_eqb (ceqb G)) (fused_sector G ixs groups s) (blocks G R xf) = Some T /\
         tbox R T (fuse_selector G ixs nixs groups s) =
         treshape R (ttranspose R b perm) (fused_block_shape G ixs groups s)) /\
    (forall k T idx, lookup (list_eqb (ceqb G)) k (blocks G R xf) = Some T -> inb (tshape T) idx = true ->
       (forall s, In s (sectors G R x) -> fused_sector G ixs groups s = k ->
          in_range (fuse_selector G ixs nixs groups s) idx = false) ->
       get R T idx = r0 R).
  Proof.
    cbn zeta. rewrite (concat_eq_insert G R GL OL x groups Hwf Hg_ne Hg_nd Hg_rng).
    exact (fuse_layout_groups_thm G R GL OL x groups Hwf Hg_ne Hg_nd Hg_rng).
  Qed.
End Corollaries.
