(* Proofs/BinopGenProofs.v — property C08, translator tie of the block-level arithmetic.

   Gen/BinopGen.v is regenerated on every check from the CURRENT source of
   BlockBase._binary_blockwise_op, BlockBase.apply_to_arrays and the arithmetic
   dunder methods (tr/gen_binop.py).  Here:

   1. `binary_blockwise_op_gen` (the compiled loop nest over insertion-ordered
      association lists: pops, item assignment, del, update) EQUALS the hand model
      of Model/Arith.v for each `missing` policy, as Leibniz equality of the
      resulting association lists — the hand model fixes the block order (left
      order, then right-only blocks in right order), so this includes the order —
      on all block maps with duplicate-free keys (every Python dict):
        None     -> bin_strict,   Some "outer" -> Some (bin_outer ..),
        Some "inner" -> Some (bin_inner ..),  any other string -> the left operand unchanged.
      `apply_to_arrays_gen` equals `dict_map`.
      The first step of each proof is a conversion (`reflexivity`) between the
      generated text, specialised to the policy, and a reference loop written here;
      so the proofs survive any rewrite of the source whose translation is
      convertible (renamed locals, reordered elif chain, ...) and fail on others.
   2. the generated dunder tables equal the tables the hand model assumes
      (`model_dunder_table`, ...: decidable equality of finite lists).
   3. `a_dunder_gen name x y`: look the method up in the GENERATED table, run the
      GENERATED function with the policy found there and the block operator the
      table names.  It equals a_add / a_sub / a_mul of Model/Arith.v, so the C08
      value theorems hold for it. *)
From SV Require Import Base.Prelude Base.Sym Base.Tensor Model.Sectors Model.Array Model.Arith Model.Wf
  Gen.BinopGen Proofs.StructProofs Proofs.OrderProofs.
From Coq Require Import String.
Local Open Scope nat_scope.

(* ------------------------------------------------------------------ *)
(* list facts *)
Lemma forallb_ext_in {A} (f g : A -> bool) l : (forall a, In a l -> f a = g a) -> forallb f l = forallb g l.
Proof.
  induction l as [|a l IH]; intros H; cbn [forallb]; [reflexivity|].
  rewrite (H a) by (now left). rewrite IH; [reflexivity|]. intros b Hb. apply H. now right.
Qed.

Lemma flat_map_ext_in {A B} (f g : A -> list B) l : (forall a, In a l -> f a = g a) -> flat_map f l = flat_map g l.
Proof.
  induction l as [|a l IH]; intros H; cbn [flat_map]; [reflexivity|].
  rewrite (H a) by (now left). rewrite IH; [reflexivity|]. intros b Hb. apply H. now right.
Qed.

Lemma filter_all_true {A} (f : A -> bool) l : (forall a, In a l -> f a = true) -> filter f l = l.
Proof.
  induction l as [|a l IH]; intros H; cbn [filter]; [reflexivity|].
  rewrite (H a) by (now left). f_equal. apply IH. intros b Hb. apply H. now right.
Qed.

Lemma filter_filter {A} (f g : A -> bool) l : filter g (filter f l) = filter (fun a => f a && g a) l.
Proof.
  induction l as [|a l IH]; cbn [filter]; [reflexivity|].
  destruct (f a); cbn [filter andb]; [destruct (g a); now rewrite IH | exact IH].
Qed.

Lemma NoDup_map_filter' {A B} (g : A -> B) (f : A -> bool) l : NoDup (map g l) -> NoDup (map g (filter f l)).
Proof.
  induction l as [|a l IH]; cbn [map filter]; [trivial|]. intros H. inversion H as [|x y Hn Hd]. subst.
  destruct (f a); cbn [map]; [|now apply IH]. constructor; [|now apply IH].
  intros Hin. apply Hn. apply in_map_iff in Hin. destruct Hin as [b [Hb1 Hb2]]. apply filter_In in Hb2.
  rewrite <- Hb1. apply in_map. tauto.
Qed.

Lemma is_nil_filter_negb {A} (P : A -> bool) l : is_nil (filter (fun q => negb (P q)) l) = forallb P l.
Proof.
  induction l as [|a l IH]; cbn [filter forallb]; [reflexivity|].
  destruct (P a); cbn [negb andb is_nil]; [exact IH | reflexivity].
Qed.

(* ------------------------------------------------------------------ *)
(* Python dict updates on association lists with duplicate-free keys *)
Section DictLoops.
  Context {K V : Type} (ke : K -> K -> bool) (Hke : forall a b, ke a b = true <-> a = b).
  Notation dict := (list (K * V)).

  Lemma ke_neq a b : a <> b -> ke a b = false.
  Proof. intros H. destruct (ke a b) eqn:E; [apply Hke in E; contradiction | reflexivity]. Qed.

  Lemma ke_sym a b : ke a b = ke b a.
  Proof. apply bool_eq_iff. rewrite !Hke. split; intros H; now symmetry. Qed.

  Lemma lookup_mid pre k x (l : dict) : ~ In k (keys pre) -> lookup ke k (pre ++ (k, x) :: l) = Some x.
  Proof.
    intros H. rewrite (lookup_app ke). apply (proj2 (lookup_None ke Hke k pre)) in H. rewrite H.
    cbn [lookup]. now rewrite (ke_refl ke Hke).
  Qed.

  Lemma dset_mid pre k x v (l : dict) : ~ In k (keys pre) -> dset ke k v (pre ++ (k, x) :: l) = pre ++ (k, v) :: l.
  Proof.
    unfold keys. induction pre as [|[k' v'] pre IH]; cbn [app dset map fst In]; intros H.
    - now rewrite (ke_refl ke Hke).
    - rewrite ke_neq by (intros E; apply H; left; now symmetry). f_equal. apply IH. intros H1. apply H. now right.
  Qed.

  Lemma dpop_mid pre k x (l : dict) : ~ In k (keys pre) -> dpop ke k (pre ++ (k, x) :: l) = pre ++ l.
  Proof.
    unfold keys. induction pre as [|[k' v'] pre IH]; cbn [app dpop map fst In]; intros H.
    - now rewrite (ke_refl ke Hke).
    - rewrite ke_neq by (intros E; apply H; left; now symmetry). f_equal. apply IH. intros H1. apply H. now right.
  Qed.

  Lemma dset_notin k v (d : dict) : ~ In k (keys d) -> dset ke k v d = d ++ [(k, v)].
  Proof.
    unfold keys. induction d as [|[k' v'] d IH]; cbn [app dset map fst In]; intros H; [reflexivity|].
    rewrite ke_neq by (intros E; apply H; left; now symmetry). f_equal. apply IH. intros H1. apply H. now right.
  Qed.

  Lemma dpop_absent k (d : dict) : lookup ke k d = None -> dpop ke k d = d.
  Proof.
    induction d as [|[k' v'] d IH]; cbn [lookup dpop]; [reflexivity|].
    destruct (ke k k'); [discriminate|]. intros H. f_equal. now apply IH.
  Qed.

  Lemma lookup_dpop_other k k' (d : dict) : k <> k' -> lookup ke k (dpop ke k' d) = lookup ke k d.
  Proof.
    intros Hn. induction d as [|[k2 v2] d IH]; cbn [dpop lookup]; [reflexivity|].
    destruct (ke k' k2) eqn:E.
    - apply Hke in E. subst k2. now rewrite (ke_neq k k') by exact Hn.
    - cbn [lookup]. destruct (ke k k2); [reflexivity | exact IH].
  Qed.

  Lemma keys_dpop_incl k k' (d : dict) : In k (keys (dpop ke k' d)) -> In k (keys d).
  Proof.
    unfold keys. induction d as [|[k2 v2] d IH]; cbn [dpop map fst In]; [tauto|].
    destruct (ke k' k2); cbn [map fst In]; [now right|]. intros [H|H]; [now left | right; now apply IH].
  Qed.

  Lemma NoDup_dpop k (d : dict) : NoDup (keys d) -> NoDup (keys (dpop ke k d)).
  Proof.
    induction d as [|[k2 v2] d IH]; cbn [dpop]; [trivial|]. unfold keys. cbn [map fst]. intros H.
    inversion H as [|a b Hn Hd]. subst. destruct (ke k k2); [exact Hd|]. cbn [map fst]. constructor.
    - intros Hin. apply Hn. now apply (keys_dpop_incl k2 k d).
    - now apply IH.
  Qed.

  Lemma dpop_filter k (d : dict) : NoDup (keys d) -> dpop ke k d = filter (fun q => negb (ke k (fst q))) d.
  Proof.
    induction d as [|[k2 v2] d IH]; cbn [dpop filter fst]; [reflexivity|]. unfold keys. cbn [map fst]. intros H.
    inversion H as [|a b Hn Hd]. subst. destruct (ke k k2) eqn:E; cbn [negb].
    - apply Hke in E. subst k2. symmetry. apply filter_all_true. intros [k3 v3] H3. cbn [fst].
      rewrite ke_neq; [reflexivity|]. intros ->. apply Hn. change k3 with (fst (k3, v3)). now apply in_map.
    - f_equal. now apply IH.
  Qed.

  Lemma keys_map_snd {W} (h : K * V -> W) (d : dict) : keys (map (fun p => (fst p, h p)) d) = keys d.
  Proof. unfold keys. rewrite map_map. reflexivity. Qed.

  (* every key of l popped from ob, in l's order *)
  Definition popall (l ob : dict) : dict := fold_left (fun d p => dpop ke (fst p) d) l ob.

  Lemma popall_filter : forall (l ob : dict), NoDup (keys ob) ->
    popall l ob = filter (fun q => negb (dhas ke (fst q) l)) ob.
  Proof.
    induction l as [|[k x] l IH]; intros ob Hnd; cbn [popall fold_left fst].
    - symmetry. apply filter_all_true. reflexivity.
    - fold (popall l (dpop ke k ob)). rewrite IH by (now apply NoDup_dpop). rewrite dpop_filter by exact Hnd.
      rewrite filter_filter. apply filter_ext. intros [k2 v2]. cbn [fst]. unfold dhas. cbn [lookup].
      rewrite (ke_sym k k2). destruct (ke k2 k); reflexivity.
  Qed.

  Lemma py_update_app : forall (e d : dict), NoDup (keys e) -> (forall k, In k (keys e) -> ~ In k (keys d)) ->
    py_update ke d e = d ++ e.
  Proof.
    unfold py_update.
    induction e as [|[k v] e IH]; intros d Hnd Hdis; cbn [fold_left fst snd]; [now rewrite app_nil_r|].
    unfold keys in Hnd. cbn [map fst] in Hnd. inversion Hnd as [|a b Hn Hd]. subst.
    rewrite dset_notin by (apply Hdis; unfold keys; cbn [map fst In]; now left).
    rewrite IH; [now rewrite <- app_assoc | exact Hd |].
    intros k2 H2 Hin. unfold keys in Hin. rewrite map_app in Hin. apply in_app_or in Hin. destruct Hin as [Hin|Hin].
    - apply (Hdis k2); [unfold keys; cbn [map fst In]; now right | exact Hin].
    - cbn [map fst In] in Hin. destruct Hin as [<-|[]]. now apply Hn.
  Qed.

  (* ---------------- the reference loops ---------------- *)
  Definition upd (fn : V -> V -> V) (bo : dict) (p : K * V) : K * V :=
    match lookup ke (fst p) bo with Some t => (fst p, fn (snd p) t) | None => p end.
  Definition sel (fn : V -> V -> V) (bo : dict) (p : K * V) : dict :=
    match lookup ke (fst p) bo with Some t => [(fst p, fn (snd p) t)] | None => [] end.

  Definition strict_step (fn : V -> V -> V) : K * V -> dict * dict -> option (dict * dict) :=
    fun '(k, x) '(xy, ob) =>
      match lookup ke k ob with
      | Some o => Some (dset ke k (fn x o) xy, dpop ke k ob)
      | None => None
      end.
  Definition ref_strict (fn : V -> V -> V) (bx bo : dict) : option dict :=
    match py_for bx (strict_step fn) (bx, bo) with
    | Some (xy, ob) => if negb (is_nil ob) then None else Some xy
    | None => None
    end.

  Definition outer_step (fn : V -> V -> V) : K * V -> dict * dict -> option (dict * dict) :=
    fun '(k, x) '(xy, ob) =>
      if dhas ke k ob
      then match lookup ke k ob with
           | Some o => Some (dset ke k (fn x o) xy, dpop ke k ob)
           | None => None
           end
      else Some (dset ke k x xy, ob).
  Definition ref_outer (fn : V -> V -> V) (bx bo : dict) : option dict :=
    match py_for bx (outer_step fn) (bx, bo) with
    | Some (xy, ob) => Some (py_update ke xy ob)
    | None => None
    end.

  Definition inner_step (fn : V -> V -> V) : K * V -> dict * dict -> option (dict * dict) :=
    fun '(k, x) '(xy, ob) =>
      if dhas ke k ob
      then match lookup ke k ob with
           | Some o => Some (dset ke k (fn x o) xy, dpop ke k ob)
           | None => None
           end
      else match lookup ke k xy with
           | Some _ => Some (dpop ke k xy, ob)
           | None => None
           end.
  Definition ref_inner (fn : V -> V -> V) (bx bo : dict) : option dict :=
    match py_for bx (inner_step fn) (bx, bo) with
    | Some (xy, ob) => Some xy
    | None => None
    end.

  Definition ref_apply (fn : V -> V) (bx : dict) : option dict :=
    match py_for bx (fun '(k, a) d => Some (dset ke k (fn a) d)) bx with Some d => Some d | None => None end.

  (* the generated text, specialised to each policy, is convertible with the reference loop *)
  Lemma gen_is_ref_strict fn bx bo : binary_blockwise_op_gen ke fn None bx bo = ref_strict fn bx bo.
  Proof. reflexivity. Qed.
  Lemma gen_is_ref_outer fn bx bo : binary_blockwise_op_gen ke fn (Some "outer"%string) bx bo = ref_outer fn bx bo.
  Proof. reflexivity. Qed.
  Lemma gen_is_ref_inner fn bx bo : binary_blockwise_op_gen ke fn (Some "inner"%string) bx bo = ref_inner fn bx bo.
  Proof. reflexivity. Qed.
  Lemma gen_is_ref_apply fn bx : apply_to_arrays_gen ke fn bx = ref_apply fn bx.
  Proof. reflexivity. Qed.

  (* ---------------- what the loops compute ---------------- *)
  Lemma split_keys pre k x (l : dict) : NoDup (keys (pre ++ (k, x) :: l)) ->
    ~ In k (keys pre) /\ ~ In k (keys l) /\ NoDup (keys (pre ++ l)).
  Proof.
    unfold keys. rewrite !map_app. cbn [map fst]. intros H.
    pose proof (NoDup_remove_2 _ _ _ H) as H2. pose proof (NoDup_remove_1 _ _ _ H) as H1.
    repeat split; [intros Hin; apply H2, in_or_app; now left | intros Hin; apply H2, in_or_app; now right | exact H1].
  Qed.

  Lemma snoc_app (pre : dict) p l : pre ++ p :: l = (pre ++ [p]) ++ l.
  Proof. now rewrite <- app_assoc. Qed.

  Lemma keys_snoc (pre : dict) k x v l : keys ((pre ++ [(k, v)]) ++ l) = keys (pre ++ (k, x) :: l).
  Proof. unfold keys. rewrite <- app_assoc, !map_app. reflexivity. Qed.

  Lemma not_in_keys_neq k (l : dict) p : ~ In k (keys l) -> In p l -> fst p <> k.
  Proof. intros Hn Hp E. apply Hn. subst k. unfold keys. now apply in_map. Qed.

  Lemma upd_dpop fn k ob (l : dict) : ~ In k (keys l) -> map (upd fn (dpop ke k ob)) l = map (upd fn ob) l.
  Proof.
    intros Hn. apply map_ext_in. intros p Hp. unfold upd.
    now rewrite lookup_dpop_other by (now apply (not_in_keys_neq k l)).
  Qed.

  Lemma sel_dpop fn k ob (l : dict) : ~ In k (keys l) -> flat_map (sel fn (dpop ke k ob)) l = flat_map (sel fn ob) l.
  Proof.
    intros Hn. apply flat_map_ext_in. intros p Hp. unfold sel.
    now rewrite lookup_dpop_other by (now apply (not_in_keys_neq k l)).
  Qed.

  Lemma strict_loop fn : forall (l pre ob : dict), NoDup (keys (pre ++ l)) ->
    py_for l (strict_step fn) (pre ++ l, ob) =
    if forallb (fun p => dhas ke (fst p) ob) l
    then Some (pre ++ map (upd fn ob) l, popall l ob) else None.
  Proof.
    induction l as [|[k x] l IH]; intros pre ob Hnd.
    - cbn [py_for forallb map popall fold_left]. reflexivity.
    - destruct (split_keys _ _ _ _ Hnd) as [Hp [Hl Hnd']].
      cbn [py_for strict_step forallb map popall fold_left fst]. fold (popall l (dpop ke k ob)).
      unfold dhas at 1, upd at 1. cbn [fst snd].
      destruct (lookup ke k ob) as [o|] eqn:Eo; cbn [andb]; [|reflexivity].
      rewrite dset_mid by exact Hp. rewrite (snoc_app pre (k, fn x o) l).
      rewrite IH by (rewrite (keys_snoc pre k x); exact Hnd).
      rewrite upd_dpop by exact Hl.
      rewrite (forallb_ext_in (fun p => dhas ke (fst p) (dpop ke k ob)) (fun p => dhas ke (fst p) ob)).
      + destruct (forallb (fun p => dhas ke (fst p) ob) l); [|reflexivity]. now rewrite <- app_assoc.
      + intros p Hpin. unfold dhas. now rewrite lookup_dpop_other by (now apply (not_in_keys_neq k l)).
  Qed.

  Lemma outer_loop fn : forall (l pre ob : dict), NoDup (keys (pre ++ l)) ->
    py_for l (outer_step fn) (pre ++ l, ob) = Some (pre ++ map (upd fn ob) l, popall l ob).
  Proof.
    induction l as [|[k x] l IH]; intros pre ob Hnd.
    - reflexivity.
    - destruct (split_keys _ _ _ _ Hnd) as [Hp [Hl Hnd']].
      cbn [py_for outer_step map popall fold_left fst]. fold (popall l (dpop ke k ob)).
      unfold dhas at 1, upd at 1. cbn [fst snd].
      destruct (lookup ke k ob) as [o|] eqn:Eo.
      + rewrite dset_mid by exact Hp. rewrite (snoc_app pre (k, fn x o) l).
        rewrite IH by (rewrite (keys_snoc pre k x); exact Hnd).
        rewrite upd_dpop by exact Hl. now rewrite <- app_assoc.
      + rewrite dset_mid by exact Hp. rewrite (dpop_absent k ob Eo). rewrite (snoc_app pre (k, x) l).
        rewrite IH by (rewrite (keys_snoc pre k x); exact Hnd). now rewrite <- app_assoc.
  Qed.

  Lemma inner_loop fn : forall (l pre ob : dict), NoDup (keys (pre ++ l)) ->
    py_for l (inner_step fn) (pre ++ l, ob) = Some (pre ++ flat_map (sel fn ob) l, popall l ob).
  Proof.
    induction l as [|[k x] l IH]; intros pre ob Hnd.
    - reflexivity.
    - destruct (split_keys _ _ _ _ Hnd) as [Hp [Hl Hnd']].
      cbn [py_for inner_step flat_map popall fold_left fst]. fold (popall l (dpop ke k ob)).
      unfold dhas at 1, sel at 1. cbn [fst snd].
      destruct (lookup ke k ob) as [o|] eqn:Eo.
      + rewrite dset_mid by exact Hp. rewrite (snoc_app pre (k, fn x o) l).
        rewrite IH by (rewrite (keys_snoc pre k x); exact Hnd).
        rewrite sel_dpop by exact Hl. now rewrite <- app_assoc.
      + rewrite lookup_mid by exact Hp. rewrite dpop_mid by exact Hp. rewrite (dpop_absent k ob Eo).
        rewrite IH by exact Hnd'. reflexivity.
  Qed.

  Lemma apply_loop (fn : V -> V) : forall (l pre : dict), NoDup (keys (pre ++ l)) ->
    py_for l (fun '(k, a) d => Some (dset ke k (fn a) d)) (pre ++ l) = Some (pre ++ map (fun p => (fst p, fn (snd p))) l).
  Proof.
    induction l as [|[k x] l IH]; intros pre Hnd.
    - reflexivity.
    - destruct (split_keys _ _ _ _ Hnd) as [Hp [Hl Hnd']].
      cbn [py_for map fst snd]. rewrite dset_mid by exact Hp. rewrite (snoc_app pre (k, fn x) l).
      rewrite IH by (rewrite (keys_snoc pre k x); exact Hnd). now rewrite <- app_assoc.
  Qed.

  (* any other policy string: nothing is done *)
  Lemma gen_other_policy (fn : V -> V -> V) s (bx bo : dict) : s <> "outer"%string -> s <> "inner"%string ->
    binary_blockwise_op_gen ke fn (Some s) bx bo = Some bx.
  Proof.
    intros H1 H2. unfold binary_blockwise_op_gen. cbn [is_none opt_str_eqb].
    destruct (String.eqb s "outer") eqn:E1; [apply String.eqb_eq in E1; contradiction|].
    destruct (String.eqb s "inner") eqn:E2; [apply String.eqb_eq in E2; contradiction|].
    reflexivity.
  Qed.
End DictLoops.

(* ------------------------------------------------------------------ *)
(* the generated function against Model/Arith.v (blocks are tensors over a ring R) *)
Section AgainstModel.
  Context (R : Ring) {K : Type} (ke : K -> K -> bool) (Hke : forall a b, ke a b = true <-> a = b).
  Notation dict := (list (K * tensor R)).

  Theorem binop_gen_strict (fn : tensor R -> tensor R -> tensor R) (bx bo : dict) :
    NoDup (keys bx) -> NoDup (keys bo) ->
    binary_blockwise_op_gen ke fn None bx bo = bin_strict R ke fn bx bo.
  Proof.
    intros Hx Ho. rewrite gen_is_ref_strict. unfold ref_strict.
    pose proof (strict_loop ke Hke fn bx [] bo Hx) as HL. cbn [app] in HL. rewrite HL. unfold bin_strict.
    destruct (forallb (fun p => dhas ke (fst p) bo) bx); cbn [andb app]; [|reflexivity].
    rewrite (popall_filter ke Hke bx bo Ho), is_nil_filter_negb.
    destruct (forallb (fun q => dhas ke (fst q) bx) bo); reflexivity.
  Qed.

  Theorem binop_gen_outer (fn : tensor R -> tensor R -> tensor R) (bx bo : dict) :
    NoDup (keys bx) -> NoDup (keys bo) ->
    binary_blockwise_op_gen ke fn (Some "outer"%string) bx bo = Some (bin_outer R ke fn bx bo).
  Proof.
    intros Hx Ho. rewrite gen_is_ref_outer. unfold ref_outer.
    pose proof (outer_loop ke Hke fn bx [] bo Hx) as HL. cbn [app] in HL. rewrite HL. f_equal. unfold bin_outer.
    rewrite (popall_filter ke Hke bx bo Ho). apply (py_update_app ke Hke).
    - unfold keys. apply NoDup_map_filter'. exact Ho.
    - intros k Hk Hin. unfold keys in Hk, Hin. apply in_map_iff in Hk. destruct Hk as [q [<- Hq]].
      apply filter_In in Hq. destruct Hq as [_ Hq]. apply negb_true_iff in Hq.
      assert (Hx' : dhas ke (fst q) bx = true).
      { apply (dhas_In ke Hke). unfold keys. unfold upd in Hin. rewrite map_map in Hin.
        apply in_map_iff in Hin. destruct Hin as [p [Hp1 Hp2]]. rewrite <- Hp1.
        destruct (lookup ke (fst p) bo); cbn [fst]; now apply in_map. }
      rewrite Hx' in Hq. discriminate.
  Qed.

  Theorem binop_gen_inner (fn : tensor R -> tensor R -> tensor R) (bx bo : dict) :
    NoDup (keys bx) ->
    binary_blockwise_op_gen ke fn (Some "inner"%string) bx bo = Some (bin_inner R ke fn bx bo).
  Proof.
    intros Hx. rewrite gen_is_ref_inner. unfold ref_inner.
    pose proof (inner_loop ke Hke fn bx [] bo Hx) as HL. cbn [app] in HL. rewrite HL. reflexivity.
  Qed.

  Theorem apply_gen_dict_map (fn : tensor R -> tensor R) (bx : dict) :
    NoDup (keys bx) -> apply_to_arrays_gen ke fn bx = Some (dict_map R fn bx).
  Proof.
    intros Hx. rewrite gen_is_ref_apply. unfold ref_apply. pose proof (apply_loop ke Hke fn bx [] Hx) as HL. cbn [app] in HL. now rewrite HL.
  Qed.

  (* sectors surviving the elementwise product: exactly the shared ones *)
  Lemma keys_bin_inner (fn : tensor R -> tensor R -> tensor R) (bx bo : dict) k :
    In k (keys (bin_inner R ke fn bx bo)) <-> In k (keys bx) /\ In k (keys bo).
  Proof.
    unfold bin_inner, keys. rewrite in_map_iff. split.
    - intros [q [<- Hq]]. apply in_flat_map in Hq. destruct Hq as [p [Hp Hq]].
      destruct (lookup ke (fst p) bo) as [t|] eqn:Et; [|destruct Hq].
      destruct Hq as [<-|[]]. cbn [fst]. split; [now apply in_map|].
      apply (dhas_In ke Hke). unfold dhas. now rewrite Et.
    - intros [Hx Ho]. apply in_map_iff in Hx. destruct Hx as [p [<- Hp]].
      apply (dhas_In ke Hke) in Ho. unfold dhas in Ho.
      destruct (lookup ke (fst p) bo) as [t|] eqn:Et; [|discriminate].
      exists (fst p, fn (snd p) t). split; [reflexivity|]. apply in_flat_map. exists p. split; [exact Hp|].
      rewrite Et. now left.
  Qed.
End AgainstModel.

(* ------------------------------------------------------------------ *)
(* the generated dunder tables against the tables the hand model assumes *)
Local Open Scope string_scope.

Definition str_pair_eqb (a b : string * string) : bool := String.eqb (fst a) (fst b) && String.eqb (snd a) (snd b).
Definition opt_string_eqb (a b : option string) : bool :=
  match a, b with Some x, Some y => String.eqb x y | None, None => true | _, _ => false end.
Fixpoint action_eqb (a b : dunder_action) : bool :=
  match a, b with
  | DBinop o m i, DBinop o' m' i' => String.eqb o o' && opt_string_eqb m m' && Bool.eqb i i'
  | DMapScalar o r i, DMapScalar o' r' i' => String.eqb o o' && Bool.eqb r r' && Bool.eqb i i'
  | DMapUnary o i, DMapUnary o' i' => String.eqb o o' && Bool.eqb i i'
  | DNotImplemented, DNotImplemented => true
  | DRaise e, DRaise e' => String.eqb e e'
  | DReflect o, DReflect o' => String.eqb o o'
  | DGuard c y n, DGuard c' y' n' => String.eqb c c' && action_eqb y y' && action_eqb n n'
  | _, _ => false
  end.

(* what Model/Arith.v (a_add a_sub a_mul a_scale a_neg, v_add v_sub v_mul v_scale v_neg), Model/HeapOps.v
   (the in-place flags) and the C08 theorems assume about the arithmetic methods:
     x + y, x += y : blockwise add, one-sided blocks kept ("outer");  not defined for a non-block operand
     x - y, x -= y : blockwise sub, sector sets must coincide (None = raise)
     x * y, x *= y : blockwise mul, one-sided blocks dropped ("inner");  with a scalar: every block scaled
     x / y         : only between arrays of all-one shape (strict), else NotImplemented; x / s: every block
     x /= y        : NotImplemented for a block operand; x /= s scales in place
     -x            : every block negated, on a copy
   the i-variants work on self, the others on a copy. *)
Definition model_dunder_table : list (string * list (string * dunder_action)) :=
  [ ("__add__", [("BlockBase", DBinop "add" (Some "outer") false); ("", DRaise "NotImplementedError")]);
    ("__iadd__", [("BlockBase", DBinop "add" (Some "outer") true); ("", DRaise "NotImplementedError")]);
    ("__sub__", [("BlockBase", DBinop "sub" None false); ("", DRaise "NotImplementedError")]);
    ("__isub__", [("BlockBase", DBinop "sub" None true); ("", DRaise "NotImplementedError")]);
    ("__mul__", [("BlockBase", DBinop "mul" (Some "inner") false); ("", DMapScalar "mul" true false)]);
    ("__imul__", [("BlockBase", DBinop "mul" (Some "inner") true); ("", DMapScalar "mul" true true)]);
    ("__rmul__", [("", DReflect "mul")]);
    ("__truediv__", [("BlockBase", DGuard "self.shape == other.shape and all((_c1 == 1 for _c1 in self.shape))"
                                     (DBinop "truediv" None false) DNotImplemented);
                     ("", DMapScalar "truediv" true false)]);
    ("__itruediv__", [("BlockBase", DNotImplemented); ("", DMapScalar "truediv" true true)]);
    ("__neg__", [("", DMapUnary "neg" false)]) ].

Definition model_dunder_table_vector : list (string * list (string * dunder_action)) :=
  [ ("__add__", [("BlockVector", DBinop "add" (Some "outer") false); ("BlockBase", DNotImplemented);
                 ("", DMapScalar "add" true false)]);
    ("__iadd__", [("BlockVector", DBinop "add" (Some "outer") true); ("BlockBase", DNotImplemented);
                  ("", DMapScalar "add" true true)]);
    ("__sub__", [("BlockVector", DBinop "sub" None false); ("BlockBase", DNotImplemented);
                 ("", DMapScalar "sub" true false)]);
    ("__isub__", [("BlockVector", DBinop "sub" None true); ("BlockBase", DNotImplemented);
                  ("", DMapScalar "sub" true true)]);
    ("__mul__", [("BlockBase", DBinop "mul" (Some "inner") false); ("", DMapScalar "mul" true false)]);
    ("__imul__", [("BlockBase", DBinop "mul" (Some "inner") true); ("", DMapScalar "mul" true true)]);
    ("__rmul__", [("", DReflect "mul")]);
    ("__truediv__", [("BlockVector", DBinop "truediv" None false); ("BlockBase", DNotImplemented);
                     ("", DMapScalar "truediv" true false)]);
    ("__itruediv__", [("BlockVector", DBinop "truediv" None true); ("BlockBase", DNotImplemented);
                      ("", DMapScalar "truediv" true true)]);
    ("__neg__", [("", DMapUnary "neg" false)]) ].

Definition model_dunder_policy : list (string * (op_name * missing_policy * inplace_flag)) :=
  [ ("__add__", ("add", Some "outer", false));
    ("__iadd__", ("add", Some "outer", true));
    ("__sub__", ("sub", None, false));
    ("__isub__", ("sub", None, true));
    ("__mul__", ("mul", Some "inner", false));
    ("__imul__", ("mul", Some "inner", true));
    ("__truediv__", ("truediv", None, false)) ].

Definition model_dunder_policy_vector : list (string * (op_name * missing_policy * inplace_flag)) :=
  model_dunder_policy ++ [ ("__itruediv__", ("truediv", None, true)) ].

(* BlockVector tables its own dunders; a fermionic array first multiplies its pending signs in and then calls
   the translated method (C03 / C09 own that); nobody else redefines a translated name *)
Definition model_overrides : list (string * string) :=
  [ ("BlockVector", "__add__"); ("BlockVector", "__iadd__"); ("BlockVector", "__isub__");
    ("BlockVector", "__itruediv__"); ("BlockVector", "__sub__"); ("BlockVector", "__truediv__");
    ("FermionicArray", "_binary_blockwise_op") ].

Definition table_eqb (a b : list (string * list (string * dunder_action))) : bool :=
  list_eqb (pair_eqb String.eqb (list_eqb (pair_eqb String.eqb action_eqb))) a b.
Definition policy_eqb (a b : list (string * (op_name * missing_policy * inplace_flag))) : bool :=
  list_eqb (pair_eqb String.eqb (pair_eqb (pair_eqb String.eqb opt_string_eqb) Bool.eqb)) a b.

Lemma opt_string_eqb_eq a b : opt_string_eqb a b = true <-> a = b.
Proof.
  destruct a as [x|], b as [y|]; cbn [opt_string_eqb]; try (split; (discriminate || reflexivity)).
  rewrite String.eqb_eq. split; [now intros -> | intros H; now inversion H].
Qed.

Lemma bool_eqb_eq (a b : bool) : Bool.eqb a b = true <-> a = b.
Proof. destruct a, b; cbn; split; (reflexivity || discriminate). Qed.

Lemma pair_eqb_eq {A B} (ea : A -> A -> bool) (eb : B -> B -> bool) :
  (forall a b, ea a b = true <-> a = b) -> (forall a b, eb a b = true <-> a = b) ->
  forall x y, pair_eqb ea eb x y = true <-> x = y.
Proof.
  intros Ha Hb [a b] [a' b']. unfold pair_eqb. cbn [fst snd]. rewrite andb_true_iff, Ha, Hb.
  split; [intros [-> ->]; reflexivity | intros H; inversion H; auto].
Qed.

Lemma action_eqb_eq : forall a b, action_eqb a b = true <-> a = b.
Proof.
  induction a as [o m i|o r i|o i| |e|o|c y IHy n IHn]; intros [o' m' i'|o' r' i'|o' i'| |e'|o'|c' y' n'];
    cbn [action_eqb]; try (split; (discriminate || reflexivity));
    rewrite ?andb_true_iff, ?String.eqb_eq, ?opt_string_eqb_eq, ?bool_eqb_eq, ?IHy, ?IHn;
    (split; [intros H; decompose [and] H; subst; reflexivity | intros H; inversion H; auto]).
Qed.

Lemma table_eqb_eq a b : table_eqb a b = true <-> a = b.
Proof.
  apply list_eqb_eq. apply pair_eqb_eq; [exact String.eqb_eq|]. apply list_eqb_eq.
  apply pair_eqb_eq; [exact String.eqb_eq | exact action_eqb_eq].
Qed.

Lemma policy_eqb_eq a b : policy_eqb a b = true <-> a = b.
Proof.
  apply list_eqb_eq. apply pair_eqb_eq; [exact String.eqb_eq|]. apply pair_eqb_eq; [|exact bool_eqb_eq].
  apply pair_eqb_eq; [exact String.eqb_eq | exact opt_string_eqb_eq].
Qed.

Theorem dunder_table_is_model : dunder_table = model_dunder_table.
Proof. apply table_eqb_eq. vm_compute. reflexivity. Qed.
Theorem dunder_table_vector_is_model : dunder_table_vector = model_dunder_table_vector.
Proof. apply table_eqb_eq. vm_compute. reflexivity. Qed.
Theorem dunder_policy_is_model : dunder_policy = model_dunder_policy.
Proof. apply policy_eqb_eq. vm_compute. reflexivity. Qed.
Theorem dunder_policy_vector_is_model : dunder_policy_vector = model_dunder_policy_vector.
Proof. apply policy_eqb_eq. vm_compute. reflexivity. Qed.
Theorem binop_overrides_is_model : binop_overrides = model_overrides.
Proof.
  apply (list_eqb_eq (pair_eqb String.eqb String.eqb)); [apply pair_eqb_eq; exact String.eqb_eq|].
  vm_compute. reflexivity.
Qed.
Theorem binop_defaults_are_model :
  binop_default_missing = None /\ binop_default_inplace = false /\
  (forall inplace, binary_blockwise_op_result_is_self inplace = inplace).
Proof. repeat split. intros []; reflexivity. Qed.

(* the policy table is the block-array column of the full table *)
Fixpoint action_binop (a : dunder_action) : option (op_name * missing_policy * inplace_flag) :=
  match a with
  | DBinop o m i => Some (o, m, i)
  | DGuard _ y n => match action_binop y with Some r => Some r | None => action_binop n end
  | _ => None
  end.
Definition policy_of_table (t : list (string * list (string * dunder_action)))
  : list (string * (op_name * missing_policy * inplace_flag)) :=
  flat_map (fun row => match snd row with
                       | (g, a) :: _ => if String.eqb g "" then []
                                        else match action_binop a with Some r => [(fst row, r)] | None => [] end
                       | [] => []
                       end) t.
Theorem dunder_policy_from_table :
  dunder_policy = policy_of_table dunder_table /\ dunder_policy_vector = policy_of_table dunder_table_vector.
Proof. split; apply policy_eqb_eq; vm_compute; reflexivity. Qed.

(* ------------------------------------------------------------------ *)
(* arrays: a dunder method evaluated through the GENERATED table and the GENERATED function *)
Section ArrayDunder.
  Context (G : Symmetry) (HG : GroupLaws G) (R : Ring).
  Notation keq := (list_eqb (ceqb G)).
  Notation arr := (aarray G R).

  (* the numpy kernel behind operator.<name> on two blocks (Base/Tensor.v; tied by tie_prims) *)
  Definition block_op (op : op_name) : option (tensor R -> tensor R -> tensor R) :=
    if String.eqb op "add" then Some (tadd R)
    else if String.eqb op "sub" then Some (tsub R)
    else if String.eqb op "mul" then Some (tmul R)
    else None.

  Definition a_dunder_gen (name : string) (x y : arr) : option arr :=
    match lookup String.eqb name dunder_policy with
    | Some (op, missing, _) =>
      match block_op op with
      | Some f =>
        match binary_blockwise_op_gen keq f missing (blocks G R x) (blocks G R y) with
        | Some b => Some (with_blocks G R x b)
        | None => None
        end
      | None => None
      end
    | None => None
    end.

  Definition v_dunder_gen (name : string) (x y : bvec G R) : option (bvec G R) :=
    match lookup String.eqb name dunder_policy_vector with
    | Some (op, missing, _) =>
      match block_op op with
      | Some f => binary_blockwise_op_gen (ceqb G) f missing x y
      | None => None
      end
    | None => None
    end.

  Definition a_apply_gen (f : tensor R -> tensor R) (x : arr) : option arr :=
    match apply_to_arrays_gen keq f (blocks G R x) with Some b => Some (with_blocks G R x b) | None => None end.

  Lemma wf_nodup x : wf_array G R x = true -> NoDup (sectors G R x).
  Proof.
    unfold wf_array. rewrite !andb_true_iff. intros [[[_ _] H] _].
    apply (nodupb_NoDup keq (keq_eq G HG)). exact H.
  Qed.

  Theorem dunder_add_gen x y : NoDup (sectors G R x) -> NoDup (sectors G R y) ->
    a_dunder_gen "__add__" x y = Some (a_add G R x y) /\ a_dunder_gen "__iadd__" x y = Some (a_add G R x y).
  Proof.
    intros Hx Hy. unfold a_dunder_gen. rewrite dunder_policy_is_model. cbn [lookup model_dunder_policy String.eqb Ascii.eqb Bool.eqb block_op].
    unfold a_add. now rewrite (binop_gen_outer R keq (keq_eq G HG) (tadd R) _ _ Hx Hy).
  Qed.

  Theorem dunder_sub_gen x y : NoDup (sectors G R x) -> NoDup (sectors G R y) ->
    a_dunder_gen "__sub__" x y = a_sub G R x y /\ a_dunder_gen "__isub__" x y = a_sub G R x y.
  Proof.
    intros Hx Hy. unfold a_dunder_gen. rewrite dunder_policy_is_model. cbn [lookup model_dunder_policy String.eqb Ascii.eqb Bool.eqb block_op].
    unfold a_sub. now rewrite (binop_gen_strict R keq (keq_eq G HG) (tsub R) _ _ Hx Hy).
  Qed.

  Theorem dunder_mul_gen x y : NoDup (sectors G R x) ->
    a_dunder_gen "__mul__" x y = Some (a_mul G R x y) /\ a_dunder_gen "__imul__" x y = Some (a_mul G R x y).
  Proof.
    intros Hx. unfold a_dunder_gen. rewrite dunder_policy_is_model. cbn [lookup model_dunder_policy String.eqb Ascii.eqb Bool.eqb block_op].
    unfold a_mul. now rewrite (binop_gen_inner R keq (keq_eq G HG) (tmul R) _ _ Hx).
  Qed.

  Theorem vdunder_gen (x y : bvec G R) : NoDup (keys x) -> NoDup (keys y) ->
    v_dunder_gen "__add__" x y = Some (v_add G R x y) /\ v_dunder_gen "__iadd__" x y = Some (v_add G R x y) /\
    v_dunder_gen "__sub__" x y = v_sub G R x y /\ v_dunder_gen "__isub__" x y = v_sub G R x y /\
    v_dunder_gen "__mul__" x y = Some (v_mul G R x y) /\ v_dunder_gen "__imul__" x y = Some (v_mul G R x y).
  Proof.
    intros Hx Hy. unfold v_dunder_gen. rewrite dunder_policy_vector_is_model.
    cbn [lookup model_dunder_policy_vector model_dunder_policy app String.eqb Ascii.eqb Bool.eqb block_op].
    unfold v_add, v_sub, v_mul.
    rewrite (binop_gen_outer R (ceqb G) (ceqb_eq G HG) (tadd R) _ _ Hx Hy).
    rewrite (binop_gen_strict R (ceqb G) (ceqb_eq G HG) (tsub R) _ _ Hx Hy).
    rewrite (binop_gen_inner R (ceqb G) (ceqb_eq G HG) (tmul R) _ _ Hx).
    repeat split.
  Qed.

  Theorem apply_gen_scale_neg x s : NoDup (sectors G R x) ->
    a_apply_gen (tscale R s) x = Some (a_scale G R x s) /\ a_apply_gen (tneg R) x = Some (a_neg G R x).
  Proof.
    intros Hx. unfold a_apply_gen, a_scale, a_neg.
    now rewrite !(apply_gen_dict_map R keq (keq_eq G HG) _ _ Hx).
  Qed.

  (* ---- the two main value theorems of C08, through the generated table and function ---- *)
  Theorem add_gen_sem :
    (forall a, radd R (r0 R) a = a) -> (forall a, radd R a (r0 R) = a) ->
    forall (name : string) (x y z : arr) (cs : list (coord G)),
    name = "__add__" \/ name = "__iadd__" ->
    wf_array G R x = true -> NoDup (sectors G R y) -> coords_ok G (indices G R x) cs = true ->
    a_dunder_gen name x y = Some z ->
    sem G R z cs = radd R (sem G R x cs) (sem G R y cs).
  Proof.
    intros H0l H0r name x y z cs Hn Hw Hy Hc Hz.
    destruct (dunder_add_gen x y (wf_nodup x Hw) Hy) as [E1 E2].
    assert (Ez : z = a_add G R x y) by (destruct Hn; subst name; congruence).
    subst z. now apply add_sem.
  Qed.

  Theorem mul_gen_sem :
    (forall a, rmul R (r0 R) a = r0 R) -> (forall a, rmul R a (r0 R) = r0 R) ->
    forall (name : string) (x y z : arr) (cs : list (coord G)),
    name = "__mul__" \/ name = "__imul__" ->
    wf_array G R x = true -> coords_ok G (indices G R x) cs = true ->
    a_dunder_gen name x y = Some z ->
    sem G R z cs = rmul R (sem G R x cs) (sem G R y cs) /\
    (forall s, In s (sectors G R z) <-> In s (sectors G R x) /\ In s (sectors G R y)).
  Proof.
    intros H0l H0r name x y z cs Hn Hw Hc Hz.
    destruct (dunder_mul_gen x y (wf_nodup x Hw)) as [E1 E2].
    assert (Ez : z = a_mul G R x y) by (destruct Hn; subst name; congruence).
    subst z. split; [now apply mul_sem|].
    intros s. unfold sectors, a_mul, with_blocks. cbn [blocks].
    apply (keys_bin_inner R keq (keq_eq G HG)).
  Qed.

  Theorem sub_gen_sem :
    (forall a, radd R (r0 R) a = a) -> rneg R (r0 R) = r0 R ->
    forall (name : string) (x y : arr),
    name = "__sub__" \/ name = "__isub__" ->
    wf_array G R x = true -> NoDup (sectors G R y) ->
    (a_dunder_gen name x y = None <-> ~ (forall s, In s (sectors G R x) <-> In s (sectors G R y))) /\
    forall z cs, coords_ok G (indices G R x) cs = true -> a_dunder_gen name x y = Some z ->
      sem G R z cs = radd R (sem G R x cs) (rneg R (sem G R y cs)).
  Proof.
    intros H0l Hneg name x y Hn Hw Hy.
    destruct (dunder_sub_gen x y (wf_nodup x Hw) Hy) as [E1 E2].
    assert (E : a_dunder_gen name x y = a_sub G R x y) by (destruct Hn; subst name; assumption).
    rewrite E. split; [now apply sub_none|].
    intros z cs Hc Hz. now apply (sub_sem G HG R H0l Hneg x y z cs).
  Qed.
End ArrayDunder.

(* the hypotheses are satisfiable and the three policies differ: Z2-like keys, integer blocks *)
Example binop_gen_example :
  let t (n : Z) : tensor ZRing := @mkT ZRing [1%nat] [n] in
  let bx := [(1%Z, t 10%Z); (0%Z, t 20%Z); (2%Z, t 30%Z)] in
  let bo := [(3%Z, t 1%Z); (2%Z, t 2%Z); (1%Z, t 3%Z)] in
  let f := tadd ZRing in
  binary_blockwise_op_gen Z.eqb f (Some "outer") bx bo
    = Some [(1%Z, t 13%Z); (0%Z, t 20%Z); (2%Z, t 32%Z); (3%Z, t 1%Z)] /\
  binary_blockwise_op_gen Z.eqb f (Some "inner") bx bo = Some [(1%Z, t 13%Z); (2%Z, t 32%Z)] /\
  binary_blockwise_op_gen Z.eqb f None bx bo = None /\
  binary_blockwise_op_gen Z.eqb f None bx [(2%Z, t 2%Z); (0%Z, t 5%Z); (1%Z, t 3%Z)]
    = Some [(1%Z, t 13%Z); (0%Z, t 25%Z); (2%Z, t 32%Z)] /\
  NoDup (keys bx) /\ NoDup (keys bo).
Proof.
  cbv zeta. repeat split; try (vm_compute; reflexivity);
    unfold keys; cbn [map fst]; repeat constructor; cbn [In]; lia.
Qed.
