(* Proofs/OddposGenProofs.v — the function GENERATED from the current source of
   symmray/fermionic_core.py::resolve_combined_oddpos (Gen/OddposGen.v, by
   tr/gen_oddpos.py) equals the hand-written model of Model/Oddpos.v, for all
   label lists, both parity flags and every fuel; with fuel >= (length)^2 + 1
   (the bound `fuel_bound` of the hand model) it never runs out of fuel.  The
   label-level theorems of C04 are then re-stated for the generated function.

   The proofs never mention the bound names of the generated text and treat
   the arithmetic on `phase` / `i` semantically (closed computation after case
   analysis, `lia`), so behaviour-preserving rewrites of the source that keep
   the statement structure (e.g. `phase *= -1`, `i = i + 1`, renamed locals)
   still check; a semantic edit (a dropped sign, `a < b`, `i` instead of
   `max(0, i - 1)`, `== 0` instead of `== 1`) makes a step equation false. *)
From SV Require Import Base.Prelude Base.PyList Gen.OpOrder Gen.OddposGen Model.Graded Model.Oddpos
  Proofs.GradedProofs Proofs.OddposProofs.
From Coq Require Import Permutation Sorted Arith ZifyBool.
Open Scope nat_scope.

(* ============================ A. Python list primitives at a split point *)
Lemma py_nth_a {A} (d : A) (p : list A) (a : A) (q : list A) (z : Z) :
  z = Z.of_nat (length p) -> py_nth d (p ++ a :: q) z = a.
Proof.
  intros ->. unfold py_nth. destruct (Z.ltb_spec (Z.of_nat (length p)) 0) as [H|H]; [lia|].
  rewrite Nat2Z.id, app_nth2, Nat.sub_diag by lia. reflexivity.
Qed.

Lemma py_nth_b {A} (d : A) (p : list A) (a b : A) (q : list A) (z : Z) :
  z = (Z.of_nat (length p) + 1)%Z -> py_nth d (p ++ a :: b :: q) z = b.
Proof.
  intros E. replace (p ++ a :: b :: q) with ((p ++ [a]) ++ b :: q) by (rewrite <- app_assoc; reflexivity).
  apply py_nth_a. rewrite app_length. cbn [length]. lia.
Qed.

Lemma py_index_nat (n m : nat) : Z.to_nat (py_index (Z.of_nat n) (Z.of_nat m)) = m.
Proof. unfold py_index. destruct (Z.ltb_spec (Z.of_nat m) 0); lia. Qed.

Lemma firstn_split {A} (p q : list A) : firstn (length p) (p ++ q) = p.
Proof. rewrite firstn_app, Nat.sub_diag, firstn_all. cbn [firstn]. apply app_nil_r. Qed.

Lemma skipn_split {A} (p q : list A) : skipn (length p) (p ++ q) = q.
Proof. rewrite skipn_app, Nat.sub_diag, skipn_all. reflexivity. Qed.

Lemma py_pop_a {A} (p : list A) (a : A) (q : list A) (z : Z) :
  z = Z.of_nat (length p) -> py_pop (p ++ a :: q) z = p ++ q.
Proof.
  intros ->. unfold py_pop. rewrite py_index_nat, firstn_split.
  replace (S (length p)) with (length (p ++ [a])) by (rewrite app_length; cbn [length]; lia).
  replace (p ++ a :: q) with ((p ++ [a]) ++ q) by (rewrite <- app_assoc; reflexivity).
  rewrite skipn_split. reflexivity.
Qed.

Lemma py_set_a {A} (p : list A) (a : A) (q : list A) (z : Z) (v : A) :
  z = Z.of_nat (length p) -> py_set (p ++ a :: q) z v = p ++ v :: q.
Proof.
  intros ->. unfold py_set. rewrite py_index_nat, firstn_split.
  replace (S (length p)) with (length (p ++ [a])) by (rewrite app_length; cbn [length]; lia).
  replace (p ++ a :: q) with ((p ++ [a]) ++ q) by (rewrite <- app_assoc; reflexivity).
  rewrite skipn_split. reflexivity.
Qed.

Lemma py_set_b {A} (p : list A) (a b : A) (q : list A) (z : Z) (v : A) :
  z = (Z.of_nat (length p) + 1)%Z -> py_set (p ++ a :: b :: q) z v = p ++ a :: v :: q.
Proof.
  intros E. replace (p ++ a :: b :: q) with ((p ++ [a]) ++ b :: q) by (rewrite <- app_assoc; reflexivity).
  rewrite py_set_a by (rewrite app_length; cbn [length]; lia). rewrite <- app_assoc. reflexivity.
Qed.

Lemma py_del_slice_ab {A} (p : list A) (a b : A) (q : list A) (z1 z2 : Z) :
  z1 = Z.of_nat (length p) -> z2 = (Z.of_nat (length p) + 2)%Z ->
  py_del_slice (p ++ a :: b :: q) z1 z2 = p ++ q.
Proof.
  intros -> ->. unfold py_del_slice, py_clamp. rewrite app_length. cbn [length].
  destruct (Z.ltb_spec (Z.of_nat (length p)) 0) as [H|H]; [lia|].
  destruct (Z.ltb_spec (Z.of_nat (length p) + 2) 0) as [H2|H2]; [lia|].
  replace (Z.to_nat (Z.min (Z.of_nat (length p)) (Z.of_nat (length p + S (S (length q)))))) with (length p) by lia.
  replace (Z.to_nat _) with (length (p ++ [a; b])) by (rewrite app_length; cbn [length]; lia).
  rewrite firstn_split.
  replace (p ++ a :: b :: q) with ((p ++ [a; b]) ++ q) by (rewrite <- app_assoc; reflexivity).
  rewrite skipn_split. reflexivity.
Qed.

Lemma split_at2 {A} (l : list A) (i : nat) : i + 1 < length l ->
  exists p a b q, l = p ++ a :: b :: q /\ length p = i.
Proof.
  intros H. exists (firstn i l).
  destruct (skipn i l) as [|a [|b q]] eqn:E.
  - apply (f_equal (@length A)) in E. rewrite skipn_length in E. cbn [length] in E. lia.
  - apply (f_equal (@length A)) in E. rewrite skipn_length in E. cbn [length] in E. lia.
  - exists a, b, q. split; [rewrite <- E; symmetry; apply firstn_skipn | apply firstn_length_le; lia].
Qed.

Lemma idx_parts_fwd (p : list op) (a b : op) (q : list op) :
  nth_error (p ++ a :: b :: q) (length p) = Some a
  /\ nth_error (p ++ a :: b :: q) (length p + 1) = Some b
  /\ firstn (length p) (p ++ a :: b :: q) = p
  /\ skipn (length p + 2) (p ++ a :: b :: q) = q.
Proof.
  pose proof (idx_parts (rev p) a b q) as H. rewrite rev_involutive, rev_length in H. exact H.
Qed.

Lemma phase_of_flag (s : bool) : Z.eqb (phase_of s) (-1) = s.
Proof. destruct s; reflexivity. Qed.

Lemma odd_mod_1 (n : nat) : Z.eqb (Z.of_nat n mod 2) 1 = Nat.odd n.
Proof.
  rewrite <- nat_odd_Z, (Zmod_odd (Z.of_nat n)). destruct (Z.odd (Z.of_nat n)); reflexivity.
Qed.

Lemma triple_eq {A B C} (a a' : A) (b b' : B) (c c' : C) :
  a = a' -> b = b' -> c = c' -> Some (a, b, c) = Some (a', b', c').
Proof. intros -> -> ->. reflexivity. Qed.

(* ===================== B. one step of the generated loop body and its test *)
(* rewriting of the Python list primitives at the split point p ++ a :: b :: q *)
Ltac py_lists :=
  repeat match goal with
  | |- context [py_nth ?d (?p ++ ?a :: ?b :: ?q) ?z] =>
      first [ rewrite (py_nth_a d p a (b :: q) z) by lia | rewrite (py_nth_b d p a b q z) by lia ]
  | |- context [py_pop (?p ++ ?a :: ?q) ?z] => rewrite (py_pop_a p a q z) by lia
  | |- context [py_del_slice (?p ++ ?a :: ?b :: ?q) ?z1 ?z2] => rewrite (py_del_slice_ab p a b q z1 z2) by lia
  | |- context [py_set (?p ++ ?a :: ?b :: ?q) ?z ?v] =>
      first [ rewrite (py_set_a p a (b :: q) z v) by lia | rewrite (py_set_b p a b q z v) by lia ]
  end.

(* the state of the generated loop: (oddpos, phase, i) *)
Definition gen_state (l : list op) (s : bool) (i : nat) : list op * Z * Z := (l, phase_of s, Z.of_nat i).

Lemma gen_cond (l : list op) (s : bool) (i : nat) :
  resolve_combined_oddpos_loop1_cond (gen_state l s i) = Nat.ltb (i + 1) (length l).
Proof.
  unfold resolve_combined_oddpos_loop1_cond, gen_state. cbv beta iota zeta. unfold op, label in *.
  destruct (Nat.ltb_spec (i + 1) (length l)) as [H|H].
  - match goal with |- ?c = true => destruct c eqn:E; [reflexivity|exfalso] end. lia.
  - match goal with |- ?c = false => destruct c eqn:E; [exfalso|reflexivity] end. lia.
Qed.

Lemma gen_body (p : list op) (a b : op) (q : list op) (s : bool) :
  resolve_combined_oddpos_loop1_body (gen_state (p ++ a :: b :: q) s (length p))
  = if label_eqb (fst a) (fst b) then
      if negb (Bool.eqb (snd a) (snd b))
      then Some (gen_state (p ++ q) (if snd b then negb s else s) (Nat.pred (length p)))
      else None
    else if op_lt b a
      then Some (gen_state (p ++ b :: a :: q) (negb s) (Nat.pred (length p)))
      else Some (gen_state (p ++ a :: b :: q) s (S (length p))).
Proof.
  unfold resolve_combined_oddpos_loop1_body, gen_state, label_eqb. cbv beta iota zeta.
  unfold op, label in *. py_lists.
  destruct a as [la da], b as [lb db]. cbn [fst snd].
  destruct (list_eqb Z.eqb la lb); destruct da; destruct db;
    repeat match goal with |- context [op_lt ?x ?y] => destruct (op_lt x y) end;
    destruct s; cbn [Bool.eqb negb fst snd]; cbv beta iota zeta; py_lists;
    first [ reflexivity | apply triple_eq; [reflexivity | reflexivity | lia] ].
Qed.

(* ============================= C. the generated loop is the index-form loop *)
Lemma gen_loop_idx (fuel : nat) : forall (s : bool) (i : nat) (l : list op),
  match while_fuel resolve_combined_oddpos_loop1_cond resolve_combined_oddpos_loop1_body fuel (gen_state l s i) with
  | LoopOutOfFuel => resolve_idx fuel s i l = OutOfFuel
  | LoopRaise => resolve_idx fuel s i l = Raise
  | LoopExit st => exists l' s' i', st = gen_state l' s' i' /\ resolve_idx fuel s i l = Done s' l'
  end.
Proof.
  induction fuel as [|fuel IH]; intros s i l.
  - cbn [while_fuel resolve_idx]. rewrite gen_cond. destruct (Nat.ltb (i + 1) (length l)); [reflexivity|].
    exists l, s, i. split; reflexivity.
  - cbn [while_fuel resolve_idx]. rewrite gen_cond. destruct (Nat.ltb_spec (i + 1) (length l)) as [H|H].
    + destruct (split_at2 l i H) as [p [a [b [q [-> <-]]]]].
      rewrite gen_body.
      destruct (idx_parts_fwd p a b q) as [E1 [E2 [E3 E4]]]. rewrite E1, E2, E3, E4.
      destruct (label_eqb (fst a) (fst b)).
      * destruct (negb (Bool.eqb (snd a) (snd b))); [apply IH | reflexivity].
      * destruct (op_lt b a); apply IH.
    + exists l, s, i. split; reflexivity.
Qed.

(* ====================================== D. the whole generated function *)
Definition gen_to_result (g : gen_result) : result :=
  match g with GenOutOfFuel => OutOfFuel | GenRaise => Raise | GenDone s w => Done s w end.

(* same fuel convention on both sides: equality for EVERY fuel, including the out-of-fuel answer *)
Theorem gen_eq_idx (fuel : nat) (l r : list op) (p : bool) :
  gen_to_result (resolve_combined_oddpos_gen fuel l r p)
  = if is_nil l && is_nil r then Done false []
    else resolve_idx fuel (p && Nat.odd (length r)) 0 (l ++ r).
Proof.
  unfold resolve_combined_oddpos_gen. cbv beta iota zeta. unfold op, label in *.
  match goal with
  | |- gen_to_result (if ?c then _ else _) = _ =>
      replace c with (is_nil l && is_nil r) by (destruct l, r; reflexivity)
  end.
  destruct (is_nil l && is_nil r); [reflexivity|].
  pose proof (gen_loop_idx fuel (p && Nat.odd (length r)) 0 (l ++ r)) as G. unfold gen_state in G.
  match goal with
  | |- context [while_fuel _ _ _ (_, ?ph, ?i0)] =>
      replace ph with (phase_of (p && Nat.odd (length r)));
      [ replace i0 with (Z.of_nat 0) by reflexivity
      | rewrite <- nat_odd_Z, ?Zmod_odd; destruct p; destruct (Z.odd _); reflexivity ]
  end.
  unfold op, label in *.
  destruct (while_fuel _ _ _ _) as [| |st]; cbn [gen_to_result]; try (symmetry; exact G).
  destruct G as [l' [s' [i' [-> G]]]]. rewrite G. cbv beta iota zeta. destruct s'; reflexivity.
Qed.

Lemma resolve_loop_mono (f : nat) : forall (f' : nat) (s : bool) (pre suf : list op),
  f <= f' -> resolve_loop f s pre suf <> OutOfFuel -> resolve_loop f' s pre suf = resolve_loop f s pre suf.
Proof.
  induction f as [|f IH]; intros f' s pre suf HL HN.
  - destruct suf as [|a [|b rest]]; destruct f'; cbn [resolve_loop] in *; try reflexivity; congruence.
  - destruct f' as [|f']; [lia|].
    destruct suf as [|a [|b rest]]; cbn [resolve_loop] in *; try reflexivity.
    destruct (label_eqb (fst a) (fst b)).
    + destruct (negb (Bool.eqb (snd a) (snd b))); [|reflexivity].
      destruct pre as [|q pre']; apply IH; (lia || exact HN).
    + destruct (op_lt b a).
      * destruct pre as [|q pre']; apply IH; (lia || exact HN).
      * apply IH; (lia || exact HN).
Qed.

Lemma idx_enough_fuel (fuel : nat) (s : bool) (w : list op) :
  fuel_bound (length w) <= fuel ->
  resolve_idx fuel s 0 w = resolve_loop (fuel_bound (length w)) s [] w
  /\ resolve_idx fuel s 0 w <> OutOfFuel.
Proof.
  intros HF.
  assert (T : forall f, fuel_bound (length w) <= f -> resolve_loop f s [] w <> OutOfFuel).
  { intros f Hf. apply loop_terminates. unfold potential, fuel_bound in *. cbn [rev app].
    pose proof (op_inv_bound w). lia. }
  pose proof (resolve_idx_loop fuel s [] w) as E. cbn [length rev app] in E. rewrite E. split.
  - apply resolve_loop_mono; [exact HF | apply T; lia].
  - apply T, HF.
Qed.

(* the generated function equals the hand model whenever it is given at least the hand model's fuel *)
Theorem gen_eq_model (fuel : nat) (l r : list op) (p : bool) :
  fuel_bound (length (l ++ r)) <= fuel ->
  gen_to_result (resolve_combined_oddpos_gen fuel l r p) = resolve_raw l r p.
Proof.
  intros HF. rewrite gen_eq_idx. unfold resolve_raw.
  destruct (is_nil l && is_nil r); [reflexivity|].
  apply (idx_enough_fuel fuel _ (l ++ r) HF).
Qed.

Theorem gen_option_eq_model (fuel : nat) (l r : list op) (p : bool) :
  fuel_bound (length (l ++ r)) <= fuel ->
  gen_result_option (resolve_combined_oddpos_gen fuel l r p) = resolve l r p.
Proof.
  intros HF. unfold resolve. rewrite <- (gen_eq_model fuel l r p HF).
  destruct (resolve_combined_oddpos_gen fuel l r p); reflexivity.
Qed.

Theorem gen_terminates (fuel : nat) (l r : list op) (p : bool) :
  fuel_bound (length (l ++ r)) <= fuel ->
  resolve_combined_oddpos_gen fuel l r p <> GenOutOfFuel.
Proof.
  intros HF E. apply (resolve_terminates l r p). rewrite <- (gen_eq_model fuel l r p HF), E. reflexivity.
Qed.

(* ---- the function the corollaries speak about: the generated term with the bound as fuel ---- *)
Definition resolve_gen (l r : list op) (p : bool) : option (bool * list op) :=
  gen_result_option (resolve_combined_oddpos_gen (fuel_bound (length (l ++ r))) l r p).

Lemma resolve_gen_eq (l r : list op) (p : bool) : resolve_gen l r p = resolve l r p.
Proof. apply gen_option_eq_model. apply Nat.le_refl. Qed.

(* more fuel never changes the answer *)
Theorem gen_fuel_irrelevant (fuel : nat) (l r : list op) (p : bool) :
  fuel_bound (length (l ++ r)) <= fuel ->
  gen_result_option (resolve_combined_oddpos_gen fuel l r p) = resolve_gen l r p.
Proof. intros HF. rewrite resolve_gen_eq. apply gen_option_eq_model, HF. Qed.

(* ============================ E. the label-level theorems, for the generated function *)
Theorem gen_distinct (fuel : nat) (l r : list op) (p : bool) :
  fuel_bound (length (l ++ r)) <= fuel -> distinct (l ++ r) ->
  exists w, gen_result_option (resolve_combined_oddpos_gen fuel l r p)
            = Some (xorb (p && Nat.odd (length r)) (Nat.odd (op_inv (l ++ r))), w)
            /\ Sorted lt_op w /\ Permutation w (l ++ r).
Proof. intros HF HD. rewrite (gen_option_eq_model fuel l r p HF). apply resolve_distinct, HD. Qed.

Theorem gen_spec (fuel : nat) (l r : list op) (p : bool) (s : bool) (w : list op) :
  fuel_bound (length (l ++ r)) <= fuel ->
  gen_result_option (resolve_combined_oddpos_gen fuel l r p) = Some (s, w) ->
  Sorted lt_op w /\ rws (p && Nat.odd (length r), l ++ r) (s, w).
Proof. intros HF. rewrite (gen_option_eq_model fuel l r p HF). apply resolve_spec. Qed.

Theorem gen_assoc (a b c : list op) (pa pb : bool) :
  distinct (a ++ b ++ c) ->
  exists s1 ab s2 t1 bc t2 abc,
    resolve_gen a b pa = Some (s1, ab) /\ resolve_gen ab c (xorb pa pb) = Some (s2, abc) /\
    resolve_gen b c pb = Some (t1, bc) /\ resolve_gen a bc pa = Some (t2, abc) /\
    xorb s1 s2 = xorb t1 t2 /\
    Sorted lt_op abc /\ Permutation abc (a ++ b ++ c).
Proof.
  intros HD. destruct (resolve_assoc a b c pa pb HD) as [s1 [ab [s2 [t1 [bc [t2 [abc H]]]]]]].
  exists s1, ab, s2, t1, bc, t2, abc. rewrite !resolve_gen_eq. exact H.
Qed.

Theorem gen_swap (a b : list op) (pa pb : bool) :
  distinct (a ++ b) ->
  exists s t w,
    resolve_gen a b pa = Some (s, w) /\ resolve_gen b a pb = Some (t, w) /\
    xorb s t = xorb (xorb (pa && Nat.odd (length b)) (pb && Nat.odd (length a)))
                    (Nat.odd (length a) && Nat.odd (length b)).
Proof.
  intros HD. destruct (resolve_swap a b pa pb HD) as [s [t [w H]]].
  exists s, t, w. rewrite !resolve_gen_eq. exact H.
Qed.

(* ---- the hypotheses are satisfiable / the statements are not vacuous ---- *)
Example gen_ex_sort :
  resolve_combined_oddpos_gen 37 [([3%Z], false); ([1%Z], true); ([5%Z], false)]
                                 [([2%Z], false); ([3%Z], true); ([4%Z], false)] true
  = GenDone true [([1%Z], true); ([2%Z], false); ([4%Z], false); ([5%Z], false)]
  /\ fuel_bound (length ([([3%Z], false); ([1%Z], true); ([5%Z], false)]
                         ++ [([2%Z], false); ([3%Z], true); ([4%Z], false)])) = 37.
Proof. split; reflexivity. Qed.

(* the fuel hypothesis matters: with too little fuel the generated function says so *)
Example gen_ex_out_of_fuel :
  resolve_combined_oddpos_gen 3 [([3%Z], false); ([1%Z], true); ([5%Z], false)]
                                [([2%Z], false); ([3%Z], true); ([4%Z], false)] true = GenOutOfFuel.
Proof. reflexivity. Qed.

Example gen_ex_raise :
  resolve_combined_oddpos_gen 5 [([1%Z], false)] [([1%Z], false)] false = GenRaise.
Proof. reflexivity. Qed.

Example gen_ex_empty : resolve_combined_oddpos_gen 0 [] [] true = GenDone false [].
Proof. reflexivity. Qed.

Example gen_ex_distinct :
  distinct ([([3%Z], false); ([5%Z], false)] ++ [([2%Z], false); ([4%Z], true)]).
Proof. unfold distinct. cbn. repeat constructor; cbn; intuition discriminate. Qed.
