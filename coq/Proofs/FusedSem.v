(* Proofs/FusedSem.v -- property C06: the fused contraction strategy computes the
   same coordinate semantics as the blockwise one.  Built on the multi-group fuse
   results of Proofs/FuseGroups.v (coordinate semantics of fuse_core and of one
   a_unfuse step), the blockwise value theorem of Proofs/Tdot.v and the alignment
   results of Proofs/FusedProofs.v. *)
From SV Require Import Base.Prelude Base.Sym Base.Tensor Model.Sectors Model.Array Model.Arith Model.Fermi
  Model.Wf Model.Valid Model.Fused Model.SymInst
  Proofs.FuseTensor Proofs.FuseProofs Proofs.SymLaws Proofs.GroupFacts Proofs.SectorsProofs Proofs.OrderProofs
  Proofs.TensorProofs Proofs.StructProofs Proofs.Tdot Proofs.WfProofs Proofs.FuseGroups Proofs.FuseGroupsWf
  Proofs.FusedProofs.
From Coq Require Import Permutation Sorting Lia.
Local Open Scope nat_scope.

(* ------------------------------------------------------------------ *)
(* Part A: finite sums *)
Section SumsMore.
  Context (R : Ring) (RL : SumLaws R).
  Notation T := (RT R).
  Notation Sum := (rsum R).

  Lemma rsum_perm (l1 l2 : list T) : Permutation l1 l2 -> Sum l1 = Sum l2.
  Proof.
    induction 1 as [|x l l' _ IH|x y l|l l' l'' _ IH1 _ IH2]; [reflexivity| | |congruence].
    - now rewrite !rsum_cons, IH.
    - rewrite !rsum_cons. rewrite !(radd_assoc R RL). f_equal. apply (radd_comm R RL).
  Qed.

  (* a sum over a duplicate-free list only sees the support of the summand *)
  Lemma rsum_subset {A} (e : A -> A -> bool) (e_spec : forall a b, e a b = true <-> a = b)
        (H : A -> T) (L L' : list A) :
    NoDup L -> NoDup L' -> incl L' L -> (forall x, In x L -> ~ In x L' -> H x = r0 R) ->
    Sum (map H L) = Sum (map H L').
  Proof.
    intros HL HL' Hincl Hz.
    transitivity (Sum (map H (filter (fun x => mem e x L') L))).
    - rewrite (rsum_filter R RL). apply rsum_ext. intros x Hx.
      destruct (mem e x L') eqn:E; [reflexivity|]. apply Hz; [exact Hx|].
      intros Hin. apply (mem_In e e_spec) in Hin. congruence.
    - apply rsum_perm. apply Permutation_map. apply NoDup_Permutation; [now apply NoDup_filter|exact HL'|].
      intros x. rewrite filter_In. split.
      + intros [_ Hm]. now apply (mem_In e e_spec).
      + intros Hx. split; [now apply Hincl|now apply (mem_In e e_spec)].
  Qed.
End SumsMore.

Lemma ranges_tile {K} (e : list (K * nat)) : forall s0,
  seq s0 (nsum (map snd e)) = flat_map (fun q => seq (fst (snd q)) (snd (snd q))) (ranges_from s0 e).
Proof.
  induction e as [|[k d] e IH]; intros s0; [reflexivity|].
  rewrite ranges_from_cons. cbn [map snd nsum fold_right flat_map fst]. fold (nsum (map snd e)).
  now rewrite seq_app, IH.
Qed.

Lemma In_product {A} (ls : list (list A)) : forall x, In x (product ls) <-> Forall2 (fun c l => In c l) x ls.
Proof.
  induction ls as [|l ls IH]; intros x; cbn [product].
  - split; [intros [<-|[]]; constructor|intros H; inversion H; now left].
  - rewrite in_flat_map. split.
    + intros (c & Hc & Hx). apply in_map_iff in Hx. destruct Hx as (x' & <- & Hx'). constructor; [exact Hc|now apply IH].
    + intros H. inversion H as [|c ? x' ? Hc Hx']; subst. exists c. split; [exact Hc|]. apply in_map. now apply IH.
Qed.

Lemma NoDup_product {A} (ls : list (list A)) : Forall (fun l => NoDup l) ls -> NoDup (product ls).
Proof.
  induction 1 as [|l ls Hl _ IH]; cbn [product]; [repeat constructor; intros []|].
  apply NoDup_flat_map.
  - exact Hl.
  - intros c _. apply NoDup_map_inj_on; [|exact IH]. intros a b _ _ E. now inversion E.
  - intros c c' y _ _ H1 H2. apply in_map_iff in H1. destruct H1 as (a & <- & _).
    apply in_map_iff in H2. destruct H2 as (b & E & _). now inversion E.
Qed.

(* ------------------------------------------------------------------ *)
(* Part B: the coordinates of one fused index split into (sub-sector, sub-offsets) *)
Section FusedSumSplit.
  Context (G : Symmetry) (R : Ring) (GL : GroupLaws G) (OL : OrderLaws G) (RL : SumLaws R).
  Context (x : aarray G R) (groups : list (list nat)).
  Context (Hwf : wf_array G R x = true).
  Context (Hg_ne : Forall (fun g => g <> []) groups) (Hg_nd : NoDup (concat groups))
          (Hg_rng : Forall (fun ax => ax < length (indices G R x)) (concat groups)).
  Context (g : list nat) (Hg : In g (slots (length (indices G R x)) groups)) (Es : is_singlet g = false).

  Notation keq := (list_eqb (ceqb G)).
  Notation ixs := (indices G R x).
  Notation secs := (sectors G R x).
  Notation fi := (fused_index G (indices G R x) (sectors G R x) g).
  Notation legs := (subs_of G (indices G R x) g).
  Notation gc := (group_charge G (indices G R x)).
  Notation gsz := (group_size G (indices G R x)).
  Notation sub := (group_subsector G).
  Notation szf := (sz G R x).
  Notation rng := (slot_range G (indices G R x) (sectors G R x)).
  Notation extg := (extF G (SI G (indices G R x) (sectors G R x) g)).
  Notation Sum := (rsum R).

  Lemma Hcs : forall a b : C G, ceqb G a b = true <-> a = b.
  Proof. apply (ceqb_spec G GL). Qed.

  Lemma g_facts : NoDup g /\ Forall (fun ax => ax < length ixs) g /\ 2 <= length g.
  Proof.
    destruct (slot_facts G R x groups Hg_ne Hg_nd Hg_rng g Hg) as (H1 & H2 & H3).
    split; [exact H1|]. split; [exact H2|]. exact (nonsinglet_len G R x g H3 Es).
  Qed.

  Lemma wfx : Forall (fun ix => wf_index G ix = true) ixs /\ NoDup secs /\
    forall s b, In (s, b) (blocks G R x) ->
      length s = length ixs /\
      (forall ax, ax < length ixs -> mem (ceqb G) (nth ax s (ident G)) (icharges G (nth ax ixs (dflt_index G))) = true) /\
      tshape b = block_shape G ixs s /\ length (tdata b) = shape_size (tshape b).
  Proof. exact (wfp G R GL x Hwf). Qed.

  Lemma Hsit : forall s, In s secs -> forall ax, In ax g ->
      mem (ceqb G) (nth ax s (ident G)) (icharges G (nth ax ixs (dflt_index G))) = true.
  Proof. destruct g_facts as (_ & H2 & H3). exact (Hsecs' G R GL x g Hwf H2 H3). Qed.

  Lemma Hixok : Forall (fun ix => cm_ok G (chargemap G ix) = true) ixs.
  Proof. destruct wfx as (H & _). eapply Forall_impl; [|exact H]. intros ix. apply (wf_index_cm_ok G). Qed.

  (* the recorded sub-sectors, grouped by fused charge *)
  Definition REC : list (list (C G)) :=
    flat_map (fun p => match lookup (ceqb G) (fst p) extg with Some e => map fst e | None => [] end) (chargemap G fi).

  Lemma fi_cm_nodup : NoDup (map fst (chargemap G fi)).
  Proof. exact (chargemap_NoDup G GL OL ixs secs g Hixok Hsit Es). Qed.

  Lemma REC_In ss : In ss REC <-> exists s', In s' secs /\ sub s' g = ss.
  Proof.
    unfold REC. rewrite in_flat_map. split.
    - intros ([c d] & Hcd & Hin). cbn [fst] in Hin.
      destruct (lookup (ceqb G) c extg) as [e|] eqn:He; [|destruct Hin].
      destruct (ext_entry G R GL OL x groups Hwf Hg_ne Hg_nd Hg_rng g c e Hg Es He) as (_ & _ & Hall).
      apply in_map_iff in Hin. destruct Hin as (p & <- & Hp). rewrite Forall_forall in Hall.
      destruct (Hall _ Hp) as (s' & Hs' & Hf & _). exists s'. now split.
    - intros (s' & Hs' & <-).
      destruct (fused_extents_complete G GL OL ixs secs g Hsit Es s' Hs') as (Hin & e & He & Hl).
      unfold icharges in Hin. apply in_map_iff in Hin. destruct Hin as ([c d] & Hc & Hcd). cbn [fst] in Hc. subst c.
      exists (gc s' g, d). split; [exact Hcd|]. cbn [fst]. rewrite He.
      apply (OrderProofs.lookup_In keq (Hke G GL)) in Hl. apply (in_map fst) in Hl. exact Hl.
  Qed.

  Lemma REC_NoDup : NoDup REC.
  Proof.
    unfold REC. apply NoDup_flat_map.
    - apply NoDup_map_fst_NoDup. exact fi_cm_nodup.
    - intros [c d] _. cbn [fst]. destruct (lookup (ceqb G) c extg) as [e|] eqn:He; [|constructor].
      apply (ext_entry G R GL OL x groups Hwf Hg_ne Hg_nd Hg_rng g c e Hg Es He).
    - intros [c d] [c' d'] ss H1 H2 Hi1 Hi2. cbn [fst] in Hi1, Hi2.
      destruct (lookup (ceqb G) c extg) as [e|] eqn:He; [|destruct Hi1].
      destruct (lookup (ceqb G) c' extg) as [e'|] eqn:He'; [|destruct Hi2].
      destruct (ext_entry G R GL OL x groups Hwf Hg_ne Hg_nd Hg_rng g c e Hg Es He) as (_ & _ & Hall).
      destruct (ext_entry G R GL OL x groups Hwf Hg_ne Hg_nd Hg_rng g c' e' Hg Es He') as (_ & _ & Hall').
      apply in_map_iff in Hi1. destruct Hi1 as (p & Hp1 & Hp). apply in_map_iff in Hi2. destruct Hi2 as (p' & Hp1' & Hp').
      rewrite Forall_forall in Hall, Hall'.
      destruct (Hall _ Hp) as (s1 & _ & Hf1 & _ & Hc1). destruct (Hall' _ Hp') as (s2 & _ & Hf2 & _ & Hc2).
      assert (Hc : c = c').
      { rewrite <- Hc1, <- Hc2. apply (subsector_determines G ixs secs g Hsit). congruence. }
      apply (NoDup_map_fst_inj (chargemap G fi)); [exact fi_cm_nodup|exact H1|exact H2|exact Hc].
  Qed.

  Lemma legs_nodup : Forall (fun l => NoDup l) (map (icharges G) legs).
  Proof.
    apply Forall_forall. intros l Hl. apply in_map_iff in Hl. destruct Hl as (ix & <- & Hix).
    unfold subs_of in Hix. apply in_map_iff in Hix. destruct Hix as (ax & <- & Hax).
    destruct g_facts as (_ & Hlt & _). rewrite Forall_forall in Hlt.
    destruct wfx as (Hw & _). rewrite Forall_forall in Hw.
    apply (wf_index_nodup G); [apply OL|apply OL|]. apply Hw. apply nth_In. now apply Hlt.
  Qed.

  Lemma REC_incl : incl REC (product (map (icharges G) legs)).
  Proof.
    intros ss Hss. apply REC_In in Hss. destruct Hss as (s' & Hs' & <-). apply In_product.
    unfold group_subsector, take_axes, subs_of. rewrite map_map.
    apply Forall2_map_both. intros ax Hax. apply (mem_ceqb_In G GL). now apply Hsit.
  Qed.

  Theorem fused_sum_split (Phi : coord G -> RT R) (Psi : list (C G) -> list nat -> RT R) :
    (forall s' u, In s' secs -> inb (map (szf s') g) u = true ->
       Phi (gc s' g, fst (rng s' g) + offset (map (szf s') g) u) = Psi (sub s' g) u) ->
    (forall ss u, In ss (product (map (icharges G) legs)) -> In u (all_idx (block_shape G legs ss)) ->
       (forall s', In s' secs -> sub s' g <> ss) -> Psi ss u = r0 R) ->
    Sum (map Phi (index_coords G fi)) =
    Sum (map (fun ss => Sum (map (Psi ss) (all_idx (block_shape G legs ss)))) (product (map (icharges G) legs))).
  Proof.
    intros HPhi Hzero.
    rewrite (rsum_subset R RL keq (keqE G GL) _ _ REC (NoDup_product _ legs_nodup) REC_NoDup REC_incl).
    2:{ intros ss Hss Hn. apply (rsum_zero R RL). intros u Hu. apply Hzero; [exact Hss|exact Hu|]. intros s' Hs' E.
        apply Hn. apply REC_In. now exists s'. }
    rewrite (rsum_index_coords G R RL). unfold REC. rewrite (rsum_flat_map R RL).
    apply rsum_ext. intros [c d] Hcd. cbn [fst snd].
    destruct (fused_extents_partition G GL OL ixs secs g Hixok Hsit Es _ _ (fused_isub G ixs secs g Es) c d Hcd)
      as (Hsz & e & He & Hsum & _ & _).
    rewrite He.
    destruct (ext_entry G R GL OL x groups Hwf Hg_ne Hg_nd Hg_rng g c e Hg Es He) as (Hnde & _ & Hall).
    rewrite <- Hsum, (ranges_tile e 0), (rsum_flat_map R RL).
    rewrite <- (ranges_keys 0 e), map_map.
    apply rsum_ext. intros [ss [st len]] Hq. cbn [fst snd].
    pose proof (ranges_lookup_In G GL e ss (st, len) Hnde Hq) as Hlk.
    apply ranges_bounds in Hq. destruct Hq as (_ & _ & Hine). rewrite Forall_forall in Hall.
    destruct (Hall _ Hine) as (s' & Hs' & Hf & Hlen & Hc). cbn [fst snd] in Hf, Hlen. subst ss.
    assert (Hbs : block_shape G legs (sub s' g) = map (szf s') g) by (exact (subshape_sub G R x g s')).
    rewrite Hbs.
    assert (Hr : rng s' g = (st, len)).
    { destruct g_facts as (_ & _ & Hglen). unfold slot_range. rewrite Es, Hc.
      rewrite (sub_range_eq G R x g Hglen c e _ He), Hlk. reflexivity. }
    assert (Hlen' : len = shape_size (map (szf s') g)) by (rewrite Hlen; reflexivity).
    replace (seq st len) with (map (fun u => st + offset (map (szf s') g) u) (all_idx (map (szf s') g))).
    2:{ rewrite <- (map_map (offset (map (szf s') g)) (fun o => st + o)), map_offset_all_idx, map_add_seq, Nat.add_0_r, Hlen'.
        reflexivity. }
    rewrite map_map.
    apply rsum_ext. intros u Hu. rewrite <- Hc.
    replace st with (fst (rng s' g)) by (now rewrite Hr).
    apply HPhi; [exact Hs'|]. now apply in_all_idx_inb.
  Qed.
End FusedSumSplit.

(* ------------------------------------------------------------------ *)
(* Part C: unfusing a leg of an array whose index is a fused index of x with some
   unused charges dropped (what tdot_blockwise's pruning leaves of the fused leg) *)
Lemma isub_drop (G : Symmetry) (ix : index G) cs subs ext : isub G ix = Some (subs, ext) ->
  isub G (drop_charges G ix cs) = Some (subs, filter (fun p => negb (mem (ceqb G) (fst p) cs)) ext).
Proof. destruct ix as [cm d [[s e]|]]; cbn [isub drop_charges]; intros H; inversion H; reflexivity. Qed.

Section PrunedUnfuse.
  Context (G : Symmetry) (R : Ring) (GL : GroupLaws G) (OL : OrderLaws G).
  Context (x : aarray G R) (groups : list (list nat)).
  Context (Hwf : wf_array G R x = true).
  Context (Hg_ne : Forall (fun g => g <> []) groups) (Hg_nd : NoDup (concat groups))
          (Hg_rng : Forall (fun ax => ax < length (indices G R x)) (concat groups)).
  Context (g : list nat) (Hg : In g (slots (length (indices G R x)) groups)) (Es : is_singlet g = false).
  Context (Y : aarray G R) (ax : nat) (dropped : list (C G)).

  Notation keq := (list_eqb (ceqb G)).
  Notation idc := (ident G).
  Notation dflt := (dflt_index G).
  Notation secs := (sectors G R x).
  Notation fi := (fused_index G (indices G R x) (sectors G R x) g).
  Notation subs := (subs_of G (indices G R x) g).
  Notation gc := (group_charge G (indices G R x)).
  Notation gsz := (group_size G (indices G R x)).
  Notation sub := (group_subsector G).
  Notation szf := (sz G R x).
  Notation rng := (slot_range G (indices G R x) (sectors G R x)).
  Notation extg := (extF G (SI G (indices G R x) (sectors G R x) g)).

  (* IXr: the index list the block shapes refer to (the indices of Y or their unpruned originals) *)
  Context (IXr : list (index G)).
  Context (HY_ix : nth ax (indices G R Y) dflt = drop_charges G fi dropped).
  Context (HIX_sz : forall ch, ~ In ch dropped -> size_of G (nth ax IXr dflt) ch = size_of G fi ch).
  Context (HY_nd : NoDup (sectors G R Y)).
  Context (HY_shape : forall K T, In (K, T) (blocks G R Y) ->
             length K = length IXr /\ tshape T = block_shape G IXr K).
  Context (HY_ax : ax < length IXr).
  Context (HY_kept : forall K T, In (K, T) (blocks G R Y) -> ~ In (nth ax K idc) dropped).

  Definition keep (k : C G) : bool := negb (mem (ceqb G) k dropped).
  Definition pext : list (C G * list (list (C G) * nat)) := filter (fun p => keep (fst p)) extg.
  Definition PY' : aarray G R := GY' G R Y ax subs pext.

  Lemma Hce' : eqb_spec_on (ceqb G).
  Proof. apply (Hce G GL). Qed.

  Lemma lookup_pext ch : lookup (ceqb G) ch pext = if keep ch then lookup (ceqb G) ch extg else None.
  Proof. exact (lookup_filter_key (ceqb G) Hce' keep ch extg). Qed.

  Lemma pext_some ch e : lookup (ceqb G) ch pext = Some e -> lookup (ceqb G) ch extg = Some e /\ ~ In ch dropped.
  Proof.
    rewrite lookup_pext. unfold keep. destruct (mem (ceqb G) ch dropped) eqn:E; cbn [negb]; [discriminate|].
    intros H. split; [exact H|]. intros Hin. apply (mem_In (ceqb G) Hce') in Hin. congruence.
  Qed.

  Lemma EF : 
    (forall c e, lookup (ceqb G) c extg = Some e -> NoDup (map fst e)) /\
    (forall c e ss, lookup (ceqb G) c extg = Some e -> In ss (map fst e) ->
       length ss = length subs /\ exists s', In s' secs /\ ss = sub s' g /\ gc s' g = c) /\
    (forall c c' e e' ss, lookup (ceqb G) c extg = Some e -> lookup (ceqb G) c' extg = Some e' ->
       In ss (map fst e) -> In ss (map fst e') -> c = c') /\
    (forall c e ss st len, lookup (ceqb G) c extg = Some e -> In (ss, (st, len)) (ranges_from 0 e) ->
       exists s', In s' secs /\ ss = sub s' g /\ len = gsz s' g /\ gc s' g = c /\
                  st + len <= size_of G fi c /\ block_shape G subs ss = map (szf s') g /\
                  rng s' g = (st, len)).
  Proof. exact (ext_facts_all G R GL OL x groups Hwf Hg_ne Hg_nd Hg_rng g Hg Es). Qed.

  Lemma P_sub : isub G (nth ax (indices G R Y) dflt) = Some (subs, pext).
  Proof. rewrite HY_ix. apply isub_drop. now apply fused_isub. Qed.
  Lemma P_len : forall K T, In (K, T) (blocks G R Y) -> ax < length K.
  Proof. intros K T Hin. destruct (HY_shape K T Hin) as [Hl _]. lia. Qed.
  Lemma P_nd : forall c e, lookup (ceqb G) c pext = Some e -> NoDup (map fst e).
  Proof. intros c e He. apply pext_some in He. destruct EF as (H & _). exact (H c e (proj1 He)). Qed.
  Lemma P_elen : forall c e ss, lookup (ceqb G) c pext = Some e -> In ss (map fst e) -> length ss = length subs.
  Proof. intros c e ss He Hss. apply pext_some in He. destruct EF as (_ & H & _). exact (proj1 (H c e ss (proj1 He) Hss)). Qed.
  Lemma P_fun : forall c c' e e' ss, lookup (ceqb G) c pext = Some e -> lookup (ceqb G) c' pext = Some e' ->
             In ss (map fst e) -> In ss (map fst e') -> c = c'.
  Proof.
    intros c c' e e' ss He He' Hss Hss'. apply pext_some in He. apply pext_some in He'.
    destruct EF as (_ & _ & H & _). exact (H c c' e e' ss (proj1 He) (proj1 He') Hss Hss').
  Qed.
  Lemma P_sz : forall ch e ss st len, lookup (ceqb G) ch pext = Some e -> In (ss, (st, len)) (ranges_from 0 e) ->
             shape_size (block_shape G subs ss) = len /\ st + len <= size_of G (nth ax IXr dflt) ch.
  Proof.
    intros ch e ss st len He Hq. apply pext_some in He. destruct He as [He Hnd].
    destruct EF as (_ & _ & _ & H). destruct (H ch e ss st len He Hq) as (s' & _ & _ & Hlen & _ & Hle & Hbs & _).
    split; [rewrite Hbs, Hlen; reflexivity|]. rewrite (HIX_sz ch Hnd). exact Hle.
  Qed.

  Theorem pruned_unfuse :
    a_unfuse G R Y ax = Some PY' /\
    indices G R PY' = replace_with_seq (indices G R Y) ax subs /\
    NoDup (sectors G R PY') /\
    (forall K' T', In (K', T') (blocks G R PY') ->
       length K' = length (replace_with_seq IXr ax subs) /\ tshape T' = block_shape G (replace_with_seq IXr ax subs) K') /\
    (forall K' T', In (K', T') (blocks G R PY') ->
       exists K T, In (K, T) (blocks G R Y) /\ firstn ax K' = firstn ax K).
  Proof.
    split; [exact (gunfuse G R GL Y ax subs pext P_sub HY_nd P_len P_nd P_elen P_fun)|].
    split; [reflexivity|].
    split; [exact (GUB_NoDup G R Y ax subs pext HY_nd P_len P_nd P_elen P_fun)|].
    split; [exact (GUB_shape G R Y ax subs pext P_len P_nd P_elen IXr HY_shape P_sz)|].
    intros K' T' Hin. cbn [PY' GY' blocks] in Hin. apply (GUB_In G R Y ax) in Hin.
    destruct Hin as (K & T & e & q & HinY & _ & _ & Heq). exists K, T. split; [exact HinY|].
    pose proof (f_equal fst Heq) as HK. unfold gpiece in HK. cbn [fst] in HK. rewrite HK.
    unfold replace_with_seq. rewrite firstn_app, firstn_firstn, Nat.min_id.
    rewrite firstn_length, (Nat.min_l ax (length K)) by (pose proof (P_len K T HinY); lia).
    rewrite Nat.sub_diag. cbn [firstn]. now rewrite app_nil_r.
  Qed.

  Lemma pruned_unfuse_data K' T' : In (K', T') (blocks G R PY') -> length (tdata T') = shape_size (tshape T').
  Proof. exact (GUB_data G R Y ax subs pext P_len P_nd P_elen IXr HY_shape P_sz K' T'). Qed.

  (* a recorded sub-sector: the unfused coordinates read the fused coordinate *)
  Theorem pruned_unfuse_sem s' cL csub cR :
    In s' secs -> length cL = ax -> map fst csub = sub s' g ->
    (In (map fst cL ++ gc s' g :: map fst cR) (sectors G R Y) ->
     coords_ok G (replace_with_seq IXr ax subs) (cL ++ csub ++ cR) = true) ->
    sem G R PY' (cL ++ csub ++ cR) =
    sem G R Y (cL ++ (gc s' g, fst (rng s' g) + offset (map (szf s') g) (map snd csub)) :: cR).
  Proof.
    intros Hs' HlcL Hss Hc. unfold PY' in *.
    destruct (slot_facts G R x groups Hg_ne Hg_nd Hg_rng g Hg) as (_ & Hglt & Hgne).
    pose proof (nonsinglet_len G R x g Hgne Es) as Hglen.
    destruct (rng_spec G R GL OL x g Hwf Hglt Hglen s' Hs') as (e & st & He & Hlk & Hr & _).
    assert (Hrng : rng s' g = (st, gsz s' g)) by (unfold slot_range; now rewrite Es, Hr).
    rewrite Hrng. cbn [fst].
    assert (Hq : In (map fst csub, (st, gsz s' g)) (ranges_from 0 e)).
    { rewrite Hss. now apply (OrderProofs.lookup_In keq (Hke G GL)). }
    assert (Hbs : block_shape G subs (map fst csub) = map (szf s') g) by (rewrite Hss; exact (subshape_sub G R x g s')).
    destruct (mem (ceqb G) (gc s' g) dropped) eqn:Ed.
    - (* the fused charge was pruned away: no block on either side *)
      apply (mem_In (ceqb G) Hce') in Ed.
      rewrite (gunfuse_sem_none G R GL Y ax subs pext P_len P_nd P_elen IXr HY_shape P_sz cL csub cR HlcL).
      + unfold sem. rewrite map_app. cbn [map fst].
        destruct (lookup keq (map fst cL ++ gc s' g :: map fst cR) (blocks G R Y)) as [T|] eqn:E; [exfalso|reflexivity].
        apply (OrderProofs.lookup_In keq (Hke G GL)) in E. apply (HY_kept _ _ E).
        rewrite (nth_middle_len _ _ _ _ ax) by (now rewrite map_length). exact Ed.
      + rewrite <- (map_length fst csub), Hss. unfold group_subsector, take_axes, subs_of. now rewrite !map_length.
      + intros K T e2 HinY He2 Hin2. apply pext_some in He2. destruct He2 as [He2 _].
        destruct EF as (_ & _ & Hfun & _).
        assert (Hk : In (map fst csub) (map fst e)).
        { rewrite <- (ranges_keys 0 e). apply in_map_iff. exists (map fst csub, (st, gsz s' g)). now split. }
        pose proof (Hfun _ _ _ _ _ He2 He Hin2 Hk) as Hceq. apply (HY_kept K T HinY). now rewrite Hceq.
    - assert (Hpe : lookup (ceqb G) (gc s' g) pext = Some e).
      { rewrite lookup_pext. unfold keep. now rewrite Ed. }
      rewrite (gunfuse_sem G R GL Y ax subs pext HY_nd P_len P_nd P_elen P_fun IXr HY_shape P_sz
                 cL csub cR (gc s' g) e st (gsz s' g) HlcL Hpe Hq Hc).
      now rewrite Hbs.
  Qed.

  (* a sub-sector that no stored sector of x has: no block *)
  Theorem pruned_unfuse_sem_none cL csub cR :
    length cL = ax -> length csub = length g ->
    (forall s', In s' secs -> sub s' g <> map fst csub) ->
    sem G R PY' (cL ++ csub ++ cR) = r0 R.
  Proof.
    intros HlcL Hl Hno. unfold PY'.
    apply (gunfuse_sem_none G R GL Y ax subs pext P_len P_nd P_elen IXr HY_shape P_sz cL csub cR HlcL).
    - unfold subs_of. now rewrite map_length.
    - intros K T e HinY He Hin. apply pext_some in He. destruct He as [He _].
      destruct EF as (_ & Hent & _). destruct (Hent _ _ _ He Hin) as (_ & s' & Hs' & Hss & _).
      apply (Hno s' Hs'). now symmetry.
  Qed.
End PrunedUnfuse.

(* ------------------------------------------------------------------ *)
(* Part D: coordinate lists *)
Section CoordLemmas.
  Context (G : Symmetry).
  Notation dflt := (dflt_index G).
  Notation dc := (ident G, 0).

  Lemma coords_ok_iff ixs (cs : list (coord G)) :
    coords_ok G ixs cs = true <->
    length cs = length ixs /\
    forall i, i < length ixs -> snd (nth i cs dc) < size_of G (nth i ixs dflt) (fst (nth i cs dc)).
  Proof.
    unfold coords_ok. rewrite andb_true_iff, Nat.eqb_eq. split; intros [Hl H]; (split; [exact Hl|]).
    - intros i Hi.
      apply (proj1 (StructProofs.forallb_combine_nth
               (fun p : index G * coord G => Nat.ltb (snd (snd p)) (size_of G (fst p) (fst (snd p)))) dflt dc ixs cs (eq_sym Hl)))
        with (i := i) in H; [|exact Hi].
      cbn [fst snd] in H. now apply Nat.ltb_lt.
    - apply (StructProofs.forallb_combine_nth
               (fun p : index G * coord G => Nat.ltb (snd (snd p)) (size_of G (fst p) (fst (snd p)))) dflt dc ixs cs (eq_sym Hl)).
      intros i Hi. cbn [fst snd]. apply Nat.ltb_lt. now apply H.
  Qed.

  Lemma coords_ok_combine ixs : forall (ss : list (C G)) u, length ss = length ixs ->
    inb (block_shape G ixs ss) u = true ->
    coords_ok G ixs (List.combine ss u) = true /\ map fst (List.combine ss u) = ss /\ map snd (List.combine ss u) = u.
  Proof.
    intros ss u Hl Hinb.
    assert (Hlu : length u = length ss).
    { rewrite (inb_length _ _ Hinb). unfold block_shape. rewrite map_length, combine_length. lia. }
    split; [|split; [now apply map_fst_combine|now apply map_snd_combine]].
    revert ss u Hl Hinb Hlu. unfold coords_ok.
    induction ixs as [|ix ixs IH]; intros [|c ss] [|o u] Hl Hinb Hlu; cbn [length] in *; try discriminate; [reflexivity|].
    unfold block_shape in Hinb. cbn [List.combine map fst snd inb] in Hinb.
    apply andb_true_iff in Hinb. destruct Hinb as [Ho Hinb].
    specialize (IH ss u ltac:(lia) Hinb ltac:(lia)). apply andb_true_iff in IH. destruct IH as [IH1 IH2].
    cbn [List.combine length forallb fst snd]. rewrite Ho. cbn [andb].
    apply andb_true_iff. split; [|exact IH2]. apply Nat.eqb_eq. apply Nat.eqb_eq in IH1. lia.
  Qed.

  Lemma merge_facts ixs aa (cl kc : list (coord G)) :
    NoDup aa -> (forall i, In i aa -> i < length ixs) ->
    coords_ok G (without_axes ixs aa) cl = true -> coords_ok G (take_axes dflt ixs aa) kc = true ->
    coords_ok G ixs (merge G (length ixs) aa cl kc) = true /\
    take_axes dc (merge G (length ixs) aa cl kc) aa = kc /\
    take_axes dc (merge G (length ixs) aa cl kc) (rest_axes (length ixs) aa) = cl.
  Proof.
    intros Hnd Hlt Hcl Hkc. set (n := length ixs). set (cs := merge G n aa cl kc).
    rewrite (without_axes_take dflt) in Hcl. fold n in Hcl.
    apply coords_ok_iff in Hcl. destruct Hcl as [Hlcl Hcl]. rewrite length_take_axes in Hlcl, Hcl.
    apply coords_ok_iff in Hkc. destruct Hkc as [Hlkc Hkc]. rewrite length_take_axes in Hlkc, Hkc.
    assert (Ht1 : take_axes dc cs aa = kc) by (apply take_scatterA_axes; assumption).
    assert (Ht2 : take_axes dc cs (rest_axes n aa) = cl) by (apply take_scatterA_rest; exact Hlcl).
    split; [|split; assumption].
    apply coords_ok_iff. split; [apply length_scatterA_go|]. fold n. intros i Hi.
    destruct (mem Nat.eqb i aa) eqn:E.
    - apply (mem_In Nat.eqb Nat.eqb_eq) in E. destruct (In_nth aa i 0 E) as (j & Hj & Hji).
      specialize (Hkc j Hj). unfold take_axes in Hkc. rewrite (nth_map_lt _ _ _ 0) in Hkc by exact Hj.
      rewrite Hji in Hkc. rewrite <- Ht1 in Hkc. unfold take_axes in Hkc.
      rewrite (nth_map_lt _ _ _ 0) in Hkc by exact Hj. now rewrite Hji in Hkc.
    - assert (Hr : In i (rest_axes n aa)).
      { unfold rest_axes. apply filter_In. split; [apply in_seq; lia|now rewrite E]. }
      destruct (In_nth _ i 0 Hr) as (j & Hj & Hji).
      specialize (Hcl j Hj). unfold take_axes in Hcl. rewrite (nth_map_lt _ _ _ 0) in Hcl by exact Hj.
      rewrite Hji in Hcl. rewrite <- Ht2 in Hcl. unfold take_axes in Hcl.
      rewrite (nth_map_lt _ _ _ 0) in Hcl by exact Hj. now rewrite Hji in Hcl.
  Qed.

  Lemma all_coords_single (ix : index G) : all_coords G [ix] = map (fun k => [k]) (index_coords G ix).
  Proof.
    unfold all_coords. cbn [map product]. induction (index_coords G ix) as [|k l IH]; [reflexivity|].
    cbn [flat_map map app]. now rewrite IH.
  Qed.
End CoordLemmas.

(* ------------------------------------------------------------------ *)
(* Part E: one operand fused into a matrix by two groups of >= 2 axes that
   together contain every axis *)
Section PairSide.
  Context (G : Symmetry) (R : Ring) (GL : GroupLaws G) (OL : OrderLaws G).
  Context (x : aarray G R) (g1 g2 : list nat).
  Context (Hwf : wf_array G R x = true) (Hnd : NoDup (g1 ++ g2))
          (Hcov : forall ax, In ax (g1 ++ g2) <-> ax < ndim G R x)
          (H1 : 2 <= length g1) (H2 : 2 <= length g2).

  Notation GS := [g1; g2].
  Notation secs := (sectors G R x).
  Notation ixs := (indices G R x).
  Notation FI := (fused_index G (indices G R x) (sectors G R x)).
  Notation gc := (group_charge G (indices G R x)).
  Notation sub := (group_subsector G).
  Notation szf := (sz G R x).
  Notation rng := (slot_range G (indices G R x) (sectors G R x)).
  Notation xf := (fuse_core G R x [g1; g2]).

  Lemma PS_ne : Forall (fun g : list nat => g <> []) GS.
  Proof. repeat constructor; intros E; rewrite E in *; cbn in *; lia. Qed.
  Lemma PS_nd : NoDup (concat GS).
  Proof. cbn [concat]. now rewrite app_nil_r. Qed.
  Lemma PS_rng : Forall (fun ax => ax < length ixs) (concat GS).
  Proof. cbn [concat]. rewrite app_nil_r. apply Forall_forall. intros ax Hax. now apply Hcov. Qed.
  Lemma PS_slots : slots (length ixs) GS = GS.
  Proof.
    unfold slots. destruct (axes_cover (length ixs) GS) as [Hb Ha].
    { intros ax. cbn [concat]. rewrite app_nil_r. apply Hcov. }
    rewrite Hb, Ha. cbn [map app]. reflexivity.
  Qed.
  Lemma PS_in1 : In g1 (slots (length ixs) GS).
  Proof. rewrite PS_slots. now left. Qed.
  Lemma PS_in2 : In g2 (slots (length ixs) GS).
  Proof. rewrite PS_slots. right. now left. Qed.
  Lemma PS_s1 : is_singlet g1 = false.
  Proof. unfold is_singlet. apply Nat.eqb_neq. lia. Qed.
  Lemma PS_s2 : is_singlet g2 = false.
  Proof. unfold is_singlet. apply Nat.eqb_neq. lia. Qed.

  Lemma PS_noexpand : a_fuse_noexpand G R x GS = xf.
  Proof. apply a_fuse_noexpand_core; [exact PS_ne|discriminate]. Qed.
  Lemma PS_indices : indices G R xf = [FI g1; FI g2].
  Proof. cbn [fuse_core indices]. rewrite fused_indices_slots, PS_slots. reflexivity. Qed.
  Lemma PS_wf : wf_array G R xf = true.
  Proof. apply (fuse_groups_wf G GL OL R x GS Hwf PS_ne PS_nd PS_rng). Qed.

  (* the fused coordinate of a recorded sub-sector with sub-offsets u *)
  Definition fco (g : list nat) (s' : list (C G)) (u : list nat) : coord G :=
    (gc s' g, fst (rng s' g) + offset (map (szf s') g) u).

  Lemma slotc_rec g s s' u : In g (slots (length ixs) GS) -> is_singlet g = false ->
    sub s' g = sub s g -> (gc s g, Fof G R x s g u) = fco g s' u.
  Proof.
    intros Hg Es Hsub. destruct (rec_same G R GL x GS Hwf PS_ne PS_nd PS_rng s s' g Hg Es Hsub) as (E1 & _ & E3).
    unfold fco, Fof. rewrite E1, E3. do 3 f_equal. apply map_ext_in. intros ax Hax. unfold sz.
    unfold group_subsector, take_axes in Hsub. rewrite map_ext_in_iff in Hsub. now rewrite (Hsub ax Hax).
  Qed.

  Theorem pair_sem (cs : list (coord G)) s1 s2 :
    coords_ok G ixs cs = true -> In s1 secs -> In s2 secs ->
    sub s1 g1 = take_axes (ident G) (map fst cs) g1 -> sub s2 g2 = take_axes (ident G) (map fst cs) g2 ->
    sem G R xf [fco g1 s1 (take_axes 0 (map snd cs) g1); fco g2 s2 (take_axes 0 (map snd cs) g2)] = sem G R x cs.
  Proof.
    intros Hc Hs1 Hs2 E1 E2.
    rewrite <- (fuse_core_sem G R GL OL x GS Hwf PS_ne PS_nd PS_rng cs Hc).
    - unfold fcoords. rewrite PS_slots. cbn [map].
      rewrite (slotc_rec g1 (map fst cs) s1 _ PS_in1 PS_s1 E1), (slotc_rec g2 (map fst cs) s2 _ PS_in2 PS_s2 E2).
      reflexivity.
    - intros g Hg Es. rewrite PS_slots in Hg. destruct Hg as [<-|[<-|[]]]; [now exists s1|now exists s2].
  Qed.

  (* fused coordinates are in range of the fused tables *)
  Lemma fco_ok g s' u : In g (slots (length ixs) GS) -> In s' secs -> inb (map (szf s') g) u = true ->
    snd (fco g s' u) < size_of G (FI g) (fst (fco g s' u)).
  Proof.
    intros Hg Hs' Hu. unfold fco. cbn [fst snd].
    destruct (rng_ok_rec G R GL OL x GS Hwf PS_ne PS_nd PS_rng s' g (stored_recorded G R x GS s' Hs') Hg) as [_ Hle].
    pose proof (offset_lt _ _ Hu) as Ho. change (shape_size (map (szf s') g)) with (group_size G ixs s' g) in Ho. lia.
  Qed.

  (* all the facts of this section behind one interface *)
  Theorem PS_all :
    Forall (fun g : list nat => g <> []) GS /\ NoDup (concat GS) /\
    Forall (fun ax => ax < length ixs) (concat GS) /\
    slots (length ixs) GS = GS /\ In g1 (slots (length ixs) GS) /\ In g2 (slots (length ixs) GS) /\
    is_singlet g1 = false /\ is_singlet g2 = false /\
    a_fuse_noexpand G R x GS = xf /\ indices G R xf = [FI g1; FI g2] /\ wf_array G R xf = true.
  Proof.
    split; [exact PS_ne|]. split; [exact PS_nd|]. split; [exact PS_rng|]. split; [exact PS_slots|].
    split; [exact PS_in1|]. split; [exact PS_in2|]. split; [exact PS_s1|]. split; [exact PS_s2|].
    split; [exact PS_noexpand|]. split; [exact PS_indices|exact PS_wf].
  Qed.
End PairSide.

(* ------------------------------------------------------------------ *)
(* small list facts used by the value theorem (Proofs/FusedSemGen.v) *)
Lemma coords_ok_app (G : Symmetry) (i1 i2 : list (index G)) (c1 c2 : list (coord G)) :
  coords_ok G i1 c1 = true -> coords_ok G i2 c2 = true -> coords_ok G (i1 ++ i2) (c1 ++ c2) = true.
Proof.
  unfold coords_ok. intros H1 H2. apply andb_true_iff in H1. destruct H1 as [L1 F1].
  apply andb_true_iff in H2. destruct H2 as [L2 F2]. apply Nat.eqb_eq in L1. apply Nat.eqb_eq in L2.
  apply andb_true_iff. split; [apply Nat.eqb_eq; rewrite !app_length; lia|].
  rewrite combine_app by (symmetry; exact L1). rewrite forallb_app. apply andb_true_iff. split; assumption.
Qed.

Lemma firstn1_nth0 {A} (l l' : list A) d : firstn 1 l = firstn 1 l' -> l <> [] -> nth 0 l d = nth 0 l' d.
Proof. destruct l as [|a l], l' as [|b l']; cbn [firstn nth]; intros H Hne; try congruence. Qed.


(* alignment preserves validity, in the form of Props/C06.v *)
Lemma alignment_preserves_wf :
  forall (G : Symmetry) (R : Ring), GroupLaws G -> OrderLaws G ->
  forall (a b : aarray G R) (aa ab : list nat),
  wf_array G R a = true -> wf_array G R b = true ->
  wf_array G R (al_a G R a b aa ab) = true /\ wf_array G R (al_b G R a b aa ab) = true.
Proof. intros G R GL OL a b aa ab Ha Hb. exact (drop_misaligned_wf G GL R OL a b aa ab Ha Hb). Qed.


(* the unfuse step and its coordinate semantics in one statement *)
Lemma pruned_unfuse_and_sem :
  forall (G : Symmetry) (R : Ring), GroupLaws G -> OrderLaws G ->
  forall (x : aarray G R) (groups : list (list nat)),
  wf_array G R x = true ->
  Forall (fun g => g <> []) groups -> NoDup (concat groups) ->
  Forall (fun ax => ax < length (indices G R x)) (concat groups) ->
  forall g, In g (slots (length (indices G R x)) groups) -> is_singlet g = false ->
  forall (Y : aarray G R) (ax : nat) (dropped : list (C G)) (IXr : list (index G)),
  nth ax (indices G R Y) (dflt_index G) =
    drop_charges G (fused_index G (indices G R x) (sectors G R x) g) dropped ->
  (forall ch, ~ In ch dropped ->
     size_of G (nth ax IXr (dflt_index G)) ch = size_of G (fused_index G (indices G R x) (sectors G R x) g) ch) ->
  NoDup (sectors G R Y) ->
  (forall K T, In (K, T) (blocks G R Y) -> length K = length IXr /\ tshape T = block_shape G IXr K) ->
  ax < length IXr ->
  (forall K T, In (K, T) (blocks G R Y) -> ~ In (nth ax K (ident G)) dropped) ->
  forall s' (cL csub cR : list (C G * nat)),
  In s' (sectors G R x) -> length cL = ax -> map fst csub = group_subsector G s' g ->
  coords_ok G (replace_with_seq IXr ax (subs_of G (indices G R x) g)) (cL ++ csub ++ cR) = true ->
  a_unfuse G R Y ax = Some (PY' G R x g Y ax dropped) /\
  sem G R (PY' G R x g Y ax dropped) (cL ++ csub ++ cR) =
  sem G R Y (cL ++ (group_charge G (indices G R x) s' g,
                    fst (slot_range G (indices G R x) (sectors G R x) s' g) +
                    offset (map (sz G R x s') g) (map snd csub)) :: cR).
Proof.
  intros G R GL OL x groups Hwf Hne Hnd Hrng g Hg Es Y ax dropped IXr Hix Hsz HYnd Hsh Hax Hkept s' cL csub cR Hs' Hl Hss Hc.
  split.
  - apply (pruned_unfuse G R GL OL x groups Hwf Hne Hnd Hrng g Hg Es Y ax dropped IXr Hix Hsz HYnd Hsh Hax Hkept).
  - apply (pruned_unfuse_sem G R GL OL x groups Hwf Hne Hnd Hrng g Hg Es Y ax dropped IXr Hsz HYnd Hsh Hax Hkept
             s' cL csub cR Hs' Hl Hss (fun _ => Hc)).
Qed.
