(* Proofs/ConjNetProofs.v — property C10, the NETWORK clause:
   "the same holds for a whole network conjugated tensor by tensor once the dangling legs that
    were bra-like are sign-flipped (none when all dangling legs are ket-like)".

   part 0   arithmetic of the reversal sign  tri(#odd charges)  and of label lists under `dag`
   part 1   conjugation and the contraction data: a contractible pair stays contractible when
            both operands are conjugated and exchanged; the operand signs sigma_a / sigma_b of
            the conjugates; values of the conjugate and of a sign flip in coordinates
   part 2   conj_tensordot: conjugation is an ANTI-HOMOMORPHISM of the fermionic contraction
              conj(a . b) = transpose(conj b . conj a)         (default dual-leg option)
              conj(a . b, dual option) = flip_{bra-like dangling legs}(transpose(conj b . conj a))
            -- labels and values at every coordinate; no sign is needed on the bonds
   part 3   `closing` (the closing contraction of a bra network with a ket network, given only the
            value relation between them) and network_norm_two: the bra network (conj b . conj a, its
            originally bra-like dangling legs flipped) contracted with a . b gives sum |[[a.b]]|^2
   part 4   tdot_congr: the contraction only sees the values of its operands
   part 5   tdot_flip_free: sign flips of free legs commute with the contraction
   part 6   network_norm_two_local: the flips applied tensor by tensor
   part 7   network_norm_chain_route: ((bra . a) . b) for a chain, from C04b's associativity
   part 8   closing_rev / network_norm_two_rev: the other operand order, (a . b) . bra
   examples Z2 / U1 instances with complex data *)
From SV Require Import Base.Prelude Base.Sym Base.Tensor Gen.PhasePerm Gen.OpOrder Model.SymInst Model.Sectors
  Model.Array Model.Arith Model.Graded Model.Oddpos Model.Wf Model.Fermi
  Proofs.SymLaws Proofs.GroupFacts Proofs.GradedProofs Proofs.OrderProofs Proofs.OddposProofs Proofs.Tdot Proofs.StructProofs
  Proofs.SectorsProofs Proofs.WfProofs Proofs.FermiProofs Proofs.ConjProofs Proofs.NormProofs Proofs.RouteProofs.
From Coq Require Import Permutation Sorted.
Local Open Scope nat_scope.

(* ================================================================ part 0 *)
Ltac gen_odd := repeat match goal with |- context [Nat.odd ?t] => let b := fresh "b" in generalize (Nat.odd t); intro b end.
Ltac all_bools := repeat match goal with b : bool |- _ => destruct b end; try reflexivity.
Lemma tri_S k : tri (S k) = xorb (tri k) (Nat.odd k).
Proof. unfold tri. now rewrite tri_succ, Nat.odd_add. Qed.

Lemma tri_add x y : tri (x + y) = xorb (xorb (tri x) (tri y)) (Nat.odd x && Nat.odd y).
Proof.
  induction x as [|x IH]; [cbn [Nat.add]; change (tri 0) with false; change (Nat.odd 0) with false; now destruct (tri y)|].
  change (S x + y) with (S (x + y)). rewrite !tri_S, IH, Nat.odd_add, Nat.odd_succ, <- Nat.negb_odd.
  now destruct (tri x), (tri y), (Nat.odd x), (Nat.odd y).
Qed.

Lemma SS_snoc {A} (Rl : A -> A -> Prop) l x :
  StronglySorted Rl l -> Forall (fun y => Rl y x) l -> StronglySorted Rl (l ++ [x]).
Proof.
  induction 1 as [|z l HS IH HF]; intros H; cbn [app]; [repeat constructor|].
  inversion H as [|? ? Hz Hl]; subst. constructor; [now apply IH|].
  apply Forall_app. split; [exact HF|now constructor].
Qed.

(* the odd-position lists are `list fop` in Model/Fermi and `list op` in Model/Oddpos: the same type *)
Notation odag := Fermi.oddpos_dag.

Lemma odag_cons (x : fop) t : odag (x :: t) = odag t ++ [fop_dag x].
Proof. unfold Fermi.oddpos_dag. cbn [rev]. now rewrite map_app. Qed.

Lemma odag_app (u v : list fop) : odag (u ++ v) = odag v ++ odag u.
Proof. unfold Fermi.oddpos_dag. now rewrite rev_app_distr, map_app. Qed.

Lemma odag_length (l : list fop) : length (odag l) = length l.
Proof. unfold Fermi.oddpos_dag. now rewrite map_length, rev_length. Qed.

Lemma lt_op_dag (x y : op) : lt_op x y -> lt_op (fop_dag y) (fop_dag x).
Proof. unfold lt_op. rewrite !op_lt_fop_ltb. now rewrite fop_ltb_dag. Qed.

Lemma SS_odag (w : list op) : StronglySorted lt_op w -> StronglySorted lt_op (odag w).
Proof.
  induction 1 as [|x t HS IH HF]; [constructor|]. rewrite odag_cons. apply SS_snoc; [exact IH|].
  apply Forall_forall. intros y Hy. unfold Fermi.oddpos_dag in Hy. apply in_map_iff in Hy. destruct Hy as [y0 [<- Hy0]].
  apply in_rev in Hy0. rewrite Forall_forall in HF. apply lt_op_dag, HF, Hy0.
Qed.

Lemma op_cross_single (X : list op) (v : op) : op_cross X [v] = countb (fun u => op_lt v u) X.
Proof.
  induction X as [|u X IH]; [reflexivity|]. cbn [op_cross]. rewrite IH, !countb_cons.
  unfold countb. cbn [filter length]. lia.
Qed.

Lemma op_inv_odag (l : list op) : op_inv (odag l) = op_inv l.
Proof.
  induction l as [|x t IH]; [reflexivity|]. rewrite odag_cons, op_inv_app, IH, op_cross_single. cbn [op_inv].
  rewrite Nat.add_0_r. rewrite Nat.add_comm. f_equal.
  unfold Fermi.oddpos_dag. rewrite countb_map. rewrite (countb_perm _ (rev t) t) by (symmetry; apply Permutation_rev).
  apply countb_ext_in. intros y _. rewrite !op_lt_fop_ltb. apply fop_ltb_dag.
Qed.

Lemma labels_odag (l : list op) : labels (odag l) = rev (labels l).
Proof. unfold labels, Fermi.oddpos_dag. rewrite map_map, map_rev. reflexivity. Qed.

Lemma distinct_odag (l : list op) : distinct l -> distinct (odag l).
Proof. unfold distinct. rewrite labels_odag. apply NoDup_rev. Qed.

(* conjugating both label lists and exchanging them: the sorted result is the conjugate of the
   sorted result, the sign changes by the two "left operand odd" terms only *)
Lemma resolve_conj (oa ob : list op) (pa pb m1 m2 : bool) (w1 w2 : list op) :
  distinct (oa ++ ob) ->
  resolve oa ob pa = Some (m1, w1) -> resolve (odag ob) (odag oa) pb = Some (m2, w2) ->
  w2 = odag w1
  /\ xorb m1 m2 = xorb (pa && Nat.odd (length ob)) (pb && Nat.odd (length oa))
  /\ StronglySorted lt_op w1 /\ Permutation w1 (oa ++ ob).
Proof.
  intros D R1 R2.
  destruct (resolve_distinct oa ob pa D) as [u1 [Q1 [S1 P1]]].
  assert (D' : distinct (odag ob ++ odag oa)) by (rewrite <- odag_app; now apply distinct_odag).
  destruct (resolve_distinct (odag ob) (odag oa) pb D') as [u2 [Q2 [S2 P2]]].
  rewrite R1 in Q1. rewrite R2 in Q2. injection Q1 as Em1 Ew1. injection Q2 as Em2 Ew2. subst u1 u2.
  apply Sorted_SS in S1, S2. split; [|split; [|split; [exact S1|exact P1]]].
  - apply sorted_perm_unique; [exact S2|now apply SS_odag|].
    rewrite P2, <- odag_app. unfold Fermi.oddpos_dag. apply Permutation_map.
    rewrite <- !Permutation_rev. now symmetry.
  - rewrite Em1, Em2, <- odag_app, op_inv_odag, odag_length. clear.
    unfold fop, flabel, op, label. gen_odd. destruct pa, pb; all_bools.
Qed.

(* the same for the routine inside f_tensordot *)
Lemma resolve_oddpos_conj (oa ob : list fop) (pa pb m1 m2 : bool) (w1 w2 : list fop) :
  distinct (oa ++ ob) ->
  resolve_oddpos pa oa ob = Some (m1, w1) -> resolve_oddpos pb (odag ob) (odag oa) = Some (m2, w2) ->
  w2 = odag w1 /\ xorb m1 m2 = xorb (pa && Nat.odd (length ob)) (pb && Nat.odd (length oa)).
Proof.
  intros D R1 R2. rewrite resolve_oddpos_is_resolve in R1, R2.
  destruct (resolve_conj oa ob pa pb m1 m2 w1 w2 D R1 R2) as (H1 & H2 & _). split; assumption.
Qed.

(* ================================================================ part 1 *)
(* conjugation in the ring: an involutive-free ring homomorphism is all that is used *)
Record ConjLaws (R : Ring) : Prop := {
  rconj_0 : rconj R (r0 R) = r0 R;
  rconj_neg : forall a, rconj R (rneg R a) = rneg R (rconj R a);
  rconj_add : forall a b, rconj R (radd R a b) = radd R (rconj R a) (rconj R b);
  rconj_mul : forall a b, rconj R (rmul R a b) = rmul R (rconj R a) (rconj R b) }.

Lemma ZRing_conj_laws : ConjLaws ZRing.
Proof. constructor; reflexivity. Qed.
Lemma GRing_conj_laws : ConjLaws GRing.
Proof. constructor; cbn; intros; f_equal; lia. Qed.

Section ConjNet.
  Context (G : Symmetry) (GL : GroupLaws G) (OL : OrderProofs.OrderLaws G).
  Context (R : Ring) (NL : NegLaws R) (RL : SumLaws R) (CL : CommLaws R) (CJ : ConjLaws R).
  Notation sector := (list (C G)).
  Notation keq := (list_eqb (ceqb G)).
  Notation arr := (aarray G R).
  Notation farr := (farray G R).
  Notation ch_d := (ident G).
  Notation ix_d := (dflt_index G).
  Notation dcoord := (ident G, 0).
  Notation cspec := (ceqb_eq G GL).
  Notation rsg := (rsgn R).
  Notation VV := (V G R).
  Notation dual_axes b := (axes_where G (idual G) (indices G R b)).
  Notation nondual_axes b := (axes_where G (fun ix => negb (idual G ix)) (indices G R b)).

  (* the conjugate with the default dual-leg option *)
  Definition cj (x : farr) : farr := f_conj G R x true false.

  (* ---------- conjugation on signed sums ---------- *)
  Lemma rconj_rsgn b v : rconj R (rsg b v) = rsg b (rconj R v).
  Proof. destruct b; cbn [rsgn]; [apply (rconj_neg R CJ)|reflexivity]. Qed.
  Lemma rconj_rsum {A} (f : A -> RT R) l : rconj R (rsum R (map f l)) = rsum R (map (fun x => rconj R (f x)) l).
  Proof.
    induction l as [|x l IH]; cbn [map rsum fold_right]; [apply (rconj_0 R CJ)|].
    fold (rsum R (map f l)). fold (rsum R (map (fun x => rconj R (f x)) l)). now rewrite (rconj_add R CJ), IH.
  Qed.

  (* ---------- the reversal sign of a sector ---------- *)
  Definition revsg (s : sector) : bool := tri (countb (parity G) s).

  Lemma spar_countb (s : sector) : spar G s = Nat.odd (countb (parity G) s).
  Proof. unfold spar. apply xorb_list_odd_countb. Qed.
  Lemma revsg_app (u v : sector) : revsg (u ++ v) = xorb (xorb (revsg u) (revsg v)) (spar G u && spar G v).
  Proof. unfold revsg. now rewrite countb_app, tri_add, !spar_countb. Qed.
  Lemma revsg_perm (u v : sector) : Permutation u v -> revsg u = revsg v.
  Proof. intros H. unfold revsg. now rewrite (countb_perm _ u v H). Qed.
  Lemma spar_perm (u v : sector) : Permutation u v -> spar G u = spar G v.
  Proof. intros H. rewrite !spar_countb. now rewrite (countb_perm _ u v H). Qed.

  Lemma perm_minus_revsg (s : sector) : Forall (fun c => valid G c = true) s -> perm_minus G s None = revsg s.
  Proof.
    intros Hv. rewrite <- (perm_minus_rev G GL s Hv). unfold rev_axes.
    rewrite (perm_minus_some G s (rev (seq 0 (length s))) (length s)) by (symmetry; apply Permutation_rev).
    rewrite (inv_parity_wsg G s) by (intros i Hi; apply in_rev, in_seq in Hi; lia).
    rewrite wsg_rev by apply seq_NoDup. rewrite wsg_sorted by apply SS_seq. rewrite xorb_false_l.
    unfold revsg, nodd. f_equal.
    rewrite <- (countb_map (fun b : bool => b) (odd_at G s)), (map_parity_seq G s), countb_map. reflexivity.
  Qed.

  (* ---------- indices of the conjugate ---------- *)
  Lemma cj_fbase x pd : fbase G R (f_conj G R x true pd) = a_conj G R (fbase G R x).
  Proof. apply fbase_conj. Qed.
  Lemma cj_ndim x pd : ndim G R (fbase G R (f_conj G R x true pd)) = ndim G R (fbase G R x).
  Proof. rewrite cj_fbase. apply ndim_conj. Qed.
  Lemma cj_indices x pd : indices G R (fbase G R (f_conj G R x true pd)) = map (iconj G) (indices G R (fbase G R x)).
  Proof. now rewrite cj_fbase. Qed.
  Lemma nth_iconj' (ixs : list (index G)) i : i < length ixs -> nth i (map (iconj G) ixs) ix_d = iconj G (nth i ixs ix_d).
  Proof. intros Hi. rewrite (nth_indep _ ix_d (iconj G ix_d)) by (rewrite map_length; exact Hi). apply map_nth. Qed.
  Lemma cj_idual x pd i : i < ndim G R (fbase G R x) ->
    idual G (nth i (indices G R (fbase G R (f_conj G R x true pd))) ix_d) = negb (idual G (nth i (indices G R (fbase G R x)) ix_d)).
  Proof. intros Hi. rewrite cj_indices, nth_iconj' by exact Hi. apply iconj_dual. Qed.
  Lemma take_iconj (ixs : list (index G)) axes : (forall i, In i axes -> i < length ixs) ->
    take_axes ix_d (map (iconj G) ixs) axes = map (iconj G) (take_axes ix_d ixs axes).
  Proof. intros H. unfold take_axes. rewrite map_map. apply map_ext_in. intros i Hi. apply nth_iconj', H, Hi. Qed.
  Lemma without_iconj (ixs : list (index G)) axes :
    without_axes (map (iconj G) ixs) axes = map (iconj G) (without_axes ixs axes).
  Proof.
    rewrite !(without_axes_take ix_d), map_length. apply take_iconj. intros i Hi. apply (In_rest_axes _ _ _ Hi).
  Qed.
  Lemma map_chargemap_iconj (ixs : list (index G)) : map (chargemap G) (map (iconj G) ixs) = map (chargemap G) ixs.
  Proof. rewrite map_map. apply map_ext. apply iconj_chargemap. Qed.
  Lemma map_idual_iconj (ixs : list (index G)) : map (idual G) (map (iconj G) ixs) = map negb (map (idual G) ixs).
  Proof. rewrite !map_map. apply map_ext. apply iconj_dual. Qed.

  Lemma coords_ok_iconj (ixs : list (index G)) cs : coords_ok G (map (iconj G) ixs) cs = coords_ok G ixs cs.
  Proof.
    unfold coords_ok. rewrite map_length. f_equal.
    revert cs. induction ixs as [|ix ixs IH]; intros [|c cs]; try reflexivity.
    cbn [map List.combine forallb fst snd]. rewrite IH. f_equal. unfold size_of. now rewrite iconj_chargemap.
  Qed.

  Lemma Forall2_flip_in {A B} (P : A -> B -> Prop) (Q : B -> A -> Prop) la lb :
    Forall2 P la lb -> (forall x y, In x la -> In y lb -> P x y -> Q y x) -> Forall2 Q lb la.
  Proof.
    intros F. induction F as [|x y la lb Hxy F IH]; intros H; constructor.
    - apply H; [now left|now left|exact Hxy].
    - apply IH. intros x' y' Hx' Hy'. apply H; now right.
  Qed.

  (* conjugating both operands and exchanging them keeps the pair contractible *)
  Lemma pair_ok_cj a b aa ab pd pd' : pair_ok G R a b aa ab ->
    pair_ok G R (f_conj G R b true pd) (f_conj G R a true pd') ab aa.
  Proof.
    intros [NDaa Haa NDab Hab Hlen Hd Htab]. constructor.
    - exact NDab.
    - intros i Hi. rewrite cj_ndim. now apply Hab.
    - exact NDaa.
    - intros i Hi. rewrite cj_ndim. now apply Haa.
    - now symmetry.
    - unfold opposite_dirs in *. apply (Forall2_flip_in _ _ aa ab Hd). intros i j Hi Hj E.
      rewrite (cj_idual b pd j (Hab j Hj)), (cj_idual a pd' i (Haa i Hi)), E. now rewrite negb_involutive.
    - rewrite !cj_indices. rewrite (take_iconj _ ab Hab), (take_iconj _ aa Haa), !map_chargemap_iconj. now symmetry.
  Qed.

  (* ---------- the operand signs of the conjugates ---------- *)
  Lemma ketbra_a_cj x pd ax (s : sector) : (forall i, In i ax -> i < ndim G R (fbase G R x)) ->
    ketbra_a G R (f_conj G R x true pd) ax s = ketbra_b G R x ax s.
  Proof.
    intros H. unfold ketbra_a, ketbra_b. f_equal. apply filter_ext_in. intros i Hi.
    rewrite (cj_idual x pd i (H i Hi)). apply negb_involutive.
  Qed.
  Lemma ketbra_b_cj x pd ax (s : sector) : (forall i, In i ax -> i < ndim G R (fbase G R x)) ->
    ketbra_b G R (f_conj G R x true pd) ax s = ketbra_a G R x ax s.
  Proof.
    intros H. unfold ketbra_a, ketbra_b. f_equal. apply filter_ext_in. intros i Hi.
    now rewrite (cj_idual x pd i (H i Hi)).
  Qed.
  Lemma sigma_a_cj x pd ax (s : sector) : (forall i, In i ax -> i < ndim G R (fbase G R x)) ->
    sigma_a G R (f_conj G R x true pd) ax s = xorb (sigma_a G R x ax s) (wpar (odd_at G s) ax).
  Proof.
    intros H. unfold sigma_a. rewrite cj_ndim, (ketbra_a_cj x pd ax s H), <- (ketbra_split G R x ax s).
    now destruct (inv_parity _ _), (ketbra_a G R x ax s), (ketbra_b G R x ax s).
  Qed.
  Lemma sigma_b_cj x pd ax (s : sector) : sigma_b G R (f_conj G R x true pd) ax s = sigma_b G R x ax s.
  Proof. unfold sigma_b. now rewrite cj_ndim. Qed.

  (* ---------- the value of a conjugate / of a sign flip in coordinates ---------- *)
  Lemma V_conj x pd cs :
    valid G (charge G R (fbase G R x)) = true -> NoDup (fsectors G R x) ->
    Nat.odd (length (foddpos G R x)) = fparity G R x ->
    VV (f_conj G R x true pd) cs
    = rsg (xorb (xorb (perm_minus G (map fst cs) None) (pd && count_odd G (map fst cs) (dual_axes (fbase G R x)))) (fparity G R x))
          (rconj R (VV x cs)).
  Proof.
    intros Hv Hn Hp. unfold V.
    rewrite (sem_conj G GL R NL (rconj_0 R CJ) (rconj_neg R CJ) x pd cs Hv Hn). f_equal.
    unfold conj_sign, glob_flag. rewrite Hp. cbn [andb]. now rewrite andb_diag.
  Qed.

  Lemma V_phase_flip x axs cs : NoDup (fsectors G R x) ->
    VV (f_phase_flip G R x axs) cs = rsg (count_odd G (map fst cs) axs) (VV x cs).
  Proof.
    intros Hn. unfold V, sem.
    pose proof (phase_flip_value G R NL cspec x axs (map fst cs) Hn) as H. unfold vblock in H. rewrite H.
    destruct (lookup keq (map fst cs) (blocks G R (f_value G R x))) as [t|]; cbn [osgn option_map].
    - destruct (count_odd G (map fst cs) axs); cbn [FermiProofs.sgn rsgn]; [|reflexivity].
      unfold tneg. apply get_tmap. apply (rneg_zero R NL).
    - now rewrite rsgn_r0.
  Qed.

  (* ---------- what wf provides ---------- *)
  Lemma wff_valid_q x : wf_fermi G R x = true -> valid G (charge G R (fbase G R x)) = true.
  Proof. intros W. apply (wff_base G R) in W. apply (wf_array_awf G GL R) in W. apply (awf_charge G R _ W). Qed.
  Lemma wff_valid_sec x s : wf_fermi G R x = true -> In s (fsectors G R x) -> Forall (fun c => valid G c = true) s.
  Proof. intros W. apply (wff_base G R) in W. apply (wf_array_awf G GL R) in W. apply (awf_valid G R _ W). Qed.

  Lemma V_cj x cs : wf_fermi G R x = true ->
    VV (cj x) cs = rsg (xorb (perm_minus G (map fst cs) None) (fparity G R x)) (rconj R (VV x cs)).
  Proof.
    intros W. unfold cj. rewrite (V_conj x false cs (wff_valid_q x W) (wff_nodup G GL R x W) (wff_par G GL R x W)).
    cbn [andb]. now rewrite xorb_false_r.
  Qed.

  (* ================================================================ part 2 *)
  (* the reversal signs of two aligned sectors against the one of the free charges *)
  Lemma revsg_aligned a b aa ab (sa sb : sector) :
    wf_fermi G R a = true -> wf_fermi G R b = true -> pair_ok G R a b aa ab ->
    In sa (fsectors G R a) -> In sb (fsectors G R b) ->
    take_axes ch_d sa aa = take_axes ch_d sb ab ->
    let sl := take_axes ch_d sa (rest_axes (ndim G R (fbase G R a)) aa) in
    let sr := take_axes ch_d sb (rest_axes (ndim G R (fbase G R b)) ab) in
    revsg (sl ++ sr)
    = xorb (xorb (fparity G R a && fparity G R b) (wpar (odd_at G sb) ab)) (xorb (revsg sa) (revsg sb))
    /\ spar G sl = xorb (fparity G R a) (wpar (odd_at G sb) ab)
    /\ spar G sr = xorb (fparity G R b) (wpar (odd_at G sb) ab).
  Proof.
    intros Wa Wb P Sa Sb Hal sl sr. destruct P as [NDaa Haa NDab Hab Hlen Hd Htab].
    set (na := ndim G R (fbase G R a)) in *. set (nb := ndim G R (fbase G R b)) in *.
    pose proof (wff_len G GL R a Wa sa Sa) as La. pose proof (wff_len G GL R b Wb sb Sb) as Lb. fold na in La. fold nb in Lb.
    pose proof (perm_rest_axes na aa NDaa Haa) as PA. pose proof (perm_axes_rest nb ab NDab Hab) as PB.
    set (k := take_axes ch_d sb ab) in *.
    assert (Pa : Permutation (sl ++ take_axes ch_d sa aa) sa).
    { unfold sl. rewrite <- take_axes_app. apply (permuted_Permutation ch_d sa). now rewrite La. }
    assert (Pb : Permutation (k ++ sr) sb).
    { unfold sr, k. rewrite <- take_axes_app. apply (permuted_Permutation ch_d sb). now rewrite Lb. }
    rewrite Hal in Pa.
    pose proof (wff_sector_par G GL R a sa _ Wa Sa PA) as Epa. rewrite wpar_spar, take_axes_app in Epa. fold sl na in Epa.
    rewrite Hal, spar_app in Epa.
    pose proof (wff_sector_par G GL R b sb _ Wb Sb PB) as Epb. rewrite wpar_spar, take_axes_app in Epb. fold sr nb k in Epb.
    rewrite spar_app in Epb.
    rewrite wpar_spar. fold k.
    rewrite <- (revsg_perm _ _ Pa), <- (revsg_perm _ _ Pb), !revsg_app, <- Epa, <- Epb.
    split; [|split]; now destruct (revsg sl), (revsg sr), (revsg k), (spar G sl), (spar G sr), (spar G k).
  Qed.

  Lemma cj_oddpos x pd : foddpos G R (f_conj G R x true pd) = odag (foddpos G R x).
  Proof. apply foddpos_conj. Qed.
  Lemma cj_fparity x pd : wf_fermi G R x = true -> fparity G R (f_conj G R x true pd) = fparity G R x.
  Proof. intros W. apply (conj_parity G GL R x true pd (wff_valid_q x W)). Qed.

  Lemma cj_free_ixs a b aa ab pd pd' :
    free_ixs G R (f_conj G R b true pd) (f_conj G R a true pd') ab aa
    = map (iconj G) (without_axes (indices G R (fbase G R b)) ab) ++ map (iconj G) (without_axes (indices G R (fbase G R a)) aa).
  Proof. unfold free_ixs. now rewrite !cj_indices, !without_iconj. Qed.

  (* the core: both contractions exist, and conj b . conj a is, coordinate by coordinate, the
     conjugate of a . b with b's free legs in front, up to the reversal sign of the free charges,
     the block-exchange sign and the parity of the result *)
  Lemma conj_tdot_core a b aa ab :
    wf_fermi G R a = true -> wf_fermi G R b = true -> pair_ok G R a b aa ab ->
    distinct (foddpos G R a ++ foddpos G R b) ->
    exists y1 y2,
      f_tensordot G R a b (naxes aa ab) MBlockwise = Some y1
      /\ f_tensordot G R (cj b) (cj a) (naxes ab aa) MBlockwise = Some y2
      /\ wf_fermi G R (reindex G R y1 (free_ixs G R a b aa ab)) = true
      /\ wf_fermi G R (reindex G R y2 (free_ixs G R (cj b) (cj a) ab aa)) = true
      /\ map (idual G) (free_ixs G R a b aa ab) = map (idual G) (indices G R (fbase G R y1))
      /\ map (idual G) (free_ixs G R (cj b) (cj a) ab aa) = map (idual G) (indices G R (fbase G R y2))
      /\ fparity G R y1 = xorb (fparity G R a) (fparity G R b)
      /\ fparity G R y2 = xorb (fparity G R a) (fparity G R b)
      /\ foddpos G R y2 = odag (foddpos G R y1)
      /\ StronglySorted lt_op (foddpos G R y1)
      /\ Permutation (foddpos G R y1) (foddpos G R a ++ foddpos G R b)
      /\ forall cl cr,
           coords_ok G (without_axes (indices G R (fbase G R a)) aa) cl = true ->
           coords_ok G (without_axes (indices G R (fbase G R b)) ab) cr = true ->
           VV y2 (cr ++ cl)
           = rsg (xorb (xorb (spar G (map fst cl) && spar G (map fst cr)) (revsg (map fst (cl ++ cr))))
                       (xorb (fparity G R a) (fparity G R b)))
                 (rconj R (VV y1 (cl ++ cr))).
  Proof.
    intros Wa Wb P D.
    destruct (tdot_main G GL OL R NL RL a b aa ab Wa Wb P D) as [y1 [m1 (E1 & R1 & P1 & W1 & D1 & Q1 & S1)]].
    set (ca := cj a). set (cb := cj b).
    assert (Wca : wf_fermi G R ca = true) by (apply (f_conj_wf G GL); exact Wa).
    assert (Wcb : wf_fermi G R cb = true) by (apply (f_conj_wf G GL); exact Wb).
    assert (Pc : pair_ok G R cb ca ab aa) by (apply pair_ok_cj; exact P).
    assert (Dc : distinct (foddpos G R cb ++ foddpos G R ca)).
    { unfold cb, ca, cj. rewrite !cj_oddpos, <- odag_app. apply distinct_odag, D. }
    destruct (tdot_main G GL OL R NL RL cb ca ab aa Wcb Wca Pc Dc) as [y2 [m2 (E2 & R2 & P2 & W2 & D2 & Q2 & S2)]].
    assert (Fa : fparity G R ca = fparity G R a) by (apply cj_fparity; exact Wa).
    assert (Fb : fparity G R cb = fparity G R b) by (apply cj_fparity; exact Wb).
    rewrite Fa, Fb in Q2.
    assert (R2' : resolve (odag (foddpos G R b)) (odag (foddpos G R a)) (fparity G R b) = Some (m2, foddpos G R y2)).
    { rewrite <- Fb, <- R2. unfold cb, ca, cj. now rewrite !cj_oddpos. }
    destruct (resolve_conj _ _ _ _ _ _ _ _ D R1 R2') as (Ew & Em & SS1 & _).
    assert (Em2 : m2 = m1).
    { change (@length op (foddpos G R a)) with (@length fop (foddpos G R a)) in Em.
      change (@length op (foddpos G R b)) with (@length fop (foddpos G R b)) in Em.
      rewrite (wff_par G GL R a Wa), (wff_par G GL R b Wb) in Em. revert Em.
      now destruct m1, m2, (fparity G R a), (fparity G R b). }
    subst m2.
    exists y1, y2. split; [exact E1|]. split; [exact E2|]. split; [exact W1|]. split; [exact W2|].
    split; [exact D1|]. split; [exact D2|]. split; [exact Q1|]. split; [rewrite Q2; apply xorb_comm|].
    split; [exact Ew|]. split; [exact SS1|]. split; [exact P1|].
    intros cl cr Hcl Hcr.
    pose proof (po_nda _ _ _ _ _ _ P) as NDaa. pose proof (po_lta _ _ _ _ _ _ P) as Haa.
    pose proof (po_ndb _ _ _ _ _ _ P) as NDab. pose proof (po_ltb _ _ _ _ _ _ P) as Hab.
    pose proof (po_len _ _ _ _ _ _ P) as Hlen.
    assert (Hcr' : coords_ok G (without_axes (indices G R (fbase G R cb)) ab) cr = true).
    { unfold cb, cj. now rewrite cj_indices, without_iconj, coords_ok_iconj. }
    assert (Hcl' : coords_ok G (without_axes (indices G R (fbase G R ca)) aa) cl = true).
    { unfold ca, cj. now rewrite cj_indices, without_iconj, coords_ok_iconj. }
    rewrite (S1 cl cr Hcl Hcr), (S2 cr cl Hcr' Hcl').
    assert (EC : all_coords G (take_axes ix_d (indices G R (fbase G R cb)) ab)
                 = all_coords G (take_axes ix_d (indices G R (fbase G R a)) aa)).
    { apply all_coords_agree. unfold cb, cj. rewrite cj_indices, (take_iconj _ ab Hab), map_chargemap_iconj.
      symmetry. apply (po_tabs _ _ _ _ _ _ P). }
    assert (Nca : ndim G R (fbase G R ca) = ndim G R (fbase G R a)) by apply cj_ndim.
    assert (Ncb : ndim G R (fbase G R cb) = ndim G R (fbase G R b)) by apply cj_ndim.
    rewrite EC, Nca, Ncb.
    rewrite rconj_rsgn, rconj_rsum, !(rsgn_rsum R NL). apply (Tdot.rsum_ext R). intros kc Hkc.
    pose proof (In_all_coords G cspec _ kc (wff_ix_nodup G GL OL R a aa Wa) Hkc) as Hk.
    pose proof (Tdot.coords_ok_length G _ _ Hk) as Lk. rewrite (length_take_axes ix_d) in Lk.
    destruct (free_ixs_length G R a b aa ab P) as [Ll Lr].
    pose proof (Tdot.coords_ok_length G _ _ Hcl) as Lcl. pose proof (Tdot.coords_ok_length G _ _ Hcr) as Lcr.
    rewrite Ll in Lcl. rewrite Lr in Lcr.
    set (na := ndim G R (fbase G R a)) in *. set (nb := ndim G R (fbase G R b)) in *.
    set (A := merge G na aa cl kc). set (B := merge G nb ab cr kc).
    rewrite (rconj_mul R CJ), !rconj_rsgn.
    fold (VV cb B) (VV ca A). unfold cb at 2, ca at 2. rewrite (V_cj b B Wb), (V_cj a A Wa).
    rewrite !(rmul_rsgn R NL), !(rsgn_rsgn R NL), (rmul_comm R CL (rconj R (VV b B)) (rconj R (VV a A))).
    destruct (V_zero_or G GL R a A) as [Za|Sa];
      [rewrite Za, (rconj_0 R CJ), (rmul_0_l R RL), !(rsgn_r0 R NL); reflexivity|].
    destruct (V_zero_or G GL R b B) as [Zb|Sb];
      [rewrite Zb, (rconj_0 R CJ), (rmul_0_r R RL), !(rsgn_r0 R NL); reflexivity|].
    f_equal.
    assert (Hal : take_axes ch_d (map fst A) aa = take_axes ch_d (map fst B) ab).
    { unfold A, B. rewrite (merge_take_axes G na aa cl kc NDaa Haa Lk).
      rewrite (merge_take_axes G nb ab cr kc NDab Hab) by congruence. reflexivity. }
    assert (Tl : take_axes ch_d (map fst A) (rest_axes na aa) = map fst cl).
    { unfold A. apply (merge_take_rest G). rewrite (length_rest_axes na aa NDaa Haa). exact Lcl. }
    assert (Tr : take_axes ch_d (map fst B) (rest_axes nb ab) = map fst cr).
    { unfold B. apply (merge_take_rest G). rewrite (length_rest_axes nb ab NDab Hab). exact Lcr. }
    pose proof (swap_sign G GL R a b aa ab (map fst A) (map fst B) m1 (xorb m1 (fparity G R a && fparity G R b))
                  Wa Wb P Sa Sb Hal ltac:(now destruct m1, (fparity G R a && fparity G R b))) as HS.
    fold na nb in HS. rewrite Tl, Tr in HS.
    unfold coord in *. set (rv := revsg (map fst (cl ++ cr))).
    assert (HR : rv = xorb (xorb (fparity G R a && fparity G R b) (wpar (odd_at G (map fst B)) ab))
                           (xorb (revsg (map fst A)) (revsg (map fst B)))).
    { unfold rv. rewrite map_app, <- Tl, <- Tr. apply (revsg_aligned a b aa ab (map fst A) (map fst B) Wa Wb P Sa Sb Hal). }
    rewrite HR. clear HR rv.
    unfold cb, ca, cj. rewrite (sigma_a_cj b false ab (map fst B) Hab), (sigma_b_cj a false aa (map fst A)).
    rewrite (perm_minus_revsg _ (wff_valid_sec a _ Wa Sa)), (perm_minus_revsg _ (wff_valid_sec b _ Wb Sb)).
    revert HS.
    generalize (sigma_a G R b ab (map fst B)) (sigma_b G R a aa (map fst A)) (sigma_a G R a aa (map fst A))
      (sigma_b G R b ab (map fst B)) (spar G (map fst cl)) (spar G (map fst cr)) (wpar (odd_at G (map fst B)) ab)
      (revsg (map fst A)) (revsg (map fst B)) (fparity G R a) (fparity G R b).
    intros b1 b2 b3 b4 b5 b6 b7 b8 b9 b10 b11.
    destruct m1, b1, b2, b3, b4, b5, b6, b7, b8, b9, b10, b11; cbn; congruence.
  Qed.

  (* the dual-leg option only adds the sign flip of the bra-like legs *)
  Lemma V_conj_dual x cs :
    valid G (charge G R (fbase G R x)) = true -> NoDup (fsectors G R x) ->
    Nat.odd (length (foddpos G R x)) = fparity G R x ->
    VV (f_conj G R x true true) cs = rsg (count_odd G (map fst cs) (dual_axes (fbase G R x))) (VV (cj x) cs).
  Proof.
    intros Hv Hn Hp. unfold cj. rewrite !(V_conj x _ cs Hv Hn Hp), (rsgn_rsgn R NL). f_equal. cbn [andb].
    now destruct (perm_minus G (map fst cs) None), (count_odd G (map fst cs) (dual_axes (fbase G R x))), (fparity G R x).
  Qed.

  (* what the reindexed result of tdot_main gives for the result itself *)
  Lemma reindex_facts y ixs : wf_fermi G R (reindex G R y ixs) = true ->
    valid G (charge G R (fbase G R y)) = true /\ NoDup (fsectors G R y)
    /\ Nat.odd (length (foddpos G R y)) = fparity G R y
    /\ forall s, In s (fsectors G R y) -> Forall (fun c => valid G c = true) s.
  Proof.
    intros W. split; [exact (wff_valid_q _ W)|]. split; [exact (wff_nodup G GL R _ W)|].
    split; [exact (wff_par G GL R _ W)|]. intros s Hs. exact (wff_valid_sec _ s W Hs).
  Qed.

  Lemma conj_tensordot_both a b aa ab :
    wf_fermi G R a = true -> wf_fermi G R b = true -> pair_ok G R a b aa ab ->
    distinct (foddpos G R a ++ foddpos G R b) ->
    exists y1 y2,
      f_tensordot G R a b (naxes aa ab) MBlockwise = Some y1
      /\ f_tensordot G R (cj b) (cj a) (naxes ab aa) MBlockwise = Some y2
      /\ let nl := ndim G R (fbase G R a) - length aa in
         let nr := ndim G R (fbase G R b) - length ab in
         let t := f_transpose G R y2 (seq nr nl ++ seq 0 nr) true in
         let t' := f_phase_flip G R t (dual_axes (fbase G R y1)) in
         foddpos G R (cj y1) = foddpos G R t
         /\ foddpos G R (f_conj G R y1 true true) = foddpos G R t'
         /\ forall cl cr,
              coords_ok G (without_axes (indices G R (fbase G R a)) aa) cl = true ->
              coords_ok G (without_axes (indices G R (fbase G R b)) ab) cr = true ->
              VV (cj y1) (cl ++ cr) = VV t (cl ++ cr)
              /\ VV (f_conj G R y1 true true) (cl ++ cr) = VV t' (cl ++ cr).
  Proof.
    intros Wa Wb P D.
    destruct (conj_tdot_core a b aa ab Wa Wb P D)
      as [y1 [y2 (E1 & E2 & W1 & W2 & D1 & D2 & Q1 & Q2 & Ew & SS1 & P1 & S)]].
    exists y1, y2. split; [exact E1|]. split; [exact E2|]. cbv zeta.
    destruct (reindex_facts y1 _ W1) as (Hv1 & Hn1 & Hp1 & Hs1).
    set (nl := ndim G R (fbase G R a) - length aa). set (nr := ndim G R (fbase G R b) - length ab).
    set (p := seq nr nl ++ seq 0 nr).
    set (y2' := reindex G R y2 (free_ixs G R (cj b) (cj a) ab aa)) in *.
    pose proof (same_val_reindex G R y2 _ D2) as SV. fold y2' in SV.
    pose proof (same_val_transpose G R y2' y2 p SV) as SVt.
    destruct (free_ixs_length G R a b aa ab P) as [Ll Lr]. fold nl in Ll. fold nr in Lr.
    assert (Lix : length (free_ixs G R (cj b) (cj a) ab aa) = nr + nl).
    { unfold cj. rewrite cj_free_ixs, app_length, !map_length. lia. }
    assert (HP : Permutation p (seq 0 (ndim G R (fbase G R y2')))).
    { unfold y2', reindex, ndim. cbn [fbase indices]. rewrite Lix. apply perm_swap_seq. }
    assert (Wt : wf_fermi G R (f_transpose G R y2' p true) = true) by (apply (f_transpose_wf G GL); assumption).
    assert (Hnt : NoDup (fsectors G R (f_transpose G R y2 p true))).
    { rewrite <- (same_val_fsectors G R _ _ SVt). apply (wff_nodup G GL R _ Wt). }
    split; [unfold cj; rewrite cj_oddpos; cbn [f_transpose foddpos]; now symmetry|].
    split.
    { rewrite cj_oddpos.
      assert (E : forall x axs, foddpos G R (f_phase_flip G R x axs) = foddpos G R x)
        by (intros x axs; unfold f_phase_flip; destruct (is_nil axs); reflexivity).
      rewrite E. cbn [f_transpose foddpos]. now symmetry. }
    intros cl cr Hcl Hcr.
    assert (Key : VV (cj y1) (cl ++ cr) = VV (f_transpose G R y2 p true) (cl ++ cr)).
    { pose proof (Tdot.coords_ok_length G _ _ Hcl) as Lcl. pose proof (Tdot.coords_ok_length G _ _ Hcr) as Lcr.
      rewrite Ll in Lcl. rewrite Lr in Lcr.
      rewrite <- (same_val_V G R _ _ SVt).
      assert (Ep : cl ++ cr = permuted dcoord (cr ++ cl) p).
      { unfold p. rewrite <- Lcl, <- Lcr. symmetry. apply permuted_swap. }
      rewrite Ep at 2.
      rewrite (V_transpose G GL R NL y2' p (cr ++ cl) W2 HP).
      2:{ unfold y2', reindex, cj. cbn [fbase indices]. rewrite cj_free_ixs. apply coords_ok_app; now rewrite coords_ok_iconj. }
      rewrite (same_val_V G R y2' y2 SV), (S cl cr Hcl Hcr), (rsgn_rsgn R NL).
      unfold cj at 1. rewrite (V_conj y1 false _ Hv1 Hn1 Hp1). cbn [andb]. rewrite xorb_false_r.
      destruct (V_zero_or G GL R y1 (cl ++ cr)) as [Z|Sy]; [rewrite Z, (rconj_0 R CJ), !(rsgn_r0 R NL); reflexivity|].
      f_equal. rewrite (perm_minus_revsg _ (Hs1 _ Sy)), Q1.
      assert (El : length (map fst cl) = nl) by (rewrite map_length; exact Lcl).
      assert (Er : length (map fst cr) = nr) by (rewrite map_length; exact Lcr).
      unfold p. rewrite <- El, <- Er. unfold coord in *. rewrite (map_app fst cr cl), wsg_swap_blocks.
      now destruct (spar G (map fst cl)), (spar G (map fst cr)), (revsg (map fst (cl ++ cr))), (fparity G R a), (fparity G R b). }
    split; [exact Key|].
    rewrite (V_conj_dual y1 _ Hv1 Hn1 Hp1), (V_phase_flip _ _ _ Hnt). now rewrite Key.
  Qed.

  (* conjugation is an anti-homomorphism of the contraction (default dual-leg option) *)
  Theorem conj_tensordot a b aa ab :
    wf_fermi G R a = true -> wf_fermi G R b = true -> pair_ok G R a b aa ab ->
    distinct (foddpos G R a ++ foddpos G R b) ->
    exists y1 y2,
      f_tensordot G R a b (naxes aa ab) MBlockwise = Some y1
      /\ f_tensordot G R (f_conj G R b true false) (f_conj G R a true false) (naxes ab aa) MBlockwise = Some y2
      /\ let nl := ndim G R (fbase G R a) - length aa in
         let nr := ndim G R (fbase G R b) - length ab in
         let t := f_transpose G R y2 (seq nr nl ++ seq 0 nr) true in
         foddpos G R (f_conj G R y1 true false) = foddpos G R t
         /\ forall cl cr,
              coords_ok G (without_axes (indices G R (fbase G R a)) aa) cl = true ->
              coords_ok G (without_axes (indices G R (fbase G R b)) ab) cr = true ->
              VV (f_conj G R y1 true false) (cl ++ cr) = VV t (cl ++ cr).
  Proof.
    intros Wa Wb P D. destruct (conj_tensordot_both a b aa ab Wa Wb P D) as [y1 [y2 (E1 & E2 & H)]].
    exists y1, y2. split; [exact E1|]. split; [exact E2|]. cbv zeta in *. destruct H as (L1 & _ & H).
    split; [exact L1|]. intros cl cr Hcl Hcr. apply (H cl cr Hcl Hcr).
  Qed.

  (* with the dual-leg option on the contracted network: exactly the sign flip of the dangling
     legs that are bra-like, nothing on the bond *)
  Theorem conj_tensordot_dual a b aa ab :
    wf_fermi G R a = true -> wf_fermi G R b = true -> pair_ok G R a b aa ab ->
    distinct (foddpos G R a ++ foddpos G R b) ->
    exists y1 y2,
      f_tensordot G R a b (naxes aa ab) MBlockwise = Some y1
      /\ f_tensordot G R (f_conj G R b true false) (f_conj G R a true false) (naxes ab aa) MBlockwise = Some y2
      /\ let nl := ndim G R (fbase G R a) - length aa in
         let nr := ndim G R (fbase G R b) - length ab in
         let t := f_phase_flip G R (f_transpose G R y2 (seq nr nl ++ seq 0 nr) true) (dual_axes (fbase G R y1)) in
         foddpos G R (f_conj G R y1 true true) = foddpos G R t
         /\ forall cl cr,
              coords_ok G (without_axes (indices G R (fbase G R a)) aa) cl = true ->
              coords_ok G (without_axes (indices G R (fbase G R b)) ab) cr = true ->
              VV (f_conj G R y1 true true) (cl ++ cr) = VV t (cl ++ cr).
  Proof.
    intros Wa Wb P D. destruct (conj_tensordot_both a b aa ab Wa Wb P D) as [y1 [y2 (E1 & E2 & H)]].
    exists y1, y2. split; [exact E1|]. split; [exact E2|]. cbv zeta in *. destruct H as (_ & L2 & H).
    split; [exact L2|]. intros cl cr Hcl Hcr. apply (H cl cr Hcl Hcr).
  Qed.

  (* ================================================================ part 3 *)
  Lemma SS_sorted_by (w : list op) : StronglySorted lt_op w -> sorted_by fop_ltb w = true.
  Proof.
    induction 1 as [|x t HS IH HF]; [reflexivity|]. destruct t as [|y t]; [reflexivity|].
    cbn [sorted_by]. apply andb_true_iff. split; [|exact IH].
    inversion HF as [|? ? Hxy _]; subst. unfold lt_op in Hxy. now rewrite <- op_lt_fop_ltb.
  Qed.

  Lemma n_dual_perm (u v : list fop) : Permutation u v -> n_dual u = n_dual v.
  Proof. intros H. unfold n_dual. apply xorb_list_perm, Permutation_map, H. Qed.

  Lemma coords_ok_cons ix ixs (c : coord G) cs :
    coords_ok G (ix :: ixs) (c :: cs) = (snd c <? size_of G ix (fst c)) && coords_ok G ixs cs.
  Proof.
    unfold coords_ok. cbn [length List.combine forallb fst snd Nat.eqb].
    now destruct (length cs =? length ixs), (snd c <? size_of G ix (fst c)).
  Qed.

  Lemma coords_ok_split ixs1 ixs2 (kc : list (coord G)) : coords_ok G (ixs1 ++ ixs2) kc = true ->
    exists cl cr, kc = cl ++ cr /\ coords_ok G ixs1 cl = true /\ coords_ok G ixs2 cr = true.
  Proof.
    revert kc. induction ixs1 as [|ix ixs1 IH]; intros kc H.
    - exists [], kc. split; [reflexivity|]. split; [reflexivity|exact H].
    - destruct kc as [|c kc]; [discriminate H|]. cbn [app] in H. rewrite coords_ok_cons in H.
      apply andb_true_iff in H. destruct H as [H1 H2]. destruct (IH kc H2) as [cl [cr (E & Hl & Hr)]].
      exists (c :: cl), cr. split; [cbn [app]; now rewrite E|]. split; [|exact Hr].
      rewrite coords_ok_cons. now rewrite H1, Hl.
  Qed.

  Lemma NoDup_swap_seq n m : NoDup (seq n m ++ seq 0 n).
  Proof. apply (Permutation_NoDup (Permutation_sym (perm_swap_seq n m))), seq_NoDup. Qed.
  Lemma lt_swap_seq n m i : In i (seq n m ++ seq 0 n) -> i < n + m.
  Proof. intros H. apply (Permutation_in _ (perm_swap_seq n m)), in_seq in H. lia. Qed.
  Lemma rest_axes_swap n m : rest_axes (n + m) (seq n m ++ seq 0 n) = [].
  Proof. rewrite (rest_axes_perm _ _ _ (perm_swap_seq n m)). apply rest_axes_full. Qed.

  (* the contracted coordinates (a's free legs, b's free legs) seen from the bra network, whose
     legs are (b's free legs, a's free legs) *)
  Lemma merge_swap (cl cr : list (coord G)) :
    merge G (length cr + length cl) (seq (length cr) (length cl) ++ seq 0 (length cr)) [] (cl ++ cr) = cr ++ cl.
  Proof.
    unfold merge.
    apply (proj2 (scatterA_eq_iff dcoord (length cr + length cl) (seq (length cr) (length cl) ++ seq 0 (length cr))
                    (cl ++ cr) [] (cr ++ cl) (NoDup_swap_seq _ _) (lt_swap_seq _ _)
                    ltac:(rewrite !app_length, !seq_length; reflexivity)
                    ltac:(now rewrite rest_axes_swap)
                    ltac:(now rewrite app_length))).
    split.
    - symmetry. apply (permuted_swap dcoord cr cl).
    - now rewrite rest_axes_swap.
  Qed.

  Lemma wsg_rev_seq (s : sector) : wsg (odd_at G s) (rev (seq 0 (length s))) = revsg s.
  Proof.
    rewrite wsg_rev by apply seq_NoDup. rewrite wsg_sorted by apply SS_seq. rewrite xorb_false_l.
    unfold revsg, nodd. f_equal.
    rewrite <- (countb_map (fun b : bool => b) (odd_at G s)), (map_parity_seq G s), countb_map. reflexivity.
  Qed.

  Lemma sigma_b_all x (s : sector) : length s = ndim G R (fbase G R x) ->
    sigma_b G R x (seq 0 (ndim G R (fbase G R x))) s = revsg s.
  Proof.
    intros L. unfold sigma_b. rewrite rest_axes_full, app_nil_r, <- L.
    rewrite (inv_parity_wsg G s) by (intros i Hi; apply in_rev, in_seq in Hi; lia). apply wsg_rev_seq.
  Qed.

  Lemma flip_reindex y ixs axs : f_phase_flip G R (reindex G R y ixs) axs = reindex G R (f_phase_flip G R y axs) ixs.
  Proof. unfold f_phase_flip. destruct (is_nil axs); reflexivity. Qed.

  Lemma axes_where_duals (Q : bool -> bool) (ixs ixs' : list (index G)) :
    map (idual G) ixs = map (idual G) ixs' ->
    axes_where G (fun ix => Q (idual G ix)) ixs = axes_where G (fun ix => Q (idual G ix)) ixs'.
  Proof.
    intros H. rewrite <- !(axes_where_filter (fun ix => Q (idual G ix))).
    assert (L : length ixs = length ixs') by (rewrite <- (map_length (idual G) ixs), H; apply map_length).
    rewrite L. apply filter_ext. intros i. f_equal. rewrite <- !(map_nth (idual G)). now rewrite H.
  Qed.

  Lemma fbase_flip x axs : fbase G R (f_phase_flip G R x axs) = fbase G R x.
  Proof. unfold f_phase_flip. destruct (is_nil axs); reflexivity. Qed.
  Lemma foddpos_flip x axs : foddpos G R (f_phase_flip G R x axs) = foddpos G R x.
  Proof. unfold f_phase_flip. destruct (is_nil axs); reflexivity. Qed.
  Lemma fparity_flip x axs : fparity G R (f_phase_flip G R x axs) = fparity G R x.
  Proof. unfold fparity. now rewrite fbase_flip. Qed.

  Lemma Forall2_by_nth {A B} (P : A -> B -> Prop) (da : A) (db : B) l1 l2 :
    length l1 = length l2 -> (forall k, k < length l1 -> P (nth k l1 da) (nth k l2 db)) -> Forall2 P l1 l2.
  Proof.
    revert l2. induction l1 as [|x l1 IH]; intros [|y l2] L H; cbn [length] in L; try discriminate; constructor.
    - apply (H 0). cbn [length]. lia.
    - apply IH; [lia|]. intros k Hk. apply (H (S k)). cbn [length]. lia.
  Qed.

  (* the bra network and the ket network: the data of the final contraction.
     ixl / ixr = index tables of the free legs of a / b. *)
  Section Closing.
    Context (ixl ixr : list (index G)).
    Let nl := length ixl.
    Let nr := length ixr.
    Let ixY := ixl ++ ixr.
    Let ixC := map (iconj G) ixr ++ map (iconj G) ixl.
    Let axc := seq nr nl ++ seq 0 nr.

    Lemma cl_take_C : take_axes ix_d ixC axc = map (iconj G) ixY.
    Proof.
      unfold ixC, axc, ixY, nr, nl. rewrite <- (map_length (iconj G) ixr), <- (map_length (iconj G) ixl).
      rewrite map_app. apply (permuted_swap ix_d).
    Qed.

    (* C: the bra network (legs: b's free legs then a's, conjugated); Y: the ket network *)
    Lemma closing_pair_ok (Cc Yy : farr) :
      indices G R (fbase G R Cc) = ixC -> indices G R (fbase G R Yy) = ixY ->
      pair_ok G R Cc Yy axc (seq 0 (nl + nr)).
    Proof.
      intros IC IY.
      assert (NC : ndim G R (fbase G R Cc) = nr + nl) by (unfold ndim; rewrite IC; unfold ixC; now rewrite app_length, !map_length).
      assert (NY : ndim G R (fbase G R Yy) = nl + nr) by (unfold ndim; rewrite IY; unfold ixY; now rewrite app_length).
      assert (Lax : length axc = nl + nr) by (unfold axc; rewrite app_length, !seq_length; lia).
      constructor.
      - apply NoDup_swap_seq.
      - intros i Hi. rewrite NC. apply (lt_swap_seq _ _ i Hi).
      - apply seq_NoDup.
      - intros i Hi. apply in_seq in Hi. rewrite NY. lia.
      - now rewrite seq_length.
      - unfold opposite_dirs. apply (Forall2_by_nth _ 0 0); [now rewrite seq_length|].
        intros k Hk. rewrite Lax in Hk. rewrite seq_nth by exact Hk. cbn [Nat.add]. rewrite IC, IY.
        pose proof (f_equal (fun l => nth k l ix_d) cl_take_C) as E. cbn beta in E.
        unfold take_axes in E at 1. rewrite (map_nth_lt _ _ 0) in E by (rewrite Lax; exact Hk).
        rewrite E, nth_iconj' by (unfold ixY; rewrite app_length; exact Hk). apply iconj_dual.
      - rewrite IC, IY, cl_take_C, map_chargemap_iconj.
        replace (nl + nr) with (length ixY) by (unfold ixY; now rewrite app_length). now rewrite take_axes_seq.
    Qed.
  End Closing.

  (* the ket-then-bra count of the bra network = the sign flip of its originally bra-like legs *)
  Lemma ketbra_flips (Cc : farr) (ixs : list (index G)) axc (s : sector) :
    indices G R (fbase G R Cc) = ixs -> Permutation axc (seq 0 (length ixs)) ->
    ketbra_a G R Cc axc s = count_odd G s (axes_where G (fun ix => negb (idual G ix)) ixs).
  Proof.
    intros IC HP. unfold ketbra_a. rewrite IC. rewrite (count_odd_filter_perm G s _ _ _ HP).
    now rewrite (axes_where_filter (fun ix => negb (idual G ix)) ixs).
  Qed.

  (* the closing contraction.  Y: the ket network (wf, sorted labels w); B: a bra network with
     legs (b's free legs, a's free legs), labels conj(w), whose value at (cr, cl) is the conjugate
     of Y's value at (cl, cr) times
        [#odd charges on B's ket-like legs] [block exchange] [reversal of all legs] [parity]
     -- what conj_tdot_core and the flips provide.  b0 / y0: arrays with the same blocks
     (e.g. the same arrays with the pruned tables tensordot leaves). *)
  Lemma closing (ixl ixr : list (index G)) (Y B y0 b0 : farr) :
    wf_fermi G R Y = true -> wf_fermi G R B = true ->
    indices G R (fbase G R Y) = ixl ++ ixr ->
    indices G R (fbase G R B) = map (iconj G) ixr ++ map (iconj G) ixl ->
    labels_ok (foddpos G R Y) -> foddpos G R B = odag (foddpos G R Y) ->
    same_val G R B b0 -> same_val G R Y y0 ->
    (forall cl cr, coords_ok G ixl cl = true -> coords_ok G ixr cr = true ->
       VV B (cr ++ cl)
       = rsg (xorb (xorb (xorb (count_odd G (map fst (cr ++ cl)) (nondual_axes (fbase G R B)))
                               (spar G (map fst cl) && spar G (map fst cr)))
                         (revsg (map fst (cl ++ cr)))) (fparity G R Y))
             (rconj R (VV Y (cl ++ cr)))) ->
    exists z,
      f_tensordot G R b0 y0 (naxes (seq (length ixr) (length ixl) ++ seq 0 (length ixr)) (seq 0 (length ixl + length ixr))) MBlockwise = Some z
      /\ foddpos G R z = []
      /\ a_scalar G R (f_value G R z) = rsg (n_dual (foddpos G R Y)) (norm_sum_l G R Y).
  Proof.
    intros WY WB IY IC Hlab OC SVC SVY HV.
    set (nl := length ixl) in *. set (nr := length ixr) in *.
    set (axc := seq nr nl ++ seq 0 nr). set (n := nl + nr).
    pose proof (closing_pair_ok ixl ixr B Y IC IY) as PCY. fold nl nr axc n in PCY.
    assert (NC : ndim G R (fbase G R B) = nr + nl) by (unfold ndim; rewrite IC, app_length, !map_length; reflexivity).
    assert (NY : ndim G R (fbase G R Y) = n) by (unfold ndim; rewrite IY, app_length; reflexivity).
    assert (Pax : Permutation axc (seq 0 (nr + nl))) by apply perm_swap_seq.
    assert (FC : fparity G R B = fparity G R Y).
    { rewrite <- (wff_par G GL R B WB), <- (wff_par G GL R Y WY), OC. now rewrite odag_length. }
    set (nd := n_dual (foddpos G R Y)).
    set (minus := xorb (fparity G R B && Nat.odd (length (foddpos G R Y))) nd).
    destruct (tensordot_blockwise_element G R NL cspec RL B Y (naxes axc (seq 0 n)) axc (seq 0 n) minus []
                (parse_naxes G R B Y _ _ PCY) (wff_blocks_ok G GL R B WB) (wff_blocks_ok G GL R Y WY)
                (po_nda _ _ _ _ _ _ PCY) (po_lta _ _ _ _ _ _ PCY) (po_ndb _ _ _ _ _ _ PCY) (po_ltb _ _ _ _ _ _ PCY)
                (po_dirs _ _ _ _ _ _ PCY) (wff_ix_nodup G GL OL R B axc WB) (po_tabs _ _ _ _ _ _ PCY)
                ltac:(rewrite OC; apply (resolve_dag_left _ _ Hlab)))
      as [z0 [Ez0 [Oz0 Sz0]]].
    destruct (same_val_tdot G GL R NL B b0 Y y0 (naxes axc (seq 0 n)) axc (seq 0 n) z0 SVC SVY
                (parse_naxes G R B Y _ _ PCY) (wff_nodup G GL R B WB) (wff_len G GL R B WB)
                (wff_nodup G GL R Y WY) (wff_len G GL R Y WY)
                (po_nda _ _ _ _ _ _ PCY) (po_lta _ _ _ _ _ _ PCY) (po_ndb _ _ _ _ _ _ PCY) (po_ltb _ _ _ _ _ _ PCY)
                (po_dirs _ _ _ _ _ _ PCY) Ez0)
      as [z [Ez [Oz [_ Vz]]]].
    exists z. split; [exact Ez|]. split; [now rewrite Oz|].
    rewrite a_scalar_sem. fold (VV z ([] ++ [])). rewrite Vz. unfold V at 1.
    rewrite Sz0.
    2:{ rewrite (without_axes_take ix_d), IC, app_length, !map_length. fold nr nl. unfold axc. now rewrite rest_axes_swap. }
    2:{ rewrite (without_axes_take ix_d), IY, app_length. fold nl nr n. now rewrite rest_axes_full. }
    assert (EA : all_coords G (take_axes ix_d (indices G R (fbase G R B)) axc) = all_coords G (indices G R (fbase G R Y))).
    { apply all_coords_agree. rewrite (po_tabs _ _ _ _ _ _ PCY). rewrite <- NY. unfold ndim. now rewrite take_axes_seq. }
    rewrite EA. unfold norm_sum_l. rewrite !(rsgn_rsum R NL). apply (Tdot.rsum_ext R). intros kc Hkc.
    assert (NDY : Forall (fun ix => NoDup (icharges G ix)) (indices G R (fbase G R Y))).
    { pose proof (wff_ix_nodup G GL OL R Y (seq 0 (ndim G R (fbase G R Y))) WY) as H. unfold ndim in H.
      now rewrite take_axes_seq in H. }
    pose proof (In_all_coords G cspec _ kc NDY Hkc) as Hk. rewrite IY in Hk.
    destruct (coords_ok_split _ _ kc Hk) as [cl [cr (-> & Hcl & Hcr)]].
    pose proof (Tdot.coords_ok_length G _ _ Hcl) as Lcl. pose proof (Tdot.coords_ok_length G _ _ Hcr) as Lcr.
    fold nl in Lcl. fold nr in Lcr.
    rewrite NC, NY.
    assert (M1 : merge G (nr + nl) axc [] (cl ++ cr) = cr ++ cl).
    { unfold axc. rewrite <- Lcl, <- Lcr. apply merge_swap. }
    rewrite M1, (merge_full G (cl ++ cr) n) by (rewrite app_length; unfold n; lia).
    fold (VV B (cr ++ cl)) (VV Y (cl ++ cr)).
    rewrite (HV cl cr Hcl Hcr).
    rewrite !(rsgn_rsgn R NL), (rmul_rsgn R NL), (rsgn_rsgn R NL). f_equal.
    assert (Ls : length (map fst (cl ++ cr)) = ndim G R (fbase G R Y)).
    { rewrite map_length, app_length, NY. unfold n. lia. }
    rewrite <- NY. rewrite (sigma_b_all Y _ Ls).
    unfold sigma_a. rewrite NC. unfold axc at 1. rewrite rest_axes_swap. cbn [app].
    rewrite (ketbra_flips B _ axc _ IC) by (rewrite app_length, !map_length; exact Pax).
    rewrite <- IC.
    rewrite (inv_parity_wsg G) by (intros i Hi; rewrite map_length, app_length, Lcl, Lcr; apply (lt_swap_seq _ _ i Hi)).
    assert (El : length (map fst cl) = nl) by (rewrite map_length; exact Lcl).
    assert (Er : length (map fst cr) = nr) by (rewrite map_length; exact Lcr).
    unfold axc. rewrite <- El, <- Er. unfold coord in *. rewrite (map_app fst cr cl), wsg_swap_blocks.
    unfold minus. rewrite FC, (wff_par G GL R Y WY).
    generalize (count_odd G (map fst cr ++ map fst cl) (nondual_axes (fbase G R B))) (spar G (map fst cl)) (spar G (map fst cr))
      (revsg (map fst (cl ++ cr))) (fparity G R Y) nd.
    intros b1 b2 b3 b4 b5 b6. destruct b1, b2, b3, b4, b5, b6; reflexivity.
  Qed.

  Theorem network_norm_two a b aa ab :
    wf_fermi G R a = true -> wf_fermi G R b = true -> pair_ok G R a b aa ab ->
    distinct (foddpos G R a ++ foddpos G R b) ->
    exists y1 y2 z,
      f_tensordot G R a b (naxes aa ab) MBlockwise = Some y1
      /\ f_tensordot G R (f_conj G R b true false) (f_conj G R a true false) (naxes ab aa) MBlockwise = Some y2
      /\ let nl := ndim G R (fbase G R a) - length aa in
         let nr := ndim G R (fbase G R b) - length ab in
         let c := f_phase_flip G R y2 (nondual_axes (fbase G R y2)) in
         f_tensordot G R c y1 (naxes (seq nr nl ++ seq 0 nr) (seq 0 (nl + nr))) MBlockwise = Some z
         /\ foddpos G R z = []
         /\ a_scalar G R (f_value G R z)
            = rsg (n_dual (foddpos G R a ++ foddpos G R b))
                  (norm_sum_l G R (reindex G R y1 (free_ixs G R a b aa ab))).
  Proof.
    intros Wa Wb P D.
    destruct (conj_tdot_core a b aa ab Wa Wb P D)
      as [y1 [y2 (E1 & E2 & W1 & W2 & D1 & D2 & Q1 & Q2 & Ew & SS1 & P1 & S)]].
    destruct (free_ixs_length G R a b aa ab P) as [Ll Lr].
    set (ixl := without_axes (indices G R (fbase G R a)) aa) in *.
    set (ixr := without_axes (indices G R (fbase G R b)) ab) in *.
    set (ixY := free_ixs G R a b aa ab) in *.
    set (Y := reindex G R y1 ixY) in *.
    set (ix2 := free_ixs G R (cj b) (cj a) ab aa) in *.
    assert (Eix2 : ix2 = map (iconj G) ixr ++ map (iconj G) ixl) by (unfold ix2, cj; apply cj_free_ixs).
    set (Y2 := reindex G R y2 ix2) in *.
    set (flips := nondual_axes (fbase G R y2)).
    set (c := f_phase_flip G R y2 flips). set (Cc := f_phase_flip G R Y2 flips).
    assert (ECc : Cc = reindex G R c ix2) by apply flip_reindex.
    assert (WC : wf_fermi G R Cc = true) by (apply (f_phase_flip_wf G GL); exact W2).
    pose proof (same_val_reindex G R y1 ixY D1) as SVY. fold Y in SVY.
    pose proof (same_val_reindex G R y2 ix2 D2) as SVY2. fold Y2 in SVY2.
    assert (SVC : same_val G R Cc c).
    { rewrite ECc. apply same_val_reindex. unfold c. now rewrite fbase_flip. }
    assert (IC : indices G R (fbase G R Cc) = map (iconj G) ixr ++ map (iconj G) ixl).
    { unfold Cc. rewrite fbase_flip. unfold Y2, reindex. cbn [fbase indices]. exact Eix2. }
    assert (Eflips : flips = nondual_axes (fbase G R Cc)).
    { unfold flips. rewrite IC, <- Eix2. symmetry. apply (axes_where_duals negb). exact D2. }
    assert (Hlab : labels_ok (foddpos G R Y)).
    { split; [apply SS_sorted_by, SS1|]. apply (distinct_perm _ _ (Permutation_sym P1)), D. }
    destruct (closing ixl ixr Y Cc y1 c W1 WC eq_refl IC Hlab
                ltac:(unfold Cc; rewrite foddpos_flip; exact Ew) SVC SVY) as [z (Ez & Oz & Hz)].
    { intros cl cr Hcl Hcr. unfold Cc at 1. rewrite (V_phase_flip Y2 flips _ (wff_nodup G GL R Y2 W2)).
      rewrite (same_val_V G R Y2 y2 SVY2), (S cl cr Hcl Hcr), (same_val_V G R Y y1 SVY), (rsgn_rsgn R NL).
      rewrite <- Eflips. f_equal.
      change (fparity G R Y) with (fparity G R y1). rewrite Q1.
      now destruct (count_odd G (map fst (cr ++ cl)) flips), (spar G (map fst cl) && spar G (map fst cr)),
        (revsg (map fst (cl ++ cr))), (xorb (fparity G R a) (fparity G R b)). }
    exists y1, y2, z. split; [exact E1|]. split; [exact E2|]. cbv zeta.
    rewrite <- Ll, <- Lr. fold ixl ixr flips c.
    split; [exact Ez|]. split; [exact Oz|]. rewrite Hz. fold ixY Y.
    change (foddpos G R Y) with (foddpos G R y1). now rewrite (n_dual_perm _ _ P1).
  Qed.

  (* all labels of the ket network non-conjugated (what constructors produce): no sign *)
  Corollary network_norm_two_ket a b aa ab :
    wf_fermi G R a = true -> wf_fermi G R b = true -> pair_ok G R a b aa ab ->
    distinct (foddpos G R a ++ foddpos G R b) -> labels_ket (foddpos G R a ++ foddpos G R b) ->
    exists y1 y2 z,
      f_tensordot G R a b (naxes aa ab) MBlockwise = Some y1
      /\ f_tensordot G R (f_conj G R b true false) (f_conj G R a true false) (naxes ab aa) MBlockwise = Some y2
      /\ let nl := ndim G R (fbase G R a) - length aa in
         let nr := ndim G R (fbase G R b) - length ab in
         let c := f_phase_flip G R y2 (nondual_axes (fbase G R y2)) in
         f_tensordot G R c y1 (naxes (seq nr nl ++ seq 0 nr) (seq 0 (nl + nr))) MBlockwise = Some z
         /\ foddpos G R z = []
         /\ a_scalar G R (f_value G R z) = norm_sum_l G R (reindex G R y1 (free_ixs G R a b aa ab)).
  Proof.
    intros Wa Wb P D K. destruct (network_norm_two a b aa ab Wa Wb P D) as [y1 [y2 [z (E1 & E2 & H)]]].
    exists y1, y2, z. split; [exact E1|]. split; [exact E2|]. cbv zeta in *. destruct H as (Ez & Oz & Hz).
    split; [exact Ez|]. split; [exact Oz|]. rewrite Hz, (n_dual_all_nondual _ K). reflexivity.
  Qed.
End ConjNet.

(* ================================================================ part 4 *)
(* The contraction only sees the VALUES of its operands (with their leg directions, labels and
   parity): replacing an operand by one with the same tables, labels and the same value at every
   coordinate changes neither the labels nor any value of the result.  Stated with the outcome of
   the label resolution as a premise, so that it also covers operands carrying conjugate labels. *)
Section Congr.
  Context (G : Symmetry) (GL : GroupLaws G) (OL : OrderProofs.OrderLaws G).
  Context (R : Ring) (NL : NegLaws R) (RL : SumLaws R).
  Notation farr := (farray G R).
  Notation ix_d := (dflt_index G).
  Notation cspec := (ceqb_eq G GL).
  Notation VV := (V G R).

  Lemma pair_ok_same_ix X X' Y Y' aa ab :
    indices G R (fbase G R X') = indices G R (fbase G R X) -> indices G R (fbase G R Y') = indices G R (fbase G R Y) ->
    pair_ok G R X Y aa ab -> pair_ok G R X' Y' aa ab.
  Proof.
    intros IX IY [H1 H2 H3 H4 H5 H6 H7]. constructor; try assumption.
    - unfold ndim in *. now rewrite IX.
    - unfold ndim in *. now rewrite IY.
    - unfold opposite_dirs in *. now rewrite IX, IY.
    - now rewrite IX, IY.
  Qed.

  Lemma sigma_a_same_ix X X' aa s : indices G R (fbase G R X') = indices G R (fbase G R X) ->
    sigma_a G R X' aa s = sigma_a G R X aa s.
  Proof. intros IX. unfold sigma_a, ketbra_a, ndim. now rewrite IX. Qed.
  Lemma sigma_b_same_ix Y Y' ab s : indices G R (fbase G R Y') = indices G R (fbase G R Y) ->
    sigma_b G R Y' ab s = sigma_b G R Y ab s.
  Proof. intros IY. unfold sigma_b, ndim. now rewrite IY. Qed.

  Theorem tdot_congr X X' Y Y' aa ab (m : bool) (w : list fop) :
    wf_fermi G R X = true -> wf_fermi G R X' = true -> wf_fermi G R Y = true -> wf_fermi G R Y' = true ->
    pair_ok G R X Y aa ab ->
    indices G R (fbase G R X') = indices G R (fbase G R X) -> indices G R (fbase G R Y') = indices G R (fbase G R Y) ->
    foddpos G R X' = foddpos G R X -> foddpos G R Y' = foddpos G R Y ->
    (forall cs, coords_ok G (indices G R (fbase G R X)) cs = true -> VV X' cs = VV X cs) ->
    (forall cs, coords_ok G (indices G R (fbase G R Y)) cs = true -> VV Y' cs = VV Y cs) ->
    resolve_oddpos (fparity G R X) (foddpos G R X) (foddpos G R Y) = Some (m, w) ->
    exists z z',
      f_tensordot G R X Y (naxes aa ab) MBlockwise = Some z
      /\ f_tensordot G R X' Y' (naxes aa ab) MBlockwise = Some z'
      /\ foddpos G R z = w /\ foddpos G R z' = w
      /\ forall cl cr,
           coords_ok G (without_axes (indices G R (fbase G R X)) aa) cl = true ->
           coords_ok G (without_axes (indices G R (fbase G R Y)) ab) cr = true ->
           VV z' (cl ++ cr) = VV z (cl ++ cr).
  Proof.
    intros WX WX' WY WY' P IX IY OX OY HX HY Hres.
    pose proof (pair_ok_same_ix X X' Y Y' aa ab IX IY P) as P'.
    assert (FX : fparity G R X' = fparity G R X).
    { rewrite <- (wff_par G GL R X' WX'), <- (wff_par G GL R X WX). now rewrite OX. }
    destruct (tensordot_blockwise_element G R NL cspec RL X Y (naxes aa ab) aa ab m w
                (parse_naxes G R X Y _ _ P) (wff_blocks_ok G GL R X WX) (wff_blocks_ok G GL R Y WY)
                (po_nda _ _ _ _ _ _ P) (po_lta _ _ _ _ _ _ P) (po_ndb _ _ _ _ _ _ P) (po_ltb _ _ _ _ _ _ P)
                (po_dirs _ _ _ _ _ _ P) (wff_ix_nodup G GL OL R X aa WX) (po_tabs _ _ _ _ _ _ P) Hres)
      as [z [Ez [Oz Sz]]].
    destruct (tensordot_blockwise_element G R NL cspec RL X' Y' (naxes aa ab) aa ab m w
                (parse_naxes G R X' Y' _ _ P') (wff_blocks_ok G GL R X' WX') (wff_blocks_ok G GL R Y' WY')
                (po_nda _ _ _ _ _ _ P') (po_lta _ _ _ _ _ _ P') (po_ndb _ _ _ _ _ _ P') (po_ltb _ _ _ _ _ _ P')
                (po_dirs _ _ _ _ _ _ P') (wff_ix_nodup G GL OL R X' aa WX') (po_tabs _ _ _ _ _ _ P')
                ltac:(rewrite FX, OX, OY; exact Hres))
      as [z' [Ez' [Oz' Sz']]].
    exists z, z'. split; [exact Ez|]. split; [exact Ez'|]. split; [exact Oz|]. split; [exact Oz'|].
    intros cl cr Hcl Hcr. unfold V.
    rewrite (Sz cl cr Hcl Hcr), (Sz' cl cr ltac:(rewrite IX; exact Hcl) ltac:(rewrite IY; exact Hcr)).
    unfold ndim. rewrite IX, IY. f_equal. apply (Tdot.rsum_ext R). intros kc Hkc.
    pose proof (In_all_coords G cspec _ kc (wff_ix_nodup G GL OL R X aa WX) Hkc) as Hk.
    rewrite (sigma_a_same_ix X X' aa _ IX), (sigma_b_same_ix Y Y' ab _ IY).
    fold (VV X' (merge G (length (indices G R (fbase G R X))) aa cl kc)) (VV X (merge G (length (indices G R (fbase G R X))) aa cl kc)).
    fold (VV Y' (merge G (length (indices G R (fbase G R Y))) ab cr kc)) (VV Y (merge G (length (indices G R (fbase G R Y))) ab cr kc)).
    rewrite HX, HY; [reflexivity| |].
    - apply (coords_ok_merge G _ ab cr kc (po_ndb _ _ _ _ _ _ P) (po_ltb _ _ _ _ _ _ P)); [|exact Hcr].
      rewrite <- (coords_ok_agree G _ _ kc (po_tabs _ _ _ _ _ _ P)). exact Hk.
    - apply (coords_ok_merge G _ aa cl kc (po_nda _ _ _ _ _ _ P) (po_lta _ _ _ _ _ _ P) Hk Hcl).
  Qed.
End Congr.

(* ================================================================ part 5 *)
(* Sign flips of FREE legs commute with the contraction: flipping dangling legs tensor by tensor
   is flipping the same legs of the contracted network. *)
Section FlipFree.
  Context (G : Symmetry) (GL : GroupLaws G) (OL : OrderProofs.OrderLaws G).
  Context (R : Ring) (NL : NegLaws R) (RL : SumLaws R).
  Notation sector := (list (C G)).
  Notation farr := (farray G R).
  Notation ch_d := (ident G).
  Notation ix_d := (dflt_index G).
  Notation cspec := (ceqb_eq G GL).
  Notation rsg := (rsgn R).
  Notation VV := (V G R).

  (* the legs fa, all among the listed legs la, seen inside the sub-sector of la *)
  Lemma count_odd_sub (s : sector) la fa : (forall j, In j fa -> In j la) ->
    count_odd G s fa = count_odd G (take_axes ch_d s la) (map (fun j => index_of j la) fa).
  Proof.
    intros H. rewrite !count_odd_bpar. unfold bpar. rewrite map_map. f_equal. apply map_ext_in. intros j Hj.
    destruct (index_of_spec j la (H j Hj)) as [H1 H2]. unfold odd_at, take_axes.
    rewrite (map_nth_lt _ _ 0) by exact H1. now rewrite H2.
  Qed.

  Theorem tdot_flip_free a b aa ab fa fb :
    wf_fermi G R a = true -> wf_fermi G R b = true -> pair_ok G R a b aa ab ->
    distinct (foddpos G R a ++ foddpos G R b) ->
    (forall j, In j fa -> In j (rest_axes (ndim G R (fbase G R a)) aa)) ->
    (forall j, In j fb -> In j (rest_axes (ndim G R (fbase G R b)) ab)) ->
    exists y y',
      f_tensordot G R a b (naxes aa ab) MBlockwise = Some y
      /\ f_tensordot G R (f_phase_flip G R a fa) (f_phase_flip G R b fb) (naxes aa ab) MBlockwise = Some y'
      /\ foddpos G R y' = foddpos G R y
      /\ wf_fermi G R (reindex G R y' (free_ixs G R a b aa ab)) = true
      /\ map (idual G) (free_ixs G R a b aa ab) = map (idual G) (indices G R (fbase G R y'))
      /\ forall cl cr,
           coords_ok G (without_axes (indices G R (fbase G R a)) aa) cl = true ->
           coords_ok G (without_axes (indices G R (fbase G R b)) ab) cr = true ->
           VV y' (cl ++ cr)
           = rsg (xorb (count_odd G (map fst cl) (map (fun j => index_of j (rest_axes (ndim G R (fbase G R a)) aa)) fa))
                       (count_odd G (map fst cr) (map (fun j => index_of j (rest_axes (ndim G R (fbase G R b)) ab)) fb)))
                 (VV y (cl ++ cr)).
  Proof.
    intros Wa Wb P D Hfa Hfb.
    set (a' := f_phase_flip G R a fa). set (b' := f_phase_flip G R b fb).
    assert (Ia : indices G R (fbase G R a') = indices G R (fbase G R a)) by (unfold a'; now rewrite fbase_flip).
    assert (Ib : indices G R (fbase G R b') = indices G R (fbase G R b)) by (unfold b'; now rewrite fbase_flip).
    assert (Wa' : wf_fermi G R a' = true) by (apply (f_phase_flip_wf G GL); exact Wa).
    assert (Wb' : wf_fermi G R b' = true) by (apply (f_phase_flip_wf G GL); exact Wb).
    pose proof (pair_ok_same_ix G R a a' b b' aa ab Ia Ib P) as P'.
    assert (Oa : foddpos G R a' = foddpos G R a) by apply foddpos_flip.
    assert (Ob : foddpos G R b' = foddpos G R b) by apply foddpos_flip.
    assert (Fa : fparity G R a' = fparity G R a) by apply fparity_flip.
    destruct (tdot_main G GL OL R NL RL a b aa ab Wa Wb P D) as [y [m (E & Rr & _ & _ & _ & _ & S)]].
    destruct (tdot_main G GL OL R NL RL a' b' aa ab Wa' Wb' P' ltac:(rewrite Oa, Ob; exact D))
      as [y' [m' (E' & Rr' & _ & W' & D' & _ & S')]].
    rewrite Oa, Ob, Fa, Rr in Rr'. injection Rr' as Em Eo. subst m'.
    assert (EF : free_ixs G R a' b' aa ab = free_ixs G R a b aa ab) by (unfold free_ixs; now rewrite Ia, Ib).
    rewrite EF in W', D'.
    exists y, y'. split; [exact E|]. split; [exact E'|]. split; [now symmetry|]. split; [exact W'|]. split; [exact D'|].
    intros cl cr Hcl Hcr.
    rewrite (S cl cr Hcl Hcr), (S' cl cr ltac:(rewrite Ia; exact Hcl) ltac:(rewrite Ib; exact Hcr)).
    unfold ndim. rewrite Ia, Ib. fold (ndim G R (fbase G R a)) (ndim G R (fbase G R b)).
    rewrite (rsgn_rsgn R NL), (xorb_comm _ m), <- (rsgn_rsgn R NL). f_equal.
    rewrite (rsgn_rsum R NL). apply (Tdot.rsum_ext R). intros kc Hkc.
    pose proof (In_all_coords G cspec _ kc (wff_ix_nodup G GL OL R a aa Wa) Hkc) as Hk.
    pose proof (Tdot.coords_ok_length G _ _ Hk) as Lk. rewrite (length_take_axes ix_d) in Lk.
    destruct (free_ixs_length G R a b aa ab P) as [Ll Lr].
    pose proof (Tdot.coords_ok_length G _ _ Hcl) as Lcl. pose proof (Tdot.coords_ok_length G _ _ Hcr) as Lcr.
    rewrite Ll in Lcl. rewrite Lr in Lcr.
    pose proof (po_nda _ _ _ _ _ _ P) as NDaa. pose proof (po_lta _ _ _ _ _ _ P) as Haa.
    pose proof (po_ndb _ _ _ _ _ _ P) as NDab. pose proof (po_ltb _ _ _ _ _ _ P) as Hab.
    pose proof (po_len _ _ _ _ _ _ P) as Hlen.
    set (na := ndim G R (fbase G R a)) in *. set (nb := ndim G R (fbase G R b)) in *.
    set (A := merge G na aa cl kc). set (B := merge G nb ab cr kc).
    rewrite (sigma_a_same_ix G R a a' aa _ Ia), (sigma_b_same_ix G R b b' ab _ Ib).
    unfold a' at 1, b' at 1.
    rewrite (V_phase_flip G GL R NL a fa A (wff_nodup G GL R a Wa)), (V_phase_flip G GL R NL b fb B (wff_nodup G GL R b Wb)).
    assert (Tl : take_axes ch_d (map fst A) (rest_axes na aa) = map fst cl).
    { unfold A. apply (merge_take_rest G). rewrite (length_rest_axes na aa NDaa Haa). exact Lcl. }
    assert (Tr : take_axes ch_d (map fst B) (rest_axes nb ab) = map fst cr).
    { unfold B. apply (merge_take_rest G). rewrite (length_rest_axes nb ab NDab Hab). exact Lcr. }
    rewrite (count_odd_sub (map fst A) _ fa Hfa), (count_odd_sub (map fst B) _ fb Hfb), Tl, Tr.
    rewrite !(rsgn_rsgn R NL), !(rmul_rsgn R NL), (rsgn_rsgn R NL). f_equal.
    generalize (sigma_a G R a aa (map fst A)) (sigma_b G R b ab (map fst B))
      (count_odd G (map fst cl) (map (fun j : nat => index_of j (rest_axes na aa)) fa))
      (count_odd G (map fst cr) (map (fun j : nat => index_of j (rest_axes nb ab)) fb)).
    intros b1 b2 b3 b4. destruct b1, b2, b3, b4; reflexivity.
  Qed.
End FlipFree.

(* ================================================================ part 6 *)
(* The flips applied TENSOR BY TENSOR: conj a with a's bra-like dangling legs flipped, conj b
   likewise; their contraction is the bra network of `network_norm_two`. *)
Section LocalFlips.
  Context (G : Symmetry) (GL : GroupLaws G) (OL : OrderProofs.OrderLaws G).
  Context (R : Ring) (NL : NegLaws R) (RL : SumLaws R) (CL : CommLaws R) (CJ : ConjLaws R).
  Notation sector := (list (C G)).
  Notation farr := (farray G R).
  Notation ch_d := (ident G).
  Notation ix_d := (dflt_index G).
  Notation rsg := (rsgn R).
  Notation VV := (V G R).

  Lemma map_index_of_filter (f : nat -> bool) la : NoDup la ->
    map (fun j => index_of j la) (filter f la) = filter (fun k => f (nth k la 0)) (seq 0 (length la)).
  Proof.
    intros ND.
    assert (H : filter f la = map (fun k => nth k la 0) (filter (fun k => f (nth k la 0)) (seq 0 (length la)))).
    { rewrite <- (filter_map_comm f (fun k => nth k la 0)), (StructProofs.map_nth_seq la 0). reflexivity. }
    rewrite H, map_map. rewrite <- (map_id (filter _ (seq 0 (length la)))) at 2. apply map_ext_in.
    intros k Hk. apply filter_In in Hk. destruct Hk as [Hk _]. apply in_seq in Hk. apply index_of_nth; [exact ND|lia].
  Qed.

  Lemma axes_where_take (Q : index G -> bool) (IX : list (index G)) la :
    axes_where G Q (take_axes ix_d IX la) = filter (fun k => Q (nth (nth k la 0) IX ix_d)) (seq 0 (length la)).
  Proof.
    rewrite <- (axes_where_filter Q). rewrite (length_take_axes ix_d). apply filter_ext_in. intros k Hk.
    apply in_seq in Hk. unfold take_axes. rewrite (map_nth_lt _ _ 0) by lia. reflexivity.
  Qed.

  (* positions, among the listed legs la, of those that satisfy Q *)
  Lemma flips_positions (Q : index G -> bool) (IX : list (index G)) la : NoDup la ->
    map (fun j => index_of j la) (filter (fun j => Q (nth j IX ix_d)) la) = axes_where G Q (take_axes ix_d IX la).
  Proof. intros ND. now rewrite (map_index_of_filter _ la ND), axes_where_take. Qed.

  Lemma Dc_app d (i1 i2 : list (index G)) : forall (s1 s2 : sector), length s1 = length i1 ->
    Dc G d (i1 ++ i2) (s1 ++ s2) = xorb (Dc G d i1 s1) (Dc G d i2 s2).
  Proof.
    unfold Dc. induction i1 as [|ix i1 IH]; intros [|c s1] s2 L; cbn [length] in L; try discriminate.
    - cbn [app List.combine map xorb_list fold_right]. now rewrite xorb_false_l.
    - cbn [app List.combine map]. rewrite !xorb_list_cons, IH by lia. now rewrite xorb_assoc.
  Qed.

  Lemma count_odd_axes_app d (i1 i2 : list (index G)) (s1 s2 : sector) :
    length s1 = length i1 -> length s2 = length i2 ->
    count_odd G (s1 ++ s2) (axes_where G d (i1 ++ i2))
    = xorb (count_odd G s1 (axes_where G d i1)) (count_odd G s2 (axes_where G d i2)).
  Proof.
    intros L1 L2. rewrite !(count_odd_axes G) by (rewrite ?app_length; lia). now apply Dc_app.
  Qed.

  Lemma nondual_iconj (ixs : list (index G)) :
    axes_where G (fun ix => negb (idual G ix)) (map (iconj G) ixs) = axes_where G (idual G) ixs.
  Proof.
    unfold axes_where, enumerate.
    rewrite (axes_where_iconj_gen G (fun ix => negb (idual G ix)) ixs 0). f_equal. apply filter_ext.
    intros p. now rewrite iconj_dual, negb_involutive.
  Qed.

  Theorem network_norm_two_local a b aa ab :
    wf_fermi G R a = true -> wf_fermi G R b = true -> pair_ok G R a b aa ab ->
    distinct (foddpos G R a ++ foddpos G R b) ->
    let la := rest_axes (ndim G R (fbase G R a)) aa in
    let rb := rest_axes (ndim G R (fbase G R b)) ab in
    let fa := filter (fun j => idual G (nth j (indices G R (fbase G R a)) ix_d)) la in
    let fb := filter (fun j => idual G (nth j (indices G R (fbase G R b)) ix_d)) rb in
    exists y1 c z,
      f_tensordot G R a b (naxes aa ab) MBlockwise = Some y1
      /\ f_tensordot G R (f_phase_flip G R (f_conj G R b true false) fb) (f_phase_flip G R (f_conj G R a true false) fa)
           (naxes ab aa) MBlockwise = Some c
      /\ f_tensordot G R c y1 (naxes (seq (length rb) (length la) ++ seq 0 (length rb)) (seq 0 (length la + length rb))) MBlockwise = Some z
      /\ foddpos G R z = []
      /\ a_scalar G R (f_value G R z)
         = rsg (n_dual (foddpos G R a ++ foddpos G R b))
               (norm_sum_l G R (reindex G R y1 (free_ixs G R a b aa ab))).
  Proof.
    intros Wa Wb P D la rb fa fb.
    destruct (conj_tdot_core G GL OL R NL RL CL CJ a b aa ab Wa Wb P D)
      as [y1 [y2 (E1 & E2 & W1 & W2 & D1 & D2 & Q1 & Q2 & Ew & SS1 & P1 & S)]].
    pose proof (po_nda _ _ _ _ _ _ P) as NDaa. pose proof (po_lta _ _ _ _ _ _ P) as Haa.
    pose proof (po_ndb _ _ _ _ _ _ P) as NDab. pose proof (po_ltb _ _ _ _ _ _ P) as Hab.
    set (ca := cj G R a) in *. set (cb := cj G R b) in *.
    assert (Wca : wf_fermi G R ca = true) by (apply (f_conj_wf G GL); exact Wa).
    assert (Wcb : wf_fermi G R cb = true) by (apply (f_conj_wf G GL); exact Wb).
    assert (Pc : pair_ok G R cb ca ab aa) by (apply (pair_ok_cj G R); exact P).
    assert (Dc' : distinct (foddpos G R cb ++ foddpos G R ca)).
    { unfold cb, ca, cj. rewrite !(cj_oddpos G R), <- odag_app. apply distinct_odag, D. }
    assert (Nca : ndim G R (fbase G R ca) = ndim G R (fbase G R a)) by apply (cj_ndim G R).
    assert (Ncb : ndim G R (fbase G R cb) = ndim G R (fbase G R b)) by apply (cj_ndim G R).
    destruct (tdot_flip_free G GL OL R NL RL cb ca ab aa fb fa Wcb Wca Pc Dc')
      as [y [c (E & Ec & Oc & Wc & Dcc & Sc)]].
    { intros j Hj. rewrite Ncb. apply filter_In in Hj. apply Hj. }
    { intros j Hj. rewrite Nca. apply filter_In in Hj. apply Hj. }
    rewrite E2 in E. injection E as E. subst y.
    destruct (free_ixs_length G R a b aa ab P) as [Ll Lr].
    set (ixl := without_axes (indices G R (fbase G R a)) aa) in *.
    set (ixr := without_axes (indices G R (fbase G R b)) ab) in *.
    set (ixY := free_ixs G R a b aa ab) in *.
    set (Y := reindex G R y1 ixY) in *.
    set (ix2 := free_ixs G R cb ca ab aa) in *.
    assert (Eix2 : ix2 = map (iconj G) ixr ++ map (iconj G) ixl) by (unfold ix2, cb, ca, cj; apply (cj_free_ixs G R)).
    set (C' := reindex G R c ix2) in *.
    pose proof (same_val_reindex G R y1 ixY D1) as SVY. fold Y in SVY.
    pose proof (same_val_reindex G R c ix2 Dcc) as SVC. fold C' in SVC.
    assert (Hlab : labels_ok (foddpos G R Y)).
    { split; [apply SS_sorted_by, SS1|]. apply (distinct_perm _ _ (Permutation_sym P1)), D. }
    assert (Lla : length la = length ixl).
    { unfold ixl. rewrite (without_axes_take ix_d), (length_take_axes ix_d). reflexivity. }
    assert (Lrb : length rb = length ixr).
    { unfold ixr. rewrite (without_axes_take ix_d), (length_take_axes ix_d). reflexivity. }
    destruct (closing G GL OL R NL RL ixl ixr Y C' y1 c W1 Wc eq_refl Eix2 Hlab
                ltac:(change (foddpos G R C') with (foddpos G R c); rewrite Oc; exact Ew) SVC SVY) as [z (Ez & Oz & Hz)].
    { intros cl cr Hcl Hcr.
      assert (Hcr' : coords_ok G (without_axes (indices G R (fbase G R cb)) ab) cr = true).
      { unfold cb, cj. now rewrite (cj_indices G R), (without_iconj G), (coords_ok_iconj G). }
      assert (Hcl' : coords_ok G (without_axes (indices G R (fbase G R ca)) aa) cl = true).
      { unfold ca, cj. now rewrite (cj_indices G R), (without_iconj G), (coords_ok_iconj G). }
      rewrite (same_val_V G R C' c SVC), (Sc cr cl Hcr' Hcl'), (S cl cr Hcl Hcr), (same_val_V G R Y y1 SVY), (rsgn_rsgn R NL).
      f_equal. change (fparity G R Y) with (fparity G R y1). rewrite Q1.
      pose proof (Tdot.coords_ok_length G _ _ Hcl) as Lcl. pose proof (Tdot.coords_ok_length G _ _ Hcr) as Lcr.
      assert (EF : count_odd G (map fst (cr ++ cl)) (axes_where G (fun ix => negb (idual G ix)) (indices G R (fbase G R C')))
                   = xorb (count_odd G (map fst cr) (map (fun j => index_of j (rest_axes (ndim G R (fbase G R cb)) ab)) fb))
                          (count_odd G (map fst cl) (map (fun j => index_of j (rest_axes (ndim G R (fbase G R ca)) aa)) fa))).
      { change (indices G R (fbase G R C')) with ix2. rewrite Eix2, <- map_app, nondual_iconj, map_app.
        rewrite count_odd_axes_app by (now rewrite map_length).
        rewrite Ncb, Nca. fold la rb. unfold fb, fa.
        rewrite (flips_positions (idual G) _ rb (NoDup_rest_axes _ _)), (flips_positions (idual G) _ la (NoDup_rest_axes _ _)).
        unfold ixr, ixl. now rewrite !(without_axes_take ix_d). }
      rewrite EF.
      now destruct (count_odd G (map fst cr) _), (count_odd G (map fst cl) _), (spar G (map fst cl) && spar G (map fst cr)),
        (revsg G (map fst (cl ++ cr))), (xorb (fparity G R a) (fparity G R b)). }
    exists y1, c, z. split; [exact E1|]. split; [exact Ec|]. rewrite Lla, Lrb.
    split; [exact Ez|]. split; [exact Oz|]. rewrite Hz.
    change (foddpos G R Y) with (foddpos G R y1). now rewrite (n_dual_perm _ _ P1).
  Qed.
End LocalFlips.

(* ================================================================ part 7 *)
(* Another route, from C04b's associativity.  When b has no dangling leg the norm network
   bra(b) - bra(a) - a - b is a chain; the bra network B may first absorb a, then b:
   ((B . a) . b) gives the same number as B . (a . b).  C04b's theorems require pairwise different
   labels, so here a and b carry none (even parity).  B is the bra network of `network_norm_two`
   with the unpruned index tables (`reindex`: tensordot drops unused charges from the tables of
   its result; the blocks are untouched). *)
Section ChainRoute.
  Context (G : Symmetry) (GL : GroupLaws G) (OL : OrderProofs.OrderLaws G).
  Context (R : Ring) (NL : NegLaws R) (RL : SumLaws R) (CL : CommLaws R) (CJ : ConjLaws R).
  Notation farr := (farray G R).
  Notation ix_d := (dflt_index G).
  Notation VV := (V G R).

  Theorem network_norm_chain_route a b aa ab :
    wf_fermi G R a = true -> wf_fermi G R b = true -> pair_ok G R a b aa ab ->
    foddpos G R a = [] -> foddpos G R b = [] -> rest_axes (ndim G R (fbase G R b)) ab = [] ->
    let la := rest_axes (ndim G R (fbase G R a)) aa in
    exists y1 y2 u v,
      f_tensordot G R a b (naxes aa ab) MBlockwise = Some y1
      /\ f_tensordot G R (f_conj G R b true false) (f_conj G R a true false) (naxes ab aa) MBlockwise = Some y2
      /\ let B := reindex G R (f_phase_flip G R y2 (axes_where G (fun ix => negb (idual G ix)) (indices G R (fbase G R y2))))
                    (map (iconj G) (without_axes (indices G R (fbase G R a)) aa)) in
         f_tensordot G R B a (naxes (seq 0 (length la)) la) MBlockwise = Some u
         /\ f_tensordot G R u b
              (naxes (map (fun j => index_of j (rest_axes (ndim G R (fbase G R a)) la)) aa) ab) MBlockwise = Some v
         /\ foddpos G R v = []
         /\ a_scalar G R (f_value G R v) = norm_sum_l G R (reindex G R y1 (free_ixs G R a b aa ab)).
  Proof.
    intros Wa Wb P Oa Ob Hrb la.
    assert (D : distinct (foddpos G R a ++ foddpos G R b)) by (rewrite Oa, Ob; constructor).
    destruct (conj_tdot_core G GL OL R NL RL CL CJ a b aa ab Wa Wb P D)
      as [y1 [y2 (E1 & E2 & W1 & W2 & D1 & D2 & Q1 & Q2 & Ew & SS1 & P1 & S)]].
    pose proof (po_nda _ _ _ _ _ _ P) as NDaa. pose proof (po_lta _ _ _ _ _ _ P) as Haa.
    set (ixa := indices G R (fbase G R a)) in *.
    set (ixl := without_axes ixa aa) in *.
    set (ixr := without_axes (indices G R (fbase G R b)) ab) in *.
    assert (Er : ixr = []).
    { unfold ixr. rewrite (without_axes_take ix_d). fold (ndim G R (fbase G R b)). now rewrite Hrb. }
    set (ixY := free_ixs G R a b aa ab) in *.
    set (Y := reindex G R y1 ixY) in *.
    set (ix2 := free_ixs G R (cj G R b) (cj G R a) ab aa) in *.
    assert (Eix2 : ix2 = map (iconj G) ixr ++ map (iconj G) ixl) by (unfold ix2, cj; apply (cj_free_ixs G R)).
    assert (Eix2' : ix2 = map (iconj G) ixl) by (rewrite Eix2, Er; reflexivity).
    set (Y2 := reindex G R y2 ix2) in *.
    set (flips := axes_where G (fun ix => negb (idual G ix)) (indices G R (fbase G R y2))).
    set (c := f_phase_flip G R y2 flips). set (Cc := f_phase_flip G R Y2 flips).
    assert (ECc : Cc = reindex G R c ix2) by apply (flip_reindex G R).
    assert (WC : wf_fermi G R Cc = true) by (apply (f_phase_flip_wf G GL); exact W2).
    pose proof (same_val_reindex G R y1 ixY D1) as SVY. fold Y in SVY.
    pose proof (same_val_reindex G R y2 ix2 D2) as SVY2. fold Y2 in SVY2.
    assert (IC : indices G R (fbase G R Cc) = map (iconj G) ixr ++ map (iconj G) ixl).
    { unfold Cc. rewrite (fbase_flip G R). unfold Y2, reindex. cbn [fbase indices]. exact Eix2. }
    assert (Eflips : flips = axes_where G (fun ix => negb (idual G ix)) (indices G R (fbase G R Cc))).
    { unfold flips. rewrite IC, <- Eix2. symmetry. apply (axes_where_duals G negb). exact D2. }
    assert (O1 : foddpos G R y1 = []).
    { rewrite Oa, Ob in P1. cbn [app] in P1. apply Permutation_sym, Permutation_nil in P1. exact P1. }
    assert (Hlab : labels_ok (foddpos G R Y)).
    { change (foddpos G R Y) with (foddpos G R y1). rewrite O1. split; [reflexivity|constructor]. }
    assert (OC : foddpos G R Cc = []).
    { unfold Cc. rewrite (foddpos_flip G R). change (foddpos G R Y2) with (foddpos G R y2). rewrite Ew, O1. reflexivity. }
    destruct (closing G GL OL R NL RL ixl ixr Y Cc y1 Cc W1 WC eq_refl IC Hlab
                ltac:(rewrite OC; change (foddpos G R Y) with (foddpos G R y1); rewrite O1; reflexivity)
                (same_val_refl G R Cc) SVY) as [z (Ez & Oz & Hz)].
    { intros cl cr Hcl Hcr. unfold Cc at 1. rewrite (V_phase_flip G GL R NL Y2 flips _ (wff_nodup G GL R Y2 W2)).
      rewrite (same_val_V G R Y2 y2 SVY2), (S cl cr Hcl Hcr), (same_val_V G R Y y1 SVY), (rsgn_rsgn R NL).
      rewrite <- Eflips. f_equal.
      change (fparity G R Y) with (fparity G R y1). rewrite Q1.
      now destruct (count_odd G (map fst (cr ++ cl)) flips), (spar G (map fst cl) && spar G (map fst cr)),
        (revsg G (map fst (cl ++ cr))), (xorb (fparity G R a) (fparity G R b)). }
    assert (Lla : length la = length ixl).
    { unfold ixl. rewrite (without_axes_take ix_d), (length_take_axes ix_d). reflexivity. }
    rewrite Er in Ez. cbn [length seq] in Ez. rewrite app_nil_r, Nat.add_0_r, <- Lla in Ez.
    (* the chain (Cc, a, b) *)
    assert (IC' : indices G R (fbase G R Cc) = map (iconj G) ixl) by (rewrite IC, Er; reflexivity).
    assert (NC : ndim G R (fbase G R Cc) = length la) by (unfold ndim; rewrite IC', map_length; now symmetry).
    assert (PCa : pair_ok G R Cc a (seq 0 (length la)) la).
    { constructor.
      - apply seq_NoDup.
      - intros i Hi. apply in_seq in Hi. rewrite NC. lia.
      - apply NoDup_rest_axes.
      - intros i Hi. apply (In_rest_axes _ _ _ Hi).
      - apply seq_length.
      - unfold opposite_dirs. apply (Forall2_by_nth _ 0 0); [apply seq_length|].
        intros k Hk. rewrite seq_length in Hk. rewrite seq_nth by exact Hk. cbn [Nat.add]. rewrite IC'.
        rewrite (nth_iconj' G) by (rewrite <- Lla; exact Hk).
        unfold ixl. rewrite (without_axes_take ix_d). unfold take_axes. fold (ndim G R (fbase G R a)). fold la.
        rewrite (map_nth_lt _ _ 0) by exact Hk. apply iconj_dual.
      - rewrite IC'. replace (length la) with (length (map (iconj G) ixl)) by (rewrite map_length; now symmetry).
        rewrite take_axes_seq, (map_chargemap_iconj G). unfold ixl. now rewrite (without_axes_take ix_d). }
    destruct (assoc_chain G GL OL R NL RL CL Cc a b (seq 0 (length la)) la aa ab WC Wa Wb PCa P
                ltac:(intros j Hj; exact (rest_axes_disjoint _ _ j Hj))
                ltac:(rewrite OC, Oa, Ob; constructor))
      as [u [v [y1' [y21 (F1 & F2 & F3 & F4 & FO & FV)]]]].
    rewrite E1 in F3. injection F3 as F3. subst y1'.
    rewrite NC, rest_axes_full in F2. cbn [length Nat.add] in F2.
    fold la in F4. rewrite (map_index_of_self la (NoDup_rest_axes _ _)) in F4. rewrite Ez in F4. injection F4 as F4. subst y21.
    exists y1, y2, u, v. split; [exact E1|]. split; [exact E2|]. cbv zeta.
    fold ixa ixl flips c. rewrite <- Eix2', <- ECc.
    split; [exact F1|]. split; [exact F2|]. split; [now rewrite FO|].
    rewrite a_scalar_sem.
    assert (HV : VV v ([] ++ [] ++ []) = VV z ([] ++ [] ++ [])).
    { apply FV.
      - rewrite IC'. rewrite (without_axes_all _ (length la)) by (rewrite map_length; exact Lla). reflexivity.
      - fold ixa. rewrite (without_axes_take ix_d).
        rewrite (rest_axes_perm _ _ _ (perm_rest_axes _ aa NDaa Haa)), rest_axes_full. reflexivity.
      - fold ixr. rewrite Er. reflexivity. }
    cbn [app] in HV. cbn [app]. fold (VV v []). rewrite HV.
    transitivity (a_scalar G R (f_value G R z)); [symmetry; apply a_scalar_sem|].
    rewrite Hz. change (foddpos G R Y) with (foddpos G R y1). rewrite O1. reflexivity.
  Qed.
End ChainRoute.

(* ================================================================ part 8 *)
(* The other operand order of the closing contraction: (a . b) . bra. *)
Section ClosingRev.
  Context (G : Symmetry) (GL : GroupLaws G) (OL : OrderProofs.OrderLaws G).
  Context (R : Ring) (NL : NegLaws R) (RL : SumLaws R) (CL : CommLaws R) (CJ : ConjLaws R).
  Notation sector := (list (C G)).
  Notation farr := (farray G R).
  Notation ch_d := (ident G).
  Notation ix_d := (dflt_index G).
  Notation cspec := (ceqb_eq G GL).
  Notation rsg := (rsgn R).
  Notation VV := (V G R).
  Notation dual_axes b := (axes_where G (idual G) (indices G R b)).
  Notation nondual_axes b := (axes_where G (fun ix => negb (idual G ix)) (indices G R b)).

  Lemma wsg_rev_perm (s : sector) w : Permutation w (seq 0 (length s)) ->
    wsg (odd_at G s) (rev w) = xorb (wsg (odd_at G s) w) (revsg G s).
  Proof.
    intros HP. rewrite wsg_rev by (apply (Permutation_NoDup (Permutation_sym HP)), seq_NoDup). f_equal.
    unfold revsg, nodd. f_equal. rewrite (countb_perm _ _ _ HP).
    rewrite <- (countb_map (fun b : bool => b) (odd_at G s)), (map_parity_seq G s), countb_map. reflexivity.
  Qed.

  Lemma closing_rev (ixl ixr : list (index G)) (Y B y0 b0 : farr) :
    wf_fermi G R Y = true -> wf_fermi G R B = true ->
    indices G R (fbase G R Y) = ixl ++ ixr ->
    indices G R (fbase G R B) = map (iconj G) ixr ++ map (iconj G) ixl ->
    labels_ok (foddpos G R Y) -> foddpos G R B = odag (foddpos G R Y) ->
    same_val G R B b0 -> same_val G R Y y0 ->
    (forall cl cr, coords_ok G ixl cl = true -> coords_ok G ixr cr = true ->
       VV B (cr ++ cl)
       = rsg (xorb (xorb (xorb (count_odd G (map fst (cr ++ cl)) (nondual_axes (fbase G R B)))
                               (spar G (map fst cl) && spar G (map fst cr)))
                         (revsg G (map fst (cl ++ cr)))) (fparity G R Y))
             (rconj R (VV Y (cl ++ cr)))) ->
    exists z,
      f_tensordot G R y0 b0 (naxes (seq 0 (length ixl + length ixr)) (seq (length ixr) (length ixl) ++ seq 0 (length ixr))) MBlockwise = Some z
      /\ foddpos G R z = []
      /\ a_scalar G R (f_value G R z) = rsg (n_dual (foddpos G R Y)) (norm_sum_r G R Y).
  Proof.
    intros WY WB IY IC Hlab OC SVC SVY HV.
    set (nl := length ixl) in *. set (nr := length ixr) in *.
    set (axc := seq nr nl ++ seq 0 nr). set (n := nl + nr).
    pose proof (closing_pair_ok G R ixl ixr B Y IC IY) as PCY0. fold nl nr axc n in PCY0.
    pose proof (pair_ok_sym G R B Y _ _ PCY0) as PYC.
    assert (NC : ndim G R (fbase G R B) = nr + nl) by (unfold ndim; rewrite IC, app_length, !map_length; reflexivity).
    assert (NY : ndim G R (fbase G R Y) = n) by (unfold ndim; rewrite IY, app_length; reflexivity).
    assert (Pax : Permutation axc (seq 0 (nr + nl))) by apply perm_swap_seq.
    set (w := foddpos G R Y) in *.
    set (minus := xorb (fparity G R Y && Nat.odd (length w)) (n_nondual w)).
    destruct (tensordot_blockwise_element G R NL cspec RL Y B (naxes (seq 0 n) axc) (seq 0 n) axc minus []
                (parse_naxes G R Y B _ _ PYC) (wff_blocks_ok G GL R Y WY) (wff_blocks_ok G GL R B WB)
                (po_nda _ _ _ _ _ _ PYC) (po_lta _ _ _ _ _ _ PYC) (po_ndb _ _ _ _ _ _ PYC) (po_ltb _ _ _ _ _ _ PYC)
                (po_dirs _ _ _ _ _ _ PYC) (wff_ix_nodup G GL OL R Y (seq 0 n) WY) (po_tabs _ _ _ _ _ _ PYC)
                ltac:(rewrite OC; apply (resolve_dag_right _ _ Hlab)))
      as [z0 [Ez0 [Oz0 Sz0]]].
    destruct (same_val_tdot G GL R NL Y y0 B b0 (naxes (seq 0 n) axc) (seq 0 n) axc z0 SVY SVC
                (parse_naxes G R Y B _ _ PYC) (wff_nodup G GL R Y WY) (wff_len G GL R Y WY)
                (wff_nodup G GL R B WB) (wff_len G GL R B WB)
                (po_nda _ _ _ _ _ _ PYC) (po_lta _ _ _ _ _ _ PYC) (po_ndb _ _ _ _ _ _ PYC) (po_ltb _ _ _ _ _ _ PYC)
                (po_dirs _ _ _ _ _ _ PYC) Ez0)
      as [z [Ez [Oz [_ Vz]]]].
    exists z. split; [exact Ez|]. split; [now rewrite Oz|].
    rewrite a_scalar_sem. fold (VV z ([] ++ [])). rewrite Vz. unfold V at 1.
    rewrite Sz0.
    2:{ rewrite (without_axes_take ix_d), IY, app_length. fold nl nr n. now rewrite rest_axes_full. }
    2:{ rewrite (without_axes_take ix_d), IC, app_length, !map_length. fold nr nl. unfold axc. now rewrite rest_axes_swap. }
    assert (EA : take_axes ix_d (indices G R (fbase G R Y)) (seq 0 n) = indices G R (fbase G R Y)).
    { rewrite <- NY. unfold ndim. apply take_axes_seq. }
    rewrite EA. unfold norm_sum_r. rewrite !(rsgn_rsum R NL). apply (Tdot.rsum_ext R). intros kc Hkc.
    assert (NDY : Forall (fun ix => NoDup (icharges G ix)) (indices G R (fbase G R Y))).
    { pose proof (wff_ix_nodup G GL OL R Y (seq 0 (ndim G R (fbase G R Y))) WY) as H. unfold ndim in H.
      now rewrite take_axes_seq in H. }
    pose proof (In_all_coords G cspec _ kc NDY Hkc) as Hk. rewrite IY in Hk.
    destruct (coords_ok_split G _ _ kc Hk) as [cl [cr (-> & Hcl & Hcr)]].
    pose proof (Tdot.coords_ok_length G _ _ Hcl) as Lcl. pose proof (Tdot.coords_ok_length G _ _ Hcr) as Lcr.
    fold nl in Lcl. fold nr in Lcr.
    rewrite NC, NY.
    assert (M1 : merge G (nr + nl) axc [] (cl ++ cr) = cr ++ cl).
    { unfold axc. rewrite <- Lcl, <- Lcr. apply (merge_swap G). }
    rewrite M1, (merge_full G (cl ++ cr) n) by (rewrite app_length; unfold n; lia).
    fold (VV B (cr ++ cl)) (VV Y (cl ++ cr)).
    rewrite (HV cl cr Hcl Hcr).
    rewrite !(rsgn_rsgn R NL), (rmul_rsgn R NL), (rsgn_rsgn R NL).
    destruct (V_zero_or G GL R Y (cl ++ cr)) as [Z|Sy];
      [rewrite Z, (rconj_0 R CJ), (rmul_0_l R RL), !(rsgn_r0 R NL); reflexivity|].
    f_equal.
    rewrite (sigma_a_full G R Y _ n (eq_sym NY)).
    unfold sigma_b. rewrite NC. unfold axc at 2. rewrite rest_axes_swap, app_nil_r.
    assert (Ls' : length (map fst (cr ++ cl)) = nr + nl) by (rewrite map_length, app_length; lia).
    rewrite (inv_parity_wsg G)
      by (intros i Hi; apply in_rev in Hi; rewrite Ls'; apply (lt_swap_seq _ _ i Hi)).
    rewrite (wsg_rev_perm _ axc) by (rewrite Ls'; exact Pax).
    assert (El : length (map fst cl) = nl) by (rewrite map_length; exact Lcl).
    assert (Er : length (map fst cr) = nr) by (rewrite map_length; exact Lcr).
    assert (Erv : revsg G (map fst (cr ++ cl)) = revsg G (map fst (cl ++ cr))).
    { apply (revsg_perm G). apply Permutation_map, Permutation_app_comm. }
    rewrite Erv.
    (* the ket / bra counts add up to the parity of the sector *)
    pose proof (ket_bra_parity G R Y (map fst (cl ++ cr)) (wf_array_awf G GL R _ (wff_base G R Y WY)) Sy) as KB.
    assert (EB : count_odd G (map fst (cr ++ cl)) (nondual_axes (fbase G R B))
                 = count_odd G (map fst (cl ++ cr)) (dual_axes (fbase G R Y))).
    { rewrite IC, IY, <- map_app, (nondual_iconj G). unfold coord in *. rewrite !(map_app fst).
      rewrite !(count_odd_axes_app G) by (rewrite map_length; assumption). apply xorb_comm. }
    rewrite EB. revert KB.
    unfold axc. rewrite <- El, <- Er. unfold coord in *. rewrite (map_app fst cr cl), wsg_swap_blocks.
    assert (HW : Nat.odd (length w) = fparity G R Y) by apply (wff_par G GL R Y WY).
    unfold minus. rewrite HW.
    pose proof (n_dual_nondual w) as ND. rewrite HW in ND. revert ND.
    generalize (count_odd G (map fst (cl ++ cr)) (dual_axes (fbase G R Y)))
      (count_odd G (map fst (cl ++ cr)) (nondual_axes (fbase G R Y)))
      (spar G (map fst cl)) (spar G (map fst cr)) (revsg G (map fst (cl ++ cr))) (fparity G R Y) (n_dual w) (n_nondual w).
    intros b1 b2 b3 b4 b5 b6 b7 b8. destruct b1, b2, b3, b4, b5, b6, b7, b8; cbn; congruence.
  Qed.
  Theorem network_norm_two_rev a b aa ab :
    wf_fermi G R a = true -> wf_fermi G R b = true -> pair_ok G R a b aa ab ->
    distinct (foddpos G R a ++ foddpos G R b) ->
    exists y1 y2 z,
      f_tensordot G R a b (naxes aa ab) MBlockwise = Some y1
      /\ f_tensordot G R (f_conj G R b true false) (f_conj G R a true false) (naxes ab aa) MBlockwise = Some y2
      /\ let nl := ndim G R (fbase G R a) - length aa in
         let nr := ndim G R (fbase G R b) - length ab in
         let c := f_phase_flip G R y2 (nondual_axes (fbase G R y2)) in
         f_tensordot G R y1 c (naxes (seq 0 (nl + nr)) (seq nr nl ++ seq 0 nr)) MBlockwise = Some z
         /\ foddpos G R z = []
         /\ a_scalar G R (f_value G R z)
            = rsg (n_dual (foddpos G R a ++ foddpos G R b))
                  (norm_sum_r G R (reindex G R y1 (free_ixs G R a b aa ab))).
  Proof.
    intros Wa Wb P D.
    destruct (conj_tdot_core G GL OL R NL RL CL CJ a b aa ab Wa Wb P D)
      as [y1 [y2 (E1 & E2 & W1 & W2 & D1 & D2 & Q1 & Q2 & Ew & SS1 & P1 & S)]].
    destruct (free_ixs_length G R a b aa ab P) as [Ll Lr].
    set (ixl := without_axes (indices G R (fbase G R a)) aa) in *.
    set (ixr := without_axes (indices G R (fbase G R b)) ab) in *.
    set (ixY := free_ixs G R a b aa ab) in *.
    set (Y := reindex G R y1 ixY) in *.
    set (ix2 := free_ixs G R (cj G R b) (cj G R a) ab aa) in *.
    assert (Eix2 : ix2 = map (iconj G) ixr ++ map (iconj G) ixl) by (unfold ix2, cj; apply (cj_free_ixs G R)).
    set (Y2 := reindex G R y2 ix2) in *.
    set (flips := nondual_axes (fbase G R y2)).
    set (c := f_phase_flip G R y2 flips). set (Cc := f_phase_flip G R Y2 flips).
    assert (ECc : Cc = reindex G R c ix2) by apply (flip_reindex G R).
    assert (WC : wf_fermi G R Cc = true) by (apply (f_phase_flip_wf G GL); exact W2).
    pose proof (same_val_reindex G R y1 ixY D1) as SVY. fold Y in SVY.
    pose proof (same_val_reindex G R y2 ix2 D2) as SVY2. fold Y2 in SVY2.
    assert (SVC : same_val G R Cc c).
    { rewrite ECc. apply same_val_reindex. unfold c. now rewrite (fbase_flip G R). }
    assert (IC : indices G R (fbase G R Cc) = map (iconj G) ixr ++ map (iconj G) ixl).
    { unfold Cc. rewrite (fbase_flip G R). unfold Y2, reindex. cbn [fbase indices]. exact Eix2. }
    assert (Eflips : flips = nondual_axes (fbase G R Cc)).
    { unfold flips. rewrite IC, <- Eix2. symmetry. apply (axes_where_duals G negb). exact D2. }
    assert (Hlab : labels_ok (foddpos G R Y)).
    { split; [apply SS_sorted_by, SS1|]. apply (distinct_perm _ _ (Permutation_sym P1)), D. }
    destruct (closing_rev ixl ixr Y Cc y1 c W1 WC eq_refl IC Hlab
                ltac:(unfold Cc; rewrite (foddpos_flip G R); exact Ew) SVC SVY) as [z (Ez & Oz & Hz)].
    { intros cl cr Hcl Hcr. unfold Cc at 1. rewrite (V_phase_flip G GL R NL Y2 flips _ (wff_nodup G GL R Y2 W2)).
      rewrite (same_val_V G R Y2 y2 SVY2), (S cl cr Hcl Hcr), (same_val_V G R Y y1 SVY), (rsgn_rsgn R NL).
      rewrite <- Eflips. f_equal.
      change (fparity G R Y) with (fparity G R y1). rewrite Q1.
      now destruct (count_odd G (map fst (cr ++ cl)) flips), (spar G (map fst cl) && spar G (map fst cr)),
        (revsg G (map fst (cl ++ cr))), (xorb (fparity G R a) (fparity G R b)). }
    exists y1, y2, z. split; [exact E1|]. split; [exact E2|]. cbv zeta.
    rewrite <- Ll, <- Lr. fold ixl ixr flips c.
    split; [exact Ez|]. split; [exact Oz|]. rewrite Hz. fold ixY Y.
    change (foddpos G R Y) with (foddpos G R y1). now rewrite (n_dual_perm _ _ P1).
  Qed.
End ClosingRev.

(* ================================================================ examples *)
(* Z2 with Gaussian-integer data: a has four legs (ket, bra, ket, bra), b three (bra, bra, ket);
   odd and even total charges, pending signs, labels; two bonds or one.  U1 with integer data. *)
Module ConjNetEx.
  Import Ex.
  Definition gfill (sh : list nat) (seed : Z) : tensor GRing :=
    build GRing sh (fun idx => ((seed + Z.of_nat (offset sh idx) + 1)%Z, (2 * seed - 3 * Z.of_nat (offset sh idx) + 1)%Z)).
  Definition gmk (ixs : list (index Z2)) (ch : Z) (secs : list (list Z)) (seed : Z) : aarray Z2 GRing :=
    mkA Z2 GRing ixs ch
      (map (fun p => (snd p, gfill (block_shape Z2 ixs (snd p)) (seed + 10 * Z.of_nat (fst p)))) (enumerate secs)).
  Definition ixa := [Index Z2 [(0%Z, 1); (1%Z, 2)] false None; Index Z2 [(0%Z, 2); (1%Z, 1)] true None;
                     Index Z2 [(0%Z, 1); (1%Z, 1)] false None; Index Z2 [(0%Z, 1); (1%Z, 2)] true None].
  Definition ixb := [Index Z2 [(0%Z, 1); (1%Z, 1)] true None; Index Z2 [(0%Z, 1); (1%Z, 3)] true None;
                     Index Z2 [(0%Z, 2); (1%Z, 1)] false None].
  (* odd a, odd b, even b *)
  Definition ga : farray Z2 GRing :=
    mkF Z2 GRing (gmk ixa 1%Z [[0; 0; 1; 0]; [1; 1; 1; 0]; [1; 0; 1; 1]; [0; 1; 1; 1]; [1; 1; 0; 1]; [0; 0; 0; 1]]%Z 5)
        [[1; 1; 1; 0]%Z; [0; 1; 1; 1]%Z] [([7%Z], false)].
  Definition gb : farray Z2 GRing :=
    mkF Z2 GRing (gmk ixb 1%Z [[1; 1; 1]; [0; 1; 0]; [1; 0; 0]; [0; 0; 1]]%Z 100) [[0; 1; 0]%Z; [1; 0; 0]%Z] [([5%Z], false)].
  Definition gbe : farray Z2 GRing :=
    mkF Z2 GRing (gmk ixb 0%Z [[1; 1; 0]; [0; 1; 1]; [1; 0; 1]; [0; 0; 0]]%Z 100) [[0; 1; 1]%Z; [0; 0; 0]%Z] [].

  Lemma pair_ok_g (b : farray Z2 GRing) : indices Z2 GRing (fbase Z2 GRing b) = ixb -> pair_ok Z2 GRing ga b [2; 1] [0; 2].
  Proof.
    intros Hb. constructor.
    - apply nodup_nats. reflexivity.
    - apply all_lt. reflexivity.
    - apply nodup_nats. reflexivity.
    - unfold ndim. rewrite Hb. apply all_lt. reflexivity.
    - reflexivity.
    - unfold opposite_dirs. rewrite Hb. repeat constructor.
    - rewrite Hb. reflexivity.
  Qed.

  Example conj_net_hyps :
    GroupLaws Z2 /\ OrderProofs.OrderLaws Z2 /\ NegLaws GRing /\ SumLaws GRing /\ CommLaws GRing /\ ConjLaws GRing
    /\ wf_fermi Z2 GRing ga = true /\ wf_fermi Z2 GRing gb = true /\ wf_fermi Z2 GRing gbe = true
    /\ pair_ok Z2 GRing ga gb [2; 1] [0; 2] /\ pair_ok Z2 GRing ga gbe [2; 1] [0; 2]
    /\ distinct (foddpos Z2 GRing ga ++ foddpos Z2 GRing gb) /\ distinct (foddpos Z2 GRing ga ++ foddpos Z2 GRing gbe)
    /\ labels_ket (foddpos Z2 GRing ga ++ foddpos Z2 GRing gb).
  Proof.
    split; [exact Z2_laws|]. split; [exact OrderProofs.Z2_order|]. split; [exact GRing_neg_laws|].
    split; [exact GRing_sum_laws|]. split; [exact GRing_comm_laws|]. split; [exact GRing_conj_laws|].
    split; [reflexivity|]. split; [reflexivity|]. split; [reflexivity|].
    split; [exact (pair_ok_g gb eq_refl)|]. split; [exact (pair_ok_g gbe eq_refl)|].
    split; [unfold distinct, labels; cbn; repeat constructor; cbn; intuition discriminate|].
    split; [unfold distinct, labels; cbn; repeat constructor; cbn; intuition discriminate|].
    intros c [<-|[<-|[]]]; reflexivity.
  Qed.

  (* the statements computed: y1 has legs (a0 ket, a3 bra, b1 bra); conj b . conj a has (b1, a0, a3).
     conj(a.b) = transpose(conj b . conj a); with the dual option exactly the flip of legs 1, 2
     (the bra-like dangling legs) is needed: no flip and the flip of the ket-like leg both fail
     when the result is odd. *)
  Definition cmp (a b : farray Z2 GRing) (aa ab : list nat) (pd : bool) (p flips : list nat) : option bool :=
    match f_tensordot Z2 GRing a b (naxes aa ab) MBlockwise,
          f_tensordot Z2 GRing (f_conj Z2 GRing b true false) (f_conj Z2 GRing a true false) (naxes ab aa) MBlockwise with
    | Some y1, Some y2 =>
        Some (farray_eqb Z2 GRing (f_conj Z2 GRing y1 true pd) (f_phase_flip Z2 GRing (f_transpose Z2 GRing y2 p true) flips))
    | _, _ => None
    end.
  Example conj_tensordot_values :
    cmp ga gb [2; 1] [0; 2] false [1; 2; 0] [] = Some true
    /\ cmp ga gbe [2; 1] [0; 2] false [1; 2; 0] [] = Some true
    /\ cmp ga gbe [2; 1] [0; 2] true [1; 2; 0] [1; 2] = Some true
    /\ cmp ga gbe [2; 1] [0; 2] true [1; 2; 0] [] = Some false
    /\ cmp ga gbe [2; 1] [0; 2] true [1; 2; 0] [0] = Some false
    /\ cmp ga gb [2] [0] false [2; 3; 4; 0; 1] [] = Some true
    /\ cmp ga gbe [2] [0] true [2; 3; 4; 0; 1] [1; 2; 3] = Some true
    /\ cmp ga gbe [2] [0] true [2; 3; 4; 0; 1] [1; 2] = Some false.
  Proof. vm_compute. repeat split; reflexivity. Qed.

  (* the norm of the network: bra network with the bra-like dangling legs flipped, both operand
     orders; without the flips the number is wrong *)
  Definition nrm (a b : farray Z2 GRing) (aa ab : list nat) (flip : bool) (axc axy : list nat) :=
    match f_tensordot Z2 GRing a b (naxes aa ab) MBlockwise,
          f_tensordot Z2 GRing (f_conj Z2 GRing b true false) (f_conj Z2 GRing a true false) (naxes ab aa) MBlockwise with
    | Some y1, Some y2 =>
        let c := if flip then f_phase_flip Z2 GRing y2 (axes_where Z2 (fun ix => negb (idual Z2 ix)) (indices Z2 GRing (fbase Z2 GRing y2))) else y2 in
        match f_tensordot Z2 GRing c y1 (naxes axc axy) MBlockwise, f_tensordot Z2 GRing y1 c (naxes axy axc) MBlockwise with
        | Some z, Some z' =>
            Some (a_scalar Z2 GRing (f_value Z2 GRing z), a_scalar Z2 GRing (f_value Z2 GRing z'),
                  a_norm2 Z2 GRing (f_value Z2 GRing y1), foddpos Z2 GRing z, foddpos Z2 GRing z')
        | _, _ => None
        end
    | _, _ => None
    end.
  Example network_norm_values :
    nrm ga gb [2; 1] [0; 2] true [1; 2; 0] [0; 1; 2]
      = Some ((47514680022, 0), (47514680022, 0), (47514680022, 0), [], [])%Z
    /\ nrm ga gb [2; 1] [0; 2] false [1; 2; 0] [0; 1; 2]
      = Some ((21930911590, 0), (21930911590, 0), (47514680022, 0), [], [])%Z
    /\ nrm ga gbe [2; 1] [0; 2] true [1; 2; 0] [0; 1; 2]
      = Some ((5334572130, 0), (5334572130, 0), (5334572130, 0), [], [])%Z
    /\ nrm ga gbe [2; 1] [0; 2] false [1; 2; 0] [0; 1; 2]
      = Some ((-4523152650, 0), (-4523152650, 0), (5334572130, 0), [], [])%Z.
  Proof. vm_compute. repeat split; reflexivity. Qed.

  (* the theorems at the instances *)
  Example conj_tensordot_inst : exists y1 y2,
    f_tensordot Z2 GRing ga gb (naxes [2; 1] [0; 2]) MBlockwise = Some y1
    /\ f_tensordot Z2 GRing (f_conj Z2 GRing gb true false) (f_conj Z2 GRing ga true false) (naxes [0; 2] [2; 1]) MBlockwise = Some y2
    /\ foddpos Z2 GRing (f_conj Z2 GRing y1 true false) = foddpos Z2 GRing (f_transpose Z2 GRing y2 (seq 1 2 ++ seq 0 1) true).
  Proof.
    destruct (conj_tensordot Z2 Z2_laws OrderProofs.Z2_order GRing GRing_neg_laws GRing_sum_laws GRing_comm_laws GRing_conj_laws
                ga gb [2; 1] [0; 2] eq_refl eq_refl (pair_ok_g gb eq_refl)
                ltac:(unfold distinct, labels; cbn; repeat constructor; cbn; intuition discriminate))
      as [y1 [y2 (E1 & E2 & H1 & _)]].
    exists y1, y2. split; [exact E1|]. split; [exact E2|]. exact H1.
  Qed.

  (* U1: a = (bra, ket) of charge -1, b = (bra, ket) of charge +1, contracted over a's ket and b's bra *)
  Definition ua : farray U1 ZRing :=
    mkF U1 ZRing (mkA U1 ZRing
      [Index U1 [(0%Z, 1); (1%Z, 2); (2%Z, 1)] true None; Index U1 [((-1)%Z, 1); (0%Z, 2); (1%Z, 1)] false None] (-1)%Z
      [([1; 0]%Z, @mkT ZRing [2; 2] [1; -2; 3; 4]%Z); ([0; -1]%Z, @mkT ZRing [1; 1] [5]%Z); ([2; 1]%Z, @mkT ZRing [1; 1] [-6]%Z)])
      [[2; 1]%Z] [([0; 7]%Z, false)].
  Definition ub : farray U1 ZRing :=
    mkF U1 ZRing (mkA U1 ZRing
      [Index U1 [((-1)%Z, 1); (0%Z, 2); (1%Z, 1)] true None; Index U1 [(0%Z, 1); (1%Z, 3)] false None] 1%Z
      [([0; 1]%Z, @mkT ZRing [2; 3] [1; 2; -3; 4; 5; 7]%Z); ([-1; 0]%Z, @mkT ZRing [1; 1] [9]%Z)])
      [[-1; 0]%Z] [([2]%Z, false)].
  Example u1_hyps :
    wf_fermi U1 ZRing ua = true /\ wf_fermi U1 ZRing ub = true /\ pair_ok U1 ZRing ua ub [1] [0].
  Proof.
    split; [reflexivity|]. split; [reflexivity|]. constructor.
    - apply nodup_nats. reflexivity.
    - apply all_lt. reflexivity.
    - apply nodup_nats. reflexivity.
    - apply all_lt. reflexivity.
    - reflexivity.
    - unfold opposite_dirs. repeat constructor.
    - reflexivity.
  Qed.
  Example u1_values :
    match f_tensordot U1 ZRing ua ub (naxes [1] [0]) MBlockwise,
          f_tensordot U1 ZRing (f_conj U1 ZRing ub true false) (f_conj U1 ZRing ua true false) (naxes [0] [1]) MBlockwise with
    | Some y1, Some y2 =>
        farray_eqb U1 ZRing (f_conj U1 ZRing y1 true false) (f_transpose U1 ZRing y2 [1; 0] true) = true
        /\ farray_eqb U1 ZRing (f_conj U1 ZRing y1 true true) (f_phase_flip U1 ZRing (f_transpose U1 ZRing y2 [1; 0] true) [0]) = true
        /\ match f_tensordot U1 ZRing (f_phase_flip U1 ZRing y2 [1]) y1 (naxes [1; 0] [0; 1]) MBlockwise with
           | Some z => a_scalar U1 ZRing (f_value U1 ZRing z) = a_norm2 U1 ZRing (f_value U1 ZRing y1)
                       /\ a_norm2 U1 ZRing (f_value U1 ZRing y1) <> 0%Z
           | None => False
           end
    | _, _ => False
    end.
  Proof. vm_compute. repeat split; try reflexivity. discriminate. Qed.

  (* tensor-by-tensor flips: a's bra-like dangling leg is 3, b's is 1 *)
  Example local_flip_values :
    filter (fun j => idual Z2 (nth j ixa (dflt_index Z2))) (rest_axes 4 [2; 1]) = [3]
    /\ filter (fun j => idual Z2 (nth j ixb (dflt_index Z2))) (rest_axes 3 [0; 2]) = [1]
    /\ match f_tensordot Z2 GRing ga gb (naxes [2; 1] [0; 2]) MBlockwise,
             f_tensordot Z2 GRing (f_phase_flip Z2 GRing (f_conj Z2 GRing gb true false) [1])
                                  (f_phase_flip Z2 GRing (f_conj Z2 GRing ga true false) [3]) (naxes [0; 2] [2; 1]) MBlockwise with
       | Some y1, Some c =>
           match f_tensordot Z2 GRing c y1 (naxes [1; 2; 0] [0; 1; 2]) MBlockwise with
           | Some z => a_scalar Z2 GRing (f_value Z2 GRing z) = (47514680022, 0)%Z
                       /\ a_norm2 Z2 GRing (f_value Z2 GRing y1) = (47514680022, 0)%Z
           | None => False
           end
       | _, _ => False
       end.
  Proof. vm_compute. repeat split; reflexivity. Qed.

  (* the chain: even a (four legs), even b with no dangling leg; ((B . a) . b) = B . (a . b) = norm *)
  Definition gae : farray Z2 GRing :=
    mkF Z2 GRing (gmk ixa 0%Z [[0; 0; 1; 1]; [1; 1; 1; 1]; [1; 0; 1; 0]; [0; 1; 1; 0]; [1; 1; 0; 0]; [0; 0; 0; 0]]%Z 5)
        [[1; 1; 1; 1]%Z; [0; 1; 1; 0]%Z] [].
  Definition ixb2 := [Index Z2 [(0%Z, 1); (1%Z, 1)] true None; Index Z2 [(0%Z, 2); (1%Z, 1)] false None].
  Definition gb2 : farray Z2 GRing := mkF Z2 GRing (gmk ixb2 0%Z [[1; 1]; [0; 0]]%Z 50) [[1; 1]%Z] [].
  Example chain_hyps :
    wf_fermi Z2 GRing gae = true /\ wf_fermi Z2 GRing gb2 = true /\ pair_ok Z2 GRing gae gb2 [2; 1] [0; 1]
    /\ foddpos Z2 GRing gae = [] /\ foddpos Z2 GRing gb2 = [] /\ rest_axes (ndim Z2 GRing (fbase Z2 GRing gb2)) [0; 1] = [].
  Proof.
    split; [reflexivity|]. split; [reflexivity|]. split; [|repeat split; reflexivity]. constructor.
    - apply nodup_nats. reflexivity.
    - apply all_lt. reflexivity.
    - apply nodup_nats. reflexivity.
    - apply all_lt. reflexivity.
    - reflexivity.
    - unfold opposite_dirs. repeat constructor.
    - reflexivity.
  Qed.
  Example chain_inst : exists y1 y2 u v,
    f_tensordot Z2 GRing gae gb2 (naxes [2; 1] [0; 1]) MBlockwise = Some y1
    /\ f_tensordot Z2 GRing (f_conj Z2 GRing gb2 true false) (f_conj Z2 GRing gae true false) (naxes [0; 1] [2; 1]) MBlockwise = Some y2
    /\ f_tensordot Z2 GRing u gb2 (naxes [1; 0] [0; 1]) MBlockwise = Some v
    /\ foddpos Z2 GRing v = []
    /\ a_scalar Z2 GRing (f_value Z2 GRing v) = norm_sum_l Z2 GRing (reindex Z2 GRing y1 (free_ixs Z2 GRing gae gb2 [2; 1] [0; 1])).
  Proof.
    destruct chain_hyps as (Wa & Wb & P & Oa & Ob & Hr).
    destruct (network_norm_chain_route Z2 Z2_laws OrderProofs.Z2_order GRing GRing_neg_laws GRing_sum_laws GRing_comm_laws
                GRing_conj_laws gae gb2 [2; 1] [0; 1] Wa Wb P Oa Ob Hr) as [y1 [y2 [u [v (E1 & E2 & H)]]]].
    cbv zeta in H. destruct H as (_ & Ev & Ov & Hv).
    exists y1, y2, u, v. split; [exact E1|]. split; [exact E2|]. split; [exact Ev|]. split; [exact Ov|exact Hv].
  Qed.
End ConjNetEx.
